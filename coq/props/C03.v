(* C03 — Signcryption round trip for box-key and symmetric-key recipients.
   Only property theorems, each closed by `exact` of a lemma from proofs/. *)
From Coq Require Import List NArith ZArith Permutation.
From Coq.Strings Require Import Byte.
From SP Require Import Bytes Params Msgpack Crypto Errors Packets Chunker Rand Verify Encrypt Decrypt Signcrypt SigncryptProofs.
From SP Require Import BaseX Encodings Armor ArmorProofs ArmoredForms.
From SP Require Import GoLang GoLang2 GoAst GoAstProofs GoAstProofs2 GoAstProofs3 GoAstProofs4a.
From SP Require Import GoAstRecv.
From SP Require Import Nonce GoAstSign GoAstProofs6b.
From SP Require GoAstOpen GoAstProofs4b GoAstProofs5a GoAstProofs7c.
From Coq Require String.
Import String.StringSyntax.
Import ListNotations.
Open Scope N_scope.

Section C03.
Variable c : crypto.
Hypothesis Hc : crypto_ok c.        (* functional correctness of NaCl (trusted base) *)

(* The sender is: recipient checks, then the draws (shuffle of box and symmetric
   recipients together, 32-byte ephemeral secret, 32-byte payload key) and
   [signcrypt_core] on a permutation of the recipients. *)
Theorem C03_sender_structure (signer : option bytes) (boxes : list bytes) (syms : list (bytes * bytes))
        (pieces : list bytes) (r r' : rng) (out : bytes) :
  signcrypt_seal_stream c signer boxes syms pieces r = Ok (out, r') ->
  let all := map BoxRcpt boxes ++ map (fun s => SymRcpt (fst s) (snd s)) syms in
  all <> [] /\ N.of_nat (length all) < 4294967296 /\
  exists rs r1 eph_sk pkey,
    shuffle all r = Some (rs, r1) /\ Permutation all rs /\
    eph_sk = firstn 32 r1 /\ pkey = firstn 32 (skipn 32 r1) /\ r' = skipn 64 r1 /\
    (64 <= length r1)%nat /\
    signcrypt_core c signer eph_sk pkey rs pieces = Ok out.
Proof. exact (signcrypt_seal_stream_core c signer boxes syms pieces r r' out). Qed.

(* Box-key recipients: for every plaintext and Write split, named or anonymous
   sender, any mix and order of recipients, the holder of the box secret key at
   ANY position recovers exactly the plaintext and the signer's public key (None
   for an anonymous sender), streaming and all-at-once — unless an identifier at
   another position collides with this key's HMAC-derived identifier there
   (HMAC collision, or an application-chosen symmetric identifier crafted to
   collide).  Side condition: encoded header below 4 GiB, see [C03_header_fits]. *)
Theorem C03_roundtrip_box (signer : option bytes) (eph_sk pkey : bytes) (rs : list sc_rcpt)
        (pieces : list bytes) (out : bytes) (sk : bytes) (i : nat) (signers : sigring) (rv : resolver) :
  length pkey = 32%nat -> N.of_nat (length rs) < 4294967296 ->
  header_fits c signer eph_sk pkey rs ->
  signcrypt_core c signer eph_sk pkey rs pieces = Ok out ->
  nth_error rs i = Some (BoxRcpt (dh_pub c sk)) ->
  (forall s, signer = Some s -> In (ed_pub c s) signers /\ all_zero (ed_pub c s) = false) ->
  let kr := mkRing [(sk, dh_pub c sk)] None in
  (exists chunks,
      signcrypt_open_stream c kr signers rv out = Ok (option_map (ed_pub c) signer, mkOut chunks EOF) /\
      concat chunks = concat pieces /\
      signcrypt_open_all c kr signers rv out = Ok (option_map (ed_pub c) signer, concat pieces))
  \/ IdentifierCollision c eph_sk pkey rs sk i.
Proof. exact (signcrypt_core_open_box c Hc signer eph_sk pkey rs pieces out sk i signers rv). Qed.

(* Symmetric-key recipients: a holder of no box key whose resolver resolves ANY
   subset of the identifiers containing at least one, each to its genuine key. *)
Theorem C03_roundtrip_sym (signer : option bytes) (eph_sk pkey : bytes) (rs : list sc_rcpt)
        (pieces : list bytes) (out : bytes) (rsl : list (bytes * bytes)) (i : nat) (key ident : bytes)
        (signers : sigring) :
  length pkey = 32%nat -> N.of_nat (length rs) < 4294967296 ->
  header_fits c signer eph_sk pkey rs ->
  signcrypt_core c signer eph_sk pkey rs pieces = Ok out ->
  nth_error rs i = Some (SymRcpt key ident) -> resolve rsl ident = Some key ->
  resolver_genuine c rsl eph_sk pkey rs ->
  (forall s, signer = Some s -> In (ed_pub c s) signers /\ all_zero (ed_pub c s) = false) ->
  let kr := mkRing [] None in
  exists chunks,
      signcrypt_open_stream c kr signers (Some rsl) out = Ok (option_map (ed_pub c) signer, mkOut chunks EOF) /\
      concat chunks = concat pieces /\
      signcrypt_open_all c kr signers (Some rsl) out = Ok (option_map (ed_pub c) signer, concat pieces).
Proof. exact (signcrypt_core_open_sym c Hc signer eph_sk pkey rs pieces out rsl i key ident signers). Qed.

(* Holders of no recipient key get the no-decryption-key error and no plaintext. *)
Theorem C03_no_key (signer : option bytes) (eph_sk pkey : bytes) (rs : list sc_rcpt)
        (pieces : list bytes) (out : bytes) (sk : bytes) (rsl : list (bytes * bytes)) (signers : sigring) :
  N.of_nat (length rs) < 4294967296 ->
  header_fits c signer eph_sk pkey rs ->
  signcrypt_core c signer eph_sk pkey rs pieces = Ok out ->
  (forall kid, In kid (sc_header_kids c eph_sk pkey rs) -> resolve rsl kid = None) ->
  (forall j kid, nth_error (sc_header_kids c eph_sk pkey rs) j = Some kid ->
     box_key_identifier c (derived_box_key c sk (dh_pub c eph_sk)) (N.of_nat j) <> kid) ->
  let kr := mkRing [(sk, dh_pub c sk)] None in
  signcrypt_open_stream c kr signers (Some rsl) out = Err ErrNoDecryptionKey /\
  signcrypt_open_all c kr signers (Some rsl) out = Err ErrNoDecryptionKey.
Proof. exact (signcrypt_core_open_stranger c Hc signer eph_sk pkey rs pieces out sk rsl signers). Qed.

Theorem C03_header_fits (signer : option bytes) (eph_sk pkey : bytes) (rs : list sc_rcpt) (m : nat) :
  length pkey = 32%nat -> (32 <= m)%nat ->
  (forall key ident, In (SymRcpt key ident) rs -> (length ident <= m)%nat) ->
  N.of_nat (length rs) * (N.of_nat m + 63) + 113 < 4294967296 ->
  header_fits c signer eph_sk pkey rs.
Proof. exact (header_fits_bound c Hc signer eph_sk pkey rs m). Qed.

Theorem C03_forms_agree (signer : option bytes) boxes syms (pieces : list bytes) (r : rng) :
  signcrypt_seal_stream c signer boxes syms pieces r =
  signcrypt_seal_stream c signer boxes syms [concat pieces] r.
Proof. exact (signcrypt_stream_oneshot c signer boxes syms pieces r). Qed.
End C03.

(* BINARY AND ARMORED FORMS AGREE: the armored all-at-once entry point is the binary one composed
   with dearmoring; on the armored form of ANY binary message (genuine or not) it returns exactly
   what the binary entry point returns on that message, plus the brand. *)
Theorem C03_armored_form_agrees (c : crypto) (kr : keyring) (signers : sigring) (rv : resolver) (wire brand : bytes) :
  brand_ok brand ->
  dearmor62_signcrypt_open c kr signers rv (armor62_seal wire mt_encryption brand) =
  bind (signcrypt_open_all c kr signers rv wire) (fun r => Ok (fst r, snd r, brand)).
Proof. exact (armored_signcrypt_agrees c kr signers rv wire brand). Qed.

(* SOURCE TIE (stateful functions): the terms f_saltpack_signcryptOpenStream_* are generated on every run
   from the Go syntax trees of /repo's signcryptOpenStream.processHeader, tryBoxSecretKeys and
   trySharedSymmetricKeys.  Under the Go semantics of model/GoLang2.v, with the keyring, resolver and
   primitives interpreted over the crypto record and the model's keyring/resolver, they compute exactly
   what the model's signcryption receiver does with a header, for ALL headers, keyrings, signer rings and
   resolvers: the same error class, and on success the payload key and the signer (or anonymity) left in
   the receiver object; the two key searches return the model's sc_try_box / sc_try_sym and leave the
   receiver object unchanged. *)
Theorem C03_source_processHeader (c : crypto) (kr : keyring) (signers : sigring) (rv : resolver) (hh : bytes) (h : header) :
  let r := run_func2 (ext_sc_process c kr signers rv) f_saltpack_signcryptOpenStream_processHeader
                     [g_sos0 hh rv; g_enc_header h] in
  match process_sc_header c kr signers rv h with
  | Err e => g_sc_hdr_err (fst r) = Some e
  | Ok (pkey, signer) =>
    fst r = ORet [VNil] /\ lookup "sos" (snd r) = Some (g_sos pkey hh signer rv)
  end.
Proof. exact (go_signcrypt_processHeader c kr signers rv hh h). Qed.

Theorem C03_source_tryBoxSecretKeys (c : crypto) (kr : keyring) (rv : resolver) (hh : bytes) (h : header) (eph : bytes) :
  (N.of_nat (List.length (h_rcvs h)) < 9223372036854775808)%N ->
  let r := run_func2 (ext_sc_try c kr rv) f_saltpack_signcryptOpenStream_tryBoxSecretKeys
                     [g_sos0 hh rv; g_enc_header h; VBytes eph] in
  option_map ORet (g_of_sc_try (sc_try_box c (sc_derived_keys c kr eph) (h_rcvs h) 0)) = Some (fst r) /\
  lookup "sos" (snd r) = Some (g_sos0 hh rv).
Proof. exact (go_tryBoxSecretKeys c kr rv hh h eph). Qed.

Theorem C03_source_trySharedSymmetricKeys (c : crypto) (kr : keyring) (rv : resolver) (hh : bytes) (h : header) (eph : bytes) :
  (forall k x, (32 <= List.length (hmac512 c k x))%nat) ->
  resolver_ok rv ->
  (N.of_nat (List.length (h_rcvs h)) < 9223372036854775808)%N ->
  let r := run_func2 (ext_sc_try c kr rv) f_saltpack_signcryptOpenStream_trySharedSymmetricKeys
                     [g_sos0 hh rv; g_enc_header h; VBytes eph] in
  option_map ORet (g_of_sc_try (sc_try_sym_rv c rv eph (h_rcvs h))) = Some (fst r) /\
  lookup "sos" (snd r) = Some (g_sos0 hh rv).
Proof. exact (go_trySharedSymmetricKeys c kr rv hh h eph). Qed.

(* the meaning processHeader's externs give the two key searches IS the outcome of the translated methods *)
Local Open Scope string_scope.
Theorem C03_source_processHeader_composes (c : crypto) (kr : keyring) (signers : sigring) (rv : resolver) (hh : bytes) (h : header) (eph : bytes) :
  (forall k x, (32 <= List.length (hmac512 c k x))%nat) ->
  resolver_ok rv ->
  (N.of_nat (List.length (h_rcvs h)) < 9223372036854775808)%N ->
  option_map ORet (ext_sc_process c kr signers rv "signcryptOpenStream.tryBoxSecretKeys" [g_sos0 hh rv; g_enc_header h; VBytes eph])
  = Some (fst (run_func2 (ext_sc_try c kr rv) f_saltpack_signcryptOpenStream_tryBoxSecretKeys [g_sos0 hh rv; g_enc_header h; VBytes eph])) /\
  option_map ORet (ext_sc_process c kr signers rv "signcryptOpenStream.trySharedSymmetricKeys" [g_sos0 hh rv; g_enc_header h; VBytes eph])
  = Some (fst (run_func2 (ext_sc_try c kr rv) f_saltpack_signcryptOpenStream_trySharedSymmetricKeys [g_sos0 hh rv; g_enc_header h; VBytes eph])).
Proof.
  intros Hh Hr Hl. split.
  - exact (ext_sc_process_tryBox c kr signers rv hh h eph Hl).
  - exact (ext_sc_process_trySym c kr signers rv hh h eph Hh Hr Hl).
Qed.
Local Close Scope string_scope.

(* ---- source ties: the SIGNCRYPTION SENDER (/repo/signcrypt_seal.go), lemmas of proofs/GoAstProofs6b.v ---- *)
(* The terms f_saltpack_derivedEphemeralKeyFromBoxKeys, keyIdentifierFromDerivedKey, receiverBoxKey /
   ReceiverSymmetricKey.makeReceiverKeys, checkSigncryptReceiverCount, checkSigncryptReceivers and
   signcryptSealStream.{signcryptBlock, Write, Close, init} are generated on every run from the Go syntax trees
   of /repo/signcrypt_seal.go (gen/GoAstSign.v) and run by the evaluator of model/GoLang2.v (run_func2: outcome
   AND final environment) on ENCODED arguments.  A BoxPublicKey is its key bytes, a BoxSecretKey its secret
   bytes, a ReceiverSymmetricKey is [g_sym (key, identifier)], a receiverKeysMaker [g_maker], a header entry
   [g_entry].  The stream object is [g_sss st], st : sss_state = (version, encoder, encryptionKey, signingKey
   (None = anonymous), unread bytes of sss.buffer, headerHash, numBlocks, err).  `encoder.Encode(x)` is
   interpreted by an ARBITRARY function enc_step : encoder object -> packet bytes -> encoder object' * error,
   so the theorems hold for every writer, failing or not; a Go error value is [g_errv e], e : gerr = None (nil)
   or Some (name, arguments).  The specification functions sc_count_check, sc_check_outcome, sss_block,
   sss_write, sss_close, sss_init are defined in GoAstProofs6b.v: the model's pieces (model/Signcrypt.v,
   Chunker.v, Rand.v) in the order the code runs them. *)

(* derivedEphemeralKeyFromBoxKeys(pk, sk) returns the model's derived_box_key sk pk.  Hypothesis: the box of the
   32 zero bytes is 48 bytes long (crypto_ok.ok_sb_len; the code takes the LAST 32 bytes, the model drops the
   first 16, and a shorter box makes the slice expression panic). *)
Theorem C03_source_derivedEphemeralKeyFromBoxKeys (c : crypto) (pk sk : bytes) :
  List.length (box_seal c sk pk nonce_derived_shared_key (zeros 32)) = 48%nat ->
  fst (run_func2 (ext_sc c) f_saltpack_derivedEphemeralKeyFromBoxKeys [VBytes pk; VBytes sk])
  = ORet [VBytes (derived_box_key c sk pk)].
Proof. exact (go_derivedEphemeralKeyFromBoxKeys c pk sk). Qed.

(* keyIdentifierFromDerivedKey(d, i) returns the model's box_key_identifier d i.  Hypothesis: that HMAC-SHA512
   digest has at least 32 bytes (crypto_ok.ok_hmac_len; the code slices [0:32]). *)
Theorem C03_source_keyIdentifierFromDerivedKey (c : crypto) (d : bytes) (i : N) :
  (32 <= List.length (hmac512 c signcryption_boxkey_id_context (d ++ nonce_payload_key_box_v2 i)))%nat ->
  fst (run_func2 (ext_sc c) f_saltpack_keyIdentifierFromDerivedKey [VBytes d; VInt (Z.of_N i)])
  = ORet [VBytes (box_key_identifier c d i)].
Proof. exact (go_keyIdentifierFromDerivedKey c d i). Qed.

(* receiverBoxKey.makeReceiverKeys(ephemeralPriv, payloadKey, index) returns the header entry the model builds for a
   box-key recipient (sc_receiver_entry .. (BoxRcpt pk)).  No hypothesis. *)
Theorem C03_source_receiverBoxKey_makeReceiverKeys (c : crypto) (pk eph_sk payload_key : bytes) (i : N) :
  fst (run_func2 (ext_sc c) f_saltpack_receiverBoxKey_makeReceiverKeys
         [g_maker (BoxRcpt pk); VBytes eph_sk; VBytes payload_key; VInt (Z.of_N i)])
  = ORet [g_entry (sc_receiver_entry c eph_sk (dh_pub c eph_sk) payload_key i (BoxRcpt pk))].
Proof. exact (go_receiverBoxKey_makeReceiverKeys c pk eph_sk payload_key i). Qed.

(* ReceiverSymmetricKey.makeReceiverKeys: the same for a symmetric-key recipient (SymRcpt key ident).
   Hypothesis: the HMAC digest the key is derived from has at least 32 bytes (slice [0:32], as above). *)
Theorem C03_source_ReceiverSymmetricKey_makeReceiverKeys (c : crypto) (key ident eph_sk payload_key : bytes) (i : N) :
  (32 <= List.length (hmac512 c signcryption_symkey_context (dh_pub c eph_sk ++ key)))%nat ->
  fst (run_func2 (ext_sc c) f_saltpack_ReceiverSymmetricKey_makeReceiverKeys
         [g_maker (SymRcpt key ident); VBytes eph_sk; VBytes payload_key; VInt (Z.of_N i)])
  = ORet [g_entry (sc_receiver_entry c eph_sk (dh_pub c eph_sk) payload_key i (SymRcpt key ident))].
Proof. exact (go_ReceiverSymmetricKey_makeReceiverKeys c key ident eph_sk payload_key i). Qed.

(* checkSigncryptReceiverCount(n1, n2) = sc_count_check n1 n2 for ALL integers: panic on a negative count,
   ErrBadReceivers (a count or the sum above 2^32-1, or the sum not positive), or nil.  No hypothesis. *)
Theorem C03_source_checkSigncryptReceiverCount (c : crypto) (z1 z2 : Z) :
  fst (run_func2 (ext_sc c) f_saltpack_checkSigncryptReceiverCount [VInt z1; VInt z2]) = sc_count_check z1 z2.
Proof. exact (go_checkSigncryptReceiverCount c z1 z2). Qed.

(* checkSigncryptReceivers(boxes, syms) = sc_check_outcome boxes syms: nil / ErrBadReceivers / ErrRepeatedKey(kid)
   exactly as the model's sc_check_receivers decides, the reported kid being the first repeated one (first_dup over
   the box keys followed by the symmetric identifiers).  Both loops, the map-as-set idiom included.  No hypothesis. *)
Theorem C03_source_checkSigncryptReceivers (c : crypto) (boxes : list bytes) (syms : list (bytes * bytes)) :
  fst (run_func2 (ext_sc c) f_saltpack_checkSigncryptReceivers [VList (map VBytes boxes); VList (map g_sym syms)])
  = sc_check_outcome boxes syms.
Proof. exact (go_checkSigncryptReceivers c boxes syms). Qed.

(* sss.signcryptBlock(isFinal) = sss_block: takes min(1 MiB, len) bytes off the buffer; panics iff isFinal and
   bytes remain buffered; ErrPacketOverflow (only the buffer consumed) iff numBlocks = 2^64-1; else the packet
   [secretbox(sig ++ chunk), final] (sig = 64 zero bytes for an anonymous sender, else ed_sign over
   signcrypt_sig_input) under nonce_chunk_signcryption is handed to the encoder, its error returned, and on nil
   numBlocks is incremented.  BStuck "extern" = assertEncodedChunkState panics.  The returned error AND the
   receiver object.  No hypothesis: any crypto record c, writer enc_step, state st, flag. *)
Theorem C03_source_signcryptBlock (c : crypto) (enc_step : gval -> bytes -> gval * gerr) (st : sss_state) (final : bool) :
  let r := run_func2 (ext_blk c enc_step) f_saltpack_signcryptSealStream_signcryptBlock [g_sss st; VBool final] in
  match sss_block c enc_step st final with
  | BStuck w => fst r = OStuck w
  | BPanic => fst r = OPanic
  | BRet e st' => fst r = ORet [g_errv e] /\ lookup "sss" (snd r) = Some (g_sss st')
  end.
Proof. exact (go_signcryptBlock c enc_step st final). Qed.

(* sss.Write(p) = sss_write: the sticky error is returned again with 0; else p is appended to the buffer and full
   blocks are flushed by signcryptBlock(false) while more than 1 MiB is buffered; returns (len p, nil), or (0, err)
   with err stored in sss.err.  Both results AND the receiver object.  No hypothesis: the 296 turns the evaluator
   gives the loop are part of sss_write (WStuck "loop fuel" beyond; a bound on the EVALUATOR, not on the Go code). *)
Theorem C03_source_signcryptSealStream_Write (c : crypto) (enc_step : gval -> bytes -> gval * gerr) (st : sss_state) (p : bytes) :
  let r := run_func2 (ext_wr c enc_step) f_saltpack_signcryptSealStream_Write [g_sss st; VBytes p] in
  match sss_write c enc_step st p with
  | WStuck w => fst r = OStuck w
  | WRet n e st' => fst r = ORet [VInt n; g_errv e] /\ lookup "sss" (snd r) = Some (g_sss st')
  end.
Proof. exact (go_signcryptSealStream_Write c enc_step st p). Qed.

(* sss.Close() = sss_close: signcryptBlock(true), its error returned, else panic if bytes are left, else nil.
   CloseStuck "call" = the callee signcryptBlock(true) panics or is stuck (more than one block still buffered; never
   after Write).  The returned error AND the receiver object.  No hypothesis. *)
Theorem C03_source_signcryptSealStream_Close (c : crypto) (enc_step : gval -> bytes -> gval * gerr) (st : sss_state) :
  let r := run_func2 (ext_wr c enc_step) f_saltpack_signcryptSealStream_Close [g_sss st] in
  match sss_close c enc_step st with
  | CloseStuck w => fst r = OStuck w
  | ClosePanic => fst r = OPanic
  | CloseRet e st' => fst r = ORet [g_errv e] /\ lookup "sss" (snd r) = Some (g_sss st')
  end.
Proof. exact (go_signcryptSealStream_Close c enc_step st). Qed.

(* sss.init(boxes, syms, ephemeralKeyCreator, rng) = sss_init: the error of checkSigncryptReceivers; else the three
   draws in program order — shuffle of the receivers, ephemeral secret key (32 bytes of the creator's stream rb),
   payload key (32 bytes of rk) — each ErrRand when its stream is short; panic for a signing key whose public key
   is not 32 bytes long; else the payload key stored in sss.encryptionKey, the header sc_header_go (the model's
   header: sender secretbox over the signer's public key or 32 zero bytes, entries sc_receiver_entry of the
   receivers IN SHUFFLED ORDER with their indices), its SHA-512 stored in sss.headerHash, the header (as bin) handed
   to the encoder and the encoder's error returned.  ra / rk are the stream positions the rng object's
   shuffleReceivers / createSymmetricKey draw from; the statement gives what is LEFT in the two random sources,
   i.e. the randomness consumed.  No hypothesis. *)
Theorem C03_source_signcryptSealStream_init (c : crypto) (enc_step : gval -> bytes -> gval * gerr) (st : sss_state)
        (boxes : list bytes) (syms : list (bytes * bytes)) (ra rk rb : bytes) :
  let r := run_func2 (ext_init c enc_step) f_saltpack_signcryptSealStream_init
             [g_sss st; VList (map VBytes boxes); VList (map g_sym syms); VBytes rb; g_rng ra rk] in
  match sss_init c enc_step st boxes syms ra rk rb with
  | IPanic => fst r = OPanic
  | IRet e st' ra' rk' rb' =>
    fst r = ORet [g_errv e] /\ lookup "sss" (snd r) = Some (g_sss st') /\
    lookup "rng" (snd r) = Some (g_rng ra' rk') /\ lookup "ephemeralKeyCreator" (snd r) = Some (VBytes rb')
  end.
Proof. exact (go_signcryptSealStream_init c enc_step st boxes syms ra rk rb). Qed.

(* ---- source ties: the entry-point glue of the signcryption RECEIVER (/repo/signcrypt_open.go), lemmas of
        proofs/GoAstProofs7c.v ---- *)
(* The terms f_saltpack_signcryptOpenStream_readHeader, NewSigncryptOpenStream and SigncryptOpen are generated on every
   run from the Go syntax trees of /repo/signcrypt_open.go (gen/GoAstOpen.v) and run by the evaluator of
   model/GoLang2.v (run_func2: outcome AND final environment) on ENCODED arguments.  A msgpack stream is
   [g_mps_raw input s]: the input BYTES not yet consumed and Go's packet counter s; a reader that cannot fail is the
   bytes it holds (rdr_bytes r = Some input says which bytes r holds, it does not restrict them); the keyring KR and
   the resolver RV are opaque values whose meaning is in the externs (kr, signers, rv).  The receiver object is the
   struct literal NewSigncryptOpenStream builds, [g_sos_new mps KR RV], and after the header [g_sos_done ...]: payload
   key, signer (nil and senderAnonymous for the anonymous sender), header hash, stream advanced; newChunkReader(x) is
   [g_cr_new x].  (Inside this section g_signer is GoAstProofs7c's: the signer's public key bytes or nil.)
   signcryptOpenStream.processHeader = the model's process_sc_header (tied by C03_source_processHeader);
   NewSigncryptOpenStream inside SigncryptOpen = the model's signcrypt_open_stream, the stream it returns being the
   model's loop; the compose_ theorems show these meanings ARE the outcomes of the translated callees.  An extern has
   NO value where the model says Unmodelled or where the callee panics: the evaluator is then stuck at that call
   (OStuck "call") and the statements say exactly when.  sc_read_header is the header stage of the model's
   signcrypt_open_stream; nsos_outcome / scopen_outcome are what the constructor / SigncryptOpen return, as Go values;
   scopen_class reads such an outcome back as a result of the model (all in GoAstProofs7c.v).
   LIMITS: a reader failing in mid-packet is not modelled; newChunkReader(sos) is a VALUE copy in the evaluator;
   "reading the returned chunk reader to the end yields the model's loop" is the meaning of an extern inside
   SigncryptOpen, its pieces being C13_source_chunkReader_Read and the getNextChunk tie of the signcryption stream. *)
Section C03_source_entry.
Import GoAstOpen GoAstProofs4b GoAstProofs5a GoAstProofs7c.
Local Open Scope string_scope.

(* sc_read_header (read the header packet, hash it, decode it, process_sc_header) IS the header stage of the model's
   signcrypt_open_stream: that function is this stage followed by the model's open loop on the rest.  No hypothesis. *)
Theorem C03_source_signcrypt_open_stream_header (c : crypto) (kr : keyring) (signers : sigring) (rv : resolver) (input : bytes) :
  signcrypt_open_stream c kr signers rv input =
  bind (sc_read_header c kr signers rv input) (fun x =>
  let '(pkey, signer, hh, rest) := x in
  Ok (signer, sc_open_loop c (S (List.length rest)) pkey signer hh 0 rest [])).
Proof. exact (signcrypt_open_stream_header c kr signers rv input). Qed.

(* sos.readHeader() on the object NewSigncryptOpenStream builds returns the Go value of the error of sc_read_header, and
   on success nil, leaving g_sos_done: payload key, signer, header hash sha512(header bytes), the stream advanced by one
   packet.  Stuck "call" where the model says Unmodelled or a panic.  No hypothesis. *)
Theorem C03_source_signcryptOpenStream_readHeader (c : crypto) (kr : keyring) (signers : sigring) (rv : resolver)
        (KR RV : gval) (input : bytes) (s : Z) :
  let r := run_func2 (ext_schdr c kr signers rv) f_saltpack_signcryptOpenStream_readHeader [g_sos_new (g_mps_raw input s) KR RV] in
  match sc_read_header c kr signers rv input with
  | Ok (pkey, signer, hh, rest) =>
    fst r = ORet [VNil] /\
    lookup "sos" (snd r) = Some (g_sos_done (g_mps_raw rest ((s + 1) mod two64)) KR RV pkey hh signer)
  | Err e => match g_herr e with Some ev => fst r = ORet [ev] | None => fst r = OStuck "call" end
  end.
Proof. exact (go_signcryptOpenStream_readHeader c kr signers rv KR RV input s). Qed.

(* the meaning ext_nsos (NewSigncryptOpenStream) gives to the call sos.readHeader, on the object the constructor builds,
   gives the results of the theorem above: nil and the same receiver object, or the same error value.  No hypothesis. *)
Theorem C03_source_compose_signcryptOpenStream_readHeader (c : crypto) (kr : keyring) (signers : sigring) (rv : resolver)
        (KR RV : gval) (input : bytes) (s : Z) :
  let r := run_func2 (ext_schdr c kr signers rv) f_saltpack_signcryptOpenStream_readHeader [g_sos_new (g_mps_raw input s) KR RV] in
  match ext_nsos c kr signers rv "signcryptOpenStream.readHeader" [g_sos_new (g_mps_raw input s) KR RV] with
  | Some [VNil; obj] => fst r = ORet [VNil] /\ lookup "sos" (snd r) = Some obj
  | Some [ev] => fst r = ORet [ev]
  | _ => fst r = OStuck "call"
  end.
Proof. exact (compose_signcryptOpenStream_readHeader c kr signers rv KR RV input s). Qed.

(* NewSigncryptOpenStream(r, keyring, resolver) returns nsos_outcome: the signer's public key (nil for the anonymous
   sender), the chunk reader over the receiver object readHeader left, nil; or (nil, nil, the header error).
   Hypothesis: rdr_bytes r = Some input. *)
Theorem C03_source_NewSigncryptOpenStream (c : crypto) (kr : keyring) (signers : sigring) (rv : resolver) (r KR RV : gval)
        (input : bytes) :
  rdr_bytes r = Some input ->
  fst (run_func2 (ext_nsos c kr signers rv) f_saltpack_NewSigncryptOpenStream [r; KR; RV])
  = nsos_outcome c kr signers rv KR RV input.
Proof. exact (go_NewSigncryptOpenStream c kr signers rv r KR RV input). Qed.

(* the meaning ext_scopen (SigncryptOpen) gives to the call NewSigncryptOpenStream returns the signer and the error of the
   translated constructor (the reader it returns stands for the model's stream).  No hypothesis. *)
Theorem C03_source_compose_NewSigncryptOpenStream (c : crypto) (kr : keyring) (signers : sigring) (rv : resolver)
        (KR RV : gval) (input : bytes) :
  match ext_scopen c kr signers rv "NewSigncryptOpenStream" [VBytes input; KR; RV] with
  | Some [sg; strm; e] => exists rdr, nsos_outcome c kr signers rv KR RV input = ORet [sg; rdr; e]
  | _ => nsos_outcome c kr signers rv KR RV input = OStuck "call"
  end.
Proof. exact (compose_NewSigncryptOpenStream c kr signers rv KR RV input). Qed.

(* SigncryptOpen(ciphertext, keyring, resolver), the all-at-once entry point, returns scopen_outcome: the sender key and
   the concatenated chunks when the stream ends cleanly, (nil, nil, err) when it ends with an error, and the
   constructor's error otherwise.  No hypothesis. *)
Theorem C03_source_SigncryptOpen (c : crypto) (kr : keyring) (signers : sigring) (rv : resolver) (KR RV : gval) (input : bytes) :
  fst (run_func2 (ext_scopen c kr signers rv) f_saltpack_SigncryptOpen [VBytes input; KR; RV])
  = scopen_outcome c kr signers rv input.
Proof. exact (go_SigncryptOpen c kr signers rv KR RV input). Qed.

(* SigncryptOpen against the model: the class of what it returns is the model's signcrypt_open_all (the function the
   C03 round-trip theorems are about).  Hypothesis: the outcome is not the stuck evaluator (the model says Unmodelled
   or a panic). *)
Theorem C03_source_scopen_outcome_model (c : crypto) (kr : keyring) (signers : sigring) (rv : resolver) (input : bytes) :
  scopen_outcome c kr signers rv input <> OStuck "call" ->
  scopen_class (scopen_outcome c kr signers rv input) = signcrypt_open_all c kr signers rv input.
Proof. exact (scopen_outcome_model c kr signers rv input). Qed.
End C03_source_entry.

Print Assumptions C03_source_signcrypt_open_stream_header.
Print Assumptions C03_source_signcryptOpenStream_readHeader.
Print Assumptions C03_source_compose_signcryptOpenStream_readHeader.
Print Assumptions C03_source_NewSigncryptOpenStream.
Print Assumptions C03_source_compose_NewSigncryptOpenStream.
Print Assumptions C03_source_SigncryptOpen.
Print Assumptions C03_source_scopen_outcome_model.
Print Assumptions C03_source_derivedEphemeralKeyFromBoxKeys.
Print Assumptions C03_source_keyIdentifierFromDerivedKey.
Print Assumptions C03_source_receiverBoxKey_makeReceiverKeys.
Print Assumptions C03_source_ReceiverSymmetricKey_makeReceiverKeys.
Print Assumptions C03_source_checkSigncryptReceiverCount.
Print Assumptions C03_source_checkSigncryptReceivers.
Print Assumptions C03_source_signcryptBlock.
Print Assumptions C03_source_signcryptSealStream_Write.
Print Assumptions C03_source_signcryptSealStream_Close.
Print Assumptions C03_source_signcryptSealStream_init.
Print Assumptions C03_source_processHeader.
Print Assumptions C03_source_tryBoxSecretKeys.
Print Assumptions C03_source_trySharedSymmetricKeys.
Print Assumptions C03_source_processHeader_composes.
Print Assumptions C03_armored_form_agrees.
Print Assumptions C03_sender_structure.
Print Assumptions C03_roundtrip_box.
Print Assumptions C03_roundtrip_sym.
Print Assumptions C03_no_key.
Print Assumptions C03_header_fits.
Print Assumptions C03_forms_agree.

From SP Require Import ToyCrypto ToyCryptoProofs.
Example C03_ex_roundtrip :
  let sk := repeat x11 32 in
  let rs := [SymRcpt (repeat x09 32) [x69; x64]; BoxRcpt (dh_pub toy_crypto sk)] in
  match signcrypt_core toy_crypto None (repeat x44 32) (repeat x55 32) rs [[x68; x69]] with
  | Ok out =>
    match signcrypt_open_all toy_crypto (mkRing [] None) [] (Some [([x69; x64], repeat x09 32)]) out with
    | Ok (s, pt) => Some (s, pt)
    | Err _ => None
    end
  | Err _ => None
  end = Some (None, [x68; x69]).
Proof. vm_compute. reflexivity. Qed.

From SP Require GoEndToEndEnc.
(* ======================================= PART 2: props/C03.v ======================================= *)
(* ---- END TO END at the level of the translated Go code: proofs/GoEndToEndEnc.v ---- *)
(* The Go sender session [go_signcrypt_session] RUNS the terms generated from /repo's signcrypt_seal.go: run_func2 of
   f_saltpack_signcryptSealStream_init, then of f_saltpack_signcryptSealStream_Write on each piece, then of
   f_saltpack_signcryptSealStream_Close, the receiver object `sss` being read back from the final environment of each
   call and handed to the next; each call under the externs of its own source tie (C03_source_signcryptSealStream_init, _Write, _Close)
   with the in-memory writer GoAstProofs6b.mem_enc.  [go_signcrypt_out] = the bytes the writer holds at the end.  The
   receiver is the translated SigncryptOpen / NewSigncryptOpenStream exactly as in C03_source_SigncryptOpen /
   C03_source_NewSigncryptOpenStream (inside this section g_signer is GoAstProofs7c's: the signer's public key bytes or
   nil).  Sources: ra rng.shuffleReceivers, rk rng.createSymmetricKey, rb the ephemeral key creator; the model's single
   stream r is ra = r, (rb, rk) = sc_model_sources boxes syms r.  NOT covered: newSigncryptSealStream / SigncryptSeal are
   not translated (the session starts at init on a fresh Version-2 object, fresh_sss); inside SigncryptOpen,
   NewSigncryptOpenStream and io.ReadAll have the model's meaning (as in C03_source_SigncryptOpen). *)
Section C03_source_end_to_end.
Import GoAstOpen GoAstProofs4b GoAstProofs5a GoAstProofs7c GoEndToEndEnc.
Local Open Scope string_scope.

(* The Go sender session on a fresh object (empty writer) leaves exactly wire in the writer, wire being the model's
   signcrypt_core on the values the three sources deliver.  Hypotheses: crypto_ok; fresh object; receivers accepted by
   checkSigncryptReceivers; every Write at most 295 MiB (the evaluator's loop bound); the three draws succeed; the
   model's signcrypt_core returns Ok. *)
Theorem C03_source_end_to_end_sender (c : crypto) (Hc : crypto_ok c) (st0 : GoAstProofs6b.sss_state) (signer : option bytes)
        (boxes : list bytes) (syms : list (bytes * bytes)) (ra rk rb : rng) (rs : list sc_rcpt) (ra1 eph rb1 key rk1 : bytes)
        (pieces : list bytes) (wire : bytes) :
  fresh_sss signer st0 ->
  sc_check_receivers boxes syms = Ok tt ->
  Forall (fun p : bytes => (List.length p <= 295 * GoAstProofs6b.blk)%nat) pieces ->
  shuffle (GoAstProofs6b.all_rcpts boxes syms) ra = Some (rs, ra1) ->
  read_full 32 rb = Some (eph, rb1) ->
  read_full 32 rk = Some (key, rk1) ->
  signcrypt_core c signer eph key rs pieces = Ok wire ->
  (exists st', go_signcrypt_session c (GoAstProofs6b.g_sss st0) boxes syms ra rk rb pieces = Some (GoAstProofs6b.g_sss st') /\
               GoAstProofs6b.ss_enc st' = VBytes wire /\ GoAstProofs6b.ss_buf st' = []) /\
  go_signcrypt_out c (GoAstProofs6b.g_sss st0) boxes syms ra rk rb pieces = Some wire.
Proof. exact (go_signcrypt_session_model c Hc st0 signer boxes syms ra rk rb rs ra1 eph rb1 key rk1 pieces wire). Qed.

(* Whenever the model's signcrypt_open_stream ends cleanly on an input, the translated SigncryptOpen returns the signer,
   the concatenated chunks and nil, and the translated NewSigncryptOpenStream the signer, the chunk reader over the
   state the model's loop starts from, and nil.  No "not stuck" hypothesis; every input, keyring, signer ring, resolver. *)
Theorem C03_source_end_to_end_receiver (c : crypto) (kr : keyring) (signers : sigring) (rv : resolver) (KR RV rd : gval)
        (wire : bytes) (sg : option bytes) (chunks : list bytes) :
  signcrypt_open_stream c kr signers rv wire = Ok (sg, mkOut chunks EOF) ->
  rdr_bytes rd = Some wire ->
  fst (run_func2 (ext_scopen c kr signers rv) f_saltpack_SigncryptOpen [VBytes wire; KR; RV])
  = ORet [g_signer sg; VBytes (List.concat chunks); VNil] /\
  scopen_class (fst (run_func2 (ext_scopen c kr signers rv) f_saltpack_SigncryptOpen [VBytes wire; KR; RV]))
  = Ok (sg, List.concat chunks) /\
  exists (pkey hh rest : bytes),
    fst (run_func2 (ext_nsos c kr signers rv) f_saltpack_NewSigncryptOpenStream [rd; KR; RV])
    = ORet [g_signer sg; g_cr_new (g_sos_done (g_mps_raw rest 1) KR RV pkey hh sg); VNil] /\
    sc_open_loop c (S (List.length rest)) pkey sg hh 0 rest [] = mkOut chunks EOF.
Proof. exact (go_SigncryptOpen_of_model c kr signers rv KR RV rd wire sg chunks). Qed.

(* END TO END, box-key recipient, three independent sources: for every plaintext in any split into Writes (each at most
   295 MiB), named or anonymous signer, receivers accepted by checkSigncryptReceivers, draws that succeed and on which
   the model's signcrypt_core returns Ok wire, header shorter than 4 GiB, EVERY box key dh_pub c sk of the list: the Go
   sender session leaves wire in the writer, and the translated SigncryptOpen on wire under the ring holding that key
   returns the signer's public key (nil for an anonymous sender), exactly the plaintext and nil; the translated
   NewSigncryptOpenStream returns the signer, nil and the reader from whose state the loop releases the plaintext -- or
   an identifier at another position collides with this key's derived identifier there (IdentifierCollision). *)
Theorem C03_source_end_to_end_roundtrip_box (c : crypto) (Hc : crypto_ok c) (signers : sigring) (rv : resolver) (KR RV rd : gval)
        (st0 : GoAstProofs6b.sss_state) (signer : option bytes) (boxes : list bytes)
        (syms : list (bytes * bytes)) (ra rk rb : rng) (rs : list sc_rcpt) (ra1 eph rb1 key rk1 : bytes)
        (pieces : list bytes) (wire : bytes) (sk : bytes) :
  fresh_sss signer st0 ->
  sc_check_receivers boxes syms = Ok tt ->
  Forall (fun p : bytes => (List.length p <= 295 * GoAstProofs6b.blk)%nat) pieces ->
  shuffle (GoAstProofs6b.all_rcpts boxes syms) ra = Some (rs, ra1) ->
  read_full 32 rb = Some (eph, rb1) ->
  read_full 32 rk = Some (key, rk1) ->
  signcrypt_core c signer eph key rs pieces = Ok wire ->
  header_fits c signer eph key rs ->
  In (dh_pub c sk) boxes ->
  (forall s, signer = Some s -> In (ed_pub c s) signers /\ all_zero (ed_pub c s) = false) ->
  rdr_bytes rd = Some wire ->
  let kr := mkRing [(sk, dh_pub c sk)] None in
  let sg := option_map (ed_pub c) signer in
  go_signcrypt_out c (GoAstProofs6b.g_sss st0) boxes syms ra rk rb pieces = Some wire /\
  ((fst (run_func2 (ext_scopen c kr signers rv) f_saltpack_SigncryptOpen [VBytes wire; KR; RV])
    = ORet [g_signer sg; VBytes (List.concat pieces); VNil] /\
    scopen_class (fst (run_func2 (ext_scopen c kr signers rv) f_saltpack_SigncryptOpen [VBytes wire; KR; RV]))
    = Ok (sg, List.concat pieces) /\
    exists (pkey hh rest : bytes) (chunks : list bytes),
      fst (run_func2 (ext_nsos c kr signers rv) f_saltpack_NewSigncryptOpenStream [rd; KR; RV])
      = ORet [g_signer sg; g_cr_new (g_sos_done (g_mps_raw rest 1) KR RV pkey hh sg); VNil] /\
      sc_open_loop c (S (List.length rest)) pkey sg hh 0 rest [] = mkOut chunks EOF /\
      List.concat chunks = List.concat pieces)
   \/ exists i, nth_error rs i = Some (BoxRcpt (dh_pub c sk)) /\ IdentifierCollision c eph key rs sk i).
Proof.
  exact (go_signcrypt_end_to_end_box c Hc signers rv KR RV rd st0 signer boxes syms ra rk rb rs ra1 eph rb1 key rk1 pieces wire sk).
Qed.

(* END TO END, symmetric-key recipient: a holder of no box key whose resolver maps the identifier of a symmetric-key
   recipient of the list to its key and resolves only genuine pairs of this message *)
Theorem C03_source_end_to_end_roundtrip_sym (c : crypto) (Hc : crypto_ok c) (signers : sigring) (rsl : list (bytes * bytes))
        (KR RV rd : gval) (st0 : GoAstProofs6b.sss_state) (signer : option bytes) (boxes : list bytes)
        (syms : list (bytes * bytes)) (ra rk rb : rng) (rs : list sc_rcpt) (ra1 eph rb1 key rk1 : bytes)
        (pieces : list bytes) (wire : bytes) (skey ident : bytes) :
  fresh_sss signer st0 ->
  sc_check_receivers boxes syms = Ok tt ->
  Forall (fun p : bytes => (List.length p <= 295 * GoAstProofs6b.blk)%nat) pieces ->
  shuffle (GoAstProofs6b.all_rcpts boxes syms) ra = Some (rs, ra1) ->
  read_full 32 rb = Some (eph, rb1) ->
  read_full 32 rk = Some (key, rk1) ->
  signcrypt_core c signer eph key rs pieces = Ok wire ->
  header_fits c signer eph key rs ->
  In (skey, ident) syms -> resolve rsl ident = Some skey ->
  resolver_genuine c rsl eph key rs ->
  (forall s, signer = Some s -> In (ed_pub c s) signers /\ all_zero (ed_pub c s) = false) ->
  rdr_bytes rd = Some wire ->
  let kr := mkRing [] None in
  let rv := Some rsl in
  let sg := option_map (ed_pub c) signer in
  go_signcrypt_out c (GoAstProofs6b.g_sss st0) boxes syms ra rk rb pieces = Some wire /\
  fst (run_func2 (ext_scopen c kr signers rv) f_saltpack_SigncryptOpen [VBytes wire; KR; RV])
  = ORet [g_signer sg; VBytes (List.concat pieces); VNil] /\
  scopen_class (fst (run_func2 (ext_scopen c kr signers rv) f_saltpack_SigncryptOpen [VBytes wire; KR; RV]))
  = Ok (sg, List.concat pieces) /\
  exists (pkey hh rest : bytes) (chunks : list bytes),
    fst (run_func2 (ext_nsos c kr signers rv) f_saltpack_NewSigncryptOpenStream [rd; KR; RV])
    = ORet [g_signer sg; g_cr_new (g_sos_done (g_mps_raw rest 1) KR RV pkey hh sg); VNil] /\
    sc_open_loop c (S (List.length rest)) pkey sg hh 0 rest [] = mkOut chunks EOF /\
    List.concat chunks = List.concat pieces.
Proof.
  exact (go_signcrypt_end_to_end_sym c Hc signers rsl KR RV rd st0 signer boxes syms ra rk rb rs ra1 eph rb1 key rk1 pieces wire skey ident).
Qed.

(* the same against the model's sender on ONE randomness stream r: "the model's sender returns Ok" is
   signcrypt_seal_stream c signer boxes syms pieces r = Ok (wire, r') *)
Theorem C03_source_end_to_end_roundtrip_box_stream (c : crypto) (Hc : crypto_ok c) (signers : sigring) (rv : resolver)
        (KR RV rd : gval) (st0 : GoAstProofs6b.sss_state) (signer : option bytes) (boxes : list bytes) (syms : list (bytes * bytes))
        (r r' : rng) (pieces : list bytes) (wire : bytes) (sk : bytes) :
  fresh_sss signer st0 ->
  Forall (fun p : bytes => (List.length p <= 295 * GoAstProofs6b.blk)%nat) pieces ->
  signcrypt_seal_stream c signer boxes syms pieces r = Ok (wire, r') ->
  header_fits c signer (sc_model_eph boxes syms r) (sc_model_key boxes syms r) (sc_model_rs boxes syms r) ->
  In (dh_pub c sk) boxes ->
  (forall s, signer = Some s -> In (ed_pub c s) signers /\ all_zero (ed_pub c s) = false) ->
  rdr_bytes rd = Some wire ->
  let kr := mkRing [(sk, dh_pub c sk)] None in
  let sg := option_map (ed_pub c) signer in
  go_signcrypt_out c (GoAstProofs6b.g_sss st0) boxes syms r (snd (sc_model_sources boxes syms r)) (fst (sc_model_sources boxes syms r)) pieces
  = Some wire /\
  ((fst (run_func2 (ext_scopen c kr signers rv) f_saltpack_SigncryptOpen [VBytes wire; KR; RV])
    = ORet [g_signer sg; VBytes (List.concat pieces); VNil] /\
    scopen_class (fst (run_func2 (ext_scopen c kr signers rv) f_saltpack_SigncryptOpen [VBytes wire; KR; RV]))
    = Ok (sg, List.concat pieces) /\
    exists (pkey hh rest : bytes) (chunks : list bytes),
      fst (run_func2 (ext_nsos c kr signers rv) f_saltpack_NewSigncryptOpenStream [rd; KR; RV])
      = ORet [g_signer sg; g_cr_new (g_sos_done (g_mps_raw rest 1) KR RV pkey hh sg); VNil] /\
      sc_open_loop c (S (List.length rest)) pkey sg hh 0 rest [] = mkOut chunks EOF /\
      List.concat chunks = List.concat pieces)
   \/ exists i, nth_error (sc_model_rs boxes syms r) i = Some (BoxRcpt (dh_pub c sk)) /\
                IdentifierCollision c (sc_model_eph boxes syms r) (sc_model_key boxes syms r) (sc_model_rs boxes syms r) sk i).
Proof.
  exact (go_signcrypt_end_to_end_box_stream c Hc signers rv KR RV rd st0 signer boxes syms r r' pieces wire sk).
Qed.

Theorem C03_source_end_to_end_roundtrip_sym_stream (c : crypto) (Hc : crypto_ok c) (signers : sigring) (rsl : list (bytes * bytes))
        (KR RV rd : gval) (st0 : GoAstProofs6b.sss_state) (signer : option bytes) (boxes : list bytes) (syms : list (bytes * bytes))
        (r r' : rng) (pieces : list bytes) (wire : bytes) (skey ident : bytes) :
  fresh_sss signer st0 ->
  Forall (fun p : bytes => (List.length p <= 295 * GoAstProofs6b.blk)%nat) pieces ->
  signcrypt_seal_stream c signer boxes syms pieces r = Ok (wire, r') ->
  header_fits c signer (sc_model_eph boxes syms r) (sc_model_key boxes syms r) (sc_model_rs boxes syms r) ->
  In (skey, ident) syms -> resolve rsl ident = Some skey ->
  resolver_genuine c rsl (sc_model_eph boxes syms r) (sc_model_key boxes syms r) (sc_model_rs boxes syms r) ->
  (forall s, signer = Some s -> In (ed_pub c s) signers /\ all_zero (ed_pub c s) = false) ->
  rdr_bytes rd = Some wire ->
  let kr := mkRing [] None in
  let rv := Some rsl in
  let sg := option_map (ed_pub c) signer in
  go_signcrypt_out c (GoAstProofs6b.g_sss st0) boxes syms r (snd (sc_model_sources boxes syms r)) (fst (sc_model_sources boxes syms r)) pieces
  = Some wire /\
  fst (run_func2 (ext_scopen c kr signers rv) f_saltpack_SigncryptOpen [VBytes wire; KR; RV])
  = ORet [g_signer sg; VBytes (List.concat pieces); VNil] /\
  scopen_class (fst (run_func2 (ext_scopen c kr signers rv) f_saltpack_SigncryptOpen [VBytes wire; KR; RV]))
  = Ok (sg, List.concat pieces) /\
  exists (pkey hh rest : bytes) (chunks : list bytes),
    fst (run_func2 (ext_nsos c kr signers rv) f_saltpack_NewSigncryptOpenStream [rd; KR; RV])
    = ORet [g_signer sg; g_cr_new (g_sos_done (g_mps_raw rest 1) KR RV pkey hh sg); VNil] /\
    sc_open_loop c (S (List.length rest)) pkey sg hh 0 rest [] = mkOut chunks EOF /\
    List.concat chunks = List.concat pieces.
Proof.
  exact (go_signcrypt_end_to_end_sym_stream c Hc signers rsl KR RV rd st0 signer boxes syms r r' pieces wire skey ident).
Qed.

(* END TO END, a holder of no recipient key (a box key whose derived identifier matches no identifier of the header at
   its position, a resolver that resolves none of them): the translated SigncryptOpen and NewSigncryptOpenStream return
   (nil, nil, ErrNoDecryptionKey): no plaintext *)
Theorem C03_source_end_to_end_no_key (c : crypto) (Hc : crypto_ok c) (signers : sigring) (rsl : list (bytes * bytes))
        (KR RV rd : gval) (st0 : GoAstProofs6b.sss_state) (signer : option bytes) (boxes : list bytes)
        (syms : list (bytes * bytes)) (ra rk rb : rng) (rs : list sc_rcpt) (ra1 eph rb1 key rk1 : bytes)
        (pieces : list bytes) (wire : bytes) (sk : bytes) :
  fresh_sss signer st0 ->
  sc_check_receivers boxes syms = Ok tt ->
  Forall (fun p : bytes => (List.length p <= 295 * GoAstProofs6b.blk)%nat) pieces ->
  shuffle (GoAstProofs6b.all_rcpts boxes syms) ra = Some (rs, ra1) ->
  read_full 32 rb = Some (eph, rb1) ->
  read_full 32 rk = Some (key, rk1) ->
  signcrypt_core c signer eph key rs pieces = Ok wire ->
  header_fits c signer eph key rs ->
  (forall kid, In kid (sc_header_kids c eph key rs) -> resolve rsl kid = None) ->
  (forall j kid, nth_error (sc_header_kids c eph key rs) j = Some kid ->
     box_key_identifier c (derived_box_key c sk (dh_pub c eph)) (N.of_nat j) <> kid) ->
  rdr_bytes rd = Some wire ->
  let kr := mkRing [(sk, dh_pub c sk)] None in
  let rv := Some rsl in
  go_signcrypt_out c (GoAstProofs6b.g_sss st0) boxes syms ra rk rb pieces = Some wire /\
  fst (run_func2 (ext_scopen c kr signers rv) f_saltpack_SigncryptOpen [VBytes wire; KR; RV])
  = ORet [VNil; VNil; VErr "ErrNoDecryptionKey" []] /\
  scopen_class (fst (run_func2 (ext_scopen c kr signers rv) f_saltpack_SigncryptOpen [VBytes wire; KR; RV]))
  = Err ErrNoDecryptionKey /\
  fst (run_func2 (ext_nsos c kr signers rv) f_saltpack_NewSigncryptOpenStream [rd; KR; RV])
  = ORet [VNil; VNil; VErr "ErrNoDecryptionKey" []].
Proof.
  exact (go_signcrypt_end_to_end_stranger c Hc signers rsl KR RV rd st0 signer boxes syms ra rk rb rs ra1 eph rb1 key rk1 pieces wire sk).
Qed.
End C03_source_end_to_end.

Print Assumptions C03_source_end_to_end_sender.
Print Assumptions C03_source_end_to_end_receiver.
Print Assumptions C03_source_end_to_end_roundtrip_box.
Print Assumptions C03_source_end_to_end_roundtrip_sym.
Print Assumptions C03_source_end_to_end_roundtrip_box_stream.
Print Assumptions C03_source_end_to_end_roundtrip_sym_stream.
Print Assumptions C03_source_end_to_end_no_key.

(* =========================================== PART C03: props/C03.v ======================================= *)
From SP Require GoAstEntry GoAstProofs5a GoAstProofs5c GoAstProofs6a GoAstProofs6b GoEndToEndEnc GoEndToEndSign GoAstProofs8a.
(* ---- source ties: the CONSTRUCTOR and ONE-SHOT entry points of the signcryption sender (/repo/signcrypt_seal.go:
   newSigncryptSealStream, NewSigncryptSealStream, signcryptSeal, SigncryptSeal), lemmas of proofs/GoAstProofs8a.v ----
   newSigncryptSealStream returns g_sss st' (st' = what sss_init, the translated init by GoAstProofs6b, leaves on
   fresh_sss W signer: Version2(), zero keys, counter 0), the object the ties of Write / Close and the sessions of
   GoEndToEndEnc.v start from (nsss_session_start), or (nil, err).  signcryptSeal: NOT EXPRESSIBLE beyond glue / stale /
   aliased, as for seal; signcryptSeal_spec_model: the specification session returns the model's signcrypt_seal_stream bytes. *)
Section C03_source_entry.
Import GoAstEntry GoAstProofs8a.
Local Open Scope string_scope.

Theorem C03_source_go_newSigncryptSealStream :
  forall (c : crypto) (enc_step : gval -> bytes -> gval * B.gerr) (W : gval) (signer : option bytes)
    (boxes : list bytes) (syms : list (bytes * bytes)) (ra rk rb : bytes),
  let r :=
    run_func2 (ext_nsss c enc_step) f_saltpack_newSigncryptSealStream
      [W; B.g_signer signer; VList (map VBytes boxes); VList (map B.g_sym syms); VBytes rb; B.g_rng ra rk] in
  match B.sss_init c enc_step (fresh_sss W signer) boxes syms ra rk rb with
  | B.IPanic => fst r = OStuck "call"
  | B.IRet e st' ra' rk' rb' =>
      fst r = ORet match e with
                   | Some _ => [VNil; B.g_errv e]
                   | None => [B.g_sss st'; VNil]
                   end /\
      lookup "rng" (snd r) = Some (B.g_rng ra' rk') /\ lookup "ephemeralKeyCreator" (snd r) = Some (VBytes rb')
  end.
Proof. exact go_newSigncryptSealStream. Qed.

Theorem C03_source_go_NewSigncryptSealStream :
  forall (CALLEE : list gval -> option (gval * GoAstProofs5a.gerr)) (W EK S B Y : gval),
  fst (run_func2 (ext_wrap CALLEE "newSigncryptSealStream") f_saltpack_NewSigncryptSealStream [W; EK; S; B; Y]) =
  wrap_outcome CALLEE [W; S; B; Y; EK; VStruct []].
Proof. exact go_NewSigncryptSealStream. Qed.

Theorem C03_source_go_NewSigncryptSealStream_spec :
  forall (c : crypto) (es : gval -> bytes -> gval * B.gerr) (ra rk rb : bytes) (W EK : gval)
    (signer : option bytes) (boxes : list bytes) (syms : list (bytes * bytes)),
  fst
    (run_func2 (ext_wrap (NSSS_spec c es ra rk rb) "newSigncryptSealStream") f_saltpack_NewSigncryptSealStream
       [W; EK; B.g_signer signer; VList (map VBytes boxes); VList (map B.g_sym syms)]) =
  nsss_outcome c es W signer boxes syms ra rk rb.
Proof. exact go_NewSigncryptSealStream_spec. Qed.

Theorem C03_source_go_SigncryptSeal :
  forall (CALLEE : list gval -> option (gval * GoAstProofs5a.gerr)) (P EK S B Y : gval),
  fst (run_func2 (ext_wrap CALLEE "signcryptSeal") f_saltpack_SigncryptSeal [P; EK; S; B; Y]) =
  wrap_outcome CALLEE [P; S; B; Y; EK; VStruct []].
Proof. exact go_SigncryptSeal. Qed.

Theorem C03_source_go_SigncryptSeal_spec :
  forall (c : crypto) (ra rk rb p : bytes) (EK : gval) (signer : option bytes) (boxes : list bytes)
    (syms : list (bytes * bytes)),
  fst
    (run_func2 (ext_wrap (SCSEAL_spec c ra rk rb) "signcryptSeal") f_saltpack_SigncryptSeal
       [VBytes p; EK; B.g_signer signer; VList (map VBytes boxes); VList (map B.g_sym syms)]) =
  signcryptSeal_spec c p signer boxes syms ra rk rb.
Proof. exact go_SigncryptSeal_spec. Qed.

Theorem C03_source_go_signcryptSeal_glue :
  forall (NEW : list gval -> option (gval * GoAstProofs5a.gerr * gval))
    (WR : gval -> gval -> option (gval * GoAstProofs5a.gerr * gval))
    (CL : gval -> option (GoAstProofs5a.gerr * gval)) (BY : gval -> option gval) (P S B Y EK RNG : gval),
  fst
    (run_func2 (ext_glue NEW WR CL BY "newSigncryptSealStream" 0) f_saltpack_signcryptSeal [P; S; B; Y; EK; RNG]) =
  glue_outcome NEW WR CL [VNil; S; B; Y; EK; RNG] P (fin_bytes BY).
Proof. exact go_signcryptSeal_glue. Qed.

Theorem C03_source_go_signcryptSeal_aliased :
  forall (c : crypto) (BY : gval -> option gval) (p : bytes) (signer : option bytes) 
    (boxes : list bytes) (syms : list (bytes * bytes)) (ra rk rb : bytes),
  (forall (st1 st2 st3 : B.sss_state) (n : Z) (ra' rk' rb' : bytes),
   B.sss_init c B.mem_enc (fresh_sss (VBytes []) signer) boxes syms ra rk rb = B.IRet None st1 ra' rk' rb' ->
   B.sss_write c B.mem_enc st1 p = B.WRet n None st2 ->
   B.sss_close c B.mem_enc st2 = B.CloseRet None st3 -> BY (B.ss_enc st1) = Some (B.ss_enc st3)) ->
  fst
    (run_func2 (ext_glue (NEW_sc c) (WR_sss c) (CL_sss c) BY "newSigncryptSealStream" 0)
       f_saltpack_signcryptSeal (scseal_args p signer boxes syms ra rk rb)) =
  signcryptSeal_spec c p signer boxes syms ra rk rb.
Proof. exact go_signcryptSeal_aliased. Qed.

Theorem C03_source_go_signcryptSeal_stale :
  forall (c : crypto) (p : bytes) (signer : option bytes) (boxes : list bytes) (syms : list (bytes * bytes))
    (ra rk rb : bytes) (st1 st2 st3 : B.sss_state) (n : Z) (ra' rk' rb' : bytes),
  B.sss_init c B.mem_enc (fresh_sss (VBytes []) signer) boxes syms ra rk rb = B.IRet None st1 ra' rk' rb' ->
  B.sss_write c B.mem_enc st1 p = B.WRet n None st2 ->
  B.sss_close c B.mem_enc st2 = B.CloseRet None st3 ->
  fst
    (run_func2 (ext_glue (NEW_sc c) (WR_sss c) (CL_sss c) (fun b : gval => Some b) "newSigncryptSealStream" 0)
       f_saltpack_signcryptSeal (scseal_args p signer boxes syms ra rk rb)) = ORet [B.ss_enc st1; VNil].
Proof. exact go_signcryptSeal_stale. Qed.

Theorem C03_source_signcryptSeal_spec_model :
  forall c : crypto,
  (forall k n m : bytes, length (sb_seal c k n m) = (16 + length m)%nat) ->
  (forall s m : bytes, length (ed_sign c s m) = 64%nat) ->
  forall (p : bytes) (signer : option bytes) (boxes : list bytes) (syms : list (bytes * bytes)) 
    (r r' : rng) (wire : bytes),
  (length p <= 295 * B.blk)%nat ->
  signcrypt_seal_stream c signer boxes syms [p] r = Ok (wire, r') ->
  signcryptSeal_spec c p signer boxes syms r (snd (E.sc_model_sources boxes syms r))
    (fst (E.sc_model_sources boxes syms r)) = ORet [VBytes wire; VNil].
Proof. exact signcryptSeal_spec_model. Qed.

Theorem C03_source_compose_signcryptSealStream_init :
  forall (c : crypto) (enc_step : gval -> bytes -> gval * A.gerr) (o : gval) (st : B.sss_state)
    (boxes : list bytes) (syms : list (bytes * bytes)) (ra rk rb : bytes),
  sss_of_lit o = Some st ->
  let r :=
    run_func2 (B.ext_init c enc_step) f_saltpack_signcryptSealStream_init
      [B.g_sss st; VList (map VBytes boxes); VList (map B.g_sym syms); VBytes rb; B.g_rng ra rk] in
  match
    ext_nsss c enc_step "signcryptSealStream.init"
      [o; VList (map VBytes boxes); VList (map B.g_sym syms); VBytes rb; B.g_rng ra rk]
  with
  | Some [] => False
  | Some [e] => False
  | Some [e; sss'] | Some [e; sss'; _] | Some [e; sss'; _; _] => False
  | Some [e; sss'; _; _; ek'] => False
  | Some (e :: sss' :: _ :: _ :: ek' :: rng' :: _) =>
      fst r = ORet [e] /\
      lookup "sss" (snd r) = Some sss' /\
      lookup "rng" (snd r) = Some rng' /\ lookup "ephemeralKeyCreator" (snd r) = Some ek'
  | None => fst r = OPanic
  end.
Proof. exact compose_signcryptSealStream_init. Qed.

Theorem C03_source_compose_WR_sss :
  forall (c : crypto) (st : B.sss_state) (p : bytes),
  let r := run_func2 (B.ext_wr c B.mem_enc) f_saltpack_signcryptSealStream_Write [B.g_sss st; VBytes p] in
  match WR_sss c (B.g_sss st) (VBytes p) with
  | Some (n, e, s') => fst r = ORet [n; GoAstProofs5a.g_errv e] /\ lookup "sss" (snd r) = Some s'
  | None => exists w : String.string, fst r = OStuck w
  end.
Proof. exact compose_WR_sss. Qed.

Theorem C03_source_compose_CL_sss :
  forall (c : crypto) (st : B.sss_state),
  let r := run_func2 (B.ext_wr c B.mem_enc) f_saltpack_signcryptSealStream_Close [B.g_sss st] in
  match CL_sss c (B.g_sss st) with
  | Some (e, s') => fst r = ORet [GoAstProofs5a.g_errv e] /\ lookup "sss" (snd r) = Some s'
  | None => (exists w : String.string, fst r = OStuck w) \/ fst r = OPanic
  end.
Proof. exact compose_CL_sss. Qed.

Theorem C03_source_nsss_session_start :
  forall (c : crypto) (signer : option bytes) (boxes : list bytes) (syms : list (bytes * bytes))
    (ra rk rb : bytes) (obj : gval),
  nsss_outcome c B.mem_enc (VBytes []) signer boxes syms ra rk rb = ORet [obj; VNil] ->
  E.fresh_sss signer (fresh_sss (VBytes []) signer) /\
  E.go_sss_init c (B.g_sss (fresh_sss (VBytes []) signer)) boxes syms ra rk rb = Some obj.
Proof. exact nsss_session_start. Qed.

Theorem C03_source_go_signcrypt_session_from_NewSigncryptSealStream :
  forall (c : crypto) (EK : gval) (signer : option bytes) (boxes : list bytes) (syms : list (bytes * bytes))
    (ra rk rb : bytes) (pieces : list bytes) (obj : gval),
  fst
    (run_func2 (ext_wrap (NSSS_spec c B.mem_enc ra rk rb) "newSigncryptSealStream")
       f_saltpack_NewSigncryptSealStream
       [VBytes []; EK; B.g_signer signer; VList (map VBytes boxes); VList (map B.g_sym syms)]) =
  ORet [obj; VNil] ->
  E.fresh_sss signer (fresh_sss (VBytes []) signer) /\
  E.go_signcrypt_session c (B.g_sss (fresh_sss (VBytes []) signer)) boxes syms ra rk rb pieces =
  match E.go_sss_writes c obj pieces with
  | Some s2 => E.go_sss_close c s2
  | None => None
  end.
Proof. exact go_signcrypt_session_from_NewSigncryptSealStream. Qed.

Theorem C03_source_signcryptSeal_spec_model_err :
  forall (c : crypto) (p : bytes) (signer : option bytes) (boxes : list bytes) (syms : list (bytes * bytes))
    (r : rng),
  let rb := fst (E.sc_model_sources boxes syms r) in
  let rk := snd (E.sc_model_sources boxes syms r) in
  (forall e : err,
   sc_check_receivers boxes syms = Err e ->
   signcryptSeal_spec c p signer boxes syms r rk rb = ORet [VNil; GoAstProofs5a.g_errv (B.check_err boxes syms)] /\
   B.check_err boxes syms <> None /\ signcrypt_seal_stream c signer boxes syms [p] r = Err e) /\
  (sc_check_receivers boxes syms = Ok tt ->
   shuffle (B.all_rcpts boxes syms) r = None \/ read_full 32 rb = None \/ read_full 32 rk = None ->
   signcrypt_seal_stream c signer boxes syms [p] r = Err ErrRand /\
   signcryptSeal_spec c p signer boxes syms r rk rb = ORet [VNil; VErr "ErrRand" []]).
Proof. exact signcryptSeal_spec_model_err. Qed.

End C03_source_entry.

Print Assumptions C03_source_go_newSigncryptSealStream.
Print Assumptions C03_source_go_NewSigncryptSealStream.
Print Assumptions C03_source_go_NewSigncryptSealStream_spec.
Print Assumptions C03_source_go_SigncryptSeal.
Print Assumptions C03_source_go_SigncryptSeal_spec.
Print Assumptions C03_source_go_signcryptSeal_glue.
Print Assumptions C03_source_go_signcryptSeal_aliased.
Print Assumptions C03_source_go_signcryptSeal_stale.
Print Assumptions C03_source_signcryptSeal_spec_model.
Print Assumptions C03_source_compose_signcryptSealStream_init.
Print Assumptions C03_source_compose_WR_sss.
Print Assumptions C03_source_compose_CL_sss.
Print Assumptions C03_source_nsss_session_start.
Print Assumptions C03_source_go_signcrypt_session_from_NewSigncryptSealStream.
Print Assumptions C03_source_signcryptSeal_spec_model_err.

