(* C08 — Everything the library emits is the wire format the specification defines.
   The implementation model (coq/model, constants regenerated from /repo) equals,
   byte for byte, the specification model (coq/spec/Spec.v, literals copied from
   specs/*.md) instantiated with the library's parameters: full 1 MiB chunks,
   minor version 0, no extra fields.  Only property theorems here. *)
From Coq Require Import List NArith ZArith.
From Coq.Strings Require Import Byte.
From SP Require Import Bytes Params Msgpack Crypto Errors Nonce Packets Chunker Rand Sign Verify Encrypt Decrypt Signcrypt Spec
     ConformProofs.
From SP Require GoLang GoLang2 GoAstProofs ChunkerProofs GoAstProofs5a GoAstProofs5c GoAstProofs6a GoAstProofs6b.
From Coq Require String.
Import ListNotations.
Open Scope N_scope.

(* every string, number and nonce constructor the senders use is the specification's literal *)
Theorem C08_constants_conform :
  format_name = S_format_name /\
  nonce_sender_key_sbox = S_nonce_sender_key /\
  nonce_derived_shared_key = S_nonce_derived /\
  (forall i, nonce_payload_key_box v1 i = Some S_nonce_payload_key_v1) /\
  (forall i, nonce_payload_key_box v2 i = Some (S_nonce_recip_prefix ++ be64 i)) /\
  (forall i, nonce_chunk_secretbox i = S_nonce_payload_prefix ++ be64 i) /\
  (forall hh f i, nonce_chunk_signcryption hh f i = S_hash_nonce hh f i) /\
  (forall hh f i, nonce_mac_key_box_v2 hh f i = S_hash_nonce hh f i) /\
  sig_attached_prefix = S_attached_prefix /\ sig_detached_prefix = S_detached_prefix /\
  sig_encrypted_prefix = S_encrypted_prefix /\
  signcryption_boxkey_id_context = S_box_id_key /\ signcryption_symkey_context = S_sym_key_key /\
  mt_encryption = S_mode_encryption /\ mt_attached = S_mode_attached /\
  mt_detached = S_mode_detached /\ mt_signcryption = S_mode_signcryption /\
  enc_block_size = S_max_chunk /\ sig_block_size = S_max_chunk /\
  v1 = mkV 1 0 /\ v2 = mkV 2 0.
Proof. exact constants_conform. Qed.

(* the library's chunking is one the specification allows: 1 byte .. 1 MiB per chunk,
   the final marker on the last packet only (S_packets), the empty message as the
   single empty chunk (V2) / just the terminator (V1) *)
Theorem C08_chunking_allowed (v : version) (msg : bytes) :
  v = v1 \/ v = v2 -> S_chunks_ok (vmaj v) (canon_chunks v enc_block_size msg).
Proof. exact (canon_chunks_ok v msg). Qed.

Theorem C08_encryption_conforms (c : crypto) (Hc : crypto_ok c) (v : version) (sender : option bytes)
        (eph_sk pkey : bytes) (rs : list rcpt) (pieces : list bytes) (out : bytes) :
  v = v1 \/ v = v2 ->
  seal_core c v sender eph_sk pkey rs pieces = Ok out ->
  out = S_encode_encryption c (canon_enc v sender eph_sk pkey rs (concat pieces)).
Proof. exact (encryption_conforms c Hc v sender eph_sk pkey rs pieces out). Qed.

Theorem C08_attached_conforms (c : crypto) (v : version) (sk : bytes) (pieces : list bytes) (r r' : rng) (out : bytes) :
  v = v1 \/ v = v2 ->
  sign_attached_stream c v sk pieces r = Ok (out, r') ->
  out = S_encode_attached c (canon_sig v sk (firstn 16 r) (concat pieces)).
Proof. exact (attached_conforms c v sk pieces r r' out). Qed.

Theorem C08_detached_conforms (c : crypto) (v : version) (sk msg : bytes) (r r' : rng) (out : bytes) :
  v = v1 \/ v = v2 ->
  sign_detached c v sk msg r = Ok (out, r') ->
  out = S_encode_detached c (canon_sig v sk (firstn 16 r) msg).
Proof. exact (detached_conforms c v sk msg r r' out). Qed.

Theorem C08_signcryption_conforms (c : crypto) (signer : option bytes) (eph_sk pkey : bytes) (rs : list sc_rcpt)
        (pieces : list bytes) (out : bytes) :
  signcrypt_core c signer eph_sk pkey rs pieces = Ok out ->
  out = S_encode_signcryption c (canon_sc signer eph_sk pkey rs (concat pieces)).
Proof. exact (signcryption_conforms c signer eph_sk pkey rs pieces out). Qed.

(* KNOWN FINDING (known_findings.txt, key spec-sig-header-nonce-16-bytes): the
   specification says the signature header nonce is 32 random bytes; the library
   draws 16.  The conformance theorems above are therefore stated with the nonce
   the library draws; this theorem records the deviation. *)
Theorem C08_sig_nonce_is_16_bytes_refutes_32 (c : crypto) (v : version) (sk : bytes) (pieces : list bytes) (r r' : rng) (out : bytes) :
  sign_attached_stream c v sk pieces r = Ok (out, r') -> length (firstn 16 r) = 16%nat.
Proof. exact (sig_nonce_is_16_bytes c v sk pieces r r' out). Qed.

(* ---- source ties: the bytes the Go senders hand to their writer are the model's bytes ---- *)
(* Model-side bridges of proofs/GoAstProofs5a.v (encryption), 6a.v (signing) and 6b.v (signcryption).  The
   C01 / C05 / C07 / C03 _source_ theorems say that the translated Go bodies of the senders compute the
   specification functions es_* / sas_* / sds_* / sss_* of those files for EVERY writer behind the encoder.  The
   theorems here instantiate the writer with the in-memory one, [mem_enc] (the bytes.Buffer of seal() / Sign /
   signcryptSeal: the encoder object is VBytes of the bytes written so far; it never fails), and show that what
   those specification functions leave in the encoder is, byte for byte, what the MODEL's senders emit
   (encrypt_packets / seal_stream, sign_packets / sign_attached_stream / sign_detached, signcrypt_packets /
   signcrypt_core) — the senders the conformance theorems above are about.  The three files define their own
   gerr / mem_enc / blk (= 1 MiB, the block size as the code passes it to Buffer.Next); each section below
   imports one of them. *)

Section C08_encryption_sender.   (* GoAstProofs5a.v *)
Import GoLang GoLang2 GoAstProofs GoAstProofs5a GoAstProofs5c String.StringSyntax.

(* init = the head of the model's seal_stream.  With the in-memory writer (hypothesis: the encoder object is
   VBytes out) and the three sources drawn as the model draws them from ONE stream r (model_sources: the key
   creator's source is what the shuffle leaves, createSymmetricKey's is what the ephemeral key leaves), es_init
   (= the translated encryptStream.init, C01_source_encryptStream_init) is never stuck; it fails iff seal_stream
   fails at its head, with the same error class and the object untouched; otherwise seal_stream's result is the
   header packet init wrote followed by encrypt_packets (payload key, header hash, MAC keys that init left in
   `es`) over cw_session of the pieces, with the stream init's createSymmetricKey source ended at.
   Other hypothesis: at most 2^31-1 receivers (beyond that csprngShuffle panics, which the model does not have). *)
Theorem C08_source_es_init_model (c : crypto) (st : es_state) (out : bytes) (v : version) (sender : option bytes)
        (rcpts : list rcpt) (pieces : list bytes) (r : rng) :
  es_enc st = VBytes out ->
  (Z.of_nat (List.length rcpts) <= 2147483647)%Z ->
  match es_init c mem_enc st v sender rcpts r (fst (model_sources rcpts r)) (snd (model_sources rcpts r)) with
  | IStuck _ => False
  | IRet (Some (n, _)) st' _ _ _ =>
    st' = st /\ exists e, seal_stream c v sender rcpts pieces r = Err e /\ sender_err_name e = n
  | IRet None st' _ _ rc' =>
    exists hdr_pkt,
      st' = mkEs (es_v st) (VBytes (out ++ hdr_pkt)) (es_pk st') (es_buf st) (es_hh st') (es_mks st') (es_n st) (es_err st) /\
      seal_stream c v sender rcpts pieces r
      = bind (encrypt_packets c v (es_pk st') (es_hh st') (es_mks st') 0 (cw_session v enc_block_size [] pieces))
             (fun body => Ok (hdr_pkt ++ body, rc'))
  end.
Proof. exact (es_init_model c st out v sender rcpts pieces r). Qed.
(* The next three theorems (proofs/GoAstProofs5c.v) are about a stream in good standing,
   gst v out pk buf hh mks n = the *encryptStream object with version v, the in-memory encoder VBytes out (the bytes
   written so far), payload key pk, buffered plaintext buf, header hash hh, MAC keys mks, numBlocks n and no stored
   error.  emit c v pk hh mks n bs / emit_plan c v pk hh mks n plan are the packets the model's encrypt_packets emits
   for the non-final blocks bs / for the plan (chunks with their final flags) numbered from n on (the last conjunct of
   C08_source_es_session_model says so); blk = 1 MiB as the code passes it to Buffer.Next (= enc_block_size).
   Common hypotheses: Hsb = a secretbox is 16 bytes longer than its plaintext (crypto_ok.ok_sb_len); a known version
   (v1 or v2); at least one MAC key (with none go-codec writes MessagePack nil where the model writes an empty array). *)

(* Write: es_write (= the translated encryptStream.Write, C01_source_encryptStream_Write) over the in-memory writer
   flushes exactly the blocks of the model's chunker, fst (cw_write 1MiB buf p), as the model's packets appended to
   out, leaves snd (cw_write ..) buffered, adds the number of blocks to numBlocks and returns (len p, nil).
   Further hypotheses: buffer ++ p of at most 296 MiB (the evaluator's loop bound, not a bound on the Go code);
   numBlocks + blocks <= 2^64-1. *)
Theorem C08_source_es_write_model (c : crypto)
        (Hsb : forall k n m, List.length (sb_seal c k n m) = (16 + List.length m)%nat)
        (v : version) (pk hh : bytes) (mks : list bytes) (buf out : bytes) (n : N) (p : bytes) :
  v = v1 \/ v = v2 -> mks <> [] -> (List.length (buf ++ p) <= 296 * blk)%nat ->
  (n + N.of_nat (List.length (fst (cw_write blk buf p))) <= 18446744073709551615)%N ->
  es_write c mem_enc (gst v out pk buf hh mks n) p
  = WRet (Z.of_nat (List.length p)) None
         (gst v (out ++ emit c v pk hh mks n (fst (cw_write blk buf p))) pk (snd (cw_write blk buf p)) hh mks
              (n + N.of_nat (List.length (fst (cw_write blk buf p))))).
Proof. exact (es_write_model c Hsb v pk hh mks buf out n p). Qed.

(* Close: es_close (= the translated encryptStream.Close, C01_source_encryptStream_Close) over the in-memory writer
   emits exactly the packets of the model's cw_close v 1MiB buf (V1: the last data block if any, then the empty final
   packet; V2: the single final packet), empties the buffer and returns nil.  Further hypotheses: the buffer
   discipline Write maintains — at most one block buffered, and an empty buffer only before the first packet;
   numBlocks + packets <= 2^64-1. *)
Theorem C08_source_es_close_model (c : crypto)
        (Hsb : forall k n m, List.length (sb_seal c k n m) = (16 + List.length m)%nat)
        (v : version) (pk hh : bytes) (mks : list bytes) (buf out : bytes) (n : N) :
  v = v1 \/ v = v2 -> mks <> [] -> (List.length buf <= blk)%nat -> (buf <> [] \/ n = 0%N) ->
  (n + N.of_nat (List.length (cw_close v blk buf)) <= 18446744073709551615)%N ->
  es_close c mem_enc (gst v out pk buf hh mks n)
  = CloseRet None (gst v (out ++ emit_plan c v pk hh mks n (cw_close v blk buf)) pk [] hh mks
                       (n + N.of_nat (List.length (cw_close v blk buf)))).
Proof. exact (es_close_model c Hsb v pk hh mks buf out n). Qed.

(* a whole session (es_session: es_write per piece, stopping at the first error, then es_close) over the in-memory
   writer leaves in the encoder, after out, exactly the bytes the model's encrypt_packets gives for cw_session of the
   pieces — the body of the model's seal_core (C08_source_es_init_model supplies the header packet before it) —
   whatever the split into pieces.  Further hypotheses: pieces of at most 295 MiB (evaluator fuel); the buffer
   discipline at the start; numBlocks + packets <= 2^64-1. *)
Theorem C08_source_es_session_model (c : crypto)
        (Hsb : forall k n m, List.length (sb_seal c k n m) = (16 + List.length m)%nat)
        (v : version) (pk hh : bytes) (mks : list bytes) :
  v = v1 \/ v = v2 -> mks <> [] ->
  forall (pieces : list bytes) (buf out : bytes) (n : N),
  Forall (fun p : bytes => (List.length p <= 295 * blk)%nat) pieces ->
  (List.length buf <= blk)%nat -> (buf <> [] \/ n = 0%N) ->
  (n + N.of_nat (List.length (cw_session v blk buf pieces)) <= 18446744073709551615)%N ->
  es_session c (gst v out pk buf hh mks n) pieces
  = CloseRet None (gst v (out ++ emit_plan c v pk hh mks n (cw_session v blk buf pieces)) pk [] hh mks
                       (n + N.of_nat (List.length (cw_session v blk buf pieces)))) /\
  encrypt_packets c v pk hh mks n (cw_session v blk buf pieces)
  = Ok (emit_plan c v pk hh mks n (cw_session v blk buf pieces)).
Proof. exact (es_session_model c Hsb v pk hh mks). Qed.
End C08_encryption_sender.

Section C08_signing_senders.   (* GoAstProofs6a.v *)
Import GoLang GoLang2 GoAstProofs GoAstProofs6a String.StringSyntax.

(* makeSignatureBlock builds the model's packet: the block object it returns (C05_source_makeSignatureBlock) is
   written by go-codec (as_packet) as the model's mv_sig_block v sig (MBin chunk) final exactly when
   known_version v, and it panics (None) exactly when the version is unknown.  No hypothesis. *)
Theorem C08_source_mk_sig_block_model (v : version) (sig chunk : bytes) (final : bool) :
  match mk_sig_block v (VBytes sig) (VBytes chunk) final with
  | Some b => known_version v = true /\ as_packet b = Some (mv_sig_block v sig (MBin chunk) final)
  | None => known_version v = false
  end.
Proof. exact (mk_sig_block_model v sig chunk final). Qed.

(* one signBlock on the in-memory writer = one packet of the model's sign_packets appended to out, seqno+1, the
   rest of the buffer kept; where the model reports its Panic 3/4 (no signature input / bad chunk state) signBlock
   is stuck at the panicking callee.  sas_block_from st final ch rest is signBlock after `chunk :=
   s.buffer.Next(1 MiB)` took ch and left rest.  Hypotheses: the encoder object is VBytes out; the read check
   checkSignBlockRead holds (Write / Close establish it); seqno+1 < 2^64. *)
Theorem C08_source_sas_block_from_model (c : crypto) (st : sas_state) (out : bytes) (final : bool) (ch rest : bytes) :
  sas_enc st = VBytes out ->
  read_ok (sas_v st) final 1048576 (Z.of_nat (List.length ch)) (Z.of_nat (List.length rest)) = true ->
  (sas_seq st + 1 < two64)%N ->
  match sign_packets c (sas_v st) (sas_sk st) (sas_hh st) (sas_seq st) [(ch, final)] with
  | Ok body => sas_block_from c mem_enc st final ch rest
               = BRet None (mkSas (sas_v st) (sas_hh st) (VBytes (out ++ body)) (sas_sk st) rest (sas_seq st + 1))
  | Err _ => exists w, sas_block_from c mem_enc st final ch rest = BStuck w
  end.
Proof. exact (sas_block_from_model c st out final ch rest). Qed.

(* Write on the in-memory writer flushes exactly the blocks of the model's chunker, fst (cw_write 1MiB buf p), each
   signed as sign_packets signs a non-final chunk from seqno on (which cannot fail here), and leaves
   snd (cw_write ..) buffered; it returns (len p, nil).  Hypotheses: known_version (checked by the constructor);
   encoder = VBytes out; the number of blocks is below the evaluator's loop bound F; seqno + blocks < 2^64. *)
Theorem C08_source_sas_write_model (c : crypto) (st : sas_state) (out p : bytes) (F : nat) :
  known_version (sas_v st) = true -> sas_enc st = VBytes out ->
  let bs := fst (cw_write blk (sas_buf st) p) in
  let buf' := snd (cw_write blk (sas_buf st) p) in
  (List.length bs < F)%nat -> (sas_seq st + N.of_nat (List.length bs) < two64)%N ->
  exists body, sign_packets c (sas_v st) (sas_sk st) (sas_hh st) (sas_seq st) (nonfinal6 bs) = Ok body /\
    sas_write c mem_enc F st p
    = WRet (Z.of_nat (List.length p)) None
           (mkSas (sas_v st) (sas_hh st) (VBytes (out ++ body)) (sas_sk st) buf' (sas_seq st + N.of_nat (List.length bs))).
Proof. exact (sas_write_model c st out p F). Qed.

(* Close on the in-memory writer writes sign_packets (cw_close v 1MiB buf) — the model's final packet(s) — and
   empties the buffer; where the model reports a panic (V2, empty final chunk after packet 0) Close is
   CloseStuck "call".  Hypotheses: known_version; encoder = VBytes out; at most 1 MiB buffered (what every Write
   leaves: cw_write_bounded); seqno + 2 < 2^64. *)
Theorem C08_source_sas_close_model (c : crypto) (st : sas_state) (out : bytes) :
  known_version (sas_v st) = true -> sas_enc st = VBytes out ->
  (List.length (sas_buf st) <= blk)%nat -> (sas_seq st + 2 < two64)%N ->
  let pk := cw_close (sas_v st) blk (sas_buf st) in
  match sign_packets c (sas_v st) (sas_sk st) (sas_hh st) (sas_seq st) pk with
  | Ok body => sas_close c mem_enc st
               = CloseRet None (mkSas (sas_v st) (sas_hh st) (VBytes (out ++ body)) (sas_sk st) []
                                      (sas_seq st + N.of_nat (List.length pk)))
  | Err _ => sas_close c mem_enc st = CloseStuck "call"
  end.
Proof. exact (sas_close_model c st out). Qed.

(* a whole attached-signature session (sas_session F: the constructor sas_new on the empty in-memory writer with
   the randomness r, one sas_write F per piece, sas_close; Some out = the bytes finally in the writer) writes
   exactly the bytes of the model's sign_attached_stream.  Hypotheses: the model succeeds with outb; the number of
   packets is below the evaluator's loop bound F (297 at the fuel of run_func2); packets + 2 < 2^64. *)
Theorem C08_source_sas_session_model (c : crypto) (F : nat) (v : version) (sk : bytes) (pieces : list bytes)
        (r r' : rng) (outb : bytes) :
  sign_attached_stream c v sk pieces r = Ok (outb, r') ->
  (List.length (cw_session v sig_block_size [] pieces) < F)%nat ->
  (N.of_nat (List.length (cw_session v sig_block_size [] pieces)) + 2 < two64)%N ->
  sas_session c F v sk pieces r = Some outb.
Proof. exact (sas_session_model c F v sk pieces r r' outb). Qed.

(* the detached signer: the constructor sds_new on the empty in-memory writer, a Write per piece (each appends to
   the digest state: C07_source_signDetachedStream_Write), then the packet Close hands the encoder
   (C07_source_signDetachedStream_Close) leave in the writer exactly the bytes of the model's sign_detached on the
   concatenated pieces.  Hypothesis: the model succeeds with outb. *)
Theorem C08_source_sds_session_model (c : crypto) (v : version) (sk : bytes) (pieces : list bytes) (r r' : rng) (outb : bytes) :
  sign_detached c v sk (concat pieces) r = Ok (outb, r') ->
  exists st0, sds_new c mem_enc v (VBytes []) (Some sk) r = ORet [g_sds st0; VNil] /\
    let stN := fold_left (fun st p => mkSds (sds_enc st) (sds_sk st) (sds_hashed st ++ p)) pieces st0 in
    let sig := ed_sign c (sds_sk stN) (detached_sig_input_from_hash (sha512 c (sds_hashed stN))) in
    mem_enc (sds_enc stN) (mp_encode (MBin sig)) = (VBytes outb, None).
Proof. exact (sds_session_model c v sk pieces r r' outb). Qed.
End C08_signing_senders.

Section C08_signcryption_sender.   (* GoAstProofs6b.v *)
Import GoLang GoLang2 GoAstProofs ChunkerProofs GoAstProofs6b String.StringSyntax.

(* signcryptBlock is ONE STEP of the model's signcrypt_packets, for every writer enc_step: panic iff isFinal and
   bytes remain; ErrPacketOverflow where the model says so; else the model's packet of that step is handed to the
   encoder and the counter incremented — the assertion assertEncodedChunkState never fires.  Hypotheses: Hsb, Hsig
   = NaCl's and ed25519's lengths (crypto_ok.ok_sb_len, ok_sig_len: a secretbox is 16 bytes longer than its
   plaintext, a signature is 64 bytes); a Version-2 stream (newSigncryptSealStream sets Version2()).
   [overflow] is the Go error value ErrPacketOverflow (no arguments). *)
Theorem C08_source_sss_block_model (c : crypto)
        (Hsb : forall k n m, List.length (sb_seal c k n m) = (16 + List.length m)%nat)
        (Hsig : forall s m, List.length (ed_sign c s m) = 64%nat)
        (enc_step : gval -> bytes -> gval * gerr) (st : sss_state) (final : bool) :
  vmaj (ss_v st) = 2%Z ->
  sss_block c enc_step st final =
  let pt := firstn blk (ss_buf st) in
  let rest := skipn blk (ss_buf st) in
  if (final && negb (Z.of_nat (List.length rest) =? 0)%Z)%bool then BPanic
  else match signcrypt_packets c (ss_signer st) (ss_key st) (ss_hh st) (ss_n st) [(pt, final)] with
       | Err _ => BRet overflow (set_buf st rest)
       | Ok packet =>
         let r := enc_step (ss_enc st) packet in
         match snd r with
         | Some e => BRet (Some e) (set_enc (set_buf st rest) (fst r))
         | None => BRet None (set_n (set_enc (set_buf st rest) (fst r)) (ss_n st + 1))
         end
       end.
Proof. exact (sss_block_model c Hsb Hsig enc_step st final). Qed.

(* Write over the in-memory writer: the non-final blocks the model's cw_write emits are signcrypted as
   signcrypt_packets does and appended to the output; cw_write's remainder stays buffered (st_after st out' buf' n'
   = st with encoder VBytes out', buffer buf', counter n'); if the model overflows the packet counter, Write
   returns (0, ErrPacketOverflow) and stores it in sss.err.  Hypotheses: Hsb, Hsig as above; Version 2; encoder =
   VBytes out; no sticky error; buffer ++ p of at most 296 MiB (the evaluator's loop bound). *)
Theorem C08_source_sss_write_model (c : crypto)
        (Hsb : forall k n m, List.length (sb_seal c k n m) = (16 + List.length m)%nat)
        (Hsig : forall s m, List.length (ed_sign c s m) = 64%nat)
        (st : sss_state) (out p : bytes) :
  vmaj (ss_v st) = 2%Z -> ss_enc st = VBytes out -> ss_err st = None ->
  (List.length (ss_buf st ++ p) <= 296 * blk)%nat ->
  let blocks := fst (cw_write enc_block_size (ss_buf st) p) in
  let buf' := snd (cw_write enc_block_size (ss_buf st) p) in
  match signcrypt_packets c (ss_signer st) (ss_key st) (ss_hh st) (ss_n st) (nonfinal blocks) with
  | Ok body => sss_write c mem_enc st p
               = WRet (Z.of_nat (List.length p)) None (st_after st (out ++ body) buf' (ss_n st + N.of_nat (List.length blocks)))
  | Err _ => exists st', sss_write c mem_enc st p = WRet 0 overflow st' /\ ss_err st' = overflow
  end.
Proof. exact (sss_write_model c Hsb Hsig st out p). Qed.

(* Close over the in-memory writer, on a buffer of at most one block (what Write leaves: cw_write_bounded): the
   final packet of the model's cw_close, signcrypted as the model does, is appended and the buffer emptied; or
   ErrPacketOverflow where the model says so.  Hypotheses: Hsb, Hsig; Version 2; encoder = VBytes out; at most
   1 MiB buffered. *)
Theorem C08_source_sss_close_model (c : crypto)
        (Hsb : forall k n m, List.length (sb_seal c k n m) = (16 + List.length m)%nat)
        (Hsig : forall s m, List.length (ed_sign c s m) = 64%nat)
        (st : sss_state) (out : bytes) :
  vmaj (ss_v st) = 2%Z -> ss_enc st = VBytes out ->
  (List.length (ss_buf st) <= blk)%nat ->
  match signcrypt_packets c (ss_signer st) (ss_key st) (ss_hh st) (ss_n st) (cw_close v2 enc_block_size (ss_buf st)) with
  | Ok body => sss_close c mem_enc st = CloseRet None (st_after st (out ++ body) [] (ss_n st + 1))
  | Err _ => sss_close c mem_enc st = CloseRet overflow (set_buf st [])
  end.
Proof. exact (sss_close_model c Hsb Hsig st out). Qed.

(* a whole session (sss_session: sss_write per piece, stopping at the first error, then sss_close) over the in-memory
   writer emits exactly the packets the model's sender emits for cw_session (the plan signcrypt_core runs
   signcrypt_packets on), whatever the split into pieces.  Hypotheses: Hsb, Hsig; Version 2; encoder = VBytes out;
   no sticky error; at most one block buffered at the start; pieces of at most 295 MiB (evaluator fuel). *)
Theorem C08_source_sss_session_model (c : crypto)
        (Hsb : forall k n m, List.length (sb_seal c k n m) = (16 + List.length m)%nat)
        (Hsig : forall s m, List.length (ed_sign c s m) = 64%nat)
        (pieces : list bytes) (st : sss_state) (out : bytes) :
  vmaj (ss_v st) = 2%Z -> ss_enc st = VBytes out -> ss_err st = None ->
  (List.length (ss_buf st) <= blk)%nat ->
  Forall (fun p : bytes => (List.length p <= 295 * blk)%nat) pieces ->
  match signcrypt_packets c (ss_signer st) (ss_key st) (ss_hh st) (ss_n st) (cw_session v2 enc_block_size (ss_buf st) pieces) with
  | Ok body => sss_session c mem_enc st pieces
               = CloseRet None (st_after st (out ++ body) []
                                 (ss_n st + N.of_nat (List.length (cw_session v2 enc_block_size (ss_buf st) pieces))))
  | Err _ => exists st', sss_session c mem_enc st pieces = CloseRet overflow st'
  end.
Proof. exact (sss_session_model c Hsb Hsig pieces st out). Qed.

(* the model's signcrypt_core with its header NAMED as init builds it: sc_header_go c v2 signer eph_sk key rs is
   the header of sss_init (C03_source_signcryptSealStream_init), sc_sender_pub_go the signer's public key or 32
   zero bytes; same sender-key length check (the model's Panic 10 = init's panic), then the header packet followed
   by signcrypt_packets over cw_session of the pieces.  No hypothesis. *)
Theorem C08_source_signcrypt_core_go (c : crypto) (signer : option bytes) (eph_sk key : bytes) (rs : list sc_rcpt)
        (pieces : list bytes) :
  signcrypt_core c signer eph_sk key rs pieces =
  if negb (Nat.eqb (List.length (sc_sender_pub_go c signer)) 32) then Err (Panic 10)
  else bind (signcrypt_packets c signer key (sha512 c (sc_header_go c v2 signer eph_sk key rs)) 0
               (cw_session v2 enc_block_size [] pieces))
         (fun body => Ok (mp_encode (MBin (sc_header_go c v2 signer eph_sk key rs)) ++ body)).
Proof. exact (signcrypt_core_go c signer eph_sk key rs pieces). Qed.

(* init (sss_init, i.e. the translated init), then Write*, then Close over the in-memory writer on a fresh
   Version-2 stream object write exactly the bytes of the model's signcrypt_core on the three draws; the model's
   panic (bad signing key length) is init's panic; where the model overflows, the session ends with
   ErrPacketOverflow.  Hypotheses: Hsb, Hsig; the fresh object (v2, empty output, no error, empty buffer, counter
   0); the receivers check and the three draws (shuffle from ra, ephemeral key from rb, payload key from rk)
   succeed; pieces of at most 295 MiB (evaluator fuel). *)
Theorem C08_source_sss_seal_core (c : crypto)
        (Hsb : forall k n m, List.length (sb_seal c k n m) = (16 + List.length m)%nat)
        (Hsig : forall s m, List.length (ed_sign c s m) = 64%nat)
        (st : sss_state) (boxes : list bytes) (syms : list (bytes * bytes)) (ra rk rb : bytes)
        (rs : list sc_rcpt) (ra1 eph_sk rb1 key rk1 : bytes) (pieces : list bytes) :
  ss_v st = v2 -> ss_enc st = VBytes [] -> ss_err st = None -> ss_buf st = [] -> ss_n st = 0%N ->
  sc_check_receivers boxes syms = Ok tt ->
  shuffle (all_rcpts boxes syms) ra = Some (rs, ra1) ->
  read_full 32 rb = Some (eph_sk, rb1) ->
  read_full 32 rk = Some (key, rk1) ->
  Forall (fun p : bytes => (List.length p <= 295 * blk)%nat) pieces ->
  match signcrypt_core c (ss_signer st) eph_sk key rs pieces with
  | Ok out =>
    exists st1, sss_init c mem_enc st boxes syms ra rk rb = IRet None st1 ra1 rk1 rb1 /\
    exists st2, sss_session c mem_enc st1 pieces = CloseRet None st2 /\ ss_enc st2 = VBytes out /\ ss_buf st2 = []
  | Err (Panic _) => sss_init c mem_enc st boxes syms ra rk rb = IPanic
  | Err _ =>
    exists st1, sss_init c mem_enc st boxes syms ra rk rb = IRet None st1 ra1 rk1 rb1 /\
    exists st2, sss_session c mem_enc st1 pieces = CloseRet overflow st2
  end.
Proof. exact (sss_seal_core c Hsb Hsig st boxes syms ra rk rb rs ra1 eph_sk rb1 key rk1 pieces). Qed.
End C08_signcryption_sender.

Print Assumptions C08_source_es_init_model.
Print Assumptions C08_source_es_write_model.
Print Assumptions C08_source_es_close_model.
Print Assumptions C08_source_es_session_model.
Print Assumptions C08_source_mk_sig_block_model.
Print Assumptions C08_source_sas_block_from_model.
Print Assumptions C08_source_sas_write_model.
Print Assumptions C08_source_sas_close_model.
Print Assumptions C08_source_sas_session_model.
Print Assumptions C08_source_sds_session_model.
Print Assumptions C08_source_sss_block_model.
Print Assumptions C08_source_sss_write_model.
Print Assumptions C08_source_sss_close_model.
Print Assumptions C08_source_sss_session_model.
Print Assumptions C08_source_signcrypt_core_go.
Print Assumptions C08_source_sss_seal_core.
Print Assumptions C08_constants_conform.
Print Assumptions C08_chunking_allowed.
Print Assumptions C08_encryption_conforms.
Print Assumptions C08_attached_conforms.
Print Assumptions C08_detached_conforms.
Print Assumptions C08_signcryption_conforms.
