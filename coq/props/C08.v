(* C08 — Everything the library emits is the wire format the specification defines.
   The implementation model (coq/model, constants regenerated from /repo) equals,
   byte for byte, the specification model (coq/spec/Spec.v, literals copied from
   specs/*.md) instantiated with the library's parameters: full 1 MiB chunks,
   minor version 0, no extra fields.  Only property theorems here. *)
From Coq Require Import List NArith ZArith.
From Coq.Strings Require Import Byte.
From SP Require Import Bytes Params Msgpack Crypto Errors Nonce Packets Chunker Rand Sign Verify Encrypt Decrypt Signcrypt Spec
     ConformProofs.
Import ListNotations.
Open Scope N_scope.

(* every string, number and nonce constructor the senders use is the specification's literal *)
Theorem C08_constants_conform :
  format_name = S_format_name /\
  nonce_sender_key_sbox = S_nonce_sender_key /\
  nonce_derived_shared_key = S_nonce_derived /\
  (forall i, nonce_payload_key_box v1 i = Some S_nonce_payload_key_v1) /\
  (forall i, nonce_payload_key_box v2 i = Some (S_nonce_recip_prefix ++ be64 i)) /\
  (forall i, nonce_chunk_secretbox i = S_nonce_payload_prefix ++ be64 i) /\
  (forall hh f i, nonce_chunk_signcryption hh f i = S_hash_nonce hh f i) /\
  (forall hh f i, nonce_mac_key_box_v2 hh f i = S_hash_nonce hh f i) /\
  sig_attached_prefix = S_attached_prefix /\ sig_detached_prefix = S_detached_prefix /\
  sig_encrypted_prefix = S_encrypted_prefix /\
  signcryption_boxkey_id_context = S_box_id_key /\ signcryption_symkey_context = S_sym_key_key /\
  mt_encryption = S_mode_encryption /\ mt_attached = S_mode_attached /\
  mt_detached = S_mode_detached /\ mt_signcryption = S_mode_signcryption /\
  enc_block_size = S_max_chunk /\ sig_block_size = S_max_chunk /\
  v1 = mkV 1 0 /\ v2 = mkV 2 0.
Proof. exact constants_conform. Qed.

(* the library's chunking is one the specification allows: 1 byte .. 1 MiB per chunk,
   the final marker on the last packet only (S_packets), the empty message as the
   single empty chunk (V2) / just the terminator (V1) *)
Theorem C08_chunking_allowed (v : version) (msg : bytes) :
  v = v1 \/ v = v2 -> S_chunks_ok (vmaj v) (canon_chunks v enc_block_size msg).
Proof. exact (canon_chunks_ok v msg). Qed.

Theorem C08_encryption_conforms (c : crypto) (Hc : crypto_ok c) (v : version) (sender : option bytes)
        (eph_sk pkey : bytes) (rs : list rcpt) (pieces : list bytes) (out : bytes) :
  v = v1 \/ v = v2 ->
  seal_core c v sender eph_sk pkey rs pieces = Ok out ->
  out = S_encode_encryption c (canon_enc v sender eph_sk pkey rs (concat pieces)).
Proof. exact (encryption_conforms c Hc v sender eph_sk pkey rs pieces out). Qed.

Theorem C08_attached_conforms (c : crypto) (v : version) (sk : bytes) (pieces : list bytes) (r r' : rng) (out : bytes) :
  v = v1 \/ v = v2 ->
  sign_attached_stream c v sk pieces r = Ok (out, r') ->
  out = S_encode_attached c (canon_sig v sk (firstn 16 r) (concat pieces)).
Proof. exact (attached_conforms c v sk pieces r r' out). Qed.

Theorem C08_detached_conforms (c : crypto) (v : version) (sk msg : bytes) (r r' : rng) (out : bytes) :
  v = v1 \/ v = v2 ->
  sign_detached c v sk msg r = Ok (out, r') ->
  out = S_encode_detached c (canon_sig v sk (firstn 16 r) msg).
Proof. exact (detached_conforms c v sk msg r r' out). Qed.

Theorem C08_signcryption_conforms (c : crypto) (signer : option bytes) (eph_sk pkey : bytes) (rs : list sc_rcpt)
        (pieces : list bytes) (out : bytes) :
  signcrypt_core c signer eph_sk pkey rs pieces = Ok out ->
  out = S_encode_signcryption c (canon_sc signer eph_sk pkey rs (concat pieces)).
Proof. exact (signcryption_conforms c signer eph_sk pkey rs pieces out). Qed.

(* KNOWN FINDING (known_findings.txt, key spec-sig-header-nonce-16-bytes): the
   specification says the signature header nonce is 32 random bytes; the library
   draws 16.  The conformance theorems above are therefore stated with the nonce
   the library draws; this theorem records the deviation. *)
Theorem C08_sig_nonce_is_16_bytes_refutes_32 (c : crypto) (v : version) (sk : bytes) (pieces : list bytes) (r r' : rng) (out : bytes) :
  sign_attached_stream c v sk pieces r = Ok (out, r') -> length (firstn 16 r) = 16%nat.
Proof. exact (sig_nonce_is_16_bytes c v sk pieces r r' out). Qed.

Print Assumptions C08_constants_conform.
Print Assumptions C08_chunking_allowed.
Print Assumptions C08_encryption_conforms.
Print Assumptions C08_attached_conforms.
Print Assumptions C08_detached_conforms.
Print Assumptions C08_signcryption_conforms.
