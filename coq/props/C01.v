(* C01 — Encryption round trip: every recipient recovers the exact plaintext and sender.
   Only property theorems, each closed by `exact` of a lemma from proofs/. *)
From Coq Require Import List NArith ZArith Permutation.
From Coq.Strings Require Import Byte.
From SP Require Import Bytes Params Msgpack Crypto Errors Packets Chunker Rand Verify Encrypt Decrypt EncryptProofs.
From SP Require Import BaseX Encodings Armor ArmorProofs ArmoredForms.
From SP Require Import GoLang GoLang2 GoAst GoAstProofs GoAstProofs2 GoAstProofs3.
From SP Require Import GoAstRecv.
From SP Require Import GoAstSend GoAstProofs5a.
From Coq Require String.
Import String.StringSyntax.
Import ListNotations.
Open Scope N_scope.

Section C01.
Variable c : crypto.
Hypothesis Hc : crypto_ok c.        (* functional correctness of NaCl (trusted base) *)

(* The sender is: version and recipient checks, then the draws (shuffle, 32-byte
   ephemeral secret, 32-byte payload key) and [seal_core] on a permutation [rs] of
   the caller's recipients; the recipients are pairwise distinct. *)
Theorem C01_sender_structure (v : version) (sender : option bytes) (rcpts : list rcpt)
        (pieces : list bytes) (r r' : rng) (out : bytes) :
  seal_stream c v sender rcpts pieces r = Ok (out, r') ->
  (v = v1 \/ v = v2) /\ NoDup (map fst rcpts) /\ rcpts <> [] /\
  N.of_nat (length rcpts) < 4294967296 /\
  exists rs r1 eph_sk pkey,
    shuffle rcpts r = Some (rs, r1) /\ Permutation rcpts rs /\
    eph_sk = firstn 32 r1 /\ pkey = firstn 32 (skipn 32 r1) /\ r' = skipn 64 r1 /\
    (64 <= length r1)%nat /\
    seal_core c v sender eph_sk pkey rs pieces = Ok out.
Proof. exact (seal_stream_core c v sender rcpts pieces r r' out). Qed.

(* Every plaintext (any length, any Write split), version 1 or 2, named or
   anonymous sender, pairwise distinct recipients in any visible/hidden pattern,
   EVERY position i of the shuffled list: the holder of that recipient key opens
   the message — streaming and all-at-once, under either shipped validator — to
   exactly the plaintext, the true sender key (or the anonymous flag and the
   ephemeral key), its own key and its hidden flag.
   The alternative is concrete: some OTHER recipient's payload-key box of this
   very message opens under this recipient's shared key (a secretbox forgery or a
   Curve25519 collision; trial decryption of hidden recipients cannot exclude it
   from functional correctness alone).
   Side condition: the encoded header is shorter than 4 GiB (MessagePack bin32);
   [C01_header_fits] discharges it for up to 40 000 000 recipients. *)
Theorem C01_roundtrip (v : version) (sender : option bytes) (eph_sk pkey : bytes)
        (rs : list rcpt) (pieces : list bytes) (out : bytes) (sk : bytes) (hide : bool) (i : nat)
        (vd : validator) :
  v = v1 \/ v = v2 -> good_validator_e vd v ->
  length pkey = 32%nat ->
  NoDup (map fst rs) -> N.of_nat (length rs) < 4294967296 ->
  len (enc_header_bytes c v sender eph_sk pkey rs) < 4294967296 ->
  seal_core c v sender eph_sk pkey rs pieces = Ok out ->
  nth_error rs i = Some (dh_pub c sk, hide) ->
  (forall s, sender = Some s -> dh_pub c s <> dh_pub c eph_sk) ->
  let kr := mkRing [(sk, dh_pub c sk)] None in
  (exists m chunks,
      open_stream c vd kr out = Ok (m, mkOut chunks EOF) /\
      concat chunks = concat pieces /\
      mki_sender m = dh_pub c (match sender with Some s => s | None => eph_sk end) /\
      mki_sender_anon m = (match sender with Some _ => false | None => true end) /\
      mki_receiver m = dh_pub c sk /\
      mki_receiver_anon m = hide /\
      open_all c vd kr out = Ok (m, concat pieces))
  \/ ForeignBoxOpens c v eph_sk pkey (dh_pub c sk) rs.
Proof. exact (seal_core_open_roundtrip_strong c Hc v sender eph_sk pkey rs pieces out sk hide i vd). Qed.

(* A keyring holding none of the recipient keys gets the no-decryption-key error and no plaintext. *)
Theorem C01_no_key (v : version) (sender : option bytes) (eph_sk pkey : bytes)
        (rs : list rcpt) (pieces : list bytes) (out : bytes) (sk : bytes) (vd : validator) :
  v = v1 \/ v = v2 -> good_validator_e vd v ->
  length pkey = 32%nat -> N.of_nat (length rs) < 4294967296 ->
  len (enc_header_bytes c v sender eph_sk pkey rs) < 4294967296 ->
  seal_core c v sender eph_sk pkey rs pieces = Ok out ->
  ~ In (dh_pub c sk) (map fst rs) ->
  let kr := mkRing [(sk, dh_pub c sk)] None in
  (open_stream c vd kr out = Err ErrNoDecryptionKey /\ open_all c vd kr out = Err ErrNoDecryptionKey)
  \/ ForeignBoxOpens c v eph_sk pkey (dh_pub c sk) rs.
Proof. exact (seal_core_open_stranger_strong c Hc v sender eph_sk pkey rs pieces out sk vd). Qed.

Theorem C01_header_fits (v : version) (sender : option bytes) (eph_sk pkey : bytes) (rs : list rcpt) :
  length pkey = 32%nat ->
  Forall (fun r => (length (fst r) <= 32)%nat) rs ->
  N.of_nat (length rs) <= 40000000 ->
  len (enc_header_bytes c v sender eph_sk pkey rs) < 4294967296.
Proof. exact (enc_header_fits c Hc v sender eph_sk pkey rs). Qed.

(* Streaming and one-shot senders emit the same bytes. *)
Theorem C01_forms_agree (v : version) (sender : option bytes) (rcpts : list rcpt)
        (pieces : list bytes) (r : rng) :
  seal_stream c v sender rcpts pieces r = seal c v sender rcpts (concat pieces) r.
Proof. exact (seal_stream_oneshot c v sender rcpts pieces r). Qed.
End C01.

(* BINARY AND ARMORED FORMS AGREE: the armored all-at-once entry point is the binary one composed
   with dearmoring; on the armored form of ANY binary message (genuine or not) it returns exactly
   what the binary entry point returns on that message, plus the brand — also after re-flowing the armored text. *)
Theorem C01_armored_form_agrees (c : crypto) (vd : validator) (kr : keyring) (wire brand : bytes) :
  brand_ok brand ->
  dearmor62_decrypt_open c vd kr (armor62_seal wire mt_encryption brand) =
  bind (open_all c vd kr wire) (fun r => Ok (fst r, snd r, brand)).
Proof. exact (armored_decrypt_agrees c vd kr wire brand). Qed.

Theorem C01_armored_form_agrees_reflow (c : crypto) (vd : validator) (kr : keyring) (wire brand H' B' F' T' : bytes) :
  brand_ok brand ->
  let chars := BaseX.encode base62 wire in
  frame_reflow (make_frame header_marker mt_encryption brand) H' ->
  ws_ins (space_words (S (length chars)) chars 0) B' ->
  frame_reflow (make_frame footer_marker mt_encryption brand) F' ->
  forallb is_frame_ws T' = true ->
  dearmor62_decrypt_open c vd kr (H' ++ [dot] ++ B' ++ [dot] ++ F' ++ [dot] ++ T') =
  bind (open_all c vd kr wire) (fun r => Ok (fst r, snd r, brand)).
Proof. exact (armored_decrypt_agrees_reflow c vd kr wire brand H' B' F' T'). Qed.

(* SOURCE TIE (stateful functions): the terms f_saltpack_decryptStream_* are generated on every run from
   the Go syntax trees of /repo's decryptStream.processHeader, tryVisibleReceivers and
   tryHiddenReceivers (harness/cmd/gen/goast.go).  Under the extended Go semantics of model/GoLang2.v
   (field/map/element assignment, loops with break/continue, the receiver object's final state), with
   the keyring, key objects, version validator and NaCl primitives interpreted by ext_keyring /
   ext_process over the crypto record and the model's keyring, they compute exactly what the model's
   receiver does with a header — for ALL headers, keyrings and validators admitting majors 1/2:
   the same error class, and on success the same MessageKeyInfo (sender, receiver key, hidden flag,
   named receivers, number of anonymous receivers) and decryption state (payload key, MAC key,
   position) left in the decryptStream object. *)
Theorem C01_source_processHeader (c : crypto) (vd : validator) (kr : keyring) (hh : bytes) (h : header) :
  (forall v, validate_version vd v = true -> (vmaj v = 1 \/ vmaj v = 2)%Z) ->
  (N.of_nat (List.length (h_rcvs h)) < 4294967296)%N ->
  let r := run_func2 (ext_process c vd kr) f_saltpack_decryptStream_processHeader [g_ds0 hh; g_enc_header h] in
  match process_enc_header c vd kr hh h with
  | Err e => g_hdr_err (fst r) = Some e
  | Ok (m, st) =>
    fst r = ORet [VNil] /\
    exists ds', lookup "ds" (snd r) = Some ds' /\ read_ds ds' = Some (m, st)
  end.
Proof. exact (go_decrypt_processHeader c vd kr hh h). Qed.

Theorem C01_source_tryHiddenReceivers (c : crypto) (vd : validator) (kr : keyring) (hh : bytes) (h : header) :
  (vmaj (h_version h) = 1 \/ vmaj (h_version h) = 2)%Z ->
  (N.of_nat (List.length (h_rcvs h)) < 4294967296)%N ->
  let r := run_func2 (ext_keyring c vd kr) f_saltpack_decryptStream_tryHiddenReceivers
                     [g_ds0 hh; g_enc_header h; VBytes (h_a h)] in
  g_try_result (fst r) = try_hidden c (kr_keys kr) (h_version h) (h_a h) (h_rcvs h).
Proof. exact (go_tryHiddenReceivers c vd kr hh h). Qed.

Theorem C01_source_tryVisibleReceivers (c : crypto) (vd : validator) (kr : keyring) (hh : bytes) (h : header) :
  (vmaj (h_version h) = 1 \/ vmaj (h_version h) = 2)%Z ->
  (N.of_nat (List.length (h_rcvs h)) < 4294967296)%N ->
  let r := run_func2 (ext_keyring c vd kr) f_saltpack_decryptStream_tryVisibleReceivers
                     [g_ds0 hh; g_enc_header h; VBytes (h_a h)] in
  g_try_result (fst r) = try_visible c kr (h_version h) (h_a h) (h_rcvs h).
Proof. exact (fun Hv Hl => proj1 (go_tryVisibleReceivers c vd kr hh h Hv Hl)). Qed.

(* ---- source ties: the encryption SENDER (/repo/encrypt.go), lemmas of proofs/GoAstProofs5a.v ---- *)
(* The terms f_saltpack_checkEncryptReceivers and f_saltpack_encryptStream_{encryptBlock,Write,Close,init} are
   generated on every run from the Go syntax trees of /repo/encrypt.go (gen/GoAstSend.v) and evaluated with
   run_func2 of model/GoLang2.v (outcome AND final environment).  The *encryptStream object is [g_es st] for a
   record st : es_state (version, encoder, payloadKey, unread bytes of es.buffer, headerHash, macKeys, numBlocks,
   err); a BoxPublicKey is [g_rcpt (kid, hide)].  `encoder.Encode(x)` is interpreted by an ARBITRARY function
   enc_step : what presenting the MessagePack bytes of x to the encoder object does to that object, and the error
   (nil or not) it returns — so the theorems hold for every writer, failing or not.  A Go error value is
   [g_errv e] with e : gerr = None (nil) or Some (name, arguments).  The specification functions es_block,
   es_write, es_close, es_init are defined in GoAstProofs5a.v: the model's pieces (model/Encrypt.v, Chunker.v,
   Rand.v) put in the order the code runs them. *)

(* checkEncryptReceivers(receivers) returns nil / ErrBadReceivers / ErrRepeatedKey(kid) exactly as the model's
   check_receivers says, kid being the first key id (in list order) equal to an earlier one (first_dup).
   No hypothesis: every list of receivers. *)
Theorem C01_source_checkEncryptReceivers (rcpts : list rcpt) :
  fst (run_func2 ext_rcpt f_saltpack_checkEncryptReceivers [VList (map g_rcpt rcpts)])
  = match check_receivers rcpts with
    | Ok _ => ORet [VNil]
    | Err ErrRepeatedKey =>
      ORet [VErr "ErrRepeatedKey"
                 [VBytes (match first_dup (map fst rcpts) with Some k => k | None => [] end)]]
    | Err _ => ORet [VErr "ErrBadReceivers" []]
    end.
Proof. exact (go_checkEncryptReceivers rcpts). Qed.

(* es.encryptBlock(isFinal) = es_block: takes min(1 MiB, len) bytes off the buffer; the evaluator is stuck at the
   call (BStuck "extern") exactly when checkEncryptBlockRead or assertEncodedChunkState panics; ErrPacketOverflow
   (buffer already consumed) iff numBlocks = 2^64-1; else the packet mp_encode [final?, authenticators,
   secretbox(payloadKey, nonce(numBlocks), plaintext)], authenticator_i = HMAC(macKey_i, payload hash), is
   presented to the encoder, whose error is returned, and on nil numBlocks is incremented.  The returned error
   value AND the receiver object left in `es`.  No hypothesis: any crypto record c, any writer enc_step, any
   state st (any version, key lists, numBlocks), either value of isFinal. *)
Theorem C01_source_encryptBlock (c : crypto) (enc_step : gval -> bytes -> gval * gerr) (st : es_state) (final : bool) :
  let r := run_func2 (ext_block c enc_step) f_saltpack_encryptStream_encryptBlock [g_es st; VBool final] in
  match es_block c enc_step st final with
  | BStuck w => fst r = OStuck w
  | BRet e st' => fst r = ORet [g_errv e] /\ lookup "es" (snd r) = Some (g_es st')
  end.
Proof. exact (go_encryptBlock c enc_step st final). Qed.

(* es.Write(p) = es_write: a stored error is returned again with 0; else p is appended to the buffer and, while
   more than 1 MiB is buffered, encryptBlock(false) runs (with the meaning C01_source_encryptBlock proves); an
   error is stored in es.err and returned with 0; else (len p, nil).  Both results AND the receiver object.
   No hypothesis; the evaluator's loop bound is part of es_write (es_drain 296): WStuck "loop fuel" when a single
   Write would flush more than 295 blocks, WStuck "call" when encryptBlock has no value. *)
Theorem C01_source_encryptStream_Write (c : crypto) (enc_step : gval -> bytes -> gval * gerr) (st : es_state) (p : bytes) :
  let r := run_func2 (ext_stream c enc_step) f_saltpack_encryptStream_Write [g_es st; VBytes p] in
  match es_write c enc_step st p with
  | WStuck w => fst r = OStuck w
  | WRet n e st' => fst r = ORet [VInt n; g_errv e] /\ lookup "es" (snd r) = Some (g_es st')
  end.
Proof. exact (go_encryptStream_Write c enc_step st p). Qed.

(* es.Close() = es_close, for EVERY version.  Version1(): if bytes are buffered, encryptBlock(false) (its error is
   returned); panic if bytes are still buffered; then encryptBlock(true), whose error is returned.  Version2():
   encryptBlock(true), its error, or (panic if bytes are left | nil).  Any other version panics.  CloseStuck "call"
   where encryptBlock has no value.  The returned error AND the receiver object.  No hypothesis. *)
Theorem C01_source_encryptStream_Close (c : crypto) (enc_step : gval -> bytes -> gval * gerr) (st : es_state) :
  let r := run_func2 (ext_stream c enc_step) f_saltpack_encryptStream_Close [g_es st] in
  match es_close c enc_step st with
  | CloseStuck w => fst r = OStuck w
  | ClosePanic => fst r = OPanic
  | CloseRet e st' => fst r = ORet [g_errv e] /\ lookup "es" (snd r) = Some (g_es st')
  end.
Proof. exact (go_encryptStream_Close c enc_step st). Qed.

(* es.init(version, sender, receivers, ephemeralKeyCreator, rng) = es_init: ErrBadVersion, the receivers check,
   shuffle (stuck "call" for >= 2^31 receivers: csprngShuffle panics), ephemeral key, payload key (ErrRand when a
   source is short), sender secretbox, per-recipient payload key boxes in shuffled order, header bytes, header
   hash, Encode(header bytes) (its error), MAC keys.  The evaluator has no global state: ra is the source
   rng.shuffleReceivers draws from, rb the key creator's, rc rng.createSymmetricKey's; the theorem states the
   returned error, the receiver object (payloadKey, headerHash, encoder, macKeys; the other fields untouched) and
   the sources LEFT in the rng and key-creator objects, i.e. the randomness consumed.  No hypothesis. *)
Theorem C01_source_encryptStream_init (c : crypto) (enc_step : gval -> bytes -> gval * gerr) (st : es_state)
        (v : version) (sender : option bytes) (rcpts : list rcpt) (ra rb rc : rng) :
  let r := run_func2 (ext_init c enc_step) f_saltpack_encryptStream_init
                     [g_es st; g_version v; g_sender sender; VList (map g_rcpt rcpts); VBytes rb; g_rng ra rc] in
  match es_init c enc_step st v sender rcpts ra rb rc with
  | IStuck w => fst r = OStuck w
  | IRet e st' ra' rb' rc' =>
    fst r = ORet [g_errv e] /\ lookup "es" (snd r) = Some (g_es st') /\
    lookup "rng" (snd r) = Some (g_rng ra' rc') /\ lookup "ephemeralKeyCreator" (snd r) = Some (VBytes rb')
  end.
Proof. exact (go_encryptStream_init c enc_step st v sender rcpts ra rb rc). Qed.


Print Assumptions C01_source_processHeader.
Print Assumptions C01_source_checkEncryptReceivers.
Print Assumptions C01_source_encryptBlock.
Print Assumptions C01_source_encryptStream_Write.
Print Assumptions C01_source_encryptStream_Close.
Print Assumptions C01_source_encryptStream_init.
Print Assumptions C01_source_tryHiddenReceivers.
Print Assumptions C01_source_tryVisibleReceivers.
Print Assumptions C01_armored_form_agrees.
Print Assumptions C01_armored_form_agrees_reflow.
Print Assumptions C01_sender_structure.
Print Assumptions C01_roundtrip.
Print Assumptions C01_no_key.
Print Assumptions C01_header_fits.
Print Assumptions C01_forms_agree.

(* Non-vacuity on the toy instance: a hidden and a visible recipient both open a two-write message. *)
From SP Require Import ToyCrypto ToyCryptoProofs.
Example C01_ex_roundtrip :
  let sk1 := repeat x11 32 in let sk2 := repeat x22 32 in
  let rs := [(dh_pub toy_crypto sk1, true); (dh_pub toy_crypto sk2, false)] in
  match seal_core toy_crypto v2 (Some (repeat x33 32)) (repeat x44 32) (repeat x55 32) rs [[x68; x69]; [x21]] with
  | Ok out =>
    match open_all toy_crypto AnyKnownMajor (mkRing [(sk2, dh_pub toy_crypto sk2)] None) out with
    | Ok (m, pt) => Some (pt, mki_receiver_anon m, mki_sender_anon m)
    | Err _ => None
    end
  | Err _ => None
  end = Some ([x68; x69; x21], false, false).
Proof. vm_compute. reflexivity. Qed.
