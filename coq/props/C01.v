(* C01 — Encryption round trip: every recipient recovers the exact plaintext and sender.
   Only property theorems, each closed by `exact` of a lemma from proofs/. *)
From Coq Require Import List NArith ZArith Permutation.
From Coq.Strings Require Import Byte.
From SP Require Import Bytes Params Msgpack Crypto Errors Packets Chunker Rand Verify Encrypt Decrypt EncryptProofs.
From SP Require Import BaseX Encodings Armor ArmorProofs ArmoredForms.
From SP Require Import GoLang GoLang2 GoAst GoAstProofs GoAstProofs2 GoAstProofs3.
From SP Require Import GoAstRecv.
From SP Require Import GoAstSend GoAstProofs5a.
From SP Require GoAstOpen GoAstProofs4a GoAstProofs4b GoAstProofs7c.
From Coq Require String.
Import String.StringSyntax.
Import ListNotations.
Open Scope N_scope.

Section C01.
Variable c : crypto.
Hypothesis Hc : crypto_ok c.        (* functional correctness of NaCl (trusted base) *)

(* The sender is: version and recipient checks, then the draws (shuffle, 32-byte
   ephemeral secret, 32-byte payload key) and [seal_core] on a permutation [rs] of
   the caller's recipients; the recipients are pairwise distinct. *)
Theorem C01_sender_structure (v : version) (sender : option bytes) (rcpts : list rcpt)
        (pieces : list bytes) (r r' : rng) (out : bytes) :
  seal_stream c v sender rcpts pieces r = Ok (out, r') ->
  (v = v1 \/ v = v2) /\ NoDup (map fst rcpts) /\ rcpts <> [] /\
  N.of_nat (length rcpts) < 4294967296 /\
  exists rs r1 eph_sk pkey,
    shuffle rcpts r = Some (rs, r1) /\ Permutation rcpts rs /\
    eph_sk = firstn 32 r1 /\ pkey = firstn 32 (skipn 32 r1) /\ r' = skipn 64 r1 /\
    (64 <= length r1)%nat /\
    seal_core c v sender eph_sk pkey rs pieces = Ok out.
Proof. exact (seal_stream_core c v sender rcpts pieces r r' out). Qed.

(* Every plaintext (any length, any Write split), version 1 or 2, named or
   anonymous sender, pairwise distinct recipients in any visible/hidden pattern,
   EVERY position i of the shuffled list: the holder of that recipient key opens
   the message — streaming and all-at-once, under either shipped validator — to
   exactly the plaintext, the true sender key (or the anonymous flag and the
   ephemeral key), its own key and its hidden flag.
   The alternative is concrete: some OTHER recipient's payload-key box of this
   very message opens under this recipient's shared key (a secretbox forgery or a
   Curve25519 collision; trial decryption of hidden recipients cannot exclude it
   from functional correctness alone).
   Side condition: the encoded header is shorter than 4 GiB (MessagePack bin32);
   [C01_header_fits] discharges it for up to 40 000 000 recipients. *)
Theorem C01_roundtrip (v : version) (sender : option bytes) (eph_sk pkey : bytes)
        (rs : list rcpt) (pieces : list bytes) (out : bytes) (sk : bytes) (hide : bool) (i : nat)
        (vd : validator) :
  v = v1 \/ v = v2 -> good_validator_e vd v ->
  length pkey = 32%nat ->
  NoDup (map fst rs) -> N.of_nat (length rs) < 4294967296 ->
  len (enc_header_bytes c v sender eph_sk pkey rs) < 4294967296 ->
  seal_core c v sender eph_sk pkey rs pieces = Ok out ->
  nth_error rs i = Some (dh_pub c sk, hide) ->
  (forall s, sender = Some s -> dh_pub c s <> dh_pub c eph_sk) ->
  let kr := mkRing [(sk, dh_pub c sk)] None in
  (exists m chunks,
      open_stream c vd kr out = Ok (m, mkOut chunks EOF) /\
      concat chunks = concat pieces /\
      mki_sender m = dh_pub c (match sender with Some s => s | None => eph_sk end) /\
      mki_sender_anon m = (match sender with Some _ => false | None => true end) /\
      mki_receiver m = dh_pub c sk /\
      mki_receiver_anon m = hide /\
      open_all c vd kr out = Ok (m, concat pieces))
  \/ ForeignBoxOpens c v eph_sk pkey (dh_pub c sk) rs.
Proof. exact (seal_core_open_roundtrip_strong c Hc v sender eph_sk pkey rs pieces out sk hide i vd). Qed.

(* A keyring holding none of the recipient keys gets the no-decryption-key error and no plaintext. *)
Theorem C01_no_key (v : version) (sender : option bytes) (eph_sk pkey : bytes)
        (rs : list rcpt) (pieces : list bytes) (out : bytes) (sk : bytes) (vd : validator) :
  v = v1 \/ v = v2 -> good_validator_e vd v ->
  length pkey = 32%nat -> N.of_nat (length rs) < 4294967296 ->
  len (enc_header_bytes c v sender eph_sk pkey rs) < 4294967296 ->
  seal_core c v sender eph_sk pkey rs pieces = Ok out ->
  ~ In (dh_pub c sk) (map fst rs) ->
  let kr := mkRing [(sk, dh_pub c sk)] None in
  (open_stream c vd kr out = Err ErrNoDecryptionKey /\ open_all c vd kr out = Err ErrNoDecryptionKey)
  \/ ForeignBoxOpens c v eph_sk pkey (dh_pub c sk) rs.
Proof. exact (seal_core_open_stranger_strong c Hc v sender eph_sk pkey rs pieces out sk vd). Qed.

Theorem C01_header_fits (v : version) (sender : option bytes) (eph_sk pkey : bytes) (rs : list rcpt) :
  length pkey = 32%nat ->
  Forall (fun r => (length (fst r) <= 32)%nat) rs ->
  N.of_nat (length rs) <= 40000000 ->
  len (enc_header_bytes c v sender eph_sk pkey rs) < 4294967296.
Proof. exact (enc_header_fits c Hc v sender eph_sk pkey rs). Qed.

(* Streaming and one-shot senders emit the same bytes. *)
Theorem C01_forms_agree (v : version) (sender : option bytes) (rcpts : list rcpt)
        (pieces : list bytes) (r : rng) :
  seal_stream c v sender rcpts pieces r = seal c v sender rcpts (concat pieces) r.
Proof. exact (seal_stream_oneshot c v sender rcpts pieces r). Qed.
End C01.

(* BINARY AND ARMORED FORMS AGREE: the armored all-at-once entry point is the binary one composed
   with dearmoring; on the armored form of ANY binary message (genuine or not) it returns exactly
   what the binary entry point returns on that message, plus the brand — also after re-flowing the armored text. *)
Theorem C01_armored_form_agrees (c : crypto) (vd : validator) (kr : keyring) (wire brand : bytes) :
  brand_ok brand ->
  dearmor62_decrypt_open c vd kr (armor62_seal wire mt_encryption brand) =
  bind (open_all c vd kr wire) (fun r => Ok (fst r, snd r, brand)).
Proof. exact (armored_decrypt_agrees c vd kr wire brand). Qed.

Theorem C01_armored_form_agrees_reflow (c : crypto) (vd : validator) (kr : keyring) (wire brand H' B' F' T' : bytes) :
  brand_ok brand ->
  let chars := BaseX.encode base62 wire in
  frame_reflow (make_frame header_marker mt_encryption brand) H' ->
  ws_ins (space_words (S (length chars)) chars 0) B' ->
  frame_reflow (make_frame footer_marker mt_encryption brand) F' ->
  forallb is_frame_ws T' = true ->
  dearmor62_decrypt_open c vd kr (H' ++ [dot] ++ B' ++ [dot] ++ F' ++ [dot] ++ T') =
  bind (open_all c vd kr wire) (fun r => Ok (fst r, snd r, brand)).
Proof. exact (armored_decrypt_agrees_reflow c vd kr wire brand H' B' F' T'). Qed.

(* SOURCE TIE (stateful functions): the terms f_saltpack_decryptStream_* are generated on every run from
   the Go syntax trees of /repo's decryptStream.processHeader, tryVisibleReceivers and
   tryHiddenReceivers (harness/cmd/gen/goast.go).  Under the extended Go semantics of model/GoLang2.v
   (field/map/element assignment, loops with break/continue, the receiver object's final state), with
   the keyring, key objects, version validator and NaCl primitives interpreted by ext_keyring /
   ext_process over the crypto record and the model's keyring, they compute exactly what the model's
   receiver does with a header — for ALL headers, keyrings and validators admitting majors 1/2:
   the same error class, and on success the same MessageKeyInfo (sender, receiver key, hidden flag,
   named receivers, number of anonymous receivers) and decryption state (payload key, MAC key,
   position) left in the decryptStream object. *)
Theorem C01_source_processHeader (c : crypto) (vd : validator) (kr : keyring) (hh : bytes) (h : header) :
  (forall v, validate_version vd v = true -> (vmaj v = 1 \/ vmaj v = 2)%Z) ->
  (N.of_nat (List.length (h_rcvs h)) < 4294967296)%N ->
  let r := run_func2 (ext_process c vd kr) f_saltpack_decryptStream_processHeader [g_ds0 hh; g_enc_header h] in
  match process_enc_header c vd kr hh h with
  | Err e => g_hdr_err (fst r) = Some e
  | Ok (m, st) =>
    fst r = ORet [VNil] /\
    exists ds', lookup "ds" (snd r) = Some ds' /\ read_ds ds' = Some (m, st)
  end.
Proof. exact (go_decrypt_processHeader c vd kr hh h). Qed.

Theorem C01_source_tryHiddenReceivers (c : crypto) (vd : validator) (kr : keyring) (hh : bytes) (h : header) :
  (vmaj (h_version h) = 1 \/ vmaj (h_version h) = 2)%Z ->
  (N.of_nat (List.length (h_rcvs h)) < 4294967296)%N ->
  let r := run_func2 (ext_keyring c vd kr) f_saltpack_decryptStream_tryHiddenReceivers
                     [g_ds0 hh; g_enc_header h; VBytes (h_a h)] in
  g_try_result (fst r) = try_hidden c (kr_keys kr) (h_version h) (h_a h) (h_rcvs h).
Proof. exact (go_tryHiddenReceivers c vd kr hh h). Qed.

Theorem C01_source_tryVisibleReceivers (c : crypto) (vd : validator) (kr : keyring) (hh : bytes) (h : header) :
  (vmaj (h_version h) = 1 \/ vmaj (h_version h) = 2)%Z ->
  (N.of_nat (List.length (h_rcvs h)) < 4294967296)%N ->
  let r := run_func2 (ext_keyring c vd kr) f_saltpack_decryptStream_tryVisibleReceivers
                     [g_ds0 hh; g_enc_header h; VBytes (h_a h)] in
  g_try_result (fst r) = try_visible c kr (h_version h) (h_a h) (h_rcvs h).
Proof. exact (fun Hv Hl => proj1 (go_tryVisibleReceivers c vd kr hh h Hv Hl)). Qed.

(* ---- source ties: the encryption SENDER (/repo/encrypt.go), lemmas of proofs/GoAstProofs5a.v ---- *)
(* The terms f_saltpack_checkEncryptReceivers and f_saltpack_encryptStream_{encryptBlock,Write,Close,init} are
   generated on every run from the Go syntax trees of /repo/encrypt.go (gen/GoAstSend.v) and evaluated with
   run_func2 of model/GoLang2.v (outcome AND final environment).  The *encryptStream object is [g_es st] for a
   record st : es_state (version, encoder, payloadKey, unread bytes of es.buffer, headerHash, macKeys, numBlocks,
   err); a BoxPublicKey is [g_rcpt (kid, hide)].  `encoder.Encode(x)` is interpreted by an ARBITRARY function
   enc_step : what presenting the MessagePack bytes of x to the encoder object does to that object, and the error
   (nil or not) it returns — so the theorems hold for every writer, failing or not.  A Go error value is
   [g_errv e] with e : gerr = None (nil) or Some (name, arguments).  The specification functions es_block,
   es_write, es_close, es_init are defined in GoAstProofs5a.v: the model's pieces (model/Encrypt.v, Chunker.v,
   Rand.v) put in the order the code runs them. *)

(* checkEncryptReceivers(receivers) returns nil / ErrBadReceivers / ErrRepeatedKey(kid) exactly as the model's
   check_receivers says, kid being the first key id (in list order) equal to an earlier one (first_dup).
   No hypothesis: every list of receivers. *)
Theorem C01_source_checkEncryptReceivers (rcpts : list rcpt) :
  fst (run_func2 ext_rcpt f_saltpack_checkEncryptReceivers [VList (map g_rcpt rcpts)])
  = match check_receivers rcpts with
    | Ok _ => ORet [VNil]
    | Err ErrRepeatedKey =>
      ORet [VErr "ErrRepeatedKey"
                 [VBytes (match first_dup (map fst rcpts) with Some k => k | None => [] end)]]
    | Err _ => ORet [VErr "ErrBadReceivers" []]
    end.
Proof. exact (go_checkEncryptReceivers rcpts). Qed.

(* es.encryptBlock(isFinal) = es_block: takes min(1 MiB, len) bytes off the buffer; the evaluator is stuck at the
   call (BStuck "extern") exactly when checkEncryptBlockRead or assertEncodedChunkState panics; ErrPacketOverflow
   (buffer already consumed) iff numBlocks = 2^64-1; else the packet mp_encode [final?, authenticators,
   secretbox(payloadKey, nonce(numBlocks), plaintext)], authenticator_i = HMAC(macKey_i, payload hash), is
   presented to the encoder, whose error is returned, and on nil numBlocks is incremented.  The returned error
   value AND the receiver object left in `es`.  No hypothesis: any crypto record c, any writer enc_step, any
   state st (any version, key lists, numBlocks), either value of isFinal. *)
Theorem C01_source_encryptBlock (c : crypto) (enc_step : gval -> bytes -> gval * gerr) (st : es_state) (final : bool) :
  let r := run_func2 (ext_block c enc_step) f_saltpack_encryptStream_encryptBlock [g_es st; VBool final] in
  match es_block c enc_step st final with
  | BStuck w => fst r = OStuck w
  | BRet e st' => fst r = ORet [g_errv e] /\ lookup "es" (snd r) = Some (g_es st')
  end.
Proof. exact (go_encryptBlock c enc_step st final). Qed.

(* es.Write(p) = es_write: a stored error is returned again with 0; else p is appended to the buffer and, while
   more than 1 MiB is buffered, encryptBlock(false) runs (with the meaning C01_source_encryptBlock proves); an
   error is stored in es.err and returned with 0; else (len p, nil).  Both results AND the receiver object.
   No hypothesis; the evaluator's loop bound is part of es_write (es_drain 296): WStuck "loop fuel" when a single
   Write would flush more than 295 blocks, WStuck "call" when encryptBlock has no value. *)
Theorem C01_source_encryptStream_Write (c : crypto) (enc_step : gval -> bytes -> gval * gerr) (st : es_state) (p : bytes) :
  let r := run_func2 (ext_stream c enc_step) f_saltpack_encryptStream_Write [g_es st; VBytes p] in
  match es_write c enc_step st p with
  | WStuck w => fst r = OStuck w
  | WRet n e st' => fst r = ORet [VInt n; g_errv e] /\ lookup "es" (snd r) = Some (g_es st')
  end.
Proof. exact (go_encryptStream_Write c enc_step st p). Qed.

(* es.Close() = es_close, for EVERY version.  Version1(): if bytes are buffered, encryptBlock(false) (its error is
   returned); panic if bytes are still buffered; then encryptBlock(true), whose error is returned.  Version2():
   encryptBlock(true), its error, or (panic if bytes are left | nil).  Any other version panics.  CloseStuck "call"
   where encryptBlock has no value.  The returned error AND the receiver object.  No hypothesis. *)
Theorem C01_source_encryptStream_Close (c : crypto) (enc_step : gval -> bytes -> gval * gerr) (st : es_state) :
  let r := run_func2 (ext_stream c enc_step) f_saltpack_encryptStream_Close [g_es st] in
  match es_close c enc_step st with
  | CloseStuck w => fst r = OStuck w
  | ClosePanic => fst r = OPanic
  | CloseRet e st' => fst r = ORet [g_errv e] /\ lookup "es" (snd r) = Some (g_es st')
  end.
Proof. exact (go_encryptStream_Close c enc_step st). Qed.

(* es.init(version, sender, receivers, ephemeralKeyCreator, rng) = es_init: ErrBadVersion, the receivers check,
   shuffle (stuck "call" for >= 2^31 receivers: csprngShuffle panics), ephemeral key, payload key (ErrRand when a
   source is short), sender secretbox, per-recipient payload key boxes in shuffled order, header bytes, header
   hash, Encode(header bytes) (its error), MAC keys.  The evaluator has no global state: ra is the source
   rng.shuffleReceivers draws from, rb the key creator's, rc rng.createSymmetricKey's; the theorem states the
   returned error, the receiver object (payloadKey, headerHash, encoder, macKeys; the other fields untouched) and
   the sources LEFT in the rng and key-creator objects, i.e. the randomness consumed.  No hypothesis. *)
Theorem C01_source_encryptStream_init (c : crypto) (enc_step : gval -> bytes -> gval * gerr) (st : es_state)
        (v : version) (sender : option bytes) (rcpts : list rcpt) (ra rb rc : rng) :
  let r := run_func2 (ext_init c enc_step) f_saltpack_encryptStream_init
                     [g_es st; g_version v; g_sender sender; VList (map g_rcpt rcpts); VBytes rb; g_rng ra rc] in
  match es_init c enc_step st v sender rcpts ra rb rc with
  | IStuck w => fst r = OStuck w
  | IRet e st' ra' rb' rc' =>
    fst r = ORet [g_errv e] /\ lookup "es" (snd r) = Some (g_es st') /\
    lookup "rng" (snd r) = Some (g_rng ra' rc') /\ lookup "ephemeralKeyCreator" (snd r) = Some (VBytes rb')
  end.
Proof. exact (go_encryptStream_init c enc_step st v sender rcpts ra rb rc). Qed.


(* ---- source ties: the sender's MAC keys and the entry-point glue of the encryption RECEIVER (/repo/encrypt.go,
        decrypt.go, common.go), lemmas of proofs/GoAstProofs7c.v ---- *)
(* The terms f_saltpack_computeMACKeySender, computeMACKeysSender, readEncryptionBlock, decryptStream_readHeader,
   NewDecryptStream and Open are generated on every run from the Go syntax trees of /repo (gen/GoAstOpen.v) and run by
   the evaluator of model/GoLang2.v (run_func2: outcome AND final environment) on ENCODED arguments.  Key objects as
   above (g_sk, g_rcpt); a msgpack stream is [g_mps_raw input s]: the input BYTES not yet consumed and Go's packet
   counter s; a reader that cannot fail (a *bytes.Buffer, bytes.NewReader) is the bytes it holds (rdr_bytes r = Some
   input says which bytes r holds, it does not restrict them); the version validator VV and the keyring RING are
   opaque values whose meaning is in the externs (vd, kr).  The receiver object is the struct literal NewDecryptStream
   builds, [g_ds_new VV RING mps], and after the header [g_ds_done ...]; newChunkReader(x) is [g_cr_new x]; the
   MessageKeyInfo is [g_mki m k], k being the receiver key OBJECT processHeader found (dec_header_key), whose public
   half is the model's mki_receiver.  msgpackStream.Read(&x) = ext_read ty: the model's parser on the remaining input,
   then go-codec's decoding at the STATIC type ty of x (for the block readers the type the version selects:
   enc_target v), returning (seqno, err), then the advanced stream and the decoded value.  Calls of saltpack
   functions have the MODEL's meaning (decryptStream.processHeader = process_enc_header, tied by
   C01_source_processHeader; NewDecryptStream inside Open = the model's open_stream, the stream it returns being the
   model's loop), and the compose_ theorems show those meanings ARE the outcomes of the translated callees.  An extern
   has NO value where the model says Unmodelled or where the callee panics: the evaluator is then stuck at that call
   (OStuck "call") and the statements say exactly when.  dec_read_header is the header stage of the model's
   open_stream; nds_outcome / open_outcome are what NewDecryptStream / Open return, as Go values; open_class reads
   such an outcome back as a result of the model (all in GoAstProofs7c.v).  On an error NewDecryptStream and Open still
   return &ds.mki as processHeader left it: the model does not describe that value, so it is a parameter pm (input ->
   value) of the externs and the theorems hold for EVERY pm.
   LIMITS: a reader failing in mid-packet is not modelled; `&ds.mki` and newChunkReader(ds) are VALUE copies in the
   evaluator (the aliasing between the returned MessageKeyInfo / reader and the stream object is not represented);
   "reading the returned chunk reader to the end yields the model's loop" is the meaning of an extern inside Open,
   its pieces being C13_source_chunkReader_Read and the getNextChunk tie of the decrypt stream. *)
Section C01_source_entry.
Import GoAstOpen GoAstProofs4a GoAstProofs4b GoAstProofs7c.
Local Open Scope string_scope.

(* computeMACKeySender(version, index, secret, eSecret, public, headerHash) returns the model's mac_key_sender when the
   version is Version1() or Version2() (the WHOLE version is compared: the code switches on it since it is writing)
   and panics for every other version.  No hypothesis. *)
Theorem C01_source_computeMACKeySender (c : crypto) (v : version) (i : N) (ssk esk : bytes) (pk : rcpt) (hh : bytes) :
  fst (run_func2 (ext_mks1 c) f_saltpack_computeMACKeySender
                 [g_version v; VInt (Z.of_N i); g_sk ssk; g_sk esk; g_rcpt pk; VBytes hh])
  = if known_version v then ORet [VBytes (mac_key_sender c v i ssk esk (fst pk) hh)] else OPanic.
Proof. exact (go_computeMACKeySender c v i ssk esk pk hh). Qed.

(* computeMACKeysSender(version, sender, ephemeralKey, receivers, headerHash) returns mac_key_sender over the
   receivers in order with their indices (sender_mac_keys; nil for no receiver); for an unknown version and at least
   one receiver the callee computeMACKeySender panics (stuck "call").  Hypothesis: at most 2^64 receivers (the index
   is converted to uint64; Go slices are shorter). *)
Theorem C01_source_computeMACKeysSender (c : crypto) (v : version) (ssk esk : bytes) (rs : list rcpt) (hh : bytes) :
  (N.of_nat (List.length rs) <= 18446744073709551616)%N ->
  fst (run_func2 (ext_mks2 c) f_saltpack_computeMACKeysSender
                 [g_version v; g_sk ssk; g_sk esk; VList (map g_rcpt rs); VBytes hh])
  = if (known_version v || (match rs with [] => true | _ => false end))%bool
    then ORet [g_mks (sender_mac_keys c v ssk esk hh rs)]
    else OStuck "call".
Proof. exact (go_computeMACKeysSender c v ssk esk rs hh). Qed.

(* this is exactly the meaning ext_init (C01_source_encryptStream_init) gives to the call: that meaning IS the outcome
   of the translated function, for every encoder step function es.  Hypothesis: at most 2^64 receivers. *)
Theorem C01_source_compose_computeMACKeysSender (c : crypto) (es : gval -> bytes -> gval * gerr) (v : version)
        (ssk esk : bytes) (rs : list rcpt) (hh : bytes) :
  (N.of_nat (List.length rs) <= 18446744073709551616)%N ->
  fst (run_func2 (ext_mks2 c) f_saltpack_computeMACKeysSender [g_version v; g_sk ssk; g_sk esk; VList (map g_rcpt rs); VBytes hh])
  = match ext_init c es "computeMACKeysSender" [g_version v; g_sk ssk; g_sk esk; VList (map g_rcpt rs); VBytes hh] with
    | Some rsl => ORet rsl
    | None => OStuck "call"
    end.
Proof. exact (compose_computeMACKeysSender c es v ssk esk rs hh). Qed.

(* the struct decoders of ext_read are the model's view: view_enc_block of a packet is go-codec's decoding into
   encryptionBlockV1 [authenticators, ciphertext] (isFinal computed from the ciphertext being 16 bytes long, as the
   code does) or encryptionBlockV2 [final, authenticators, ciphertext], followed by what the Go code computes from the
   fields.  No hypothesis. *)
Theorem C01_source_view_enc_block_struct (v : version) (m : mval) :
  view_enc_block v m =
  if (vmaj v =? 1)%Z
  then dbind (view_ebV1 m) (fun x => DOk (fst x, snd x, Nat.eqb (List.length (snd x)) 16))
  else dbind (view_ebV2 m) (fun x => DOk (snd (fst x), snd x, fst (fst x))).
Proof. exact (view_enc_block_struct v m). Qed.

(* readEncryptionBlock(version, mps): for major version 1 or 2 (ver12) the five results are the model's view_enc_block
   of the next packet (ciphertext, authenticators, isFinal) with the packet's seqno and nil, the stream advanced
   (blk_spec, case RdOk); or (nil, nil, false, 0, err) with the stream unchanged (RdErr); stuck where the model says
   Unmodelled (RdNone); for any other major version the function panics.  No hypothesis (any start counter). *)
Theorem C01_source_readEncryptionBlock (v : version) (input : bytes) (s : Z) :
  let r := run_func2 (ext_read (enc_target v)) f_saltpack_readEncryptionBlock [g_version v; g_mps_raw input s] in
  if ver12 v
  then blk_spec (fun x : list bytes * bytes * bool => [VBytes (snd (fst x)); VList (map VBytes (fst (fst x))); VBool (snd x)])
                input s (mps_read (view_enc_block v) (g_mps_raw input s)) r
  else r = (OPanic, []).
Proof. exact (go_readEncryptionBlock v input s). Qed.

(* this is exactly the meaning GoAstProofs4b.ext_chunk gives to the call inside the decrypt stream's getNextChunk:
   the five results and the stream written back are those of the translated function; no value exactly where the
   callee is stuck ("call") or panics (another major version).  No hypothesis. *)
Theorem C01_source_compose_readEncryptionBlock (c : crypto) (ty : read_target) (v : version) (input : bytes) (s : Z) :
  let r := run_func2 (ext_read (enc_target v)) f_saltpack_readEncryptionBlock [g_version v; g_mps_raw input s] in
  match ext_chunk c ty "readEncryptionBlock" [g_version v; g_mps_raw input s] with
  | Some rs => fst r = ORet (firstn 5 rs) /\ lookup "mps" (snd r) = nth_error rs 6
  | None => if ver12 v then fst r = OStuck "call" else r = (OPanic, [])
  end.
Proof. exact (compose_readEncryptionBlock c ty v input s). Qed.

(* dec_read_header (read the header packet, hash it, decode it, process_enc_header) IS the header stage of the model's
   open_stream: open_stream is that stage followed by the model's decrypt loop on the rest.  No hypothesis. *)
Theorem C01_source_open_stream_header (c : crypto) (vd : validator) (kr : keyring) (input : bytes) :
  open_stream c vd kr input =
  bind (dec_read_header c vd kr input) (fun x =>
  Ok (fst (fst x), decrypt_loop c (S (List.length (snd x))) (snd (fst x)) 0 (snd x) [])).
Proof. exact (open_stream_header c vd kr input). Qed.

(* ds.readHeader(nil) on the object NewDecryptStream builds returns the Go value of the error of dec_read_header, and
   on success nil, leaving g_ds_done: the stream advanced by one packet, the header hash sha512(header bytes),
   version, payload key, MAC key, position and the MessageKeyInfo of the model, the receiver key object being the key
   processHeader found (dec_header_key), whose public half is the model's mki_receiver.  Stuck "call" where the model
   says Unmodelled or a panic.  No hypothesis. *)
Theorem C01_source_decryptStream_readHeader (c : crypto) (vd : validator) (kr : keyring) (VV RING : gval) (input : bytes) (s : Z) :
  let r := run_func2 (ext_dhdr c vd kr) f_saltpack_decryptStream_readHeader [g_ds_new VV RING (g_mps_raw input s); VNil] in
  match dec_read_header c vd kr input with
  | Ok (m, st, rest) =>
    fst r = ORet [VNil] /\
    exists k, dec_header_key c kr input = Some k /\ snd k = mki_receiver m /\
      lookup "ds" (snd r) = Some (g_ds_done VV RING (g_mps_raw rest ((s + 1) mod two64)) VNil m st k)
  | Err e => match g_herr e with Some ev => fst r = ORet [ev] | None => fst r = OStuck "call" end
  end.
Proof. exact (go_decryptStream_readHeader c vd kr VV RING input s). Qed.

(* the meaning ext_nds (NewDecryptStream) gives to the call ds.readHeader, on the object the constructor builds, gives
   the results of the theorem above: nil and the same receiver object, or the same error value.  No hypothesis. *)
Theorem C01_source_compose_decryptStream_readHeader (c : crypto) (pm : bytes -> gval) (vd : validator) (kr : keyring)
        (VV RING X : gval) (input : bytes) (s : Z) :
  let r := run_func2 (ext_dhdr c vd kr) f_saltpack_decryptStream_readHeader [g_ds_new VV RING (g_mps_raw input s); VNil] in
  match ext_nds c pm vd kr "decryptStream.readHeader" [g_ds_new VV RING (g_mps_raw input s); X] with
  | Some [VNil; obj] => fst r = ORet [VNil] /\ lookup "ds" (snd r) = Some obj
  | Some [ev; _] => fst r = ORet [ev]
  | _ => fst r = OStuck "call"
  end.
Proof. exact (compose_decryptStream_readHeader c pm vd kr VV RING X input s). Qed.

(* NewDecryptStream(vv, r, keyring) returns nds_outcome: the MessageKeyInfo, the chunk reader over the receiver object
   readHeader left, nil; or (&ds.mki = pm input, nil, the header error).  Hypothesis: rdr_bytes r = Some input. *)
Theorem C01_source_NewDecryptStream (c : crypto) (pm : bytes -> gval) (vd : validator) (kr : keyring) (VV r RING : gval)
        (input : bytes) :
  rdr_bytes r = Some input ->
  fst (run_func2 (ext_nds c pm vd kr) f_saltpack_NewDecryptStream [VV; r; RING])
  = nds_outcome c pm vd kr VV RING input.
Proof. exact (go_NewDecryptStream c pm vd kr VV r RING input). Qed.

(* the meaning ext_open (Open) gives to the call NewDecryptStream returns the MessageKeyInfo and the error of the
   translated constructor (the reader it returns stands for the model's stream).  No hypothesis. *)
Theorem C01_source_compose_NewDecryptStream (c : crypto) (pm : bytes -> gval) (vd : validator) (kr : keyring) (VV RING : gval)
        (input : bytes) :
  match ext_open c pm vd kr "NewDecryptStream" [VV; VBytes input; RING] with
  | Some [mk; strm; e] => exists rdr, nds_outcome c pm vd kr VV RING input = ORet [mk; rdr; e]
  | _ => nds_outcome c pm vd kr VV RING input = OStuck "call"
  end.
Proof. exact (compose_NewDecryptStream c pm vd kr VV RING input). Qed.

(* Open(vv, ciphertext, keyring), the all-at-once entry point, returns open_outcome: the MessageKeyInfo and the
   concatenated chunks when the stream ends cleanly, (nil, nil, err) when it ends with an error, and (&ds.mki, nil,
   the constructor's error) otherwise.  No hypothesis. *)
Theorem C01_source_Open (c : crypto) (pm : bytes -> gval) (vd : validator) (kr : keyring) (VV RING : gval) (input : bytes) :
  fst (run_func2 (ext_open c pm vd kr) f_saltpack_Open [VV; VBytes input; RING])
  = open_outcome c pm vd kr input.
Proof. exact (go_Open c pm vd kr VV RING input). Qed.

(* Open against the model: the class of what it returns is the model's open_all (the function C01_roundtrip and
   C01_no_key are about).  Hypothesis: the outcome is not the stuck evaluator (the model says Unmodelled or a
   panic). *)
Theorem C01_source_open_outcome_model (c : crypto) (pm : bytes -> gval) (vd : validator) (kr : keyring) (input : bytes) :
  open_outcome c pm vd kr input <> OStuck "call" ->
  open_class (open_outcome c pm vd kr input) = open_all c vd kr input.
Proof. exact (open_outcome_model c pm vd kr input). Qed.
End C01_source_entry.

Print Assumptions C01_source_computeMACKeySender.
Print Assumptions C01_source_computeMACKeysSender.
Print Assumptions C01_source_compose_computeMACKeysSender.
Print Assumptions C01_source_view_enc_block_struct.
Print Assumptions C01_source_readEncryptionBlock.
Print Assumptions C01_source_compose_readEncryptionBlock.
Print Assumptions C01_source_open_stream_header.
Print Assumptions C01_source_decryptStream_readHeader.
Print Assumptions C01_source_compose_decryptStream_readHeader.
Print Assumptions C01_source_NewDecryptStream.
Print Assumptions C01_source_compose_NewDecryptStream.
Print Assumptions C01_source_Open.
Print Assumptions C01_source_open_outcome_model.
Print Assumptions C01_source_processHeader.
Print Assumptions C01_source_checkEncryptReceivers.
Print Assumptions C01_source_encryptBlock.
Print Assumptions C01_source_encryptStream_Write.
Print Assumptions C01_source_encryptStream_Close.
Print Assumptions C01_source_encryptStream_init.
Print Assumptions C01_source_tryHiddenReceivers.
Print Assumptions C01_source_tryVisibleReceivers.
Print Assumptions C01_armored_form_agrees.
Print Assumptions C01_armored_form_agrees_reflow.
Print Assumptions C01_sender_structure.
Print Assumptions C01_roundtrip.
Print Assumptions C01_no_key.
Print Assumptions C01_header_fits.
Print Assumptions C01_forms_agree.

(* Non-vacuity on the toy instance: a hidden and a visible recipient both open a two-write message. *)
From SP Require Import ToyCrypto ToyCryptoProofs.
Example C01_ex_roundtrip :
  let sk1 := repeat x11 32 in let sk2 := repeat x22 32 in
  let rs := [(dh_pub toy_crypto sk1, true); (dh_pub toy_crypto sk2, false)] in
  match seal_core toy_crypto v2 (Some (repeat x33 32)) (repeat x44 32) (repeat x55 32) rs [[x68; x69]; [x21]] with
  | Ok out =>
    match open_all toy_crypto AnyKnownMajor (mkRing [(sk2, dh_pub toy_crypto sk2)] None) out with
    | Ok (m, pt) => Some (pt, mki_receiver_anon m, mki_sender_anon m)
    | Err _ => None
    end
  | Err _ => None
  end = Some ([x68; x69; x21], false, false).
Proof. vm_compute. reflexivity. Qed.

From SP Require GoEndToEndEnc.
(* ======================================= PART 1: props/C01.v ======================================= *)
(* ---- END TO END at the level of the translated Go code: proofs/GoEndToEndEnc.v ---- *)
(* The Go sender session [go_encrypt_session] RUNS the terms generated from /repo's encrypt.go: run_func2 of
   f_saltpack_encryptStream_init, then of f_saltpack_encryptStream_Write on each piece, then of
   f_saltpack_encryptStream_Close, the receiver object `es` being read back from the final environment of each call and
   handed to the next; each call under the externs of its own source tie (C01_source_encryptStream_init / _Write /
   _Close) with the in-memory writer mem_enc.  Some es' = every call returned a nil error (every Write len(p)).
   [go_encrypt_out] = the bytes the writer holds at the end.  The receiver is the translated Open / NewDecryptStream
   exactly as in C01_source_Open / C01_source_NewDecryptStream.  The model appears only in the hypothesis "the model's
   sender returns Ok" and as the bridge in the proofs.  Three random sources (the evaluator has no global state):
   ra rng.shuffleReceivers, rb the ephemeral key creator, rc rng.createSymmetricKey; the model's single stream r is
   ra = r, (rb, rc) = model_sources rcpts r.  NOT covered: newEncryptStream / seal / Seal are not translated (the session
   starts at init on a fresh object, fresh_es); inside Open, NewDecryptStream and io.ReadAll have the model's meaning
   (as in C01_source_Open). *)
Section C01_source_end_to_end.
Import GoAstOpen GoAstProofs4a GoAstProofs4b GoAstProofs5c GoAstProofs7c GoEndToEndEnc.
Local Open Scope string_scope.

(* The Go sender session on a fresh object whose writer holds out0 leaves out0 ++ wire in the writer, wire being the
   model's seal_core on the values the three sources deliver.  Hypotheses: crypto_ok; fresh object; version 1 or 2;
   receivers accepted by checkEncryptReceivers; at most 2^31-1 receivers (beyond, csprngShuffle panics); every Write at
   most 295 MiB (the evaluator's loop bound); the three draws succeed; the model's seal_core returns Ok. *)
Theorem C01_source_end_to_end_sender (c : crypto) (Hc : crypto_ok c) (st0 : es_state) (out0 : bytes) (v : version)
        (sender : option bytes) (rcpts rs : list rcpt) (ra rb rc ra' rb' rc' : rng) (eph pkey : bytes)
        (pieces : list bytes) (wire : bytes) :
  fresh_es v out0 st0 ->
  v = v1 \/ v = v2 ->
  check_receivers rcpts = Ok tt ->
  (Z.of_nat (List.length rcpts) <= 2147483647)%Z ->
  Forall (fun p : bytes => (List.length p <= 295 * blk)%nat) pieces ->
  shuffle rcpts ra = Some (rs, ra') ->
  read_full 32 rb = Some (eph, rb') ->
  read_full 32 rc = Some (pkey, rc') ->
  seal_core c v sender eph pkey rs pieces = Ok wire ->
  (exists st', go_encrypt_session c (g_es st0) v sender rcpts ra rb rc pieces = Some (g_es st') /\
               es_enc st' = VBytes (out0 ++ wire)%list /\ es_buf st' = [] /\ es_err st' = None) /\
  go_encrypt_out c (g_es st0) v sender rcpts ra rb rc pieces = Some (out0 ++ wire)%list.
Proof. exact (go_encrypt_session_model c Hc st0 out0 v sender rcpts rs ra rb rc ra' rb' rc' eph pkey pieces wire). Qed.

(* Whenever the model's open_stream ends cleanly on an input, the translated Open and NewDecryptStream return the model's
   MessageKeyInfo (receiver key object: a key OF THE RING whose public half is the model's receiver key), the
   concatenated chunks / the chunk reader over the state the model's loop starts from, and nil.  No "not stuck"
   hypothesis; every input, keyring, validator. *)
Theorem C01_source_end_to_end_receiver (c : crypto) (pm : bytes -> gval) (vd : validator) (kr : keyring)
        (VV RING rd : gval) (wire : bytes) (m : mki) (chunks : list bytes) :
  open_stream c vd kr wire = Ok (m, mkOut chunks EOF) ->
  rdr_bytes rd = Some wire ->
  exists (k : bytes * bytes) (st : dec_state) (rest : bytes),
    In k (kr_keys kr) /\ snd k = mki_receiver m /\
    fst (run_func2 (ext_open c pm vd kr) f_saltpack_Open [VV; VBytes wire; RING])
    = ORet [g_mki m k; VBytes (List.concat chunks); VNil] /\
    fst (run_func2 (ext_nds c pm vd kr) f_saltpack_NewDecryptStream [VV; rd; RING])
    = ORet [g_mki m k; g_cr_new (g_ds_done VV RING (g_mps_raw rest 1) VNil m st k); VNil] /\
    decrypt_loop c (S (List.length rest)) st 0 rest [] = mkOut chunks EOF.
Proof. exact (go_Open_of_model c pm vd kr VV RING rd wire m chunks). Qed.

(* END TO END, three independent sources: for every plaintext in any split into Writes (each at most 295 MiB), version
   1 or 2, named or anonymous sender, receivers accepted by checkEncryptReceivers, draws that succeed and on which the
   model's seal_core returns Ok wire, header shorter than 4 GiB, EVERY recipient (dh_pub c sk, hide) of the list:
   the Go sender session leaves out0 ++ wire in the writer, and the translated Open on wire under the ring holding that
   recipient's key returns the MessageKeyInfo m (receiver key object (sk, dh_pub c sk)), exactly the plaintext and
   nil; the translated NewDecryptStream returns m, nil and the reader from whose state the loop releases the
   plaintext; m names the true sender (the ephemeral key and the anonymous flag for an anonymous sender), this
   recipient's key and its hidden flag -- or another recipient's payload-key box of this message opens under this
   recipient's shared key (ForeignBoxOpens).  The bound of 2^31-1 receivers follows from the header bound. *)
Theorem C01_source_end_to_end_roundtrip (c : crypto) (Hc : crypto_ok c) (pm : bytes -> gval) (vd : validator)
        (VV RING rd : gval) (st0 : es_state) (out0 : bytes) (v : version) (sender : option bytes)
        (rcpts rs : list rcpt) (ra rb rc ra' rb' rc' : rng) (eph pkey : bytes) (pieces : list bytes) (wire : bytes)
        (sk : bytes) (hide : bool) :
  fresh_es v out0 st0 ->
  v = v1 \/ v = v2 -> good_validator_e vd v ->
  check_receivers rcpts = Ok tt ->
  Forall (fun p : bytes => (List.length p <= 295 * blk)%nat) pieces ->
  shuffle rcpts ra = Some (rs, ra') ->
  read_full 32 rb = Some (eph, rb') ->
  read_full 32 rc = Some (pkey, rc') ->
  seal_core c v sender eph pkey rs pieces = Ok wire ->
  (len (enc_header_bytes c v sender eph pkey rs) < 4294967296)%N ->
  In (dh_pub c sk, hide) rcpts ->
  (forall s, sender = Some s -> dh_pub c s <> dh_pub c eph) ->
  rdr_bytes rd = Some wire ->
  let kr := mkRing [(sk, dh_pub c sk)] None in
  let k := (sk, dh_pub c sk) in
  go_encrypt_out c (g_es st0) v sender rcpts ra rb rc pieces = Some (out0 ++ wire)%list /\
  ((exists (m : mki) (st : dec_state) (rest : bytes) (chunks : list bytes),
      fst (run_func2 (ext_open c pm vd kr) f_saltpack_Open [VV; VBytes wire; RING])
      = ORet [g_mki m k; VBytes (List.concat pieces); VNil] /\
      open_class (fst (run_func2 (ext_open c pm vd kr) f_saltpack_Open [VV; VBytes wire; RING]))
      = Ok (m, List.concat pieces) /\
      fst (run_func2 (ext_nds c pm vd kr) f_saltpack_NewDecryptStream [VV; rd; RING])
      = ORet [g_mki m k; g_cr_new (g_ds_done VV RING (g_mps_raw rest 1) VNil m st k); VNil] /\
      decrypt_loop c (S (List.length rest)) st 0 rest [] = mkOut chunks EOF /\
      List.concat chunks = List.concat pieces /\
      mki_sender m = dh_pub c (match sender with Some s => s | None => eph end) /\
      mki_sender_anon m = (match sender with Some _ => false | None => true end) /\
      mki_receiver m = dh_pub c sk /\
      mki_receiver_anon m = hide)
   \/ ForeignBoxOpens c v eph pkey (dh_pub c sk) rs).
Proof.
  exact (go_encrypt_end_to_end c Hc pm vd VV RING rd st0 out0 v sender rcpts rs ra rb rc ra' rb' rc' eph pkey pieces wire sk hide).
Qed.

(* the same against the model's sender on ONE randomness stream r: "the model's sender returns Ok" is
   seal_stream c v sender rcpts pieces r = Ok (wire, r'); the Go sources are r and model_sources rcpts r *)
Theorem C01_source_end_to_end_roundtrip_stream (c : crypto) (Hc : crypto_ok c) (pm : bytes -> gval) (vd : validator)
        (VV RING rd : gval) (st0 : es_state) (out0 : bytes) (v : version) (sender : option bytes)
        (rcpts : list rcpt) (r r' : rng) (pieces : list bytes) (wire : bytes) (sk : bytes) (hide : bool) :
  fresh_es v out0 st0 ->
  good_validator_e vd v ->
  Forall (fun p : bytes => (List.length p <= 295 * blk)%nat) pieces ->
  seal_stream c v sender rcpts pieces r = Ok (wire, r') ->
  (len (enc_header_bytes c v sender (model_eph rcpts r) (model_pkey rcpts r) (model_rs rcpts r)) < 4294967296)%N ->
  In (dh_pub c sk, hide) rcpts ->
  (forall s, sender = Some s -> dh_pub c s <> dh_pub c (model_eph rcpts r)) ->
  rdr_bytes rd = Some wire ->
  let kr := mkRing [(sk, dh_pub c sk)] None in
  let k := (sk, dh_pub c sk) in
  go_encrypt_out c (g_es st0) v sender rcpts r (fst (model_sources rcpts r)) (snd (model_sources rcpts r)) pieces
  = Some (out0 ++ wire)%list /\
  ((exists (m : mki) (st : dec_state) (rest : bytes) (chunks : list bytes),
      fst (run_func2 (ext_open c pm vd kr) f_saltpack_Open [VV; VBytes wire; RING])
      = ORet [g_mki m k; VBytes (List.concat pieces); VNil] /\
      open_class (fst (run_func2 (ext_open c pm vd kr) f_saltpack_Open [VV; VBytes wire; RING]))
      = Ok (m, List.concat pieces) /\
      fst (run_func2 (ext_nds c pm vd kr) f_saltpack_NewDecryptStream [VV; rd; RING])
      = ORet [g_mki m k; g_cr_new (g_ds_done VV RING (g_mps_raw rest 1) VNil m st k); VNil] /\
      decrypt_loop c (S (List.length rest)) st 0 rest [] = mkOut chunks EOF /\
      List.concat chunks = List.concat pieces /\
      mki_sender m = dh_pub c (match sender with Some s => s | None => model_eph rcpts r end) /\
      mki_sender_anon m = (match sender with Some _ => false | None => true end) /\
      mki_receiver m = dh_pub c sk /\
      mki_receiver_anon m = hide)
   \/ ForeignBoxOpens c v (model_eph rcpts r) (model_pkey rcpts r) (dh_pub c sk) (model_rs rcpts r)).
Proof.
  exact (go_encrypt_end_to_end_stream c Hc pm vd VV RING rd st0 out0 v sender rcpts r r' pieces wire sk hide).
Qed.

(* ... with the header bound replaced by: recipient keys of at most 32 bytes, at most 40 000 000 recipients *)
Theorem C01_source_end_to_end_roundtrip_stream_bounded (c : crypto) (Hc : crypto_ok c) (pm : bytes -> gval) (vd : validator)
        (VV RING rd : gval) (st0 : es_state) (out0 : bytes) (v : version) (sender : option bytes)
        (rcpts : list rcpt) (r r' : rng) (pieces : list bytes) (wire : bytes) (sk : bytes) (hide : bool) :
  fresh_es v out0 st0 ->
  good_validator_e vd v ->
  Forall (fun p : bytes => (List.length p <= 295 * blk)%nat) pieces ->
  seal_stream c v sender rcpts pieces r = Ok (wire, r') ->
  Forall (fun rc : rcpt => (List.length (fst rc) <= 32)%nat) rcpts -> (N.of_nat (List.length rcpts) <= 40000000)%N ->
  In (dh_pub c sk, hide) rcpts ->
  (forall s, sender = Some s -> dh_pub c s <> dh_pub c (model_eph rcpts r)) ->
  rdr_bytes rd = Some wire ->
  let kr := mkRing [(sk, dh_pub c sk)] None in
  let k := (sk, dh_pub c sk) in
  go_encrypt_out c (g_es st0) v sender rcpts r (fst (model_sources rcpts r)) (snd (model_sources rcpts r)) pieces
  = Some (out0 ++ wire)%list /\
  ((exists (m : mki) (st : dec_state) (rest : bytes) (chunks : list bytes),
      fst (run_func2 (ext_open c pm vd kr) f_saltpack_Open [VV; VBytes wire; RING])
      = ORet [g_mki m k; VBytes (List.concat pieces); VNil] /\
      open_class (fst (run_func2 (ext_open c pm vd kr) f_saltpack_Open [VV; VBytes wire; RING]))
      = Ok (m, List.concat pieces) /\
      fst (run_func2 (ext_nds c pm vd kr) f_saltpack_NewDecryptStream [VV; rd; RING])
      = ORet [g_mki m k; g_cr_new (g_ds_done VV RING (g_mps_raw rest 1) VNil m st k); VNil] /\
      decrypt_loop c (S (List.length rest)) st 0 rest [] = mkOut chunks EOF /\
      List.concat chunks = List.concat pieces /\
      mki_sender m = dh_pub c (match sender with Some s => s | None => model_eph rcpts r end) /\
      mki_sender_anon m = (match sender with Some _ => false | None => true end) /\
      mki_receiver m = dh_pub c sk /\
      mki_receiver_anon m = hide)
   \/ ForeignBoxOpens c v (model_eph rcpts r) (model_pkey rcpts r) (dh_pub c sk) (model_rs rcpts r)).
Proof.
  exact (go_encrypt_end_to_end_stream_bounded c Hc pm vd VV RING rd st0 out0 v sender rcpts r r' pieces wire sk hide).
Qed.

(* END TO END, a ring holding none of the recipient keys: the translated Open and NewDecryptStream return
   (&ds.mki, nil, ErrNoDecryptionKey): no plaintext *)
Theorem C01_source_end_to_end_no_key (c : crypto) (Hc : crypto_ok c) (pm : bytes -> gval) (vd : validator)
        (VV RING rd : gval) (st0 : es_state) (out0 : bytes) (v : version) (sender : option bytes)
        (rcpts rs : list rcpt) (ra rb rc ra' rb' rc' : rng) (eph pkey : bytes) (pieces : list bytes) (wire : bytes)
        (sk : bytes) :
  fresh_es v out0 st0 ->
  v = v1 \/ v = v2 -> good_validator_e vd v ->
  check_receivers rcpts = Ok tt ->
  Forall (fun p : bytes => (List.length p <= 295 * blk)%nat) pieces ->
  shuffle rcpts ra = Some (rs, ra') ->
  read_full 32 rb = Some (eph, rb') ->
  read_full 32 rc = Some (pkey, rc') ->
  seal_core c v sender eph pkey rs pieces = Ok wire ->
  (len (enc_header_bytes c v sender eph pkey rs) < 4294967296)%N ->
  ~ In (dh_pub c sk) (map fst rcpts) ->
  rdr_bytes rd = Some wire ->
  let kr := mkRing [(sk, dh_pub c sk)] None in
  go_encrypt_out c (g_es st0) v sender rcpts ra rb rc pieces = Some (out0 ++ wire)%list /\
  ((fst (run_func2 (ext_open c pm vd kr) f_saltpack_Open [VV; VBytes wire; RING])
    = ORet [pm wire; VNil; VErr "ErrNoDecryptionKey" []] /\
    open_class (fst (run_func2 (ext_open c pm vd kr) f_saltpack_Open [VV; VBytes wire; RING])) = Err ErrNoDecryptionKey /\
    fst (run_func2 (ext_nds c pm vd kr) f_saltpack_NewDecryptStream [VV; rd; RING])
    = ORet [pm wire; VNil; VErr "ErrNoDecryptionKey" []])
   \/ ForeignBoxOpens c v eph pkey (dh_pub c sk) rs).
Proof.
  exact (go_encrypt_end_to_end_stranger c Hc pm vd VV RING rd st0 out0 v sender rcpts rs ra rb rc ra' rb' rc' eph pkey pieces wire sk).
Qed.
End C01_source_end_to_end.

Print Assumptions C01_source_end_to_end_sender.
Print Assumptions C01_source_end_to_end_receiver.
Print Assumptions C01_source_end_to_end_roundtrip.
Print Assumptions C01_source_end_to_end_roundtrip_stream.
Print Assumptions C01_source_end_to_end_roundtrip_stream_bounded.
Print Assumptions C01_source_end_to_end_no_key.

(* =========================================== PART C01: props/C01.v ======================================= *)
From SP Require GoAstEntry GoAstProofs5a GoAstProofs5c GoAstProofs6a GoAstProofs6b GoEndToEndEnc GoEndToEndSign GoAstProofs8a.
(* ---- source ties: the CONSTRUCTOR and ONE-SHOT entry points of the encryption sender (/repo/encrypt.go:
   receiversToEphemeralKeyCreator, newEncryptStream, NewEncryptStream, seal, Seal), lemmas of proofs/GoAstProofs8a.v ----
   The terms are gen/GoAstEntry.v.  newEncryptStream returns the object g_es st' (st' = what es_init, i.e. the translated
   init by GoAstProofs5a.go_encryptStream_init, leaves on the FRESH state fresh_st v W) that the ties of Write / Close and
   the sessions of GoEndToEndEnc.v start from (nes_session_start), or (nil, err); NewEncryptStream / Seal are their
   callees behind the receivers check.  The body of seal is NOT EXPRESSIBLE in the evaluator (the bytes.Buffer shared
   between `buf` and the stream: values are trees, see the head of GoAstProofs8a.v): go_seal_glue is its control flow for
   every behaviour of the callees, go_seal_stale what the evaluator returns with faithful externs (the header packet),
   go_seal_aliased the tie to seal_spec with the sharing as an explicit hypothesis on Buffer.Bytes, seal_spec_model
   seal_spec against the model's seal.  compose_*: the meanings of the callees are the outcomes of their translated terms. *)
Section C01_source_entry.
Import GoAstEntry GoAstProofs8a.
Local Open Scope string_scope.

Theorem C01_source_go_receiversToEphemeralKeyCreator :
  forall (ext : externs) (l : list gval),
  fst (run_func2 ext f_saltpack_receiversToEphemeralKeyCreator [VList l]) = ORet (rtekc l).
Proof. exact go_receiversToEphemeralKeyCreator. Qed.

Theorem C01_source_go_newEncryptStream :
  forall (c : crypto) (enc_step : gval -> bytes -> gval * gerr) (v : version) (W : gval) 
    (sender : option bytes) (rcpts : list rcpt) (ra rb rc : rng),
  let r :=
    run_func2 (ext_nes c enc_step) f_saltpack_newEncryptStream
      [g_version v; W; g_sender sender; VList (map g_rcpt rcpts); VBytes rb; g_rng ra rc] in
  match es_init c enc_step (fresh_st v W) v sender rcpts ra rb rc with
  | IStuck _ => fst r = OStuck "call"
  | IRet e st' ra' rb' rc' =>
      fst r = ORet match e with
                   | Some _ => [VNil; g_errv e]
                   | None => [g_es st'; VNil]
                   end /\
      lookup "rng" (snd r) = Some (g_rng ra' rc') /\ lookup "ephemeralKeyCreator" (snd r) = Some (VBytes rb')
  end.
Proof. exact go_newEncryptStream. Qed.

Theorem C01_source_go_NewEncryptStream :
  forall (c : crypto) (enc_step : gval -> bytes -> gval * gerr) (ra rb rc : rng) (v : version) 
    (W : gval) (sender : option bytes) (rcpts : list rcpt),
  fst
    (run_func2 (ext_NES c enc_step ra rb rc) f_saltpack_NewEncryptStream
       [g_version v; W; g_sender sender; VList (map g_rcpt rcpts)]) =
  match rcpts with
  | [] => ORet [VNil; VErr "ErrBadReceivers" []]
  | _ :: _ => nes_outcome c enc_step v W sender rcpts ra rb rc
  end.
Proof. exact go_NewEncryptStream. Qed.

Theorem C01_source_go_NewEncryptStream_wrap :
  forall (CALLEE : list gval -> option (gval * gerr)) (V W S : gval) (l : list gval),
  fst (run_func2 (ext_wrap CALLEE "newEncryptStream") f_saltpack_NewEncryptStream [V; W; S; VList l]) =
  match l with
  | [] => ORet [VNil; VErr "ErrBadReceivers" []]
  | r0 :: _ => wrap_outcome CALLEE [V; W; S; VList l; r0; VStruct []]
  end.
Proof. exact go_NewEncryptStream_wrap. Qed.

Theorem C01_source_go_seal_glue :
  forall (NEW : list gval -> option (gval * gerr * gval)) (WR : gval -> gval -> option (gval * gerr * gval))
    (CL : gval -> option (gerr * gval)) (BY : gval -> option gval) (V P S0 R EK RNG : gval),
  fst (run_func2 (ext_glue NEW WR CL BY "newEncryptStream" 1) f_saltpack_seal [V; P; S0; R; EK; RNG]) =
  glue_outcome NEW WR CL [V; VNil; S0; R; EK; RNG] P (fin_bytes BY).
Proof. exact go_seal_glue. Qed.

Theorem C01_source_go_seal_aliased :
  forall (c : crypto) (BY : gval -> option gval) (v : version) (p : bytes) (sender : option bytes)
    (rcpts : list rcpt) (ra rb rc : rng),
  (forall (st1 st2 st3 : es_state) (n : Z) (ra' rb' rc' : rng),
   es_init c mem_enc (fresh_st v (VBytes [])) v sender rcpts ra rb rc = IRet None st1 ra' rb' rc' ->
   es_write c mem_enc st1 p = WRet n None st2 ->
   es_close c mem_enc st2 = CloseRet None st3 -> BY (es_enc st1) = Some (es_enc st3)) ->
  fst
    (run_func2 (ext_glue (NEW_seal c) (WR_es c) (CL_es c) BY "newEncryptStream" 1) f_saltpack_seal
       (seal_args v p sender rcpts ra rb rc)) = seal_spec c v p sender rcpts ra rb rc.
Proof. exact go_seal_aliased. Qed.

Theorem C01_source_go_seal_stale :
  forall (c : crypto) (v : version) (p : bytes) (sender : option bytes) (rcpts : list rcpt) 
    (ra rb rc : rng) (st1 st2 st3 : es_state) (n : Z) (ra' rb' rc' : rng),
  es_init c mem_enc (fresh_st v (VBytes [])) v sender rcpts ra rb rc = IRet None st1 ra' rb' rc' ->
  es_write c mem_enc st1 p = WRet n None st2 ->
  es_close c mem_enc st2 = CloseRet None st3 ->
  fst
    (run_func2 (ext_glue (NEW_seal c) (WR_es c) (CL_es c) (fun b : gval => Some b) "newEncryptStream" 1)
       f_saltpack_seal (seal_args v p sender rcpts ra rb rc)) = ORet [es_enc st1; VNil].
Proof. exact go_seal_stale. Qed.

Theorem C01_source_seal_spec_model :
  forall c : crypto,
  (forall k n m : bytes, length (sb_seal c k n m) = (16 + length m)%nat) ->
  forall (v : version) (p : bytes) (sender : option bytes) (rcpts : list rcpt) (r r' : rng) (wire : bytes),
  (Z.of_nat (length rcpts) <= 2147483647)%Z ->
  (length p <= 295 * blk)%nat ->
  seal c v sender rcpts p r = Ok (wire, r') ->
  seal_spec c v p sender rcpts r (fst (model_sources rcpts r)) (snd (model_sources rcpts r)) =
  ORet [VBytes wire; VNil].
Proof. exact seal_spec_model. Qed.

Theorem C01_source_seal_spec_model_err :
  forall (c : crypto) (v : version) (p : bytes) (sender : option bytes) (rcpts : list rcpt) 
    (r : rng) (n : String.string) (a : list gval),
  (Z.of_nat (length rcpts) <= 2147483647)%Z ->
  (exists (st' : es_state) (x y z : rng),
     es_init c mem_enc (fresh_st v (VBytes [])) v sender rcpts r (fst (model_sources rcpts r))
       (snd (model_sources rcpts r)) = IRet (Some (n, a)) st' x y z) ->
  seal_spec c v p sender rcpts r (fst (model_sources rcpts r)) (snd (model_sources rcpts r)) =
  ORet [VNil; VErr n a] /\ (exists e : err, seal c v sender rcpts p r = Err e /\ sender_err_name e = n).
Proof. exact seal_spec_model_err. Qed.

Theorem C01_source_go_Seal :
  forall (CALLEE : list gval -> option (gval * gerr)) (V P S : gval) (l : list gval),
  fst (run_func2 (ext_wrap CALLEE "seal") f_saltpack_Seal [V; P; S; VList l]) =
  match l with
  | [] => ORet [VNil; VErr "ErrBadReceivers" []]
  | r0 :: _ => wrap_outcome CALLEE [V; P; S; VList l; r0; VStruct []]
  end.
Proof. exact go_Seal. Qed.

Theorem C01_source_go_Seal_spec :
  forall (c : crypto) (ra rb rc : rng) (v : version) (p : bytes) (sender : option bytes) (rcpts : list rcpt),
  fst
    (run_func2 (ext_wrap (SEAL_spec c ra rb rc) "seal") f_saltpack_Seal
       [g_version v; VBytes p; g_sender sender; VList (map g_rcpt rcpts)]) =
  match rcpts with
  | [] => ORet [VNil; VErr "ErrBadReceivers" []]
  | _ :: _ => seal_spec c v p sender rcpts ra rb rc
  end.
Proof. exact go_Seal_spec. Qed.

Theorem C01_source_compose_encryptStream_init :
  forall (c : crypto) (enc_step : gval -> bytes -> gval * gerr) (o : gval) (st : es_state) 
    (v : version) (sender : option bytes) (rcpts : list rcpt) (ra rb rc : rng),
  es_of_lit o = Some st ->
  let r :=
    run_func2 (ext_init c enc_step) f_saltpack_encryptStream_init
      [g_es st; g_version v; g_sender sender; VList (map g_rcpt rcpts); VBytes rb; g_rng ra rc] in
  match
    ext_nes c enc_step "encryptStream.init"
      [o; g_version v; g_sender sender; VList (map g_rcpt rcpts); VBytes rb; g_rng ra rc]
  with
  | Some [] => False
  | Some [e] => False
  | Some [e; es'] | Some [e; es'; _] | Some [e; es'; _; _] | Some [e; es'; _; _; _] => False
  | Some [e; es'; _; _; _; ek'] => False
  | Some (e :: es' :: _ :: _ :: _ :: ek' :: rng' :: _) =>
      fst r = ORet [e] /\
      lookup "es" (snd r) = Some es' /\
      lookup "rng" (snd r) = Some rng' /\ lookup "ephemeralKeyCreator" (snd r) = Some ek'
  | None => fst r = OStuck "call"
  end.
Proof. exact compose_encryptStream_init. Qed.

Theorem C01_source_compose_WR_es :
  forall (c : crypto) (st : es_state) (p : bytes),
  let r := run_func2 (ext_stream c mem_enc) f_saltpack_encryptStream_Write [g_es st; VBytes p] in
  match WR_es c (g_es st) (VBytes p) with
  | Some (n, e, es') => fst r = ORet [n; g_errv e] /\ lookup "es" (snd r) = Some es'
  | None => exists w : String.string, fst r = OStuck w
  end.
Proof. exact compose_WR_es. Qed.

Theorem C01_source_compose_CL_es :
  forall (c : crypto) (st : es_state),
  let r := run_func2 (ext_stream c mem_enc) f_saltpack_encryptStream_Close [g_es st] in
  match CL_es c (g_es st) with
  | Some (e, es') => fst r = ORet [g_errv e] /\ lookup "es" (snd r) = Some es'
  | None => (exists w : String.string, fst r = OStuck w) \/ fst r = OPanic
  end.
Proof. exact compose_CL_es. Qed.

Theorem C01_source_compose_newEncryptStream :
  forall (c : crypto) (enc_step : gval -> bytes -> gval * gerr) (ra rb rc : rng) (v : version) 
    (W EK : gval) (sender : option bytes) (rcpts : list rcpt),
  fst
    (run_func2 (ext_nes c enc_step) f_saltpack_newEncryptStream
       [g_version v; W; g_sender sender; VList (map g_rcpt rcpts); VBytes rb; g_rng ra rc]) =
  match
    ext_NES c enc_step ra rb rc "newEncryptStream"
      [g_version v; W; g_sender sender; VList (map g_rcpt rcpts); EK; VStruct []]
  with
  | Some rs => ORet rs
  | None => OStuck "call"
  end.
Proof. exact compose_newEncryptStream. Qed.

Theorem C01_source_compose_receiversToEphemeralKeyCreator :
  forall (c : crypto) (enc_step : gval -> bytes -> gval * gerr) (ra rb rc : rng) (l : list gval),
  fst (run_func2 (ext_NES c enc_step ra rb rc) f_saltpack_receiversToEphemeralKeyCreator [VList l]) =
  match ext_NES c enc_step ra rb rc "receiversToEphemeralKeyCreator" [VList l] with
  | Some rs => ORet rs
  | None => OStuck "call"
  end.
Proof. exact compose_receiversToEphemeralKeyCreator. Qed.

Theorem C01_source_compose_NEW_seal :
  forall (c : crypto) (v : version) (sender : option bytes) (rcpts : list rcpt) (ra rb rc : rng),
  nes_outcome c mem_enc v (VBytes []) sender rcpts ra rb rc =
  match NEW_seal c [g_version v; VNil; g_sender sender; VList (map g_rcpt rcpts); VBytes rb; g_rng ra rc] with
  | Some (es, e, _) => ORet [es; g_errv e]
  | None => OStuck "call"
  end.
Proof. exact compose_NEW_seal. Qed.

Theorem C01_source_nes_session_start :
  forall (c : crypto) (v : version) (out0 : bytes) (sender : option bytes) (rcpts : list rcpt) 
    (ra rb rc : rng) (obj : gval),
  nes_outcome c mem_enc v (VBytes out0) sender rcpts ra rb rc = ORet [obj; VNil] ->
  E.fresh_es v out0 (fresh_st v (VBytes out0)) /\
  E.go_es_init c (g_es (fresh_st v (VBytes out0))) v sender rcpts ra rb rc = Some obj.
Proof. exact nes_session_start. Qed.

Theorem C01_source_go_encrypt_session_from_NewEncryptStream :
  forall (c : crypto) (v : version) (out0 : bytes) (sender : option bytes) (rcpts : list rcpt) 
    (ra rb rc : rng) (pieces : list bytes) (obj : gval),
  fst
    (run_func2 (ext_NES c mem_enc ra rb rc) f_saltpack_NewEncryptStream
       [g_version v; VBytes out0; g_sender sender; VList (map g_rcpt rcpts)]) = ORet [obj; VNil] ->
  E.fresh_es v out0 (fresh_st v (VBytes out0)) /\
  E.go_encrypt_session c (g_es (fresh_st v (VBytes out0))) v sender rcpts ra rb rc pieces =
  match E.go_es_writes c obj pieces with
  | Some es2 => E.go_es_close c es2
  | None => None
  end.
Proof. exact go_encrypt_session_from_NewEncryptStream. Qed.

End C01_source_entry.

Print Assumptions C01_source_go_receiversToEphemeralKeyCreator.
Print Assumptions C01_source_go_newEncryptStream.
Print Assumptions C01_source_go_NewEncryptStream.
Print Assumptions C01_source_go_NewEncryptStream_wrap.
Print Assumptions C01_source_go_seal_glue.
Print Assumptions C01_source_go_seal_aliased.
Print Assumptions C01_source_go_seal_stale.
Print Assumptions C01_source_seal_spec_model.
Print Assumptions C01_source_seal_spec_model_err.
Print Assumptions C01_source_go_Seal.
Print Assumptions C01_source_go_Seal_spec.
Print Assumptions C01_source_compose_encryptStream_init.
Print Assumptions C01_source_compose_WR_es.
Print Assumptions C01_source_compose_CL_es.
Print Assumptions C01_source_compose_newEncryptStream.
Print Assumptions C01_source_compose_receiversToEphemeralKeyCreator.
Print Assumptions C01_source_compose_NEW_seal.
Print Assumptions C01_source_nes_session_start.
Print Assumptions C01_source_go_encrypt_session_from_NewEncryptStream.


