(* C14 — I/O faults are reported, never swallowed.
   PROVED, READ side (saltpack's own adaptors): for every fragmentation of the
   underlying reader and every caller buffer sizes, an error of the underlying reader
   — delivered alone or together with data — is what ends the adaptor's stream: never a
   clean end instead, never before the data that preceded it, and nothing but source
   bytes is handed on.
   PROVED, WRITE side (block "write side" below; lemmas of proofs/WriteFaultProofs.v, about the specification functions
   that GoAstProofs5a/5b/5d/6a/6b tie to the translated Go source of the six encoding streams: encryptStream,
   signAttachedStream, signDetachedStream, signcryptSealStream, the base-X stream encoder, the armor encoder stream):
   - NO SILENT LOSS, all six streams: along ANY sequence of calls in which every call (constructor/init included) returned
     nil, the writer took exactly the complete message.  Hypothesis on the writer: for the four packet streams the
     encoder step (what presenting one packet to the msgpack encoder does) is HONEST-OR-FAILING ([honest]: a step that
     reports success has taken exactly the packet; nothing is assumed about a step that reports an error); for base-X and
     armor the writer is the concrete logging writer of GoAstProofs5b with an ARBITRARY error schedule.
   - ERROR RETURNED AT ONCE, all six: a call during which the writer reports an error returns a non-nil error (packet
     streams: on the instrumented step [logged]; base-X / armor: nil IFF every schedule entry used was nil).
   - STICKY: encryptStream.Write, signcryptSealStream.Write; the base-X encoder's and (with the fix of /repo/armor.go: field
     s.err) the armor stream's Write AND Close.
   - "Close never reports success for a message that was not completely written" (theorems ..._no_nil_close_after_error,
     ..._close_nil_all_nil, ..._close_nil_complete):
       for the ARMOR stream and the BASE-X encoder it holds with NO hypothesis beyond the honest (logging) writer: the
       stickiness is their own (C14_write_ar_close_nil_complete; C14_write_bx_error_sticks);
       for encryptStream, signcryptSealStream, signAttachedStream it is NOT a property of saltpack's own code (their Close
       does not read err / there is no err field: the Examples ex_..._close_after_failed_write of WriteFaultProofs.v) and holds UNDER THE
       HYPOTHESIS that the encoder step is STICKY ([sticky_step]: once it has reported an error it reports one on every
       later call).  go-codec's Encoder behaves so (it stores its first error); it is MODELLED, not translated: [codec s]
       is that sticky encoder put in front of an arbitrary step s (C14_write_codec_sticky / _honest);
       signDetachedStream needs no hypothesis (Write makes no step, Close one);
       the three armored sender STACKS (packet stream over [codec] over the armor stream over the base-X encoder over a
       logging writer with any schedule): the three C14_write_..stack_close_nil_complete.
   NOT a theorem (campaign only, see DESIGN.md): go-codec's encoder itself (only its sticky behaviour is modelled, as the
   [codec] step; how it cuts a packet into Write calls is not), the detached signer over the armor stream, what happens
   after a Close that SUCCEEDED, and the composed decode stacks — these are decided by exhaustive fault enumeration (a
   fault at EVERY underlying Write/Read call of a fault-free run).
   Only property theorems here. *)
From Coq Require Import List NArith ZArith.
From Coq.Strings Require Import Byte.
From SP Require Import Bytes Errors Armor Streams StreamProofs FaultProofs.
From Coq Require String.
From SP Require BaseX GoLang GoLang2 GoAst GoAstEnc GoAstProofs5b.
From SP Require Params Crypto Rand Encodings GoAstProofs5a GoAstProofs5d GoAstProofs6a GoAstProofs6b WriteFaultProofs.
Import ListNotations.

Theorem C14_punctuated_reader_reports_fault (s : source) (sizes : list nat) (done : list bytes) (cur : bytes) (e : err) :
  pos_sizes sizes ->
  pr_drain sizes (pr_init s) [] [] = (done, cur, Some e) ->
  e = snd (src_denote s) /\ flatten done cur = fst (src_denote s).
Proof. exact (pr_fault_reported s sizes done cur e). Qed.

Theorem C14_chunk_reader_reports_fault (l : list (bytes * option err)) (sizes : list nat) (d : bytes) (e : err) :
  chunks_wf l -> pos_sizes sizes ->
  cr_drain sizes (mkCr [] None l) [] = (d, Some e) ->
  chunks_denote l = (d, Some e).
Proof. exact (cr_fault_reported l sizes d e). Qed.

Theorem C14_frame_sentence_reports_fault (s : source) (lim fuel : nat) (E : err) :
  src_wf s -> (0 < lim)%nat ->
  (length (fst (src_denote s)) + length (src_segs s) + 2 <= fuel)%nat ->
  snd (src_denote s) = E -> E <> EOF ->
  split_dot (fst (src_denote s)) = None -> (length (fst (src_denote s)) < lim)%nat ->
  fst (pr_read_until fuel lim (pr_init s) []) = Err E.
Proof. exact (pr_until_fault_reported s lim fuel E). Qed.

(* the adaptor cannot end before the source does: enough reads always reach the source's error *)
Theorem C14_chunk_reader_reaches_the_error (l : list (bytes * option err)) (sizes : list nat) :
  chunks_wf l -> pos_sizes sizes ->
  (length (fst (chunks_denote l)) + length l + 1 <= length sizes)%nat ->
  snd (cr_drain sizes (mkCr [] None l) []) <> None.
Proof. exact (cr_drain_complete l sizes). Qed.

(* ---- source ties: the sticky error of the streaming base-X ENCODER (/repo/encoding/basex/stream.go),
        lemmas of proofs/GoAstProofs5b.v ---- *)
(* WRITE side, one layer proved on the translated source: the terms f_basex_encoder_Write / _Close are generated on
   every run from the Go syntax trees of /repo/encoding/basex/stream.go (gen/GoAstEnc.v) and run by the evaluator
   of model/GoLang2.v ([run2] = run_func2 with the fuel F as a parameter).  The *encoder object is [g_obj en o],
   o : gobj = (e.err, e.buf, e.nbuf, e.out, e.w); the underlying io.Writer is a log of the Write calls made plus a
   schedule of the errors it will return.  An error of the underlying writer is stored in e.err and returned
   (C10_source_encoder_Write / _Close: the error returned and stored is that of the FIRST failing call, and no
   call is made after it); the two theorems here say it then STICKS: every later Write / Close returns that very
   error, consumes nothing and writes nothing — the whole object, writer log included, is unchanged.
   Hypotheses of both: Hibl: 0 < base256BlockLen; HK: 1 <= K; gobj_ok en K o (the invariants NewEncoder establishes
   and Write/Close keep: len(e.buf) = base256BlockLen, len(e.out) = K * baseXBlockLen); e.err = Some x; and the
   evaluator's fuel bound (a bound on the evaluator, not on the Go code). *)
Section C14_source.
Import BaseX GoLang GoLang2 GoAst GoAstEnc GoAstProofs5b String.StringSyntax.
Variable en : encoding.
Variable K : nat.
Hypothesis Hibl : (0 < ibl_nat en)%nat.
Hypothesis HK : (1 <= K)%nat.

(* with e.err <> nil, Write(p) returns (0, e.err) and changes nothing *)
Theorem C14_source_encoder_Write_sticky (o : gobj) (p : bytes) (x : String.string) (F : nat) :
  gobj_ok en K o -> go_err o = Some x -> (30 + ibl_nat en + List.length p / (K * ibl_nat en) <= F)%nat ->
  let r := run2 (ext_bx en) F f_basex_encoder_Write [g_obj en o; VBytes p] in
  fst r = ORet [VInt 0; VErr x []] /\ lookup "e" (snd r) = Some (g_obj en o).
Proof. exact (go_encoder_Write_sticky en K Hibl HK o p x F). Qed.

(* Close after an error: returns it, nothing is written *)
Theorem C14_source_encoder_Close_sticky (o : gobj) (x : String.string) (F : nat) :
  gobj_ok en K o -> go_err o = Some x -> (12 <= F)%nat ->
  let r := run2 (ext_bx en) F f_basex_encoder_Close [g_obj en o] in
  fst r = ORet [VErr x []] /\ lookup "e" (snd r) = Some (g_obj en o).
Proof. exact (go_encoder_Close_sticky en K Hibl HK o x F). Qed.
End C14_source.


(* ---- WRITE SIDE: the six encoding streams and the armored sender stacks, lemmas of proofs/WriteFaultProofs.v ---- *)
(* Vocabulary (definitions of WriteFaultProofs.v; the specification functions es_*, sas_*, sds_*, sss_*, gw_*, ga_* are those
   that GoAstProofs5a/6a/6b/5b/5d prove equal to the translated Go methods).
   [step] = gval -> bytes -> gval * gerr: what presenting ONE packet to the encoder object does (new object, error).
   [honest written s]: s o pkt = (o', None) -> written o' = written o ++ pkt.   [sticky_step broken s]: a step that reports an
   error leaves a broken object; on a broken object every step reports an error.   [codec s]: go-codec's sticky encoder in
   front of s.   [logged s] / [instr] / [saw_error]: the step instrumented with a flag "has reported an error".
   [op] = OpWrite p | OpClose; [run call st ops] runs the calls one after the other on the receiver as each call leaves it,
   ALSO after an error, and collects what they return ([Ret e]; [Halt] = a panic ends the run); [X.session ...] = constructor /
   init, then run; [session_ops pieces] = Write p1; ..; Write pn; Close; [all_nil outs]: every entry is Ret None.
   [mem_enc]: the never-failing in-memory writer (its object is the bytes written so far).
   Base-X / armor: the writer is GoAstProofs5b.wr (log of the calls made + schedule of the errors to return);
   [Bx.written_log w] = concatenation of the log.  [Ar.ast]: the armor stream object (encoder object, pending characters,
   words, writer, the sticky error s.err); [Ar.ar_run footer] = run of Ar.call = ar_write / ar_close. *)
Section C14_write.
Import Params Crypto Rand BaseX Encodings GoLang GoLang2 GoAstProofs5b GoAstProofs5d WriteFaultProofs.

(* -- encryptStream (/repo/encrypt.go) -- *)
(* encryptStream, NO SILENT LOSS: init, then ANY sequence of Write / Close calls; if every call returned nil, the
   never-failing in-memory instance returns nil on the same calls and ends in the same object, its encoder holding exactly
   the bytes the writer took.  Hypothesis: the step is honest-or-failing.  Nothing on version, keys, sizes, randomness. *)
Theorem C14_write_es_no_silent_loss (c : crypto) (written : gval -> bytes) (s : step) (w0 : gval) (v v' : version)
        (sender : option bytes) (rcpts : list Encrypt.rcpt) (ra rb rc : rng)
        (ops : list op) (outs : list outc) (st' : GoAstProofs5a.es_state) :
  honest written s ->
  Enc.session c s (Enc.fresh v' w0) v sender rcpts ra rb rc ops = (outs, st') ->
  all_nil outs ->
  Enc.session c GoAstProofs5a.mem_enc (Enc.fresh v' (VBytes (written w0))) v sender rcpts ra rb rc ops =
  (outs, GoAstProofs5a.set_enc st' (VBytes (written (GoAstProofs5a.es_enc st')))).
Proof. exact (Enc.es_no_silent_loss c written s w0 v v' sender rcpts ra rb rc ops outs st'). Qed.
(* the same for Write p1; ..; Write pn; Close on a writer that held nothing: the writer took the complete message (what the
   in-memory instance produces) *)
Theorem C14_write_es_no_silent_loss_pieces (c : crypto) (written : gval -> bytes) (s : step) (w0 : gval) (v : version)
        (sender : option bytes) (rcpts : list Encrypt.rcpt) (ra rb rc : rng)
        (pieces : list bytes) (outs : list outc)
        (st' : GoAstProofs5a.es_state) :
  honest written s ->
  written w0 = [] ->
  Enc.session c s (Enc.fresh v w0) v sender rcpts ra rb rc (session_ops pieces) = (outs, st') ->
  all_nil outs ->
  exists stm : GoAstProofs5a.es_state,
    Enc.session c GoAstProofs5a.mem_enc (Enc.fresh v (VBytes [])) v sender rcpts ra rb rc (session_ops pieces) =
    (outs, stm) /\ GoAstProofs5a.es_enc stm = VBytes (written (GoAstProofs5a.es_enc st')).
Proof. exact (Enc.es_no_silent_loss_pieces c written s w0 v sender rcpts ra rb rc pieces outs st'). Qed.
(* ERROR RETURNED AT ONCE (Write): run on the instrumented step from an object whose flag is down; if the step reported an
   error during the call (flag up afterwards), Write returned a non-nil error.  No other hypothesis. *)
Theorem C14_write_es_write_reports (c : crypto) (s : step) (st : GoAstProofs5a.es_state) (o : gval) (p : bytes) (n : Z)
        (e : GoAstProofs5a.gerr) (st' : GoAstProofs5a.es_state) :
  GoAstProofs5a.es_enc st = instr o ->
  GoAstProofs5a.es_write c (logged s) st p = GoAstProofs5a.WRet n e st' ->
  saw_error (GoAstProofs5a.es_enc st') = true -> e <> None.
Proof. exact (Enc.es_write_reports c s st o p n e st'). Qed.
(* ... the same for Close *)
Theorem C14_write_es_close_reports (c : crypto) (s : step) (st : GoAstProofs5a.es_state) (o : gval)
        (e : GoAstProofs5a.gerr) (st' : GoAstProofs5a.es_state) :
  GoAstProofs5a.es_enc st = instr o ->
  GoAstProofs5a.es_close c (logged s) st = GoAstProofs5a.CloseRet e st' ->
  saw_error (GoAstProofs5a.es_enc st') = true -> e <> None.
Proof. exact (Enc.es_close_reports c s st o e st'). Qed.
(* ... and for init (the header packet) *)
Theorem C14_write_es_init_reports (c : crypto) (s : step) (st : GoAstProofs5a.es_state) (o : gval) (v : version)
        (sender : option bytes) (rcpts : list Encrypt.rcpt) (ra rb rc : rng)
        (e : GoAstProofs5a.gerr) (st' : GoAstProofs5a.es_state) (ra' rb' rc' : rng) :
  GoAstProofs5a.es_enc st = instr o ->
  GoAstProofs5a.es_init c (logged s) st v sender rcpts ra rb rc = GoAstProofs5a.IRet e st' ra' rb' rc' ->
  saw_error (GoAstProofs5a.es_enc st') = true -> e <> None.
Proof. exact (Enc.es_init_reports c s st o v sender rcpts ra rb rc e st' ra' rb' rc'). Qed.
(* STICKY: with s.err = e set, every Write of any run returns e; Close calls in between do not clear it.  No hypothesis. *)
Theorem C14_write_es_sticky (c : crypto) (s : step) (e : String.string * list gval) (ops : list op)
        (st : GoAstProofs5a.es_state) (outs : list outc) (st' : GoAstProofs5a.es_state) :
  GoAstProofs5a.es_err st = Some e ->
  run (Enc.call c s) st ops = (outs, st') ->
  writes_return (Some e) ops outs /\ GoAstProofs5a.es_err st' = Some e.
Proof. exact (Enc.es_sticky c s e ops st outs st'). Qed.
(* a Write that returned an error has set it: every later Write returns it, consuming nothing *)
Theorem C14_write_es_write_error_sticks (c : crypto) (s : step) (st : GoAstProofs5a.es_state) (p : bytes) (n : Z)
        (e : String.string * list gval) (st1 : GoAstProofs5a.es_state)
        (ops : list op) (outs : list outc) (st' : GoAstProofs5a.es_state) :
  GoAstProofs5a.es_write c s st p = GoAstProofs5a.WRet n (Some e) st1 ->
  run (Enc.call c s) st1 ops = (outs, st') ->
  writes_return (Some e) ops outs /\
  (forall q : bytes, GoAstProofs5a.es_write c s st1 q = GoAstProofs5a.WRet 0 (Some e) st1).
Proof. exact (Enc.es_write_error_sticks c s st p n e st1 ops outs st'). Qed.
(* C14 AS WORDED, under the STICKY-ENCODER hypothesis (sticky_step: what go-codec's encoder does): in any run, after a call
   that returned an error no later Close returns nil.  Hypotheses: sticky_step broken s; Enc.Inv on the starting object
   (err = nil, or the encoder broken / the counter exhausted: true after init). *)
Theorem C14_write_es_no_nil_close_after_error (c : crypto) (s : step) (broken : gval -> Prop) :
  sticky_step broken s ->
  forall (st : GoAstProofs5a.es_state) (ops : list op) (outs : list outc) (st' : GoAstProofs5a.es_state)
    (i j : nat) (e : String.string * list gval),
  Enc.Inv broken st ->
  run (Enc.call c s) st ops = (outs, st') ->
  (i < j)%nat ->
  nth_error outs i = Some (Ret (Some e)) ->
  nth_error ops j = Some OpClose -> nth_error outs j <> Some (Ret None).
Proof. exact (Enc.es_no_nil_close_after_error c s broken). Qed.
(* init; Write*; Close all made and the final Close returned nil ==> every call returned nil.  Hypothesis: sticky_step. *)
Theorem C14_write_es_close_nil_all_nil (c : crypto) (broken : gval -> Prop) (s : step) (st0 : GoAstProofs5a.es_state)
        (v : version) (sender : option bytes) (rcpts : list Encrypt.rcpt)
        (ra rb rc : rng) (pieces : list bytes) (outs : list outc)
        (st' : GoAstProofs5a.es_state) :
  sticky_step broken s ->
  GoAstProofs5a.es_err st0 = None ->
  Enc.session c s st0 v sender rcpts ra rb rc (session_ops pieces) = (outs, st') ->
  length outs = S (S (length pieces)) -> last outs (Halt String.EmptyString) = Ret None -> all_nil outs.
Proof. exact (Enc.es_close_nil_all_nil c broken s st0 v sender rcpts ra rb rc pieces outs st'). Qed.
(* ... and, with an honest step and a writer that held nothing, the writer took the complete message *)
Theorem C14_write_es_close_nil_complete (c : crypto) (written : gval -> bytes) (broken : gval -> Prop) (s : step)
        (w0 : gval) (v : version) (sender : option bytes)
        (rcpts : list Encrypt.rcpt) (ra rb rc : rng) (pieces : list bytes)
        (outs : list outc) (st' : GoAstProofs5a.es_state) :
  honest written s ->
  sticky_step broken s ->
  written w0 = [] ->
  Enc.session c s (Enc.fresh v w0) v sender rcpts ra rb rc (session_ops pieces) = (outs, st') ->
  length outs = S (S (length pieces)) ->
  last outs (Halt String.EmptyString) = Ret None ->
  all_nil outs /\
  (exists stm : GoAstProofs5a.es_state,
     Enc.session c GoAstProofs5a.mem_enc (Enc.fresh v (VBytes [])) v sender rcpts ra rb rc (session_ops pieces) =
     (outs, stm) /\ GoAstProofs5a.es_enc stm = VBytes (written (GoAstProofs5a.es_enc st'))).
Proof. exact (Enc.es_close_nil_complete c written broken s w0 v sender rcpts ra rb rc pieces outs st'). Qed.

(* -- signAttachedStream (/repo/sign_stream.go) -- *)
(* signAttachedStream (F = loop turns of the evaluator, any F): NO SILENT LOSS, as for encryptStream *)
Theorem C14_write_sas_no_silent_loss (c : crypto) (F : nat) (written : gval -> bytes) (s : step) (w0 : gval)
        (v : version) (signer : option bytes) (r : rng) (ops : list op)
        (outs : list outc) (st' : option GoAstProofs6a.sas_state) :
  honest written s ->
  SignA.session c F s v w0 signer r ops = (outs, st') ->
  all_nil outs ->
  exists st1 : GoAstProofs6a.sas_state,
    st' = Some st1 /\
    SignA.session c F GoAstProofs6a.mem_enc v (VBytes (written w0)) signer r ops =
    (outs, Some (GoAstProofs6a.set_enc st1 (VBytes (written (GoAstProofs6a.sas_enc st1))))).
Proof. exact (SignA.sas_no_silent_loss c F written s w0 v signer r ops outs st'). Qed.
Theorem C14_write_sas_no_silent_loss_pieces (c : crypto) (F : nat) (written : gval -> bytes) (s : step) (w0 : gval)
        (v : version) (signer : option bytes) (r : rng)
        (pieces : list bytes) (outs : list outc)
        (st' : option GoAstProofs6a.sas_state) :
  honest written s ->
  written w0 = [] ->
  SignA.session c F s v w0 signer r (session_ops pieces) = (outs, st') ->
  all_nil outs ->
  exists st1 stm : GoAstProofs6a.sas_state,
    st' = Some st1 /\
    SignA.session c F GoAstProofs6a.mem_enc v (VBytes []) signer r (session_ops pieces) = (outs, Some stm) /\
    GoAstProofs6a.sas_enc stm = VBytes (written (GoAstProofs6a.sas_enc st1)).
Proof. exact (SignA.sas_no_silent_loss_pieces c F written s w0 v signer r pieces outs st'). Qed.
(* ERROR RETURNED AT ONCE: Write, Close, constructor (if a stream is returned, the flag is down) *)
Theorem C14_write_sas_write_reports (c : crypto) (F : nat) (s : step) (st : GoAstProofs6a.sas_state) (o : gval)
        (p : bytes) (n : Z) (e : GoAstProofs6a.gerr)
        (st' : GoAstProofs6a.sas_state) :
  GoAstProofs6a.sas_enc st = instr o ->
  GoAstProofs6a.sas_write c (logged s) F st p = GoAstProofs6a.WRet n e st' ->
  saw_error (GoAstProofs6a.sas_enc st') = true -> e <> None.
Proof. exact (SignA.sas_write_reports c F s st o p n e st'). Qed.
Theorem C14_write_sas_close_reports (c : crypto) (s : step) (st : GoAstProofs6a.sas_state) (o : gval)
        (e : GoAstProofs6a.gerr) (st' : GoAstProofs6a.sas_state) :
  GoAstProofs6a.sas_enc st = instr o ->
  GoAstProofs6a.sas_close c (logged s) st = GoAstProofs6a.CloseRet e st' ->
  saw_error (GoAstProofs6a.sas_enc st') = true -> e <> None.
Proof. exact (SignA.sas_close_reports c s st o e st'). Qed.
Theorem C14_write_sas_new_reports (c : crypto) (s : step) (v : version) (o : gval) (signer : option bytes) (r : rng)
        (st : GoAstProofs6a.sas_state) :
  SignA.new_state c (logged s) v (instr o) signer r = (Ret None, Some st) ->
  saw_error (GoAstProofs6a.sas_enc st) = false.
Proof. exact (SignA.sas_new_reports c s v o signer r st). Qed.
(* signAttachedStream has no err field: after an error, the property rests on the sticky encoder alone.  Hypothesis: sticky_step. *)
Theorem C14_write_sas_no_nil_close_after_error (c : crypto) (F : nat) (s : step) (broken : gval -> Prop) :
  sticky_step broken s ->
  forall (st : GoAstProofs6a.sas_state) (ops : list op) (outs : list outc) (st' : GoAstProofs6a.sas_state)
    (i j : nat) (e : String.string * list gval),
  run (SignA.call c F s) st ops = (outs, st') ->
  (i < j)%nat ->
  nth_error outs i = Some (Ret (Some e)) ->
  nth_error ops j = Some OpClose -> nth_error outs j <> Some (Ret None).
Proof. exact (SignA.sas_no_nil_close_after_error c F s broken). Qed.
Theorem C14_write_sas_close_nil_all_nil (c : crypto) (F : nat) (broken : gval -> Prop) (s : step) (w0 : gval)
        (v : version) (signer : option bytes) (r : rng) (pieces : list bytes)
        (outs : list outc) (st' : option GoAstProofs6a.sas_state) :
  sticky_step broken s ->
  SignA.session c F s v w0 signer r (session_ops pieces) = (outs, st') ->
  length outs = S (S (length pieces)) -> last outs (Halt String.EmptyString) = Ret None -> all_nil outs.
Proof. exact (SignA.sas_close_nil_all_nil c F broken s w0 v signer r pieces outs st'). Qed.
Theorem C14_write_sas_close_nil_complete (c : crypto) (F : nat) (written : gval -> bytes) (broken : gval -> Prop)
        (s : step) (w0 : gval) (v : version) (signer : option bytes) (r : rng)
        (pieces : list bytes) (outs : list outc)
        (st' : option GoAstProofs6a.sas_state) :
  honest written s ->
  sticky_step broken s ->
  written w0 = [] ->
  SignA.session c F s v w0 signer r (session_ops pieces) = (outs, st') ->
  length outs = S (S (length pieces)) ->
  last outs (Halt String.EmptyString) = Ret None ->
  all_nil outs /\
  (exists st1 stm : GoAstProofs6a.sas_state,
     st' = Some st1 /\
     SignA.session c F GoAstProofs6a.mem_enc v (VBytes []) signer r (session_ops pieces) = (outs, Some stm) /\
     GoAstProofs6a.sas_enc stm = VBytes (written (GoAstProofs6a.sas_enc st1))).
Proof. exact (SignA.sas_close_nil_complete c F written broken s w0 v signer r pieces outs st'). Qed.

(* -- signDetachedStream (/repo/sign_stream.go) -- *)
(* signDetachedStream: NO SILENT LOSS *)
Theorem C14_write_sds_no_silent_loss (c : crypto) (written : gval -> bytes) (s : step) (w0 : gval) (v : version)
        (signer : option bytes) (r : rng) (ops : list op) (outs : list outc)
        (st' : option GoAstProofs6a.sds_state) :
  honest written s ->
  SignD.session c s v w0 signer r ops = (outs, st') ->
  all_nil outs ->
  exists st1 : GoAstProofs6a.sds_state,
    st' = Some st1 /\
    SignD.session c GoAstProofs6a.mem_enc v (VBytes (written w0)) signer r ops =
    (outs, Some (SignD.set_enc st1 (VBytes (written (GoAstProofs6a.sds_enc st1))))).
Proof. exact (SignD.sds_no_silent_loss c written s w0 v signer r ops outs st'). Qed.
(* Close returns exactly the error of its one step (the signature packet); Write makes no step; the constructor *)
Theorem C14_write_sds_close_reports (c : crypto) (s : step) (st : GoAstProofs6a.sds_state) :
  fst (SignD.call c s st OpClose) = Ret (snd (s (GoAstProofs6a.sds_enc st) (SignD.sds_sig_packet c st))).
Proof. exact (SignD.sds_close_reports c s st). Qed.
Theorem C14_write_sds_write_no_step (c : crypto) (s : step) (st : GoAstProofs6a.sds_state) (p : bytes) :
  fst (SignD.call c s st (OpWrite p)) = Ret None /\
  GoAstProofs6a.sds_enc (snd (SignD.call c s st (OpWrite p))) = GoAstProofs6a.sds_enc st.
Proof. exact (SignD.sds_write_no_step c s st p). Qed.
Theorem C14_write_sds_new_reports (c : crypto) (s : step) (v : version) (o : gval) (signer : option bytes) (r : rng)
        (st : GoAstProofs6a.sds_state) :
  SignD.new_state c (logged s) v (instr o) signer r = (Ret None, Some st) ->
  saw_error (GoAstProofs6a.sds_enc st) = false.
Proof. exact (SignD.sds_new_reports c s v o signer r st). Qed.
(* the final Close returned nil ==> every call returned nil.  NO hypothesis on the step. *)
Theorem C14_write_sds_close_nil_all_nil (c : crypto) (s : step) (v : version) (w0 : gval) (signer : option bytes)
        (r : rng) (pieces : list bytes) (outs : list outc)
        (st' : option GoAstProofs6a.sds_state) :
  SignD.session c s v w0 signer r (session_ops pieces) = (outs, st') ->
  length outs = S (S (length pieces)) -> last outs (Halt String.EmptyString) = Ret None -> all_nil outs.
Proof. exact (SignD.sds_close_nil_all_nil c s v w0 signer r pieces outs st'). Qed.

(* -- signcryptSealStream (/repo/signcrypt_seal.go) -- *)
(* signcryptSealStream: NO SILENT LOSS *)
Theorem C14_write_sss_no_silent_loss (c : crypto) (written : gval -> bytes) (s : step) (w0 : gval)
        (signer : option bytes) (boxes : list bytes) (syms : list (bytes * bytes))
        (ra rk rb : bytes) (ops : list op) (outs : list outc)
        (st' : GoAstProofs6b.sss_state) :
  honest written s ->
  Sc.session c s (Sc.fresh w0 signer) boxes syms ra rk rb ops = (outs, st') ->
  all_nil outs ->
  Sc.session c GoAstProofs6b.mem_enc (Sc.fresh (VBytes (written w0)) signer) boxes syms ra rk rb ops =
  (outs, GoAstProofs6b.set_enc st' (VBytes (written (GoAstProofs6b.ss_enc st')))).
Proof. exact (Sc.sss_no_silent_loss c written s w0 signer boxes syms ra rk rb ops outs st'). Qed.
Theorem C14_write_sss_no_silent_loss_pieces (c : crypto) (written : gval -> bytes) (s : step) (w0 : gval)
        (signer : option bytes) (boxes : list bytes)
        (syms : list (bytes * bytes)) (ra rk rb : bytes)
        (pieces : list bytes) (outs : list outc)
        (st' : GoAstProofs6b.sss_state) :
  honest written s ->
  written w0 = [] ->
  Sc.session c s (Sc.fresh w0 signer) boxes syms ra rk rb (session_ops pieces) = (outs, st') ->
  all_nil outs ->
  exists stm : GoAstProofs6b.sss_state,
    Sc.session c GoAstProofs6b.mem_enc (Sc.fresh (VBytes []) signer) boxes syms ra rk rb (session_ops pieces) =
    (outs, stm) /\ GoAstProofs6b.ss_enc stm = VBytes (written (GoAstProofs6b.ss_enc st')).
Proof. exact (Sc.sss_no_silent_loss_pieces c written s w0 signer boxes syms ra rk rb pieces outs st'). Qed.
(* ERROR RETURNED AT ONCE: Write, Close, init *)
Theorem C14_write_sss_write_reports (c : crypto) (s : step) (st : GoAstProofs6b.sss_state) (o : gval) (p : bytes)
        (n : Z) (e : GoAstProofs6b.gerr) (st' : GoAstProofs6b.sss_state) :
  GoAstProofs6b.ss_enc st = instr o ->
  GoAstProofs6b.sss_write c (logged s) st p = GoAstProofs6b.WRet n e st' ->
  saw_error (GoAstProofs6b.ss_enc st') = true -> e <> None.
Proof. exact (Sc.sss_write_reports c s st o p n e st'). Qed.
Theorem C14_write_sss_close_reports (c : crypto) (s : step) (st : GoAstProofs6b.sss_state) (o : gval)
        (e : GoAstProofs6b.gerr) (st' : GoAstProofs6b.sss_state) :
  GoAstProofs6b.ss_enc st = instr o ->
  GoAstProofs6b.sss_close c (logged s) st = GoAstProofs6b.CloseRet e st' ->
  saw_error (GoAstProofs6b.ss_enc st') = true -> e <> None.
Proof. exact (Sc.sss_close_reports c s st o e st'). Qed.
Theorem C14_write_sss_init_reports (c : crypto) (s : step) (st : GoAstProofs6b.sss_state) (o : gval)
        (boxes : list bytes) (syms : list (bytes * bytes)) (ra rk rb : bytes)
        (e : GoAstProofs6b.gerr) (st' : GoAstProofs6b.sss_state)
        (ra' rk' rb' : bytes) :
  GoAstProofs6b.ss_enc st = instr o ->
  GoAstProofs6b.sss_init c (logged s) st boxes syms ra rk rb = GoAstProofs6b.IRet e st' ra' rk' rb' ->
  saw_error (GoAstProofs6b.ss_enc st') = true -> e <> None.
Proof. exact (Sc.sss_init_reports c s st o boxes syms ra rk rb e st' ra' rk' rb'). Qed.
(* STICKY (Write only, as for encryptStream) *)
Theorem C14_write_sss_sticky (c : crypto) (s : step) (e : String.string * list gval) (ops : list op)
        (st : GoAstProofs6b.sss_state) (outs : list outc) (st' : GoAstProofs6b.sss_state) :
  GoAstProofs6b.ss_err st = Some e ->
  run (Sc.call c s) st ops = (outs, st') -> writes_return (Some e) ops outs /\ GoAstProofs6b.ss_err st' = Some e.
Proof. exact (Sc.sss_sticky c s e ops st outs st'). Qed.
Theorem C14_write_sss_write_error_sticks (c : crypto) (s : step) (st : GoAstProofs6b.sss_state) (p : bytes) (n : Z)
        (e : String.string * list gval) (st1 : GoAstProofs6b.sss_state)
        (ops : list op) (outs : list outc) (st' : GoAstProofs6b.sss_state) :
  GoAstProofs6b.sss_write c s st p = GoAstProofs6b.WRet n (Some e) st1 ->
  run (Sc.call c s) st1 ops = (outs, st') ->
  writes_return (Some e) ops outs /\
  (forall q : bytes, GoAstProofs6b.sss_write c s st1 q = GoAstProofs6b.WRet 0 (Some e) st1).
Proof. exact (Sc.sss_write_error_sticks c s st p n e st1 ops outs st'). Qed.
(* C14 as worded, under the sticky-encoder hypothesis *)
Theorem C14_write_sss_no_nil_close_after_error (c : crypto) (s : step) (broken : gval -> Prop) :
  sticky_step broken s ->
  forall (st : GoAstProofs6b.sss_state) (ops : list op) (outs : list outc) (st' : GoAstProofs6b.sss_state)
    (i j : nat) (e : String.string * list gval),
  Sc.Inv broken st ->
  run (Sc.call c s) st ops = (outs, st') ->
  (i < j)%nat ->
  nth_error outs i = Some (Ret (Some e)) ->
  nth_error ops j = Some OpClose -> nth_error outs j <> Some (Ret None).
Proof. exact (Sc.sss_no_nil_close_after_error c s broken). Qed.
Theorem C14_write_sss_close_nil_all_nil (c : crypto) (broken : gval -> Prop) (s : step) (st0 : GoAstProofs6b.sss_state)
        (boxes : list bytes) (syms : list (bytes * bytes)) (ra rk rb : bytes)
        (pieces : list bytes) (outs : list outc)
        (st' : GoAstProofs6b.sss_state) :
  sticky_step broken s ->
  GoAstProofs6b.ss_err st0 = None ->
  Sc.session c s st0 boxes syms ra rk rb (session_ops pieces) = (outs, st') ->
  length outs = S (S (length pieces)) -> last outs (Halt String.EmptyString) = Ret None -> all_nil outs.
Proof. exact (Sc.sss_close_nil_all_nil c broken s st0 boxes syms ra rk rb pieces outs st'). Qed.
Theorem C14_write_sss_close_nil_complete (c : crypto) (written : gval -> bytes) (broken : gval -> Prop) (s : step)
        (w0 : gval) (signer : option bytes) (boxes : list bytes)
        (syms : list (bytes * bytes)) (ra rk rb : bytes) (pieces : list bytes)
        (outs : list outc) (st' : GoAstProofs6b.sss_state) :
  honest written s ->
  sticky_step broken s ->
  written w0 = [] ->
  Sc.session c s (Sc.fresh w0 signer) boxes syms ra rk rb (session_ops pieces) = (outs, st') ->
  length outs = S (S (length pieces)) ->
  last outs (Halt String.EmptyString) = Ret None ->
  all_nil outs /\
  (exists stm : GoAstProofs6b.sss_state,
     Sc.session c GoAstProofs6b.mem_enc (Sc.fresh (VBytes []) signer) boxes syms ra rk rb (session_ops pieces) =
     (outs, stm) /\ GoAstProofs6b.ss_enc stm = VBytes (written (GoAstProofs6b.ss_enc st'))).
Proof. exact (Sc.sss_close_nil_complete c written broken s w0 signer boxes syms ra rk rb pieces outs st'). Qed.

(* -- the base-X stream encoder (/repo/encoding/basex/stream.go) -- *)
(* the base-X stream encoder over the logging writer (any schedule): NO SILENT LOSS - any calls, all nil ==> the writer holds
   what it held followed by the model's writes (bxe_run).  Hypotheses: 0 < ibl, 1 <= K, gobj_ok, e.err = nil (NewEncoder). *)
Theorem C14_write_bx_no_silent_loss (en : encoding) (K : nat) :
  (0 < ibl_nat en)%nat ->
  (1 <= K)%nat ->
  forall (ops : list op) (o : gobj) (outs : list outc) (o' : gobj),
  gobj_ok en K o ->
  go_err o = None ->
  run (Bx.call en K) o ops = (outs, o') ->
  all_nil outs ->
  Bx.written_log (go_w o') =
  Bx.written_log (go_w o) ++ concat (Bx.bxe_run en (firstn (go_nbuf o) (go_buf o)) ops) /\
  gobj_ok en K o' /\ go_err o' = None.
Proof. exact (Bx.bx_no_silent_loss en K). Qed.
(* NewEncoder; Write*; Close all nil ==> the writer holds the base-X encoding of the whole input *)
Theorem C14_write_bx_no_silent_loss_pieces (en : encoding) (K : nat) :
  (0 < ibl_nat en)%nat ->
  (1 <= K)%nat ->
  forall (w : wr) (pieces : list bytes) (outs : list outc) (o' : gobj),
  run (Bx.call en K) (Bx.fresh en K w) (session_ops pieces) = (outs, o') ->
  all_nil outs -> Bx.written_log (go_w o') = Bx.written_log w ++ encode en (concat pieces).
Proof. exact (Bx.bx_no_silent_loss_pieces en K). Qed.
(* ERROR RETURNED AT ONCE: a call uses j entries of the writer's schedule; it returns nil IFF all j were nil, and an error it
   returns is one of them *)
Theorem C14_write_bx_call_reports (en : encoding) (K : nat) :
  (0 < ibl_nat en)%nat ->
  (1 <= K)%nat ->
  forall (o : gobj) (c : op),
  gobj_ok en K o ->
  go_err o = None ->
  exists (j : nat) (erm : option String.string),
    fst (Bx.call en K o c) = Ret (Bx.werr erm) /\
    w_sched (go_w (snd (Bx.call en K o c))) = skipn j (w_sched (go_w o)) /\
    (erm = None <-> Forall (fun x : option String.string => x = None) (firstn j (w_sched (go_w o)))) /\
    (forall x : String.string, erm = Some x -> In (Some x) (firstn j (w_sched (go_w o)))).
Proof. exact (Bx.bx_call_reports en K). Qed.
(* STICKY, Write AND Close: with e.err set every call returns it and the object (the writer's log included) is unchanged *)
Theorem C14_write_bx_sticky (en : encoding) (K : nat) (x : String.string) (ops : list op) (o : gobj) :
  go_err o = Some x -> run (Bx.call en K) o ops = (map (fun _ : op => Ret (Bx.werr (Some x))) ops, o).
Proof. exact (Bx.bx_sticky en K x ops o). Qed.
(* a call that returned an error has set it *)
Theorem C14_write_bx_error_sticks (en : encoding) (K : nat) :
  (0 < ibl_nat en)%nat ->
  (1 <= K)%nat ->
  forall (o : gobj) (c : op) (x : String.string * list gval),
  gobj_ok en K o ->
  go_err o = None ->
  fst (Bx.call en K o c) = Ret (Some x) ->
  go_err (snd (Bx.call en K o c)) = Some (fst x) /\
  (forall ops : list op,
   run (Bx.call en K) (snd (Bx.call en K o c)) ops =
   (map (fun _ : op => Ret (Some x)) ops, snd (Bx.call en K o c))).
Proof. exact (Bx.bx_error_sticks en K). Qed.

(* -- the armor encoder stream (/repo/armor.go with the sticky-error fix) -- *)
(* the armor encoder stream (WITH the sticky-error fix) over the logging writer: NO SILENT LOSS - any calls with Close, if any,
   last; all nil ==> the writer holds what it held followed by the model's output (ae_run).  Hypothesis: inv (what
   newArmorEncoderStream establishes, s.err = nil included). *)
Theorem C14_write_ar_no_silent_loss (footer : bytes) (ops : list op) (st : Ar.ast) (outs : list outc) (stf : Ar.ast) :
  Ar.inv st ->
  Ar.close_last ops ->
  Ar.ar_run footer st ops = (outs, stf) ->
  all_nil outs ->
  Bx.written_log (Ar.a_w stf) = Bx.written_log (Ar.a_w st) ++ Ar.ae_run footer (Ar.model_of st) ops.
Proof. exact (Ar.ar_no_silent_loss footer ops st outs stf). Qed.
(* ... = Armor62Seal of the whole input when the writer held header ++ ". " *)
Theorem C14_write_ar_no_silent_loss_pieces (footer header : bytes) (w : wr) (pieces : list bytes) (outs : list outc)
        (stf : Ar.ast) :
  Bx.written_log w = header ++ [dot; sp] ->
  Ar.ar_run footer (Ar.fresh w) (session_ops pieces) = (outs, stf) ->
  all_nil outs -> Bx.written_log (Ar.a_w stf) = armor_seal (concat pieces) header footer.
Proof. exact (Ar.ar_no_silent_loss_pieces footer header w pieces outs stf). Qed.
(* ERROR RETURNED AT ONCE: Write, Close *)
Theorem C14_write_ar_write_reports (st : Ar.ast) (p : bytes) :
  Ar.inv st ->
  exists (j : nat) (er : option String.string),
    fst (Ar.ar_write st p) = Ret (Bx.werr er) /\
    w_sched (Ar.a_w (snd (Ar.ar_write st p))) = skipn j (w_sched (Ar.a_w st)) /\
    (er = None <-> Forall (fun x : option String.string => x = None) (firstn j (w_sched (Ar.a_w st)))) /\
    (forall x : String.string, er = Some x -> In (Some x) (firstn j (w_sched (Ar.a_w st)))).
Proof. exact (Ar.ar_write_reports st p). Qed.
Theorem C14_write_ar_close_reports (footer : bytes) (st : Ar.ast) :
  Ar.inv st ->
  exists (j : nat) (er : option String.string),
    fst (Ar.ar_close footer st) = Ret (Bx.werr er) /\
    w_sched (Ar.a_w (snd (Ar.ar_close footer st))) = skipn j (w_sched (Ar.a_w st)) /\
    (er = None <-> Forall (fun x : option String.string => x = None) (firstn j (w_sched (Ar.a_w st)))) /\
    (forall x : String.string, er = Some x -> In (Some x) (firstn j (w_sched (Ar.a_w st)))).
Proof. exact (Ar.ar_close_reports footer st). Qed.
(* STICKY (the fix), Write AND Close: with s.err set every call of any run returns it and leaves the object - the writer
   included - untouched.  No hypothesis. *)
Theorem C14_write_ar_sticky (footer : bytes) (x : String.string) (ops : list op) (st : Ar.ast) :
  Ar.a_err st = Some x -> Ar.ar_run footer st ops = (map (fun _ : op => Ret (Bx.werr (Some x))) ops, st).
Proof. exact (Ar.ar_sticky footer x ops st). Qed.
(* a call, Write OR Close, that returned an error has stored it: the rest of any run returns that error and hands nothing more to
   the writer.  NO hypothesis (any object, any writer). *)
Theorem C14_write_ar_error_sticks (footer : bytes) (st : Ar.ast) (c : op) (x : String.string * list gval) :
  fst (Ar.call footer st c) = Ret (Some x) ->
  Ar.a_err (snd (Ar.call footer st c)) = Some (fst x) /\
  (forall ops : list op,
   Ar.ar_run footer (snd (Ar.call footer st c)) ops =
   (map (fun _ : op => Ret (Some x)) ops, snd (Ar.call footer st c))).
Proof. exact (Ar.ar_error_sticks footer st c x). Qed.
(* the instance for a failed Close: a second Close, or a Write after it, returns the stored error *)
Theorem C14_write_ar_close_error_sticks (footer : bytes) (st : Ar.ast) (x : String.string * list gval) :
  fst (Ar.ar_close footer st) = Ret (Some x) ->
  forall ops : list op,
  Ar.ar_run footer (snd (Ar.ar_close footer st)) ops =
  (map (fun _ : op => Ret (Some x)) ops, snd (Ar.ar_close footer st)).
Proof. exact (Ar.ar_close_error_sticks footer st x). Qed.
(* C14 AS WORDED, NO HYPOTHESIS: in any run of the armor stream, after a call that returned an error no later Close returns nil *)
Theorem C14_write_ar_no_nil_close_after_error (footer : bytes) (ops : list op) (st : Ar.ast) (outs : list outc)
        (stf : Ar.ast) :
  Ar.ar_run footer st ops = (outs, stf) ->
  forall (i j : nat) (e : String.string * list gval),
  (i < j)%nat ->
  nth_error outs i = Some (Ret (Some e)) ->
  nth_error ops j = Some OpClose -> nth_error outs j <> Some (Ret None).
Proof. exact (Ar.ar_no_nil_close_after_error footer ops st outs stf). Qed.
(* Write*; Close: the final Close returned nil ==> every call returned nil.  No hypothesis. *)
Theorem C14_write_ar_close_nil_all_nil (footer : bytes) (pieces : list bytes) (st : Ar.ast) (outs : list outc)
        (stf : Ar.ast) :
  Ar.ar_run footer st (session_ops pieces) = (outs, stf) ->
  last outs (Halt String.EmptyString) = Ret None -> all_nil outs.
Proof. exact (Ar.ar_close_nil_all_nil footer pieces st outs stf). Qed.
(* NewArmor62EncoderStream (the writer holds header ++ ". "); Write p1; ..; Write pn; Close, any schedule of the writer: the final
   Close returned nil ==> every call returned nil AND the writer holds exactly Armor62Seal (p1 ++ .. ++ pn).  Only
   hypothesis: what the writer held at the start. *)
Theorem C14_write_ar_close_nil_complete (footer header : bytes) (w : wr) (pieces : list bytes) (outs : list outc)
        (stf : Ar.ast) :
  Bx.written_log w = header ++ [dot; sp] ->
  Ar.ar_run footer (Ar.fresh w) (session_ops pieces) = (outs, stf) ->
  last outs (Halt String.EmptyString) = Ret None ->
  all_nil outs /\ Bx.written_log (Ar.a_w stf) = armor_seal (concat pieces) header footer.
Proof. exact (Ar.ar_close_nil_complete footer header w pieces outs stf). Qed.

(* -- go-codec's encoder as a step -- *)
(* [codec s], go-codec's encoder in front of ANY step s, is a sticky step, and honest if s is *)
Theorem C14_write_codec_sticky (s : step) :
  sticky_step codec_broken (codec s).
Proof. exact (codec_sticky s). Qed.
Theorem C14_write_codec_honest (written : gval -> bytes) (s : step) :
  honest written s -> honest (codec_written written) (codec s).
Proof. exact (codec_honest written s). Qed.

(* -- the composed armored sender stacks -- *)
(* THE COMPOSED STACKS (NewEncryptArmor62... : the packet stream, go-codec's encoder as the sticky [codec] step over ONE
   armorEncoderStream.Write per packet, the base-X encoder, a logging writer with ANY schedule).  If init, Write p1; ..;
   Write pn and Close of the packet stream were all made, that Close returned nil and the armor stream's Close returned
   nil, then every call returned nil and the writer holds exactly Armor62Seal of the message the in-memory packet stream
   produces.  Hypotheses: the writer held header ++ ". "; the final encoder object is [armor object; flag] and decodes. *)
Theorem C14_write_stack_close_nil_complete (c : crypto) (header footer : bytes) (w0 : wr) (v : version)
        (sender : option bytes) (rcpts : list Encrypt.rcpt) (ra rb rc : rng)
        (pieces : list bytes) (outs : list outc)
        (st' : GoAstProofs5a.es_state) (oa : gval) (b : bool)
        (sta stf : Ar.ast) :
  Bx.written_log w0 = header ++ [dot; sp] ->
  Enc.session c (codec Comp.arm_step) (Enc.fresh v (codec_obj (Comp.g_ast (Ar.fresh w0)))) v sender rcpts ra rb
    rc (session_ops pieces) = (outs, st') ->
  length outs = S (S (length pieces)) ->
  last outs (Halt String.EmptyString) = Ret None ->
  GoAstProofs5a.es_enc st' = VList [oa; VBool b] ->
  Comp.d_ast oa = Some sta ->
  Ar.ar_close footer sta = (Ret None, stf) ->
  all_nil outs /\
  (exists (stm : GoAstProofs5a.es_state) (msg : bytes),
     Enc.session c GoAstProofs5a.mem_enc (Enc.fresh v (VBytes [])) v sender rcpts ra rb rc (session_ops pieces) =
     (outs, stm) /\
     GoAstProofs5a.es_enc stm = VBytes msg /\ Bx.written_log (Ar.a_w stf) = armor_seal msg header footer).
Proof. exact (Comp.stack_close_nil_complete c header footer w0 v sender rcpts ra rb rc pieces outs st' oa b sta stf). Qed.
(* ... for the attached-signature stream (NewSignArmor62Stream) *)
Theorem C14_write_sign_stack_close_nil_complete (c : crypto) (F : nat) (header footer : bytes) (w0 : wr) (v : version)
        (signer : option bytes) (r : rng) (pieces : list bytes)
        (outs : list outc) (st' : GoAstProofs6a.sas_state) (oa : gval)
        (sta stf : Ar.ast) :
  Bx.written_log w0 = header ++ [dot; sp] ->
  SignA.session c F (codec Comp.arm_step) v (codec_obj (Comp.g_ast (Ar.fresh w0))) signer r (session_ops pieces) =
  (outs, Some st') ->
  length outs = S (S (length pieces)) ->
  last outs (Halt String.EmptyString) = Ret None ->
  GoAstProofs6a.sas_enc st' = VList [oa; VBool false] ->
  Comp.d_ast oa = Some sta ->
  Ar.ar_close footer sta = (Ret None, stf) ->
  all_nil outs /\
  (exists (stm : GoAstProofs6a.sas_state) (msg : bytes),
     SignA.session c F GoAstProofs6a.mem_enc v (VBytes []) signer r (session_ops pieces) = (outs, Some stm) /\
     GoAstProofs6a.sas_enc stm = VBytes msg /\ Bx.written_log (Ar.a_w stf) = armor_seal msg header footer).
Proof. exact (Comp.sign_stack_close_nil_complete c F header footer w0 v signer r pieces outs st' oa sta stf). Qed.
(* ... and for the signcryption stream (NewSigncryptArmor62SealStream) *)
Theorem C14_write_signcrypt_stack_close_nil_complete (c : crypto) (header footer : bytes) (w0 : wr)
        (signer : option bytes) (boxes : list bytes)
        (syms : list (bytes * bytes)) (ra rk rb : bytes)
        (pieces : list bytes) (outs : list outc)
        (st' : GoAstProofs6b.sss_state) (oa : gval)
        (sta stf : Ar.ast) :
  Bx.written_log w0 = header ++ [dot; sp] ->
  Sc.session c (codec Comp.arm_step) (Sc.fresh (codec_obj (Comp.g_ast (Ar.fresh w0))) signer) boxes syms ra rk
    rb (session_ops pieces) = (outs, st') ->
  length outs = S (S (length pieces)) ->
  last outs (Halt String.EmptyString) = Ret None ->
  GoAstProofs6b.ss_enc st' = VList [oa; VBool false] ->
  Comp.d_ast oa = Some sta ->
  Ar.ar_close footer sta = (Ret None, stf) ->
  all_nil outs /\
  (exists (stm : GoAstProofs6b.sss_state) (msg : bytes),
     Sc.session c GoAstProofs6b.mem_enc (Sc.fresh (VBytes []) signer) boxes syms ra rk rb (session_ops pieces) =
     (outs, stm) /\
     GoAstProofs6b.ss_enc stm = VBytes msg /\ Bx.written_log (Ar.a_w stf) = armor_seal msg header footer).
Proof. exact (Comp.signcrypt_stack_close_nil_complete c header footer w0 signer boxes syms ra rk rb pieces outs st' oa sta stf). Qed.
End C14_write.

Print Assumptions C14_write_es_no_silent_loss.
Print Assumptions C14_write_es_no_silent_loss_pieces.
Print Assumptions C14_write_es_write_reports.
Print Assumptions C14_write_es_close_reports.
Print Assumptions C14_write_es_init_reports.
Print Assumptions C14_write_es_sticky.
Print Assumptions C14_write_es_write_error_sticks.
Print Assumptions C14_write_es_no_nil_close_after_error.
Print Assumptions C14_write_es_close_nil_all_nil.
Print Assumptions C14_write_es_close_nil_complete.
Print Assumptions C14_write_sas_no_silent_loss.
Print Assumptions C14_write_sas_no_silent_loss_pieces.
Print Assumptions C14_write_sas_write_reports.
Print Assumptions C14_write_sas_close_reports.
Print Assumptions C14_write_sas_new_reports.
Print Assumptions C14_write_sas_no_nil_close_after_error.
Print Assumptions C14_write_sas_close_nil_all_nil.
Print Assumptions C14_write_sas_close_nil_complete.
Print Assumptions C14_write_sds_no_silent_loss.
Print Assumptions C14_write_sds_close_reports.
Print Assumptions C14_write_sds_write_no_step.
Print Assumptions C14_write_sds_new_reports.
Print Assumptions C14_write_sds_close_nil_all_nil.
Print Assumptions C14_write_sss_no_silent_loss.
Print Assumptions C14_write_sss_no_silent_loss_pieces.
Print Assumptions C14_write_sss_write_reports.
Print Assumptions C14_write_sss_close_reports.
Print Assumptions C14_write_sss_init_reports.
Print Assumptions C14_write_sss_sticky.
Print Assumptions C14_write_sss_write_error_sticks.
Print Assumptions C14_write_sss_no_nil_close_after_error.
Print Assumptions C14_write_sss_close_nil_all_nil.
Print Assumptions C14_write_sss_close_nil_complete.
Print Assumptions C14_write_bx_no_silent_loss.
Print Assumptions C14_write_bx_no_silent_loss_pieces.
Print Assumptions C14_write_bx_call_reports.
Print Assumptions C14_write_bx_sticky.
Print Assumptions C14_write_bx_error_sticks.
Print Assumptions C14_write_ar_no_silent_loss.
Print Assumptions C14_write_ar_no_silent_loss_pieces.
Print Assumptions C14_write_ar_write_reports.
Print Assumptions C14_write_ar_close_reports.
Print Assumptions C14_write_ar_sticky.
Print Assumptions C14_write_ar_error_sticks.
Print Assumptions C14_write_ar_close_error_sticks.
Print Assumptions C14_write_ar_no_nil_close_after_error.
Print Assumptions C14_write_ar_close_nil_all_nil.
Print Assumptions C14_write_ar_close_nil_complete.
Print Assumptions C14_write_codec_sticky.
Print Assumptions C14_write_codec_honest.
Print Assumptions C14_write_stack_close_nil_complete.
Print Assumptions C14_write_sign_stack_close_nil_complete.
Print Assumptions C14_write_signcrypt_stack_close_nil_complete.
Print Assumptions C14_source_encoder_Write_sticky.
Print Assumptions C14_source_encoder_Close_sticky.
Print Assumptions C14_punctuated_reader_reports_fault.
Print Assumptions C14_chunk_reader_reports_fault.
Print Assumptions C14_frame_sentence_reports_fault.
Print Assumptions C14_chunk_reader_reaches_the_error.

(* Non-vacuity: an I/O error delivered together with the bytes "a.b" is reported after both pieces *)
Example C14_ex_fault_with_data :
  pr_drain [7; 7; 7]%nat (pr_init (mkSource [mkSeg [x61; x2e; x62] (Some ErrIO)] ErrIO)) [] []
  = ([[x61]], [x62], Some ErrIO).
Proof. vm_compute. reflexivity. Qed.
