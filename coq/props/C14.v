(* C14 — I/O faults are reported, never swallowed.
   PROVED (read side, saltpack's own adaptors): for every fragmentation of the
   underlying reader and every caller buffer sizes, an error of the underlying reader
   — delivered alone or together with data — is what ends the adaptor's stream: never a
   clean end instead, never before the data that preceded it, and nothing but source
   bytes is handed on.  PARTIAL (campaign only, see DESIGN.md): the write side (sticky
   error fields of encrypt/sign/signcrypt/basex/armor encoder streams and go-codec's
   encoder) and the composed decode stacks are decided by exhaustive fault enumeration
   — a fault at EVERY underlying Write/Read call of a fault-free run — not by a theorem.
   Only property theorems here. *)
From Coq Require Import List NArith ZArith.
From Coq.Strings Require Import Byte.
From SP Require Import Bytes Errors Armor Streams StreamProofs FaultProofs.
Import ListNotations.

Theorem C14_punctuated_reader_reports_fault (s : source) (sizes : list nat) (done : list bytes) (cur : bytes) (e : err) :
  pos_sizes sizes ->
  pr_drain sizes (pr_init s) [] [] = (done, cur, Some e) ->
  e = snd (src_denote s) /\ flatten done cur = fst (src_denote s).
Proof. exact (pr_fault_reported s sizes done cur e). Qed.

Theorem C14_chunk_reader_reports_fault (l : list (bytes * option err)) (sizes : list nat) (d : bytes) (e : err) :
  chunks_wf l -> pos_sizes sizes ->
  cr_drain sizes (mkCr [] None l) [] = (d, Some e) ->
  chunks_denote l = (d, Some e).
Proof. exact (cr_fault_reported l sizes d e). Qed.

Theorem C14_frame_sentence_reports_fault (s : source) (lim fuel : nat) (E : err) :
  src_wf s -> (0 < lim)%nat ->
  (length (fst (src_denote s)) + length (src_segs s) + 2 <= fuel)%nat ->
  snd (src_denote s) = E -> E <> EOF ->
  split_dot (fst (src_denote s)) = None -> (length (fst (src_denote s)) < lim)%nat ->
  fst (pr_read_until fuel lim (pr_init s) []) = Err E.
Proof. exact (pr_until_fault_reported s lim fuel E). Qed.

(* the adaptor cannot end before the source does: enough reads always reach the source's error *)
Theorem C14_chunk_reader_reaches_the_error (l : list (bytes * option err)) (sizes : list nat) :
  chunks_wf l -> pos_sizes sizes ->
  (length (fst (chunks_denote l)) + length l + 1 <= length sizes)%nat ->
  snd (cr_drain sizes (mkCr [] None l) []) <> None.
Proof. exact (cr_drain_complete l sizes). Qed.

Print Assumptions C14_punctuated_reader_reports_fault.
Print Assumptions C14_chunk_reader_reports_fault.
Print Assumptions C14_frame_sentence_reports_fault.
Print Assumptions C14_chunk_reader_reaches_the_error.

(* Non-vacuity: an I/O error delivered together with the bytes "a.b" is reported after both pieces *)
Example C14_ex_fault_with_data :
  pr_drain [7; 7; 7]%nat (pr_init (mkSource [mkSeg [x61; x2e; x62] (Some ErrIO)] ErrIO)) [] []
  = ([[x61]], [x62], Some ErrIO).
Proof. vm_compute. reflexivity. Qed.
