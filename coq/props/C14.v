(* C14 — I/O faults are reported, never swallowed.
   PROVED (read side, saltpack's own adaptors): for every fragmentation of the
   underlying reader and every caller buffer sizes, an error of the underlying reader
   — delivered alone or together with data — is what ends the adaptor's stream: never a
   clean end instead, never before the data that preceded it, and nothing but source
   bytes is handed on.  PARTIAL (campaign only, see DESIGN.md): the write side (sticky
   error fields of encrypt/sign/signcrypt/basex/armor encoder streams and go-codec's
   encoder) and the composed decode stacks are decided by exhaustive fault enumeration
   — a fault at EVERY underlying Write/Read call of a fault-free run — not by a theorem.
   Only property theorems here. *)
From Coq Require Import List NArith ZArith.
From Coq.Strings Require Import Byte.
From SP Require Import Bytes Errors Armor Streams StreamProofs FaultProofs.
From Coq Require String.
From SP Require BaseX GoLang GoLang2 GoAst GoAstEnc GoAstProofs5b.
Import ListNotations.

Theorem C14_punctuated_reader_reports_fault (s : source) (sizes : list nat) (done : list bytes) (cur : bytes) (e : err) :
  pos_sizes sizes ->
  pr_drain sizes (pr_init s) [] [] = (done, cur, Some e) ->
  e = snd (src_denote s) /\ flatten done cur = fst (src_denote s).
Proof. exact (pr_fault_reported s sizes done cur e). Qed.

Theorem C14_chunk_reader_reports_fault (l : list (bytes * option err)) (sizes : list nat) (d : bytes) (e : err) :
  chunks_wf l -> pos_sizes sizes ->
  cr_drain sizes (mkCr [] None l) [] = (d, Some e) ->
  chunks_denote l = (d, Some e).
Proof. exact (cr_fault_reported l sizes d e). Qed.

Theorem C14_frame_sentence_reports_fault (s : source) (lim fuel : nat) (E : err) :
  src_wf s -> (0 < lim)%nat ->
  (length (fst (src_denote s)) + length (src_segs s) + 2 <= fuel)%nat ->
  snd (src_denote s) = E -> E <> EOF ->
  split_dot (fst (src_denote s)) = None -> (length (fst (src_denote s)) < lim)%nat ->
  fst (pr_read_until fuel lim (pr_init s) []) = Err E.
Proof. exact (pr_until_fault_reported s lim fuel E). Qed.

(* the adaptor cannot end before the source does: enough reads always reach the source's error *)
Theorem C14_chunk_reader_reaches_the_error (l : list (bytes * option err)) (sizes : list nat) :
  chunks_wf l -> pos_sizes sizes ->
  (length (fst (chunks_denote l)) + length l + 1 <= length sizes)%nat ->
  snd (cr_drain sizes (mkCr [] None l) []) <> None.
Proof. exact (cr_drain_complete l sizes). Qed.

(* ---- source ties: the sticky error of the streaming base-X ENCODER (/repo/encoding/basex/stream.go),
        lemmas of proofs/GoAstProofs5b.v ---- *)
(* WRITE side, one layer proved on the translated source: the terms f_basex_encoder_Write / _Close are generated on
   every run from the Go syntax trees of /repo/encoding/basex/stream.go (gen/GoAstEnc.v) and run by the evaluator
   of model/GoLang2.v ([run2] = run_func2 with the fuel F as a parameter).  The *encoder object is [g_obj en o],
   o : gobj = (e.err, e.buf, e.nbuf, e.out, e.w); the underlying io.Writer is a log of the Write calls made plus a
   schedule of the errors it will return.  An error of the underlying writer is stored in e.err and returned
   (C10_source_encoder_Write / _Close: the error returned and stored is that of the FIRST failing call, and no
   call is made after it); the two theorems here say it then STICKS: every later Write / Close returns that very
   error, consumes nothing and writes nothing — the whole object, writer log included, is unchanged.
   Hypotheses of both: Hibl: 0 < base256BlockLen; HK: 1 <= K; gobj_ok en K o (the invariants NewEncoder establishes
   and Write/Close keep: len(e.buf) = base256BlockLen, len(e.out) = K * baseXBlockLen); e.err = Some x; and the
   evaluator's fuel bound (a bound on the evaluator, not on the Go code). *)
Section C14_source.
Import BaseX GoLang GoLang2 GoAst GoAstEnc GoAstProofs5b String.StringSyntax.
Variable en : encoding.
Variable K : nat.
Hypothesis Hibl : (0 < ibl_nat en)%nat.
Hypothesis HK : (1 <= K)%nat.

(* with e.err <> nil, Write(p) returns (0, e.err) and changes nothing *)
Theorem C14_source_encoder_Write_sticky (o : gobj) (p : bytes) (x : String.string) (F : nat) :
  gobj_ok en K o -> go_err o = Some x -> (30 + ibl_nat en + List.length p / (K * ibl_nat en) <= F)%nat ->
  let r := run2 (ext_bx en) F f_basex_encoder_Write [g_obj en o; VBytes p] in
  fst r = ORet [VInt 0; VErr x []] /\ lookup "e" (snd r) = Some (g_obj en o).
Proof. exact (go_encoder_Write_sticky en K Hibl HK o p x F). Qed.

(* Close after an error: returns it, nothing is written *)
Theorem C14_source_encoder_Close_sticky (o : gobj) (x : String.string) (F : nat) :
  gobj_ok en K o -> go_err o = Some x -> (12 <= F)%nat ->
  let r := run2 (ext_bx en) F f_basex_encoder_Close [g_obj en o] in
  fst r = ORet [VErr x []] /\ lookup "e" (snd r) = Some (g_obj en o).
Proof. exact (go_encoder_Close_sticky en K Hibl HK o x F). Qed.
End C14_source.

Print Assumptions C14_source_encoder_Write_sticky.
Print Assumptions C14_source_encoder_Close_sticky.
Print Assumptions C14_punctuated_reader_reports_fault.
Print Assumptions C14_chunk_reader_reports_fault.
Print Assumptions C14_frame_sentence_reports_fault.
Print Assumptions C14_chunk_reader_reaches_the_error.

(* Non-vacuity: an I/O error delivered together with the bytes "a.b" is reported after both pieces *)
Example C14_ex_fault_with_data :
  pr_drain [7; 7; 7]%nat (pr_init (mkSource [mkSeg [x61; x2e; x62] (Some ErrIO)] ErrIO)) [] []
  = ([[x61]], [x62], Some ErrIO).
Proof. vm_compute. reflexivity. Qed.
