(* C07 — Detached signatures verify exactly the signed message and nothing else.
   (Authenticity clause: see C07_authentic below once proofs/AuthProofs.v is in place.) *)
From Coq Require Import List NArith ZArith.
From Coq.Strings Require Import Byte.
From SP Require Import Bytes Params Msgpack Crypto Errors Packets Chunker Rand Sign Verify SignProofs SignAuthProofs SignAuthLocated.
From SP Require Import BaseX Encodings Armor ArmorProofs ArmoredForms.
From SP Require Import Nonce Packets Signcrypt GoLang GoAst GoAstProofs GoAstProofs2.
From SP Require Import GoLang2 GoAstSign GoAstProofs6a.
From SP Require GoAstOpen GoAstProofs3 GoAstProofs4b GoAstProofs5a GoAstProofs7c.
From Coq Require String.
Import String.StringSyntax.
Import ListNotations.

Section C07.
Variable c : crypto.
Hypothesis Hc : crypto_ok c.

(* A detached signature for M by K verifies against M and returns K (both versions,
   both shipped validators). The reader form hashes the message as a fold, so it
   is the same function of the concatenated message. *)
Theorem C07_roundtrip (v : version) (sk msg : bytes) (r : rng) (kr : sigring) (vd : validator) :
  v = v1 \/ v = v2 -> (16 <= length r)%nat -> In (ed_pub c sk) kr -> good_validator vd v ->
  exists sig,
    sign_detached c v sk msg r = Ok (sig, skipn 16 r) /\
    verify_detached c vd kr msg sig = Ok (ed_pub c sk).
Proof. exact (detached_roundtrip c Hc v sk msg r kr vd). Qed.

(* An attached-mode signature presented as detached is rejected (mode gate), and
   a detached one presented as attached likewise, whatever the keyring. *)
Theorem C07_rejects_attached (v : version) (sk : bytes) (pieces : list bytes) (r r' : rng)
        (kr : sigring) (vd : validator) (msg out : bytes) :
  v = v1 \/ v = v2 -> good_validator vd v ->
  sign_attached_stream c v sk pieces r = Ok (out, r') ->
  verify_detached c vd kr msg out = Err ErrWrongMessageType.
Proof. exact (detached_rejects_attached c Hc v sk pieces r r' kr vd msg out). Qed.

Theorem C07_detached_not_attached (v : version) (sk msg : bytes) (r r' : rng)
        (kr : sigring) (vd : validator) (out : bytes) :
  v = v1 \/ v = v2 -> good_validator vd v ->
  sign_detached c v sk msg r = Ok (out, r') ->
  verify_stream c vd kr out = Err ErrWrongMessageType.
Proof. exact (attached_rejects_detached c Hc v sk msg r r' kr vd out). Qed.
End C07.

(* Authenticity (reduction-style, for every instance of the primitives with 64-byte
   hashes and every pair of byte strings): detached verification succeeds only if
   the key signed exactly that message under exactly that header in detached
   mode — or the input exhibits a forged signature / hash collision. *)
Theorem C07_authentic (c : crypto) (Hsha : forall x, length (sha512 c x) = 64%nat)
        (vd : validator) (kr : sigring) (msg sigfile : bytes) (pk : bytes) (L : list sign_event) :
  Forall event_ok L -> len pk < 4294967296%N ->
  verify_detached c vd kr msg sigfile = Ok pk ->
  (exists v nonce hdr rest,
      In (EvDetached v nonce msg) L /\
      read_header_bytes sigfile = Ok (hdr, rest) /\ hdr = sig_header_bytes v mt_detached pk nonce)
  \/ DetBreak c vd pk L msg sigfile.
Proof. exact (detached_authentic_located c Hsha vd kr msg sigfile pk L). Qed.
(* SOURCE TIE: the terms f_saltpack_* are generated on every run from the Go syntax trees of
   /repo (harness/cmd/gen/goast.go); under the Go semantics of model/GoLang.v, with the standard
   library / NaCl primitives interpreted by ext_prims over the crypto record and calls to other
   saltpack functions interpreted by the model (each of those has its own such theorem), they
   compute exactly what the model says, for ALL arguments and EVERY instance of the primitives. *)
Theorem C07_source_detachedSignatureInput (c : crypto) (hh msg : bytes) :
  run_func (ext_model c) f_saltpack_detachedSignatureInput [VBytes hh; VBytes msg]
  = ORet [VBytes (detached_sig_input c hh msg)].
Proof. exact (go_detachedSignatureInput c hh msg). Qed.

Theorem C07_source_detachedSignatureInputFromHash (c : crypto) (h : bytes) :
  run_func (ext_prims c) f_saltpack_detachedSignatureInputFromHash [VBytes h]
  = ORet [VBytes (detached_sig_input_from_hash h)].
Proof. exact (go_detachedSignatureInputFromHash c h). Qed.

(* BINARY AND ARMORED FORMS AGREE: the armored all-at-once entry point is the binary one composed
   with dearmoring; on the armored form of ANY binary message (genuine or not) it returns exactly
   what the binary entry point returns on that message, plus the brand. *)
Theorem C07_armored_form_agrees (c : crypto) (vd : validator) (kr : sigring) (msg sigfile brand : bytes) :
  brand_ok brand ->
  dearmor62_verify_detached c vd kr msg (armor62_seal sigfile mt_detached brand) =
  bind (verify_detached c vd kr msg sigfile) (fun pk => Ok (pk, brand)).
Proof. exact (armored_verify_detached_agrees c vd kr msg sigfile brand). Qed.

(* ---- source ties: the DETACHED signing sender (/repo/sign_stream.go), lemmas of proofs/GoAstProofs6a.v ---- *)
(* The terms f_saltpack_newSignDetachedStream and f_saltpack_signDetachedStream_{Write,Close} are generated on
   every run from the Go syntax trees of /repo/sign_stream.go (gen/GoAstSign.v) and run by the evaluator of
   model/GoLang2.v (run_func2: outcome AND final environment).  The *signDetachedStream object is [g_sds st],
   st : sds_state = (encoder, secretKey, the bytes hashed so far = the running SHA-512 state).
   `encoder.Encode(x)` is interpreted by an ARBITRARY function enc_step : encoder object -> packet bytes ->
   encoder object' * error, so the theorems hold for every writer, failing or not; a Go error value is
   [g_errv e], e : gerr = None (nil) or Some (name, arguments). *)

(* newSignDetachedStream(version, w, signer) = sds_new (GoAstProofs6a.v): ErrBadVersion unless known_version,
   ErrInvalidParameter for a nil signer, ErrRand when the randomness source cannot give 16 bytes, the encoder's
   error if writing the header packet fails, else the object holding the encoder after the double-encoded header
   (sig_header_bytes with the detached message type and the nonce drawn), the secret key and the digest state
   = the header hash.  The process-wide randomness source is not an argument of the Go constructor: r is the
   stream it will deliver (extern table ext_new ... r).  No hypothesis. *)
Theorem C07_source_newSignDetachedStream (c : crypto) (enc_step : gval -> bytes -> gval * gerr)
        (v : version) (w : gval) (signer : option bytes) (r : rng) :
  fst (run_func2 (ext_new c enc_step r) f_saltpack_newSignDetachedStream [g_version v; w; g_signer signer])
  = sds_new c enc_step v w signer r.
Proof. exact (go_newSignDetachedStream c enc_step v w signer r). Qed.

(* s.Write(p) returns (len p, nil) and appends p to the digest state; encoder and key untouched.
   No hypothesis. *)
Theorem C07_source_signDetachedStream_Write (c : crypto) (st : sds_state) (p : bytes) :
  let r := run_func2 (ext_sig c) f_saltpack_signDetachedStream_Write [g_sds st; VBytes p] in
  fst r = ORet [VInt (Z.of_nat (List.length p)); VNil] /\
  lookup "s" (snd r) = Some (g_sds (mkSds (sds_enc st) (sds_sk st) (sds_hashed st ++ p))).
Proof. exact (go_signDetachedStream_Write c st p). Qed.

(* s.Close() returns exactly what encoder.Encode returns on the packet
   bin(ed_sign secretKey (detached prefix ++ sha512 (bytes hashed))), for EVERY encoder step function — so the
   packet bytes are pinned down.  No hypothesis.  LIMIT: `return s.encoder.Encode(signature)` is an
   interface-method call in return position, where the evaluator takes exactly one result and cannot write
   the encoder back: the encoder state after Close is not expressible; the receiver is shown unchanged. *)
Theorem C07_source_signDetachedStream_Close (c : crypto) (enc_step : gval -> bytes -> gval * gerr) (st : sds_state) :
  let r := run_func2 (ext_det_close c enc_step) f_saltpack_signDetachedStream_Close [g_sds st] in
  let sig := ed_sign c (sds_sk st) (detached_sig_input_from_hash (sha512 c (sds_hashed st))) in
  fst r = ORet [g_errv (snd (enc_step (sds_enc st) (mp_encode (MBin sig))))] /\
  lookup "s" (snd r) = Some (g_sds st).
Proof. exact (go_signDetachedStream_Close c enc_step st). Qed.

(* ---- source ties: the DETACHED-signature entry points (/repo/verify.go), lemmas of proofs/GoAstProofs7c.v ---- *)
(* The terms f_saltpack_VerifyDetachedReader and f_saltpack_VerifyDetached are generated on every run from the Go
   syntax trees of /repo/verify.go (gen/GoAstOpen.v) and run by the evaluator of model/GoLang2.v on ENCODED arguments:
   the version validator VV and the keyring KR are opaque values whose meaning is in the externs (vd, kr); the
   message reader is [g_rdr msg e]: the bytes it delivers, then io.EOF (None) or an arbitrary read error; a
   SigningPublicKey object is [g_spk pk].  Externs (ext_vdet): newVerifyStream = the model's verify_read_header
   (tied by C06_source_newVerifyStream), msgpackStream.Read at []byte = the model's parser, LookupSigningPublicKey =
   lookup_signer, io.Copy(hasher, r) = everything r delivers goes into the hash state and r's error is returned,
   key.Verify = ed_verify; an extern has NO value where the model says Unmodelled: the evaluator is then stuck at
   that call (OStuck "call") and vdet_outcome says exactly when.  vdet_outcome (GoAstProofs7c.v) is what
   VerifyDetachedReader returns, as Go values: the header error (ErrFailedToReadHeaderBytes, decode,
   ErrNotASaltpackMessage, ErrBadVersion, the mode gate ErrWrongMessageType), the error of reading the signature
   packet (io.EOF, decode), ErrNoSenderKey{sender}, the message reader's error (returned as is, after the key
   lookup and before the signature check), ErrBadSignature, or (key, nil) — the signature being checked against
   detachedSignatureInputFromHash(SHA-512(headerHash ++ message)).  vd_class reads such an outcome back as a result
   of the model (error classes by name). *)
Section C07_source_verify.
Import GoLang2 GoAstOpen GoAstProofs3 GoAstProofs4b GoAstProofs5a GoAstProofs7c.

(* VerifyDetachedReader(vv, message, signature, keyring) returns exactly vdet_outcome, for every validator, keyring,
   message, message-reader error rerr (None, or any named error value), signature file and crypto record.
   No hypothesis. *)
Theorem C07_source_VerifyDetachedReader (c : crypto) (vd : validator) (kr : sigring) (VV KR : gval) (msg : bytes)
        (rerr : option (String.string * list gval)) (sigfile : bytes) :
  let rv := match rerr with Some (n, a) => Some (VErr n a) | None => None end in
  fst (run_func2 (ext_vdet c vd kr) f_saltpack_VerifyDetachedReader [VV; g_rdr msg rv; VBytes sigfile; KR])
  = vdet_outcome c vd kr msg rv sigfile.
Proof. exact (go_VerifyDetachedReader c vd kr VV KR msg rerr sigfile). Qed.

(* without a read error, the class of that outcome IS the model's verify_detached (the function the C07 theorems
   above are about): same signer on success, same error class otherwise.  No hypothesis. *)
Theorem C07_source_vdet_outcome_model (c : crypto) (vd : validator) (kr : sigring) (msg sigfile : bytes) :
  vd_class (vdet_outcome c vd kr msg None sigfile) = verify_detached c vd kr msg sigfile.
Proof. exact (vdet_outcome_model c vd kr msg sigfile). Qed.

(* VerifyDetached(vv, message, signature, keyring) = VerifyDetachedReader over bytes.NewReader(message): with the
   call of VerifyDetachedReader given the meaning just proved (ext_vdet2), it returns vdet_outcome with no read
   error.  No hypothesis. *)
Theorem C07_source_VerifyDetached (c : crypto) (vd : validator) (kr : sigring) (VV KR : gval) (msg sigfile : bytes) :
  fst (run_func2 (ext_vdet2 c vd kr) f_saltpack_VerifyDetached [VV; VBytes msg; VBytes sigfile; KR])
  = vdet_outcome c vd kr msg None sigfile.
Proof. exact (go_VerifyDetached c vd kr VV KR msg sigfile). Qed.

(* VerifyDetached against the model: the class of what the translated function returns is verify_detached.
   No hypothesis. *)
Theorem C07_source_VerifyDetached_model (c : crypto) (vd : validator) (kr : sigring) (VV KR : gval) (msg sigfile : bytes) :
  vd_class (fst (run_func2 (ext_vdet2 c vd kr) f_saltpack_VerifyDetached [VV; VBytes msg; VBytes sigfile; KR]))
  = verify_detached c vd kr msg sigfile.
Proof. exact (go_VerifyDetached_model c vd kr VV KR msg sigfile). Qed.
End C07_source_verify.

Print Assumptions C07_source_VerifyDetachedReader.
Print Assumptions C07_source_vdet_outcome_model.
Print Assumptions C07_source_VerifyDetached.
Print Assumptions C07_source_VerifyDetached_model.
Print Assumptions C07_source_newSignDetachedStream.
Print Assumptions C07_source_signDetachedStream_Write.
Print Assumptions C07_source_signDetachedStream_Close.
Print Assumptions C07_armored_form_agrees.
Print Assumptions C07_source_detachedSignatureInput.
Print Assumptions C07_source_detachedSignatureInputFromHash.
Print Assumptions C07_authentic.

Print Assumptions C07_roundtrip.
Print Assumptions C07_rejects_attached.
Print Assumptions C07_detached_not_attached.

From SP Require Import ToyCrypto ToyCryptoProofs.
Example C07_ex_roundtrip :
  let sk := repeat x07 64 in
  match sign_detached toy_crypto v1 sk [x68; x69] (repeat x02 16) with
  | Ok (sig, _) => verify_detached toy_crypto (Single v1) [ed_pub toy_crypto sk] [x68; x69] sig
  | Err e => Err e
  end = Ok (ed_pub toy_crypto (repeat x07 64)).
Proof. vm_compute. reflexivity. Qed.

From SP Require Import GoLang GoLang2 GoAst GoAstRecv GoAstSign GoAstOpen.
From SP Require GoAstProofs4b GoAstProofs6a GoAstProofs7c GoEndToEndSign.
From Coq Require String.
Import String.StringSyntax.
(* =========================================== PART B: props/C07.v ======================================= *)
(* ---- END TO END at the level of the translated Go code: detached signatures (lemmas of proofs/GoEndToEndSign.v) ----
   go_signdet_session c v sk pieces r runs, with the evaluator of model/GoLang2.v, the translated
   newSignDetachedStream on the empty in-memory writer, the translated signDetachedStream.Write once per piece (each
   must return (len p, nil)), then the translated Close; the evaluator cannot write the encoder back in Close
   (GoAstProofs6a.v LIMIT), so the session requires Close under the in-memory writer to return nil and reads the
   packet pkt Close hands to encoder.Encode with the reporting encoder spy_enc: the result is w ++ pkt, w = what the
   writer held before Close.  C07_source_end_to_end_sender shows the reading does not depend on the spy (for EVERY
   encoder step function es, Close returns es's error on that w and pkt).
   Hypotheses: crypto_ok c; v is Version1 or Version2; the randomness source delivers 16 bytes; the keyring holds the
   signer's key; the validator is CheckKnownMajorVersion or SingleVersionValidator(v).  No evaluator bound. *)
Section C07_source_end_to_end.
Import GoAstProofs4b GoAstProofs7c GoAstProofs6a GoEndToEndSign.
Local Open Scope string_scope.

(* both detached entry points accept the Go session's signature file for the concatenated pieces and return the
   signer's key (the message reader of VerifyDetachedReader delivers the message, then io.EOF). *)
Theorem C07_source_end_to_end_VerifyDetached (c : crypto) (Hc : crypto_ok c) (v : version) (sk : bytes)
        (pieces : list bytes) (r : rng) (kr : sigring) (vd : validator) (VV KR : gval) :
  v = v1 \/ v = v2 -> (16 <= List.length r)%nat -> In (ed_pub c sk) kr -> good_validator vd v ->
  exists sigfile,
    go_signdet_session c v sk pieces r = Some sigfile /\
    fst (run_func2 (ext_vdet2 c vd kr) f_saltpack_VerifyDetached [VV; VBytes (List.concat pieces); VBytes sigfile; KR])
    = ORet [g_spk (ed_pub c sk); VNil] /\
    fst (run_func2 (ext_vdet c vd kr) f_saltpack_VerifyDetachedReader [VV; g_rdr (List.concat pieces) None; VBytes sigfile; KR])
    = ORet [g_spk (ed_pub c sk); VNil].
Proof. exact (go_signDetached_Verify_end_to_end c Hc v sk pieces r kr vd VV KR). Qed.

(* the sender session alone against the model's sign_detached.  Hypothesis: the model's sender succeeds.  No crypto
   hypothesis. *)
Theorem C07_source_end_to_end_sender (c : crypto) (v : version) (sk : bytes) (pieces : list bytes) (r r' : rng) (outb : bytes) :
  sign_detached c v sk (List.concat pieces) r = Ok (outb, r') ->
  exists obj w pkt,
    go_sds_open c v sk pieces r = Some obj /\ go_field "encoder" obj = Some (VBytes w) /\ outb = (w ++ pkt)%list /\
    (forall es : gval -> bytes -> gval * gerr,
       fst (run_func2 (ext_det_close c es) f_saltpack_signDetachedStream_Close [obj]) = ORet [g_errv (snd (es (VBytes w) pkt))]) /\
    go_signdet_session c v sk pieces r = Some outb.
Proof. exact (go_signdet_session_model c v sk pieces r r' outb). Qed.

(* a keyring that does not hold the signer's key: (nil, ErrNoSenderKey{signer's public key}) from both entry points. *)
Theorem C07_source_end_to_end_unknown_signer (c : crypto) (Hc : crypto_ok c) (v : version) (sk : bytes)
        (pieces : list bytes) (r : rng) (kr : sigring) (vd : validator) (VV KR : gval) :
  v = v1 \/ v = v2 -> (16 <= List.length r)%nat -> ~ In (ed_pub c sk) kr -> good_validator vd v ->
  exists sigfile,
    go_signdet_session c v sk pieces r = Some sigfile /\
    fst (run_func2 (ext_vdet2 c vd kr) f_saltpack_VerifyDetached [VV; VBytes (List.concat pieces); VBytes sigfile; KR])
    = ORet [VNil; VErr "ErrNoSenderKey" [VBytes (ed_pub c sk)]] /\
    fst (run_func2 (ext_vdet c vd kr) f_saltpack_VerifyDetachedReader [VV; g_rdr (List.concat pieces) None; VBytes sigfile; KR])
    = ORet [VNil; VErr "ErrNoSenderKey" [VBytes (ed_pub c sk)]].
Proof. exact (go_signDetached_unknown_signer c Hc v sk pieces r kr vd VV KR). Qed.

(* the mode gate: the signature file is refused by Verify and by NewVerifyStream (any keyring). *)
Theorem C07_source_end_to_end_refused_by_Verify (c : crypto) (Hc : crypto_ok c) (v : version) (sk : bytes)
        (pieces : list bytes) (r : rng) (kr : sigring) (vd : validator) (VV KR : gval) :
  v = v1 \/ v = v2 -> (16 <= List.length r)%nat -> good_validator vd v ->
  exists sigfile,
    go_signdet_session c v sk pieces r = Some sigfile /\
    fst (run_func2 (ext_verify c vd kr) f_saltpack_Verify [VV; VBytes sigfile; KR])
    = ORet [VNil; VNil; VErr "ErrWrongMessageType" []] /\
    (forall rd, rdr_bytes rd = Some sigfile ->
       fst (run_func2 (ext_NVS c vd kr) f_saltpack_NewVerifyStream [VV; rd; KR])
       = ORet [VNil; VNil; VErr "ErrWrongMessageType" []]).
Proof. exact (go_signDetached_refused_by_Verify c Hc v sk pieces r kr vd VV KR). Qed.
End C07_source_end_to_end.

Print Assumptions C07_source_end_to_end_VerifyDetached.
Print Assumptions C07_source_end_to_end_sender.
Print Assumptions C07_source_end_to_end_unknown_signer.
Print Assumptions C07_source_end_to_end_refused_by_Verify.

Example C07_ex_source_end_to_end :
  let c := ToyCrypto.toy_crypto in
  let sk := repeat x07 64 in
  match GoEndToEndSign.go_signdet_session c v1 sk [[x68; x65]; [x6c; x6c; x6f]] (repeat x02 16) with
  | Some sg => fst (run_func2 (GoAstProofs7c.ext_vdet2 c (Single v1) [ed_pub c sk]) f_saltpack_VerifyDetached
                              [VNil; VBytes [x68; x65; x6c; x6c; x6f]; VBytes sg; VNil])
  | None => OStuck "sender"
  end = ORet [GoAstProofs7c.g_spk (ed_pub ToyCrypto.toy_crypto (repeat x07 64)); VNil].
Proof. vm_compute. reflexivity. Qed.

(* ===== BEGIN props/C07.v ===== *)
(* ---- END TO END (source level): the TRANSLATED VerifyDetached / VerifyDetachedReader succeed only on a message the
   returned key signed in detached mode under the presented header (go_VerifyDetached(_model), go_VerifyDetachedReader +
   C07_authentic); with a failing message reader the call never succeeds.  proofs/GoEndToEndAuth.v. ---- *)
From SP Require GoAstOpen GoAstProofs4b GoAstProofs5a GoAstProofs7c GoEndToEndAuth.
Section C07_source_end_to_end.
Import GoLang GoLang2 GoAstOpen GoAstProofs7c GoEndToEndAuth.

Theorem C07_source_end_to_end_VerifyDetached_auth (c : crypto) (Hsha : forall x, List.length (sha512 c x) = 64%nat)
        (vd : validator) (kr : sigring) (VV KR : gval) (msg sigfile pk : bytes) (L : list sign_event) :
  Forall event_ok L -> (len pk < 4294967296)%N ->
  vd_class (fst (run_func2 (ext_vdet2 c vd kr) f_saltpack_VerifyDetached [VV; VBytes msg; VBytes sigfile; KR])) = Ok pk ->
  (exists v nonce hdr rest,
      In (EvDetached v nonce msg) L /\
      read_header_bytes sigfile = Ok (hdr, rest) /\ hdr = sig_header_bytes v mt_detached pk nonce)
  \/ DetBreak c vd pk L msg sigfile.
Proof. exact (go_VerifyDetached_authentic c Hsha vd kr VV KR msg sigfile pk L). Qed.

Theorem C07_source_end_to_end_VerifyDetachedReader (c : crypto) (Hsha : forall x, List.length (sha512 c x) = 64%nat)
        (vd : validator) (kr : sigring) (VV KR : gval) (msg : bytes)
        (rerr : option (String.string * list gval)) (sigfile pk : bytes) (L : list sign_event) :
  Forall event_ok L -> (len pk < 4294967296)%N ->
  let rv := match rerr with Some (n, a) => Some (VErr n a) | None => None end in
  vd_class (fst (run_func2 (ext_vdet c vd kr) f_saltpack_VerifyDetachedReader [VV; g_rdr msg rv; VBytes sigfile; KR])) = Ok pk ->
  (exists v nonce hdr rest,
      In (EvDetached v nonce msg) L /\
      read_header_bytes sigfile = Ok (hdr, rest) /\ hdr = sig_header_bytes v mt_detached pk nonce)
  \/ DetBreak c vd pk L msg sigfile.
Proof. exact (go_VerifyDetachedReader_authentic c Hsha vd kr VV KR msg rerr sigfile pk L). Qed.

Theorem C07_source_end_to_end_VerifyDetached_nil_error (c : crypto) (Hsha : forall x, List.length (sha512 c x) = 64%nat)
        (vd : validator) (kr : sigring) (VV KR : gval) (msg sigfile : bytes) (sg : gval) (L : list sign_event) :
  Forall event_ok L ->
  fst (run_func2 (ext_vdet2 c vd kr) f_saltpack_VerifyDetached [VV; VBytes msg; VBytes sigfile; KR]) = ORet [sg; VNil] ->
  exists pk,
    sg = g_spk pk /\
    ((len pk < 4294967296)%N ->
     (exists v nonce hdr rest,
         In (EvDetached v nonce msg) L /\
         read_header_bytes sigfile = Ok (hdr, rest) /\ hdr = sig_header_bytes v mt_detached pk nonce)
     \/ DetBreak c vd pk L msg sigfile).
Proof. exact (go_VerifyDetached_authentic_nil_error c Hsha vd kr VV KR msg sigfile sg L). Qed.

Theorem C07_source_end_to_end_VerifyDetachedReader_nil_error (c : crypto) (Hsha : forall x, List.length (sha512 c x) = 64%nat)
        (vd : validator) (kr : sigring) (VV KR : gval) (msg : bytes)
        (rerr : option (String.string * list gval)) (sigfile : bytes) (sg : gval) (L : list sign_event) :
  Forall event_ok L ->
  let rv := match rerr with Some (n, a) => Some (VErr n a) | None => None end in
  fst (run_func2 (ext_vdet c vd kr) f_saltpack_VerifyDetachedReader [VV; g_rdr msg rv; VBytes sigfile; KR]) = ORet [sg; VNil] ->
  exists pk,
    sg = g_spk pk /\
    ((len pk < 4294967296)%N ->
     (exists v nonce hdr rest,
         In (EvDetached v nonce msg) L /\
         read_header_bytes sigfile = Ok (hdr, rest) /\ hdr = sig_header_bytes v mt_detached pk nonce)
     \/ DetBreak c vd pk L msg sigfile).
Proof. exact (go_VerifyDetachedReader_authentic_nil_error c Hsha vd kr VV KR msg rerr sigfile sg L). Qed.
End C07_source_end_to_end.
Print Assumptions C07_source_end_to_end_VerifyDetached_auth.
Print Assumptions C07_source_end_to_end_VerifyDetachedReader.
Print Assumptions C07_source_end_to_end_VerifyDetached_nil_error.
Print Assumptions C07_source_end_to_end_VerifyDetachedReader_nil_error.

(* =========================================== PART C07: props/C07.v ======================================= *)
From SP Require GoAstEntry GoAstProofs5a GoAstProofs5c GoAstProofs6a GoAstProofs6b GoEndToEndEnc GoEndToEndSign GoAstProofs8a.
(* ---- source ties: NewSignDetachedStream, SignDetached (/repo/sign.go), lemmas of proofs/GoAstProofs8a.v ----
   As for the attached forms; sign_det_spec returns the model's sign_detached. *)
Section C07_source_entry.
Import GoAstEntry GoAstProofs8a.
Local Open Scope string_scope.

Theorem C07_source_go_NewSignDetachedStream :
  forall (c : crypto) (enc_step : gval -> bytes -> gval * A.gerr) (r : rng) (v : version) 
    (w : gval) (signer : option bytes),
  fst (run_func2 (ext_NSS c enc_step r) f_saltpack_NewSignDetachedStream [g_version v; w; A.g_signer signer]) =
  A.sds_new c enc_step v w signer r.
Proof. exact go_NewSignDetachedStream. Qed.

Theorem C07_source_go_SignDetached :
  forall (STS : list gval -> option (gval * GoAstProofs5a.gerr)) (BY : gval -> option gval) (V P S : gval),
  fst (run_func2 (ext_sign STS BY) f_saltpack_SignDetached [V; P; S]) =
  sign_wrap STS BY [V; P; S; fn_NewSignDetachedStream].
Proof. exact go_SignDetached. Qed.

Theorem C07_source_go_SignDetached_spec :
  forall (c : crypto) (r : rng) (v : version) (p : bytes) (signer : option bytes),
  fst
    (run_func2 (ext_sign (STS_spec c r) (fun b : gval => Some b)) f_saltpack_SignDetached
       [g_version v; VBytes p; A.g_signer signer]) = sign_det_spec c r v p signer.
Proof. exact go_SignDetached_spec. Qed.

Theorem C07_source_sign_det_spec_model :
  forall (c : crypto) (r : rng) (v : version) (sk p : bytes) (r' : rng) (outb : bytes),
  sign_detached c v sk p r = Ok (outb, r') -> sign_det_spec c r v p (Some sk) = ORet [VBytes outb; VNil].
Proof. exact sign_det_spec_model. Qed.

Theorem C07_source_compose_newSignDetachedStream :
  forall (c : crypto) (enc_step : gval -> bytes -> gval * A.gerr) (r : rng) (v : version) 
    (w : gval) (signer : option bytes),
  fst (run_func2 (A.ext_new c enc_step r) f_saltpack_newSignDetachedStream [g_version v; w; A.g_signer signer]) =
  match ext_NSS c enc_step r "newSignDetachedStream" [g_version v; w; A.g_signer signer] with
  | Some rs => ORet rs
  | None => OStuck "call"
  end.
Proof. exact compose_newSignDetachedStream. Qed.

Theorem C07_source_go_sds_open_from_NewSignDetachedStream :
  forall (c : crypto) (v : version) (sk : bytes) (pieces : list bytes) (r : rng),
  S.go_sds_open c v sk pieces r =
  match
    fst
      (run_func2 (ext_NSS c A.mem_enc r) f_saltpack_NewSignDetachedStream
         [g_version v; VBytes []; A.g_signer (Some sk)])
  with
  | ORet [obj; VNil] => S.go_sds_writes c obj pieces
  | ORet [obj] | ORet (obj :: VInt _ :: _) | ORet (obj :: VBool _ :: _) | ORet (obj :: VBytes _ :: _) |
    ORet (obj :: VStruct _ :: _) | ORet (obj :: VList _ :: _) | ORet (obj :: VNil :: _ :: _) |
    ORet (obj :: VErr _ _ :: _) => None
  | _ => None
  end.
Proof. exact go_sds_open_from_NewSignDetachedStream. Qed.

End C07_source_entry.

Print Assumptions C07_source_go_NewSignDetachedStream.
Print Assumptions C07_source_go_SignDetached.
Print Assumptions C07_source_go_SignDetached_spec.
Print Assumptions C07_source_sign_det_spec_model.
Print Assumptions C07_source_compose_newSignDetachedStream.
Print Assumptions C07_source_go_sds_open_from_NewSignDetachedStream.


