(* C07 — Detached signatures verify exactly the signed message and nothing else.
   (Authenticity clause: see C07_authentic below once proofs/AuthProofs.v is in place.) *)
From Coq Require Import List NArith ZArith.
From Coq.Strings Require Import Byte.
From SP Require Import Bytes Params Msgpack Crypto Errors Packets Chunker Rand Sign Verify SignProofs SignAuthProofs SignAuthLocated.
From SP Require Import BaseX Encodings Armor ArmorProofs ArmoredForms.
From SP Require Import Nonce Packets Signcrypt GoLang GoAst GoAstProofs GoAstProofs2.
From Coq Require String.
Import String.StringSyntax.
Import ListNotations.

Section C07.
Variable c : crypto.
Hypothesis Hc : crypto_ok c.

(* A detached signature for M by K verifies against M and returns K (both versions,
   both shipped validators). The reader form hashes the message as a fold, so it
   is the same function of the concatenated message. *)
Theorem C07_roundtrip (v : version) (sk msg : bytes) (r : rng) (kr : sigring) (vd : validator) :
  v = v1 \/ v = v2 -> (16 <= length r)%nat -> In (ed_pub c sk) kr -> good_validator vd v ->
  exists sig,
    sign_detached c v sk msg r = Ok (sig, skipn 16 r) /\
    verify_detached c vd kr msg sig = Ok (ed_pub c sk).
Proof. exact (detached_roundtrip c Hc v sk msg r kr vd). Qed.

(* An attached-mode signature presented as detached is rejected (mode gate), and
   a detached one presented as attached likewise, whatever the keyring. *)
Theorem C07_rejects_attached (v : version) (sk : bytes) (pieces : list bytes) (r r' : rng)
        (kr : sigring) (vd : validator) (msg out : bytes) :
  v = v1 \/ v = v2 -> good_validator vd v ->
  sign_attached_stream c v sk pieces r = Ok (out, r') ->
  verify_detached c vd kr msg out = Err ErrWrongMessageType.
Proof. exact (detached_rejects_attached c Hc v sk pieces r r' kr vd msg out). Qed.

Theorem C07_detached_not_attached (v : version) (sk msg : bytes) (r r' : rng)
        (kr : sigring) (vd : validator) (out : bytes) :
  v = v1 \/ v = v2 -> good_validator vd v ->
  sign_detached c v sk msg r = Ok (out, r') ->
  verify_stream c vd kr out = Err ErrWrongMessageType.
Proof. exact (attached_rejects_detached c Hc v sk msg r r' kr vd out). Qed.
End C07.

(* Authenticity (reduction-style, for every instance of the primitives with 64-byte
   hashes and every pair of byte strings): detached verification succeeds only if
   the key signed exactly that message under exactly that header in detached
   mode — or the input exhibits a forged signature / hash collision. *)
Theorem C07_authentic (c : crypto) (Hsha : forall x, length (sha512 c x) = 64%nat)
        (vd : validator) (kr : sigring) (msg sigfile : bytes) (pk : bytes) (L : list sign_event) :
  Forall event_ok L -> len pk < 4294967296%N ->
  verify_detached c vd kr msg sigfile = Ok pk ->
  (exists v nonce hdr rest,
      In (EvDetached v nonce msg) L /\
      read_header_bytes sigfile = Ok (hdr, rest) /\ hdr = sig_header_bytes v mt_detached pk nonce)
  \/ DetBreak c vd pk L msg sigfile.
Proof. exact (detached_authentic_located c Hsha vd kr msg sigfile pk L). Qed.
(* SOURCE TIE: the terms f_saltpack_* are generated on every run from the Go syntax trees of
   /repo (harness/cmd/gen/goast.go); under the Go semantics of model/GoLang.v, with the standard
   library / NaCl primitives interpreted by ext_prims over the crypto record and calls to other
   saltpack functions interpreted by the model (each of those has its own such theorem), they
   compute exactly what the model says, for ALL arguments and EVERY instance of the primitives. *)
Theorem C07_source_detachedSignatureInput (c : crypto) (hh msg : bytes) :
  run_func (ext_model c) f_saltpack_detachedSignatureInput [VBytes hh; VBytes msg]
  = ORet [VBytes (detached_sig_input c hh msg)].
Proof. exact (go_detachedSignatureInput c hh msg). Qed.

Theorem C07_source_detachedSignatureInputFromHash (c : crypto) (h : bytes) :
  run_func (ext_prims c) f_saltpack_detachedSignatureInputFromHash [VBytes h]
  = ORet [VBytes (detached_sig_input_from_hash h)].
Proof. exact (go_detachedSignatureInputFromHash c h). Qed.

(* BINARY AND ARMORED FORMS AGREE: the armored all-at-once entry point is the binary one composed
   with dearmoring; on the armored form of ANY binary message (genuine or not) it returns exactly
   what the binary entry point returns on that message, plus the brand. *)
Theorem C07_armored_form_agrees (c : crypto) (vd : validator) (kr : sigring) (msg sigfile brand : bytes) :
  brand_ok brand ->
  dearmor62_verify_detached c vd kr msg (armor62_seal sigfile mt_detached brand) =
  bind (verify_detached c vd kr msg sigfile) (fun pk => Ok (pk, brand)).
Proof. exact (armored_verify_detached_agrees c vd kr msg sigfile brand). Qed.

Print Assumptions C07_armored_form_agrees.
Print Assumptions C07_source_detachedSignatureInput.
Print Assumptions C07_source_detachedSignatureInputFromHash.
Print Assumptions C07_authentic.

Print Assumptions C07_roundtrip.
Print Assumptions C07_rejects_attached.
Print Assumptions C07_detached_not_attached.

From SP Require Import ToyCrypto ToyCryptoProofs.
Example C07_ex_roundtrip :
  let sk := repeat x07 64 in
  match sign_detached toy_crypto v1 sk [x68; x69] (repeat x02 16) with
  | Ok (sig, _) => verify_detached toy_crypto (Single v1) [ed_pub toy_crypto sk] [x68; x69] sig
  | Err e => Err e
  end = Ok (ed_pub toy_crypto (repeat x07 64)).
Proof. vm_compute. reflexivity. Qed.
