(* C09 — Every message a spec-following sender can produce is accepted.
   The GENERAL specification encoders of coq/spec/Spec.v (literals from specs/*.md;
   any chunk sizes from 1 byte to 1 MiB in any sequence, V1 or V2, any fixnum minor
   version, extra trailing elements in headers / recipient pairs / payload packets,
   any recipient order and visibility) are accepted by the implementation model's
   receivers — given a validator admitting that major version — with exactly the
   plaintext and the sender/recipient attribution the specification implies.
   Side condition everywhere: the encoded header is shorter than 4 GiB (the outer
   MessagePack bin32).  Only property theorems here. *)
From Coq Require Import List NArith ZArith.
From Coq.Strings Require Import Byte.
From SP Require Import Bytes Params Msgpack Crypto Errors Packets Chunker Rand Sign Verify Encrypt Decrypt Signcrypt Spec
     AcceptDefs AcceptSignProofs AcceptEncProofs AcceptScProofs AcceptScSymProofs.
Import ListNotations.
Open Scope N_scope.

Section C09.
Variable c : crypto.
Hypothesis Hc : crypto_ok c.

Theorem C09_accepts_attached (p : S_sig) (kr : sigring) (vd : validator) :
  sig_params_ok p ->
  len (mp_encode (S_sig_header_list c p S_mode_attached)) < 4294967296 ->
  admits vd (ss_major p) (ss_minor p) -> In (ed_pub c (ss_sk p)) kr ->
  exists chunks,
    verify_stream c vd kr (S_encode_attached c p) = Ok (ed_pub c (ss_sk p), mkOut chunks EOF) /\
    concat chunks = concat (ss_chunks p) /\
    verify_all c vd kr (S_encode_attached c p) = Ok (ed_pub c (ss_sk p), concat (ss_chunks p)).
Proof. exact (spec_attached_accepted c Hc p kr vd). Qed.

Theorem C09_accepts_detached (p : S_sig) (kr : sigring) (vd : validator) :
  (ss_major p = 1 \/ ss_major p = 2)%Z -> (0 <= ss_minor p <= 127)%Z ->
  len (ss_nonce p) < 4294967296 -> extras_ok (ss_extra_hdr p) ->
  len (mp_encode (S_sig_header_list c p S_mode_detached)) < 4294967296 ->
  admits vd (ss_major p) (ss_minor p) -> In (ed_pub c (ss_sk p)) kr ->
  verify_detached c vd kr (ss_msg p) (S_encode_detached c p) = Ok (ed_pub c (ss_sk p)).
Proof. exact (spec_detached_accepted c Hc p kr vd). Qed.

Theorem C09_accepts_encryption (p : S_enc) (sk : bytes) (hide : bool) (i : nat) (vd : validator) :
  enc_params_ok c p -> admits vd (se_major p) (se_minor p) ->
  nth_error (se_rcpts p) i = Some (dh_pub c sk, hide) ->
  let kr := mkRing [(sk, dh_pub c sk)] None in
  (exists m chunks,
      open_stream c vd kr (S_encode_encryption c p) = Ok (m, mkOut chunks EOF) /\
      concat chunks = concat (se_chunks p) /\
      mki_sender m = dh_pub c (match se_sender p with Some s => s | None => se_eph p end) /\
      mki_sender_anon m = (match se_sender p with Some _ => false | None => true end) /\
      mki_receiver m = dh_pub c sk /\ mki_receiver_anon m = hide /\
      open_all c vd kr (S_encode_encryption c p) = Ok (m, concat (se_chunks p)))
  \/ S_foreign_box_opens c p sk.
Proof. exact (spec_encryption_accepted c Hc p sk hide i vd). Qed.

Theorem C09_accepts_signcryption (p : S_sc) (sk : bytes) (i : nat) (signers : sigring) (rv : resolver) :
  sc_params_ok c p ->
  nth_error (sc_rcpts p) i = Some (S_BoxR (dh_pub c sk)) ->
  (forall s, sc_signer p = Some s -> In (ed_pub c s) signers) ->
  let kr := mkRing [(sk, dh_pub c sk)] None in
  (exists chunks,
      signcrypt_open_stream c kr signers rv (S_encode_signcryption c p) =
        Ok (option_map (ed_pub c) (sc_signer p), mkOut chunks EOF) /\
      concat chunks = concat (sc_chunks p) /\
      signcrypt_open_all c kr signers rv (S_encode_signcryption c p) =
        Ok (option_map (ed_pub c) (sc_signer p), concat (sc_chunks p)))
  \/ S_identifier_collision c p sk i.
Proof. exact (spec_signcryption_accepted_box c Hc p sk i signers rv). Qed.

(* ... and by a holder of a symmetric key whose resolver knows only genuine (identifier, key) pairs *)
Theorem C09_accepts_signcryption_sym (p : S_sc) (i : nat) (key ident : bytes) (rsl : list (bytes * bytes))
        (signers : sigring) :
  sc_params_ok c p ->
  nth_error (sc_rcpts p) i = Some (S_SymR key ident) ->
  resolve rsl ident = Some key ->
  S_resolver_genuine c rsl p ->
  (forall s, sc_signer p = Some s -> In (ed_pub c s) signers) ->
  let kr := mkRing [] None in
  exists chunks,
      signcrypt_open_stream c kr signers (Some rsl) (S_encode_signcryption c p) =
        Ok (option_map (ed_pub c) (sc_signer p), mkOut chunks EOF) /\
      concat chunks = concat (sc_chunks p) /\
      signcrypt_open_all c kr signers (Some rsl) (S_encode_signcryption c p) =
        Ok (option_map (ed_pub c) (sc_signer p), concat (sc_chunks p)).
Proof. exact (spec_signcryption_accepted_sym c Hc p i key ident rsl signers). Qed.
End C09.

Print Assumptions C09_accepts_attached.
Print Assumptions C09_accepts_detached.
Print Assumptions C09_accepts_encryption.
Print Assumptions C09_accepts_signcryption.
Print Assumptions C09_accepts_signcryption_sym.

(* Non-vacuity: a foreign-looking message (tiny chunks, minor version 7, extra elements) is accepted on the toy instance. *)
From SP Require Import ToyCrypto ToyCryptoProofs.
Example C09_ex_foreign_attached :
  let p := mkSSig 2 7 (repeat x07 64) (repeat x09 32) [[x68]; [x69; x21]] [] [MInt 5; MStr [x78]] [MNil] in
  verify_all toy_crypto AnyKnownMajor [ed_pub toy_crypto (repeat x07 64)] (S_encode_attached toy_crypto p)
  = Ok (ed_pub toy_crypto (repeat x07 64), [x68; x69; x21]).
Proof. vm_compute. reflexivity. Qed.

From SP Require Import GoLang GoLang2 GoAst GoAstProofs GoAstProofs2 GoAstProofs4b GoAstProofs7c GoAstOpen GoAstRecv GoEndToEndGate.
From SP Require GoEndToEndAuth GoEndToEndSign.
From Coq Require String.
Import String.StringSyntax.
(* ---------- paste into props/C09.v (after `End C09.`) ----------
   SOURCE END TO END: the acceptance theorems composed with the receiver source ties of proofs/GoAstProofs7c.v: the TRANSLATED
   entry points of /repo (terms generated on this run from the Go syntax trees), run by the evaluator of model/GoLang2.v on the
   bytes of ANY message of the general specification encoders, return success with exactly the specified plaintext and
   attribution (or the explicit foreign-box / identifier-collision witness); the streaming constructors return reader objects
   which, drained by the translated getNextChunk, release exactly that plaintext and io.EOF.  Each closed by `exact` of a lemma
   of proofs/GoEndToEndGate.v.  Additional imports needed in props/C09.v:
     From SP Require Import GoLang GoLang2 GoAst GoAstProofs GoAstProofs2 GoAstProofs4b GoAstProofs7c GoAstOpen GoAstRecv GoEndToEndGate.
     From SP Require GoEndToEndAuth GoEndToEndSign.
     From Coq Require String.  Import String.StringSyntax.       (string literals; do NOT `Import String`; the block below
     opens string_scope locally, as the SOURCE TIE blocks of props/C01.v ... do) *)

Local Open Scope string_scope.
Theorem C09_source_end_to_end_Verify_accepts_spec (c : crypto) (Hc : crypto_ok c) (p : S_sig) (kr : sigring) (vd : validator) (VV KR : gval) :
  sig_params_ok p ->
  (len (mp_encode (S_sig_header_list c p S_mode_attached)) < 4294967296)%N ->
  admits vd (ss_major p) (ss_minor p) -> In (ed_pub c (ss_sk p)) kr ->
  fst (run_func2 (ext_verify c vd kr) f_saltpack_Verify [VV; VBytes (S_encode_attached c p); KR])
  = ORet [g_spk (ed_pub c (ss_sk p)); VBytes (List.concat (ss_chunks p)); VNil] /\
  verify_class (fst (run_func2 (ext_verify c vd kr) f_saltpack_Verify [VV; VBytes (S_encode_attached c p); KR]))
  = Ok (ed_pub c (ss_sk p), List.concat (ss_chunks p)).
Proof. exact (go_Verify_accepts_spec c Hc p kr vd VV KR). Qed.

Theorem C09_source_end_to_end_NewVerifyStream_accepts_spec (c : crypto) (Hc : crypto_ok c) (p : S_sig) (kr : sigring) (vd : validator) (VV KR rd : gval) :
  sig_params_ok p ->
  (len (mp_encode (S_sig_header_list c p S_mode_attached)) < 4294967296)%N ->
  admits vd (ss_major p) (ss_minor p) -> In (ed_pub c (ss_sk p)) kr ->
  rdr_bytes rd = Some (S_encode_attached c p) ->
  exists h hh rest chunks k,
    fst (run_func2 (ext_NVS c vd kr) f_saltpack_NewVerifyStream [VV; rd; KR])
    = ORet [g_spk (ed_pub c (ss_sk p)); g_cr_new (g_vs_key h hh (ed_pub c (ss_sk p)) (g_mps_raw rest 1)); VNil] /\
    verify_read_header c vd mt_attached (S_encode_attached c p) = Ok (h, hh, rest) /\
    verify_loop c (S (List.length rest)) (h_version h) (ed_pub c (ss_sk p)) hh 0 rest [] = mkOut chunks EOF /\
    GoEndToEndSign.vs_recode (g_vs_key h hh (ed_pub c (ss_sk p)) (g_mps_raw rest 1))
    = Some (g_vs h (ed_pub c (ss_sk p)) hh (g_mps rest 0)) /\
    GoEndToEndSign.go_vs_drain c k (g_vs h (ed_pub c (ss_sk p)) hh (g_mps rest 0)) [] = Some (chunks, VErr "io.EOF" []) /\
    List.concat chunks = List.concat (ss_chunks p) /\
    ext_verify c vd kr "NewVerifyStream" [VV; rd; KR]
    = Some [g_spk (ed_pub c (ss_sk p)); g_stream (mkOut chunks EOF); VNil].
Proof. exact (go_NewVerifyStream_accepts_spec c Hc p kr vd VV KR rd). Qed.

Theorem C09_source_end_to_end_VerifyDetached_accepts_spec (c : crypto) (Hc : crypto_ok c) (p : S_sig) (kr : sigring) (vd : validator) (VV KR : gval) :
  (ss_major p = 1 \/ ss_major p = 2)%Z -> (0 <= ss_minor p <= 127)%Z ->
  (len (ss_nonce p) < 4294967296)%N -> extras_ok (ss_extra_hdr p) ->
  (len (mp_encode (S_sig_header_list c p S_mode_detached)) < 4294967296)%N ->
  admits vd (ss_major p) (ss_minor p) -> In (ed_pub c (ss_sk p)) kr ->
  fst (run_func2 (ext_vdet2 c vd kr) f_saltpack_VerifyDetached [VV; VBytes (ss_msg p); VBytes (S_encode_detached c p); KR])
  = ORet [g_spk (ed_pub c (ss_sk p)); VNil] /\
  fst (run_func2 (ext_vdet c vd kr) f_saltpack_VerifyDetachedReader
         [VV; g_rdr (ss_msg p) None; VBytes (S_encode_detached c p); KR])
  = ORet [g_spk (ed_pub c (ss_sk p)); VNil] /\
  vd_class (fst (run_func2 (ext_vdet2 c vd kr) f_saltpack_VerifyDetached
                   [VV; VBytes (ss_msg p); VBytes (S_encode_detached c p); KR]))
  = Ok (ed_pub c (ss_sk p)).
Proof. exact (go_VerifyDetached_accepts_spec c Hc p kr vd VV KR). Qed.

Theorem C09_source_end_to_end_Open_accepts_spec (c : crypto) (Hc : crypto_ok c) (pm : bytes -> gval) (p : S_enc) (sk : bytes) (hide : bool) (i : nat) (vd : validator) (VV RING rd : gval) :
  enc_params_ok c p -> admits vd (se_major p) (se_minor p) ->
  nth_error (se_rcpts p) i = Some (dh_pub c sk, hide) ->
  rdr_bytes rd = Some (S_encode_encryption c p) ->
  let kr := mkRing [(sk, dh_pub c sk)] None in
  (exists (m : mki) (chunks : list bytes) (st : dec_state) (rest : bytes),
      fst (run_func2 (ext_open c pm vd kr) f_saltpack_Open [VV; VBytes (S_encode_encryption c p); RING])
      = ORet [g_mki m (sk, dh_pub c sk); VBytes (List.concat (se_chunks p)); VNil] /\
      open_class (fst (run_func2 (ext_open c pm vd kr) f_saltpack_Open [VV; VBytes (S_encode_encryption c p); RING]))
      = Ok (m, List.concat (se_chunks p)) /\
      fst (run_func2 (ext_nds c pm vd kr) f_saltpack_NewDecryptStream [VV; rd; RING])
      = ORet [g_mki m (sk, dh_pub c sk);
              g_cr_new (g_ds_done VV RING (g_mps_raw rest 1) VNil m st (sk, dh_pub c sk)); VNil] /\
      decrypt_loop c (S (List.length rest)) st 0 rest [] = mkOut chunks EOF /\
      List.concat chunks = List.concat (se_chunks p) /\
      mki_sender m = dh_pub c (match se_sender p with Some s => s | None => se_eph p end) /\
      mki_sender_anon m = (match se_sender p with Some _ => false | None => true end) /\
      mki_receiver m = dh_pub c sk /\ mki_receiver_anon m = hide)
  \/ S_foreign_box_opens c p sk.
Proof. exact (go_Open_accepts_spec c Hc pm p sk hide i vd VV RING rd). Qed.

Theorem C09_source_end_to_end_SigncryptOpen_accepts_spec_box (c : crypto) (Hc : crypto_ok c) (p : S_sc) (sk : bytes) (i : nat) (signers : sigring) (rv : resolver)
        (KR RV rd : gval) :
  sc_params_ok c p ->
  nth_error (sc_rcpts p) i = Some (S_BoxR (dh_pub c sk)) ->
  (forall s, sc_signer p = Some s -> In (ed_pub c s) signers) ->
  rdr_bytes rd = Some (S_encode_signcryption c p) ->
  let kr := mkRing [(sk, dh_pub c sk)] None in
  let sg := option_map (ed_pub c) (sc_signer p) in
  (fst (run_func2 (ext_scopen c kr signers rv) f_saltpack_SigncryptOpen [VBytes (S_encode_signcryption c p); KR; RV])
   = ORet [g_signer sg; VBytes (List.concat (sc_chunks p)); VNil] /\
   scopen_class (fst (run_func2 (ext_scopen c kr signers rv) f_saltpack_SigncryptOpen
                        [VBytes (S_encode_signcryption c p); KR; RV]))
   = Ok (sg, List.concat (sc_chunks p)) /\
   exists (chunks : list bytes) (pkey hh rest : bytes),
     fst (run_func2 (ext_nsos c kr signers rv) f_saltpack_NewSigncryptOpenStream [rd; KR; RV])
     = ORet [g_signer sg; g_cr_new (g_sos_done (g_mps_raw rest 1) KR RV pkey hh sg); VNil] /\
     sc_open_loop c (S (List.length rest)) pkey sg hh 0 rest [] = mkOut chunks EOF /\
     List.concat chunks = List.concat (sc_chunks p))
  \/ S_identifier_collision c p sk i.
Proof. exact (go_SigncryptOpen_accepts_spec_box c Hc p sk i signers rv KR RV rd). Qed.

Theorem C09_source_end_to_end_SigncryptOpen_accepts_spec_sym (c : crypto) (Hc : crypto_ok c) (p : S_sc) (i : nat) (key ident : bytes) (rsl : list (bytes * bytes))
        (signers : sigring) (KR RV rd : gval) :
  sc_params_ok c p ->
  nth_error (sc_rcpts p) i = Some (S_SymR key ident) ->
  resolve rsl ident = Some key ->
  S_resolver_genuine c rsl p ->
  (forall s, sc_signer p = Some s -> In (ed_pub c s) signers) ->
  rdr_bytes rd = Some (S_encode_signcryption c p) ->
  let kr := mkRing [] None in
  let sg := option_map (ed_pub c) (sc_signer p) in
  fst (run_func2 (ext_scopen c kr signers (Some rsl)) f_saltpack_SigncryptOpen [VBytes (S_encode_signcryption c p); KR; RV])
  = ORet [g_signer sg; VBytes (List.concat (sc_chunks p)); VNil] /\
  scopen_class (fst (run_func2 (ext_scopen c kr signers (Some rsl)) f_saltpack_SigncryptOpen
                       [VBytes (S_encode_signcryption c p); KR; RV]))
  = Ok (sg, List.concat (sc_chunks p)) /\
  exists (chunks : list bytes) (pkey hh rest : bytes),
    fst (run_func2 (ext_nsos c kr signers (Some rsl)) f_saltpack_NewSigncryptOpenStream [rd; KR; RV])
    = ORet [g_signer sg; g_cr_new (g_sos_done (g_mps_raw rest 1) KR RV pkey hh sg); VNil] /\
    sc_open_loop c (S (List.length rest)) pkey sg hh 0 rest [] = mkOut chunks EOF /\
    List.concat chunks = List.concat (sc_chunks p).
Proof. exact (go_SigncryptOpen_accepts_spec_sym c Hc p i key ident rsl signers KR RV rd). Qed.

Theorem C09_source_end_to_end_NewDecryptStream_drain_of_model (c : crypto) (pm : bytes -> gval) (vd : validator) (kr : keyring) (VV RING rd : gval)
        (wire : bytes) (m : mki) (chunks : list bytes) :
  open_stream c vd kr wire = Ok (m, mkOut chunks EOF) ->
  rdr_bytes rd = Some wire ->
  exists (k : bytes * bytes) (obj : gval),
    In k (kr_keys kr) /\ snd k = mki_receiver m /\
    fst (run_func2 (ext_nds c pm vd kr) f_saltpack_NewDecryptStream [VV; rd; RING]) = ORet [g_mki m k; g_cr_new obj; VNil] /\
    forall F, (List.length wire < F)%nat -> (N.of_nat F <= 18446744073709551616)%N ->
      exists tl, (tl = [] \/ tl = [[]]) /\
        GoEndToEndAuth.go_drain (ext_chunk c TBytes) f_saltpack_decryptStream_getNextChunk "ds" F obj
        = ((chunks ++ tl)%list, Some (VErr "io.EOF" [])).
Proof. exact (go_NewDecryptStream_drain_of_model c pm vd kr VV RING rd wire m chunks). Qed.

Theorem C09_source_end_to_end_NewSigncryptOpenStream_drain_of_model (c : crypto) (kr : keyring) (signers : sigring) (rv : resolver) (KR RV rd : gval)
        (wire : bytes) (sg : option bytes) (chunks : list bytes) :
  signcrypt_open_stream c kr signers rv wire = Ok (sg, mkOut chunks EOF) ->
  rdr_bytes rd = Some wire ->
  exists obj : gval,
    fst (run_func2 (ext_nsos c kr signers rv) f_saltpack_NewSigncryptOpenStream [rd; KR; RV])
    = ORet [g_signer sg; g_cr_new obj; VNil] /\
    forall F, (List.length wire < F)%nat -> (N.of_nat F <= 18446744073709551616)%N ->
      exists tl, (tl = [] \/ tl = [[]]) /\
        GoEndToEndAuth.go_drain (ext_chunk c TSigncryptionBlock) f_saltpack_signcryptOpenStream_getNextChunk "sos" F obj
        = ((chunks ++ tl)%list, Some (VErr "io.EOF" [])).
Proof. exact (go_NewSigncryptOpenStream_drain_of_model c kr signers rv KR RV rd wire sg chunks). Qed.

Theorem C09_source_end_to_end_NewDecryptStream_drain_accepts_spec (c : crypto) (Hc : crypto_ok c) (pm : bytes -> gval) (p : S_enc) (sk : bytes) (hide : bool) (i : nat)
        (vd : validator) (VV RING rd : gval) :
  enc_params_ok c p -> admits vd (se_major p) (se_minor p) ->
  nth_error (se_rcpts p) i = Some (dh_pub c sk, hide) ->
  rdr_bytes rd = Some (S_encode_encryption c p) ->
  let kr := mkRing [(sk, dh_pub c sk)] None in
  (exists (m : mki) (obj : gval),
      fst (run_func2 (ext_nds c pm vd kr) f_saltpack_NewDecryptStream [VV; rd; RING])
      = ORet [g_mki m (sk, dh_pub c sk); g_cr_new obj; VNil] /\
      mki_sender m = dh_pub c (match se_sender p with Some s => s | None => se_eph p end) /\
      mki_sender_anon m = (match se_sender p with Some _ => false | None => true end) /\
      mki_receiver m = dh_pub c sk /\ mki_receiver_anon m = hide /\
      forall F, (List.length (S_encode_encryption c p) < F)%nat -> (N.of_nat F <= 18446744073709551616)%N ->
        let d := GoEndToEndAuth.go_drain (ext_chunk c TBytes) f_saltpack_decryptStream_getNextChunk "ds" F obj in
        List.concat (fst d) = List.concat (se_chunks p) /\ snd d = Some (VErr "io.EOF" []))
  \/ S_foreign_box_opens c p sk.
Proof. exact (go_NewDecryptStream_drain_accepts_spec c Hc pm p sk hide i vd VV RING rd). Qed.

Theorem C09_source_end_to_end_NewSigncryptOpenStream_drain_accepts_spec_box (c : crypto) (Hc : crypto_ok c) (p : S_sc) (sk : bytes) (i : nat) (signers : sigring) (rv : resolver)
        (KR RV rd : gval) :
  sc_params_ok c p ->
  nth_error (sc_rcpts p) i = Some (S_BoxR (dh_pub c sk)) ->
  (forall s, sc_signer p = Some s -> In (ed_pub c s) signers) ->
  rdr_bytes rd = Some (S_encode_signcryption c p) ->
  let kr := mkRing [(sk, dh_pub c sk)] None in
  let sg := option_map (ed_pub c) (sc_signer p) in
  (exists obj : gval,
      fst (run_func2 (ext_nsos c kr signers rv) f_saltpack_NewSigncryptOpenStream [rd; KR; RV])
      = ORet [g_signer sg; g_cr_new obj; VNil] /\
      forall F, (List.length (S_encode_signcryption c p) < F)%nat -> (N.of_nat F <= 18446744073709551616)%N ->
        let d := GoEndToEndAuth.go_drain (ext_chunk c TSigncryptionBlock) f_saltpack_signcryptOpenStream_getNextChunk "sos" F obj in
        List.concat (fst d) = List.concat (sc_chunks p) /\ snd d = Some (VErr "io.EOF" []))
  \/ S_identifier_collision c p sk i.
Proof. exact (go_NewSigncryptOpenStream_drain_accepts_spec_box c Hc p sk i signers rv KR RV rd). Qed.

Theorem C09_source_end_to_end_NewSigncryptOpenStream_drain_accepts_spec_sym (c : crypto) (Hc : crypto_ok c) (p : S_sc) (i : nat) (key ident : bytes) (rsl : list (bytes * bytes))
        (signers : sigring) (KR RV rd : gval) :
  sc_params_ok c p ->
  nth_error (sc_rcpts p) i = Some (S_SymR key ident) ->
  resolve rsl ident = Some key ->
  S_resolver_genuine c rsl p ->
  (forall s, sc_signer p = Some s -> In (ed_pub c s) signers) ->
  rdr_bytes rd = Some (S_encode_signcryption c p) ->
  let kr := mkRing [] None in
  let sg := option_map (ed_pub c) (sc_signer p) in
  exists obj : gval,
    fst (run_func2 (ext_nsos c kr signers (Some rsl)) f_saltpack_NewSigncryptOpenStream [rd; KR; RV])
    = ORet [g_signer sg; g_cr_new obj; VNil] /\
    forall F, (List.length (S_encode_signcryption c p) < F)%nat -> (N.of_nat F <= 18446744073709551616)%N ->
      let d := GoEndToEndAuth.go_drain (ext_chunk c TSigncryptionBlock) f_saltpack_signcryptOpenStream_getNextChunk "sos" F obj in
      List.concat (fst d) = List.concat (sc_chunks p) /\ snd d = Some (VErr "io.EOF" []).
Proof. exact (go_NewSigncryptOpenStream_drain_accepts_spec_sym c Hc p i key ident rsl signers KR RV rd). Qed.
Local Close Scope string_scope.

Print Assumptions C09_source_end_to_end_Verify_accepts_spec.
Print Assumptions C09_source_end_to_end_NewVerifyStream_accepts_spec.
Print Assumptions C09_source_end_to_end_VerifyDetached_accepts_spec.
Print Assumptions C09_source_end_to_end_Open_accepts_spec.
Print Assumptions C09_source_end_to_end_SigncryptOpen_accepts_spec_box.
Print Assumptions C09_source_end_to_end_SigncryptOpen_accepts_spec_sym.
Print Assumptions C09_source_end_to_end_NewDecryptStream_drain_of_model.
Print Assumptions C09_source_end_to_end_NewSigncryptOpenStream_drain_of_model.
Print Assumptions C09_source_end_to_end_NewDecryptStream_drain_accepts_spec.
Print Assumptions C09_source_end_to_end_NewSigncryptOpenStream_drain_accepts_spec_box.
Print Assumptions C09_source_end_to_end_NewSigncryptOpenStream_drain_accepts_spec_sym.



