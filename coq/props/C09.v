(* C09 — Every message a spec-following sender can produce is accepted.
   The GENERAL specification encoders of coq/spec/Spec.v (literals from specs/*.md;
   any chunk sizes from 1 byte to 1 MiB in any sequence, V1 or V2, any fixnum minor
   version, extra trailing elements in headers / recipient pairs / payload packets,
   any recipient order and visibility) are accepted by the implementation model's
   receivers — given a validator admitting that major version — with exactly the
   plaintext and the sender/recipient attribution the specification implies.
   Side condition everywhere: the encoded header is shorter than 4 GiB (the outer
   MessagePack bin32).  Only property theorems here. *)
From Coq Require Import List NArith ZArith.
From Coq.Strings Require Import Byte.
From SP Require Import Bytes Params Msgpack Crypto Errors Packets Chunker Rand Sign Verify Encrypt Decrypt Signcrypt Spec
     AcceptDefs AcceptSignProofs AcceptEncProofs AcceptScProofs AcceptScSymProofs.
Import ListNotations.
Open Scope N_scope.

Section C09.
Variable c : crypto.
Hypothesis Hc : crypto_ok c.

Theorem C09_accepts_attached (p : S_sig) (kr : sigring) (vd : validator) :
  sig_params_ok p ->
  len (mp_encode (S_sig_header_list c p S_mode_attached)) < 4294967296 ->
  admits vd (ss_major p) (ss_minor p) -> In (ed_pub c (ss_sk p)) kr ->
  exists chunks,
    verify_stream c vd kr (S_encode_attached c p) = Ok (ed_pub c (ss_sk p), mkOut chunks EOF) /\
    concat chunks = concat (ss_chunks p) /\
    verify_all c vd kr (S_encode_attached c p) = Ok (ed_pub c (ss_sk p), concat (ss_chunks p)).
Proof. exact (spec_attached_accepted c Hc p kr vd). Qed.

Theorem C09_accepts_detached (p : S_sig) (kr : sigring) (vd : validator) :
  (ss_major p = 1 \/ ss_major p = 2)%Z -> (0 <= ss_minor p <= 127)%Z ->
  len (ss_nonce p) < 4294967296 -> extras_ok (ss_extra_hdr p) ->
  len (mp_encode (S_sig_header_list c p S_mode_detached)) < 4294967296 ->
  admits vd (ss_major p) (ss_minor p) -> In (ed_pub c (ss_sk p)) kr ->
  verify_detached c vd kr (ss_msg p) (S_encode_detached c p) = Ok (ed_pub c (ss_sk p)).
Proof. exact (spec_detached_accepted c Hc p kr vd). Qed.

Theorem C09_accepts_encryption (p : S_enc) (sk : bytes) (hide : bool) (i : nat) (vd : validator) :
  enc_params_ok c p -> admits vd (se_major p) (se_minor p) ->
  nth_error (se_rcpts p) i = Some (dh_pub c sk, hide) ->
  let kr := mkRing [(sk, dh_pub c sk)] None in
  (exists m chunks,
      open_stream c vd kr (S_encode_encryption c p) = Ok (m, mkOut chunks EOF) /\
      concat chunks = concat (se_chunks p) /\
      mki_sender m = dh_pub c (match se_sender p with Some s => s | None => se_eph p end) /\
      mki_sender_anon m = (match se_sender p with Some _ => false | None => true end) /\
      mki_receiver m = dh_pub c sk /\ mki_receiver_anon m = hide /\
      open_all c vd kr (S_encode_encryption c p) = Ok (m, concat (se_chunks p)))
  \/ S_foreign_box_opens c p sk.
Proof. exact (spec_encryption_accepted c Hc p sk hide i vd). Qed.

Theorem C09_accepts_signcryption (p : S_sc) (sk : bytes) (i : nat) (signers : sigring) (rv : resolver) :
  sc_params_ok c p ->
  nth_error (sc_rcpts p) i = Some (S_BoxR (dh_pub c sk)) ->
  (forall s, sc_signer p = Some s -> In (ed_pub c s) signers) ->
  let kr := mkRing [(sk, dh_pub c sk)] None in
  (exists chunks,
      signcrypt_open_stream c kr signers rv (S_encode_signcryption c p) =
        Ok (option_map (ed_pub c) (sc_signer p), mkOut chunks EOF) /\
      concat chunks = concat (sc_chunks p) /\
      signcrypt_open_all c kr signers rv (S_encode_signcryption c p) =
        Ok (option_map (ed_pub c) (sc_signer p), concat (sc_chunks p)))
  \/ S_identifier_collision c p sk i.
Proof. exact (spec_signcryption_accepted_box c Hc p sk i signers rv). Qed.

(* ... and by a holder of a symmetric key whose resolver knows only genuine (identifier, key) pairs *)
Theorem C09_accepts_signcryption_sym (p : S_sc) (i : nat) (key ident : bytes) (rsl : list (bytes * bytes))
        (signers : sigring) :
  sc_params_ok c p ->
  nth_error (sc_rcpts p) i = Some (S_SymR key ident) ->
  resolve rsl ident = Some key ->
  S_resolver_genuine c rsl p ->
  (forall s, sc_signer p = Some s -> In (ed_pub c s) signers) ->
  let kr := mkRing [] None in
  exists chunks,
      signcrypt_open_stream c kr signers (Some rsl) (S_encode_signcryption c p) =
        Ok (option_map (ed_pub c) (sc_signer p), mkOut chunks EOF) /\
      concat chunks = concat (sc_chunks p) /\
      signcrypt_open_all c kr signers (Some rsl) (S_encode_signcryption c p) =
        Ok (option_map (ed_pub c) (sc_signer p), concat (sc_chunks p)).
Proof. exact (spec_signcryption_accepted_sym c Hc p i key ident rsl signers). Qed.
End C09.

Print Assumptions C09_accepts_attached.
Print Assumptions C09_accepts_detached.
Print Assumptions C09_accepts_encryption.
Print Assumptions C09_accepts_signcryption.
Print Assumptions C09_accepts_signcryption_sym.

(* Non-vacuity: a foreign-looking message (tiny chunks, minor version 7, extra elements) is accepted on the toy instance. *)
From SP Require Import ToyCrypto ToyCryptoProofs.
Example C09_ex_foreign_attached :
  let p := mkSSig 2 7 (repeat x07 64) (repeat x09 32) [[x68]; [x69; x21]] [] [MInt 5; MStr [x78]] [MNil] in
  verify_all toy_crypto AnyKnownMajor [ed_pub toy_crypto (repeat x07 64)] (S_encode_attached toy_crypto p)
  = Ok (ed_pub toy_crypto (repeat x07 64), [x68; x69; x21]).
Proof. vm_compute. reflexivity. Qed.
