(* C05 — Attached signatures round trip to the exact message and signer.
   Only property theorems, each closed by `exact` of a lemma from proofs/. *)
From Coq Require Import List NArith ZArith.
From Coq.Strings Require Import Byte.
From SP Require Import Bytes Params Msgpack Crypto Errors Packets Chunker Rand Sign Verify SignProofs.
From SP Require Import BaseX Encodings Armor ArmorProofs ArmoredForms.
From SP Require Import GoLang GoLang2 GoAst GoAstProofs GoAstProofs4c GoAstSign GoAstProofs6a.
From Coq Require String.
Import String.StringSyntax.
Import ListNotations.

Section C05.
Variable c : crypto.
Hypothesis Hc : crypto_ok c.        (* functional correctness of SHA-512 / Ed25519 (trusted base) *)

(* Every message (any length, any split into Write calls), version 1 or 2, any
   signing key, any randomness stream of at least 16 bytes: the emitted bytes
   verify — streaming and all-at-once, under the major-version validator or the
   single-version validator — to exactly the message and the signer's public key. *)
Theorem C05_roundtrip (v : version) (sk : bytes) (pieces : list bytes) (r : rng)
        (kr : sigring) (vd : validator) :
  v = v1 \/ v = v2 -> (16 <= length r)%nat -> In (ed_pub c sk) kr -> good_validator vd v ->
  exists out chunks,
    sign_attached_stream c v sk pieces r = Ok (out, skipn 16 r) /\
    verify_stream c vd kr out = Ok (ed_pub c sk, mkOut chunks EOF) /\
    concat chunks = concat pieces /\
    verify_all c vd kr out = Ok (ed_pub c sk, concat pieces).
Proof. exact (sign_verify_roundtrip c Hc v sk pieces r kr vd). Qed.

(* A keyring that does not know the signer gets the no-sender-key error and no bytes. *)
Theorem C05_unknown_signer (v : version) (sk : bytes) (pieces : list bytes) (r r' : rng)
        (kr : sigring) (vd : validator) (out : bytes) :
  v = v1 \/ v = v2 -> good_validator vd v ->
  sign_attached_stream c v sk pieces r = Ok (out, r') -> ~ In (ed_pub c sk) kr ->
  verify_stream c vd kr out = Err ErrNoSenderKey /\ verify_all c vd kr out = Err ErrNoSenderKey.
Proof. exact (verify_unknown_signer c Hc v sk pieces r r' kr vd out). Qed.

(* Streaming and one-shot signers emit the same bytes. *)
Theorem C05_forms_agree (v : version) (sk : bytes) (pieces : list bytes) (r : rng) :
  sign_attached_stream c v sk pieces r = sign_attached c v sk (concat pieces) r.
Proof. exact (sign_stream_oneshot c v sk pieces r). Qed.
End C05.

(* BINARY AND ARMORED FORMS AGREE: the armored all-at-once entry point is the binary one composed
   with dearmoring; on the armored form of ANY binary message (genuine or not) it returns exactly
   what the binary entry point returns on that message, plus the brand. *)
Theorem C05_armored_form_agrees (c : crypto) (vd : validator) (kr : sigring) (wire brand : bytes) :
  brand_ok brand ->
  dearmor62_verify c vd kr (armor62_seal wire mt_attached brand) =
  bind (verify_all c vd kr wire) (fun r => Ok (fst r, snd r, brand)).
Proof. exact (armored_verify_agrees c vd kr wire brand). Qed.

(* ---- source ties: the ATTACHED signing sender (/repo/sign_stream.go), lemmas of proofs/GoAstProofs6a.v ---- *)
(* The terms f_saltpack_makeSignatureBlock, f_saltpack_signAttachedStream_{computeSig,signBlock,Write,Close},
   f_saltpack_newSignAttachedStream and f_saltpack_checkSignBlockRead are generated on every run from the Go
   syntax trees of /repo/sign_stream.go (gen/GoAstSign.v) and run by the evaluator of model/GoLang2.v.
   The *signAttachedStream object is [g_sas st], st : sas_state = (version, headerHash, encoder, secretKey,
   unread bytes of s.buffer, seqno).  `encoder.Encode(x)` is interpreted by an ARBITRARY function
   enc_step : encoder object -> packet bytes -> encoder object' * error, so the theorems hold for every writer,
   failing or not.  A Go error value is [g_errv e], e : gerr = None (nil) or Some (name, arguments).  The signing
   key object is the model's secret key; Sign is ed_sign.  A callee that PANICS has no value: the evaluator
   reports OStuck "extern" / OStuck "call", which the specification functions sas_block, sas_write, sas_close,
   sas_new (defined in GoAstProofs6a.v: the model's pieces of model/Sign.v and Chunker.v in the order the code
   runs them) carry explicitly as BStuck / WStuck / CloseStuck. *)

(* makeSignatureBlock(version, sig, chunk, isFinal): for every version, signature, chunk and flag it returns the
   V1 block object for Version1(), the V2 block object for Version2(), and panics otherwise (mk_sig_block).
   No hypothesis. *)
Theorem C05_source_makeSignatureBlock (v : version) (sig chunk : bytes) (final : bool) :
  fst (run_func2 ext_ver f_saltpack_makeSignatureBlock [g_version v; VBytes sig; VBytes chunk; VBool final])
  = match mk_sig_block v (VBytes sig) (VBytes chunk) final with Some b => ORet [b] | None => OPanic end.
Proof. exact (go_makeSignatureBlock v sig chunk final). Qed.

(* s.computeSig(chunk, seqno, isFinal) returns (ed_sign secretKey (attached_sig_input version headerHash chunk
   seqno isFinal), nil); for a version with no signature input (attachedSignatureInput panics) the evaluator
   reports OStuck "call".  No hypothesis: every crypto record, receiver state, chunk, sequence number, flag. *)
Theorem C05_source_computeSig (c : crypto) (st : sas_state) (chunk : bytes) (seqno : N) (final : bool) :
  fst (run_func2 (ext_sig c) f_saltpack_signAttachedStream_computeSig
                 [g_sas st; VBytes chunk; VInt (Z.of_N seqno); VBool final])
  = match attached_sig_input c (sas_v st) (sas_hh st) chunk seqno final with
    | Some inp => ORet [VBytes (ed_sign c (sas_sk st) inp); VNil]
    | None => OStuck "call"
    end.
Proof. exact (go_computeSig c st chunk seqno final). Qed.

(* s.signBlock(isFinal) = sas_block: takes up to 1 MiB off the buffer, asserts (checkSignBlockRead /
   assertEncodedChunkState: BStuck where they panic), signs, hands the packet mp_encode (mv_sig_block version
   sig chunk final) to the encoder; returns the encoder's error (seqno unchanged) or nil (seqno+1 mod 2^64); the
   receiver `s` holds the new buffer, encoder and seqno.  Hypothesis: sas_seq st < 2^64 (s.seqno is a uint64). *)
Theorem C05_source_signBlock (c : crypto) (enc_step : gval -> bytes -> gval * gerr) (st : sas_state) (final : bool) :
  (sas_seq st < two64)%N ->
  let r := run_func2 (ext_block c enc_step) f_saltpack_signAttachedStream_signBlock [g_sas st; VBool final] in
  match sas_block c enc_step st final with
  | BStuck w => fst r = OStuck w
  | BRet e st' => fst r = ORet [g_errv e] /\ lookup "s" (snd r) = Some (g_sas st')
  end.
Proof. exact (go_signBlock c enc_step st final). Qed.

(* s.Write(p) = sas_write F: p is appended to the buffer, then while more than 1 MiB is buffered signBlock(false)
   runs (with the meaning C05_source_signBlock proves); returns (len p, nil), or (0, err) at the first block whose
   signBlock fails; the receiver state as left.  Hypothesis: 5 <= F, where F is the number of turns the EVALUATOR
   gives a loop (run_func2_at (F+3)); sas_write F says WStuck "loop fuel" when F or more blocks would have to be
   flushed — a bound on the evaluator, not on the Go code. *)
Theorem C05_source_signAttachedStream_Write (c : crypto) (enc_step : gval -> bytes -> gval * gerr)
        (F : nat) (st : sas_state) (p : bytes) :
  (5 <= F)%nat ->
  let r := run_func2_at (S (S (S F))) (ext_stream c enc_step) f_saltpack_signAttachedStream_Write [g_sas st; VBytes p] in
  match sas_write c enc_step F st p with
  | WStuck w => fst r = OStuck w
  | WRet n e st' => fst r = ORet [VInt n; g_errv e] /\ lookup "s" (snd r) = Some (g_sas st')
  end.
Proof. exact (go_signAttachedStream_Write c enc_step F st p). Qed.

(* the same at the fuel of run_func2 (F = 297: up to 296 MiB flushed by one Write).  No hypothesis. *)
Theorem C05_source_signAttachedStream_Write_300 (c : crypto) (enc_step : gval -> bytes -> gval * gerr)
        (st : sas_state) (p : bytes) :
  let r := run_func2 (ext_stream c enc_step) f_saltpack_signAttachedStream_Write [g_sas st; VBytes p] in
  match sas_write c enc_step 297 st p with
  | WStuck w => fst r = OStuck w
  | WRet n e st' => fst r = ORet [VInt n; g_errv e] /\ lookup "s" (snd r) = Some (g_sas st')
  end.
Proof. exact (go_signAttachedStream_Write_300 c enc_step st p). Qed.

(* s.Close() = sas_close, EVERY version.  Version1: flush a non-empty buffer with signBlock(false) (its error is
   returned; panic if bytes remain), then return signBlock(true); Version2: signBlock(true), its error returned,
   panic if bytes remain; any other version panics.  Result, error and receiver state.  No hypothesis. *)
Theorem C05_source_signAttachedStream_Close (c : crypto) (enc_step : gval -> bytes -> gval * gerr) (st : sas_state) :
  let r := run_func2 (ext_stream c enc_step) f_saltpack_signAttachedStream_Close [g_sas st] in
  match sas_close c enc_step st with
  | CloseStuck w => fst r = OStuck w
  | ClosePanic => fst r = OPanic
  | CloseRet e st' => fst r = ORet [g_errv e] /\ lookup "s" (snd r) = Some (g_sas st')
  end.
Proof. exact (go_signAttachedStream_Close c enc_step st). Qed.

(* newSignAttachedStream(version, w, signer) = sas_new: ErrBadVersion unless known_version, ErrInvalidParameter
   for a nil signer, ErrRand when the randomness source cannot give 16 bytes, the encoder's error if writing the
   header packet fails, else the object {version, headerHash = sha512 of the model's header bytes
   (sig_header_bytes with the nonce drawn), encoder after the double-encoded header, secretKey, seqno = 0}.
   The process-wide randomness source is not an argument of the Go constructor: r is the stream it will
   deliver (extern table ext_new ... r).  No hypothesis. *)
Theorem C05_source_newSignAttachedStream (c : crypto) (enc_step : gval -> bytes -> gval * gerr)
        (v : version) (w : gval) (signer : option bytes) (r : rng) :
  fst (run_func2 (ext_new c enc_step r) f_saltpack_newSignAttachedStream [g_version v; w; g_signer signer])
  = sas_new c enc_step v w signer r.
Proof. exact (go_newSignAttachedStream c enc_step v w signer r). Qed.

(* NOT EXPRESSIBLE: checkSignBlockRead starts by binding a function literal (`die := func() {..}`), which the
   translator renders as unsupported: the evaluator is stuck on that first statement for ALL five arguments.
   Hypothesis: the argument list has the function's five entries. *)
Theorem C05_source_checkSignBlockRead_not_expressible (args : list gval) :
  List.length args = 5%nat ->
  fst (run_func2 ext_ver f_saltpack_checkSignBlockRead args) = OStuck "assign".
Proof. exact (go_checkSignBlockRead_not_expressible args). Qed.

(* what can be said instead: the statements AFTER the literal (csbr_tail = the tail of the translated body), run in
   the environment of the five parameters with `die` a call that does not return, fall through exactly when
   read_ok holds (the reading signBlock's extern checkSignBlockRead has), reach die() (CStuck "extern") on the four
   conditions of the source, and panic on an unknown version.  No hypothesis. *)
Theorem C05_source_checkSignBlockRead_tail (v : version) (final : bool) (bs cl bl : Z) :
  exec2 ext_ver 299 (csbr_env v final bs cl bl) csbr_tail
  = if read_ok v final bs cl bl then CNorm (csbr_env v final bs cl bl)
    else if ((bs <? cl)%Z || ((cl <? bs)%Z && (0 <? bl)%Z) || version_eqb v v1 || version_eqb v v2)%bool
         then CStuck "extern"
         else CPanic.
Proof. exact (go_checkSignBlockRead_tail v final bs cl bl). Qed.

Print Assumptions C05_source_makeSignatureBlock.
Print Assumptions C05_source_computeSig.
Print Assumptions C05_source_signBlock.
Print Assumptions C05_source_signAttachedStream_Write.
Print Assumptions C05_source_signAttachedStream_Write_300.
Print Assumptions C05_source_signAttachedStream_Close.
Print Assumptions C05_source_newSignAttachedStream.
Print Assumptions C05_source_checkSignBlockRead_not_expressible.
Print Assumptions C05_source_checkSignBlockRead_tail.
Print Assumptions C05_armored_form_agrees.
Print Assumptions C05_roundtrip.
Print Assumptions C05_unknown_signer.
Print Assumptions C05_forms_agree.

(* Non-vacuity: [crypto_ok] is satisfiable (toy instance), and on it a two-write
   message round-trips, evaluated by the kernel. *)
From SP Require Import ToyCrypto ToyCryptoProofs.
Example C05_crypto_ok_satisfiable : crypto_ok toy_crypto.
Proof. exact toy_crypto_ok. Qed.
Example C05_ex_roundtrip :
  let sk := repeat x07 64 in
  match sign_attached_stream toy_crypto v2 sk [[x68; x65]; [x6c; x6c; x6f]] (repeat x01 16) with
  | Ok (out, _) => verify_all toy_crypto AnyKnownMajor [ed_pub toy_crypto sk] out
  | Err e => Err e
  end = Ok (ed_pub toy_crypto (repeat x07 64), [x68; x65; x6c; x6c; x6f]).
Proof. vm_compute. reflexivity. Qed.
