(* C05 — Attached signatures round trip to the exact message and signer.
   Only property theorems, each closed by `exact` of a lemma from proofs/. *)
From Coq Require Import List NArith ZArith.
From Coq.Strings Require Import Byte.
From SP Require Import Bytes Params Msgpack Crypto Errors Packets Chunker Rand Sign Verify SignProofs.
From SP Require Import BaseX Encodings Armor ArmorProofs ArmoredForms.
From SP Require Import GoLang GoLang2 GoAst GoAstProofs GoAstProofs4c GoAstSign GoAstProofs6a.
From Coq Require String.
Import String.StringSyntax.
Import ListNotations.

Section C05.
Variable c : crypto.
Hypothesis Hc : crypto_ok c.        (* functional correctness of SHA-512 / Ed25519 (trusted base) *)

(* Every message (any length, any split into Write calls), version 1 or 2, any
   signing key, any randomness stream of at least 16 bytes: the emitted bytes
   verify — streaming and all-at-once, under the major-version validator or the
   single-version validator — to exactly the message and the signer's public key. *)
Theorem C05_roundtrip (v : version) (sk : bytes) (pieces : list bytes) (r : rng)
        (kr : sigring) (vd : validator) :
  v = v1 \/ v = v2 -> (16 <= length r)%nat -> In (ed_pub c sk) kr -> good_validator vd v ->
  exists out chunks,
    sign_attached_stream c v sk pieces r = Ok (out, skipn 16 r) /\
    verify_stream c vd kr out = Ok (ed_pub c sk, mkOut chunks EOF) /\
    concat chunks = concat pieces /\
    verify_all c vd kr out = Ok (ed_pub c sk, concat pieces).
Proof. exact (sign_verify_roundtrip c Hc v sk pieces r kr vd). Qed.

(* A keyring that does not know the signer gets the no-sender-key error and no bytes. *)
Theorem C05_unknown_signer (v : version) (sk : bytes) (pieces : list bytes) (r r' : rng)
        (kr : sigring) (vd : validator) (out : bytes) :
  v = v1 \/ v = v2 -> good_validator vd v ->
  sign_attached_stream c v sk pieces r = Ok (out, r') -> ~ In (ed_pub c sk) kr ->
  verify_stream c vd kr out = Err ErrNoSenderKey /\ verify_all c vd kr out = Err ErrNoSenderKey.
Proof. exact (verify_unknown_signer c Hc v sk pieces r r' kr vd out). Qed.

(* Streaming and one-shot signers emit the same bytes. *)
Theorem C05_forms_agree (v : version) (sk : bytes) (pieces : list bytes) (r : rng) :
  sign_attached_stream c v sk pieces r = sign_attached c v sk (concat pieces) r.
Proof. exact (sign_stream_oneshot c v sk pieces r). Qed.
End C05.

(* BINARY AND ARMORED FORMS AGREE: the armored all-at-once entry point is the binary one composed
   with dearmoring; on the armored form of ANY binary message (genuine or not) it returns exactly
   what the binary entry point returns on that message, plus the brand. *)
Theorem C05_armored_form_agrees (c : crypto) (vd : validator) (kr : sigring) (wire brand : bytes) :
  brand_ok brand ->
  dearmor62_verify c vd kr (armor62_seal wire mt_attached brand) =
  bind (verify_all c vd kr wire) (fun r => Ok (fst r, snd r, brand)).
Proof. exact (armored_verify_agrees c vd kr wire brand). Qed.

(* ---- source ties: the ATTACHED signing sender (/repo/sign_stream.go), lemmas of proofs/GoAstProofs6a.v ---- *)
(* The terms f_saltpack_makeSignatureBlock, f_saltpack_signAttachedStream_{computeSig,signBlock,Write,Close},
   f_saltpack_newSignAttachedStream and f_saltpack_checkSignBlockRead are generated on every run from the Go
   syntax trees of /repo/sign_stream.go (gen/GoAstSign.v) and run by the evaluator of model/GoLang2.v.
   The *signAttachedStream object is [g_sas st], st : sas_state = (version, headerHash, encoder, secretKey,
   unread bytes of s.buffer, seqno).  `encoder.Encode(x)` is interpreted by an ARBITRARY function
   enc_step : encoder object -> packet bytes -> encoder object' * error, so the theorems hold for every writer,
   failing or not.  A Go error value is [g_errv e], e : gerr = None (nil) or Some (name, arguments).  The signing
   key object is the model's secret key; Sign is ed_sign.  A callee that PANICS has no value: the evaluator
   reports OStuck "extern" / OStuck "call", which the specification functions sas_block, sas_write, sas_close,
   sas_new (defined in GoAstProofs6a.v: the model's pieces of model/Sign.v and Chunker.v in the order the code
   runs them) carry explicitly as BStuck / WStuck / CloseStuck. *)

(* makeSignatureBlock(version, sig, chunk, isFinal): for every version, signature, chunk and flag it returns the
   V1 block object for Version1(), the V2 block object for Version2(), and panics otherwise (mk_sig_block).
   No hypothesis. *)
Theorem C05_source_makeSignatureBlock (v : version) (sig chunk : bytes) (final : bool) :
  fst (run_func2 ext_ver f_saltpack_makeSignatureBlock [g_version v; VBytes sig; VBytes chunk; VBool final])
  = match mk_sig_block v (VBytes sig) (VBytes chunk) final with Some b => ORet [b] | None => OPanic end.
Proof. exact (go_makeSignatureBlock v sig chunk final). Qed.

(* s.computeSig(chunk, seqno, isFinal) returns (ed_sign secretKey (attached_sig_input version headerHash chunk
   seqno isFinal), nil); for a version with no signature input (attachedSignatureInput panics) the evaluator
   reports OStuck "call".  No hypothesis: every crypto record, receiver state, chunk, sequence number, flag. *)
Theorem C05_source_computeSig (c : crypto) (st : sas_state) (chunk : bytes) (seqno : N) (final : bool) :
  fst (run_func2 (ext_sig c) f_saltpack_signAttachedStream_computeSig
                 [g_sas st; VBytes chunk; VInt (Z.of_N seqno); VBool final])
  = match attached_sig_input c (sas_v st) (sas_hh st) chunk seqno final with
    | Some inp => ORet [VBytes (ed_sign c (sas_sk st) inp); VNil]
    | None => OStuck "call"
    end.
Proof. exact (go_computeSig c st chunk seqno final). Qed.

(* s.signBlock(isFinal) = sas_block: takes up to 1 MiB off the buffer, asserts (checkSignBlockRead /
   assertEncodedChunkState: BStuck where they panic), signs, hands the packet mp_encode (mv_sig_block version
   sig chunk final) to the encoder; returns the encoder's error (seqno unchanged) or nil (seqno+1 mod 2^64); the
   receiver `s` holds the new buffer, encoder and seqno.  Hypothesis: sas_seq st < 2^64 (s.seqno is a uint64). *)
Theorem C05_source_signBlock (c : crypto) (enc_step : gval -> bytes -> gval * gerr) (st : sas_state) (final : bool) :
  (sas_seq st < two64)%N ->
  let r := run_func2 (ext_block c enc_step) f_saltpack_signAttachedStream_signBlock [g_sas st; VBool final] in
  match sas_block c enc_step st final with
  | BStuck w => fst r = OStuck w
  | BRet e st' => fst r = ORet [g_errv e] /\ lookup "s" (snd r) = Some (g_sas st')
  end.
Proof. exact (go_signBlock c enc_step st final). Qed.

(* s.Write(p) = sas_write F: p is appended to the buffer, then while more than 1 MiB is buffered signBlock(false)
   runs (with the meaning C05_source_signBlock proves); returns (len p, nil), or (0, err) at the first block whose
   signBlock fails; the receiver state as left.  Hypothesis: 5 <= F, where F is the number of turns the EVALUATOR
   gives a loop (run_func2_at (F+3)); sas_write F says WStuck "loop fuel" when F or more blocks would have to be
   flushed — a bound on the evaluator, not on the Go code. *)
Theorem C05_source_signAttachedStream_Write (c : crypto) (enc_step : gval -> bytes -> gval * gerr)
        (F : nat) (st : sas_state) (p : bytes) :
  (5 <= F)%nat ->
  let r := run_func2_at (S (S (S F))) (ext_stream c enc_step) f_saltpack_signAttachedStream_Write [g_sas st; VBytes p] in
  match sas_write c enc_step F st p with
  | WStuck w => fst r = OStuck w
  | WRet n e st' => fst r = ORet [VInt n; g_errv e] /\ lookup "s" (snd r) = Some (g_sas st')
  end.
Proof. exact (go_signAttachedStream_Write c enc_step F st p). Qed.

(* the same at the fuel of run_func2 (F = 297: up to 296 MiB flushed by one Write).  No hypothesis. *)
Theorem C05_source_signAttachedStream_Write_300 (c : crypto) (enc_step : gval -> bytes -> gval * gerr)
        (st : sas_state) (p : bytes) :
  let r := run_func2 (ext_stream c enc_step) f_saltpack_signAttachedStream_Write [g_sas st; VBytes p] in
  match sas_write c enc_step 297 st p with
  | WStuck w => fst r = OStuck w
  | WRet n e st' => fst r = ORet [VInt n; g_errv e] /\ lookup "s" (snd r) = Some (g_sas st')
  end.
Proof. exact (go_signAttachedStream_Write_300 c enc_step st p). Qed.

(* s.Close() = sas_close, EVERY version.  Version1: flush a non-empty buffer with signBlock(false) (its error is
   returned; panic if bytes remain), then return signBlock(true); Version2: signBlock(true), its error returned,
   panic if bytes remain; any other version panics.  Result, error and receiver state.  No hypothesis. *)
Theorem C05_source_signAttachedStream_Close (c : crypto) (enc_step : gval -> bytes -> gval * gerr) (st : sas_state) :
  let r := run_func2 (ext_stream c enc_step) f_saltpack_signAttachedStream_Close [g_sas st] in
  match sas_close c enc_step st with
  | CloseStuck w => fst r = OStuck w
  | ClosePanic => fst r = OPanic
  | CloseRet e st' => fst r = ORet [g_errv e] /\ lookup "s" (snd r) = Some (g_sas st')
  end.
Proof. exact (go_signAttachedStream_Close c enc_step st). Qed.

(* newSignAttachedStream(version, w, signer) = sas_new: ErrBadVersion unless known_version, ErrInvalidParameter
   for a nil signer, ErrRand when the randomness source cannot give 16 bytes, the encoder's error if writing the
   header packet fails, else the object {version, headerHash = sha512 of the model's header bytes
   (sig_header_bytes with the nonce drawn), encoder after the double-encoded header, secretKey, seqno = 0}.
   The process-wide randomness source is not an argument of the Go constructor: r is the stream it will
   deliver (extern table ext_new ... r).  No hypothesis. *)
Theorem C05_source_newSignAttachedStream (c : crypto) (enc_step : gval -> bytes -> gval * gerr)
        (v : version) (w : gval) (signer : option bytes) (r : rng) :
  fst (run_func2 (ext_new c enc_step r) f_saltpack_newSignAttachedStream [g_version v; w; g_signer signer])
  = sas_new c enc_step v w signer r.
Proof. exact (go_newSignAttachedStream c enc_step v w signer r). Qed.

(* NOT EXPRESSIBLE: checkSignBlockRead starts by binding a function literal (`die := func() {..}`), which the
   translator renders as unsupported: the evaluator is stuck on that first statement for ALL five arguments.
   Hypothesis: the argument list has the function's five entries. *)
Theorem C05_source_checkSignBlockRead_not_expressible (args : list gval) :
  List.length args = 5%nat ->
  fst (run_func2 ext_ver f_saltpack_checkSignBlockRead args) = OStuck "assign".
Proof. exact (go_checkSignBlockRead_not_expressible args). Qed.

(* what can be said instead: the statements AFTER the literal (csbr_tail = the tail of the translated body), run in
   the environment of the five parameters with `die` a call that does not return, fall through exactly when
   read_ok holds (the reading signBlock's extern checkSignBlockRead has), reach die() (CStuck "extern") on the four
   conditions of the source, and panic on an unknown version.  No hypothesis. *)
Theorem C05_source_checkSignBlockRead_tail (v : version) (final : bool) (bs cl bl : Z) :
  exec2 ext_ver 299 (csbr_env v final bs cl bl) csbr_tail
  = if read_ok v final bs cl bl then CNorm (csbr_env v final bs cl bl)
    else if ((bs <? cl)%Z || ((cl <? bs)%Z && (0 <? bl)%Z) || version_eqb v v1 || version_eqb v v2)%bool
         then CStuck "extern"
         else CPanic.
Proof. exact (go_checkSignBlockRead_tail v final bs cl bl). Qed.

Print Assumptions C05_source_makeSignatureBlock.
Print Assumptions C05_source_computeSig.
Print Assumptions C05_source_signBlock.
Print Assumptions C05_source_signAttachedStream_Write.
Print Assumptions C05_source_signAttachedStream_Write_300.
Print Assumptions C05_source_signAttachedStream_Close.
Print Assumptions C05_source_newSignAttachedStream.
Print Assumptions C05_source_checkSignBlockRead_not_expressible.
Print Assumptions C05_source_checkSignBlockRead_tail.
Print Assumptions C05_armored_form_agrees.
Print Assumptions C05_roundtrip.
Print Assumptions C05_unknown_signer.
Print Assumptions C05_forms_agree.

(* Non-vacuity: [crypto_ok] is satisfiable (toy instance), and on it a two-write
   message round-trips, evaluated by the kernel. *)
From SP Require Import ToyCrypto ToyCryptoProofs.
Example C05_crypto_ok_satisfiable : crypto_ok toy_crypto.
Proof. exact toy_crypto_ok. Qed.
Example C05_ex_roundtrip :
  let sk := repeat x07 64 in
  match sign_attached_stream toy_crypto v2 sk [[x68; x65]; [x6c; x6c; x6f]] (repeat x01 16) with
  | Ok (out, _) => verify_all toy_crypto AnyKnownMajor [ed_pub toy_crypto sk] out
  | Err e => Err e
  end = Ok (ed_pub toy_crypto (repeat x07 64), [x68; x65; x6c; x6c; x6f]).
Proof. vm_compute. reflexivity. Qed.

From SP Require Import GoLang GoLang2 GoAst GoAstRecv GoAstSign GoAstOpen.
From SP Require GoAstProofs4b GoAstProofs6a GoAstProofs7c GoEndToEndSign.
From Coq Require String.
Import String.StringSyntax.
(* =========================================== PART A: props/C05.v ======================================= *)
(* ---- END TO END at the level of the translated Go code: attached signatures (lemmas of proofs/GoEndToEndSign.v) ----
   The sender is run AS GO CODE: go_sign_session c F v sk pieces r (GoEndToEndSign.v) runs, with the evaluator of
   model/GoLang2.v, the translated newSignAttachedStream on the empty in-memory writer (mem_enc; r = what the
   process-wide randomness source delivers), then the translated signAttachedStream.Write once per piece (each must
   return (len p, nil); the next receiver is what the evaluator left in "s"; fuel F+3, F = 297 is run_func2), then the
   translated Close (must return nil), and returns the bytes the writer then holds.  The receiver is the translated
   Verify / NewVerifyStream / verifyStream.getNextChunk under the extern tables of GoAstProofs7c.v / 4b.v.
   Hypotheses: crypto_ok c; 5 <= F (evaluator fuel of Write); v is Version1 or Version2; the randomness source delivers
   16 bytes; the keyring holds the signer's public key; the validator is CheckKnownMajorVersion or
   SingleVersionValidator(v); every piece is shorter than (F-1) MiB (one Write flushes fewer than F blocks: a bound
   on the evaluator's loop, 296 MiB at F = 297; number of pieces and total length unbounded); the message is shorter
   than 2^64 bytes (the uint64 packet counter).  No "the evaluator is not stuck" hypothesis: the outcome VALUE of the
   receiver is derived. *)
Section C05_source_end_to_end.
Import GoAstProofs4b GoAstProofs7c GoAstProofs6a GoEndToEndSign.
Local Open Scope string_scope.

(* Verify(out) returns exactly (signer's key, the plaintext, nil) on the bytes the Go sender session leaves in the
   writer, for every split of the plaintext into Write calls. *)
Theorem C05_source_end_to_end_Verify (c : crypto) (Hc : crypto_ok c) (F : nat) (v : version) (sk : bytes)
        (pieces : list bytes) (r : rng) (kr : sigring) (vd : validator) (VV KR : gval) :
  (5 <= F)%nat -> v = v1 \/ v = v2 -> (16 <= List.length r)%nat -> In (ed_pub c sk) kr -> good_validator vd v ->
  Forall (fun p : bytes => (len p + 1048576 < N.of_nat F * 1048576)%N) pieces ->
  (len (List.concat pieces) < GoAstProofs6a.two64)%N ->
  exists out,
    go_sign_session c F v sk pieces r = Some out /\
    fst (run_func2 (ext_verify c vd kr) f_saltpack_Verify [VV; VBytes out; KR])
    = ORet [g_spk (ed_pub c sk); VBytes (List.concat pieces); VNil].
Proof. exact (go_sign_Verify_end_to_end c Hc F v sk pieces r kr vd VV KR). Qed.

(* the same, the hypotheses on version and randomness replaced by "the model's sender returns Ok (out, r')": the Go
   session's bytes are that out, and Verify accepts them. *)
Theorem C05_source_end_to_end_Verify_model (c : crypto) (Hc : crypto_ok c) (F : nat) (v : version) (sk : bytes)
        (pieces : list bytes) (r r' : rng) (out : bytes) (kr : sigring) (vd : validator) (VV KR : gval) :
  (5 <= F)%nat -> sign_attached_stream c v sk pieces r = Ok (out, r') ->
  In (ed_pub c sk) kr -> good_validator vd v ->
  Forall (fun p : bytes => (len p + 1048576 < N.of_nat F * 1048576)%N) pieces ->
  (len (List.concat pieces) < GoAstProofs6a.two64)%N ->
  go_sign_session c F v sk pieces r = Some out /\
  fst (run_func2 (ext_verify c vd kr) f_saltpack_Verify [VV; VBytes out; KR])
  = ORet [g_spk (ed_pub c sk); VBytes (List.concat pieces); VNil].
Proof. exact (go_sign_Verify_end_to_end_model c Hc F v sk pieces r r' out kr vd VV KR). Qed.

(* the sender session alone: whenever the model's sender succeeds, the Go session leaves exactly its bytes in the
   writer.  No crypto hypothesis.  The packet-count bound in the model's terms (packets_bound derives it from
   len (concat pieces) < 2^64). *)
Theorem C05_source_end_to_end_sender (c : crypto) (F : nat) (v : version) (sk : bytes) (pieces : list bytes)
        (r r' : rng) (outb : bytes) :
  (5 <= F)%nat ->
  sign_attached_stream c v sk pieces r = Ok (outb, r') ->
  Forall (fun p : bytes => (List.length p + blk < F * blk)%nat) pieces ->
  (N.of_nat (List.length (cw_session v sig_block_size [] pieces)) + 2 < GoAstProofs6a.two64)%N ->
  go_sign_session c F v sk pieces r = Some outb.
Proof. exact (go_sign_session_model c F v sk pieces r r' outb). Qed.

(* NewVerifyStream on any error-free reader over those bytes returns the signer's key and the chunk reader over the
   verifyStream object holding the state (h, hh, rest) of the model's header stage, from which the model's loop
   releases the plaintext and ends with io.EOF. *)
Theorem C05_source_end_to_end_NewVerifyStream (c : crypto) (Hc : crypto_ok c) (F : nat) (v : version) (sk : bytes)
        (pieces : list bytes) (r : rng) (kr : sigring) (vd : validator) (VV KR : gval) :
  (5 <= F)%nat -> v = v1 \/ v = v2 -> (16 <= List.length r)%nat -> In (ed_pub c sk) kr -> good_validator vd v ->
  Forall (fun p : bytes => (len p + 1048576 < N.of_nat F * 1048576)%N) pieces ->
  (len (List.concat pieces) < GoAstProofs6a.two64)%N ->
  exists out h hh rest chunks,
    go_sign_session c F v sk pieces r = Some out /\
    (forall rd, rdr_bytes rd = Some out ->
       fst (run_func2 (ext_NVS c vd kr) f_saltpack_NewVerifyStream [VV; rd; KR])
       = ORet [g_spk (ed_pub c sk); g_cr_new (g_vs_key h hh (ed_pub c sk) (g_mps_raw rest 1)); VNil]) /\
    verify_read_header c vd mt_attached out = Ok (h, hh, rest) /\
    verify_loop c (S (List.length rest)) (h_version h) (ed_pub c sk) hh 0 rest [] = mkOut chunks EOF /\
    List.concat chunks = List.concat pieces.
Proof. exact (go_sign_NewVerifyStream_end_to_end c Hc F v sk pieces r kr vd VV KR). Qed.

(* the streaming receiver as Go code: the "chunker" of the reader NewVerifyStream returns (recoded into the encoding
   of GoAstProofs4b.v: vs_recode), drained by the translated verifyStream.getNextChunk until it reports an error
   (go_vs_drain, at most k calls), yields chunks with concat chunks = plaintext, then io.EOF; and key, chunks and
   io.EOF are exactly what the extern "NewVerifyStream" of ext_verify (the table Verify runs under) returns. *)
Theorem C05_source_end_to_end_stream (c : crypto) (Hc : crypto_ok c) (F : nat) (v : version) (sk : bytes)
        (pieces : list bytes) (r : rng) (kr : sigring) (vd : validator) (VV KR : gval) :
  (5 <= F)%nat -> v = v1 \/ v = v2 -> (16 <= List.length r)%nat -> In (ed_pub c sk) kr -> good_validator vd v ->
  Forall (fun p : bytes => (len p + 1048576 < N.of_nat F * 1048576)%N) pieces ->
  (len (List.concat pieces) < GoAstProofs6a.two64)%N ->
  exists out rdobj vsobj vsobj' k chunks,
    go_sign_session c F v sk pieces r = Some out /\
    (forall rd, rdr_bytes rd = Some out ->
       fst (run_func2 (ext_NVS c vd kr) f_saltpack_NewVerifyStream [VV; rd; KR]) = ORet [g_spk (ed_pub c sk); rdobj; VNil]) /\
    go_field "chunker" rdobj = Some vsobj /\ vs_recode vsobj = Some vsobj' /\
    go_vs_drain c k vsobj' [] = Some (chunks, VErr "io.EOF" []) /\
    List.concat chunks = List.concat pieces /\
    (forall rd, rdr_bytes rd = Some out ->
       ext_verify c vd kr "NewVerifyStream" [VV; rd; KR] = Some [g_spk (ed_pub c sk); g_stream (mkOut chunks EOF); VNil]).
Proof. exact (go_sign_stream_end_to_end c Hc F v sk pieces r kr vd VV KR). Qed.

(* the model's verify_loop, whenever it ends with an error Go has a value for, IS the iterated translated
   getNextChunk (any input, genuine or not).  Hypotheses: major version 1 or 2; n + fuel <= 2^64. *)
Theorem C05_source_end_to_end_drain_loop (c : crypto) (h : header) (pk hh : bytes) :
  (vmaj (h_version h) = 1 \/ vmaj (h_version h) = 2)%Z ->
  forall (fuel : nat) (n : N) (input : bytes) (acc cs : list bytes) (e : err) (ev : gval),
  (n + N.of_nat fuel <= GoAstProofs6a.two64)%N ->
  verify_loop c fuel (h_version h) pk hh n input acc = mkOut cs e -> GoAstProofs4b.g_err e = Some ev ->
  go_vs_drain c fuel (g_vs h pk hh (g_mps input n)) acc = Some (cs, ev).
Proof. exact (go_vs_drain_loop c h pk hh). Qed.

(* a keyring that does not hold the signer's key: (nil, nil, ErrNoSenderKey). *)
Theorem C05_source_end_to_end_unknown_signer (c : crypto) (Hc : crypto_ok c) (F : nat) (v : version) (sk : bytes)
        (pieces : list bytes) (r : rng) (kr : sigring) (vd : validator) (VV KR : gval) :
  (5 <= F)%nat -> v = v1 \/ v = v2 -> (16 <= List.length r)%nat -> ~ In (ed_pub c sk) kr -> good_validator vd v ->
  Forall (fun p : bytes => (len p + 1048576 < N.of_nat F * 1048576)%N) pieces ->
  (len (List.concat pieces) < GoAstProofs6a.two64)%N ->
  exists out,
    go_sign_session c F v sk pieces r = Some out /\
    fst (run_func2 (ext_verify c vd kr) f_saltpack_Verify [VV; VBytes out; KR])
    = ORet [VNil; VNil; VErr "ErrNoSenderKey" []].
Proof. exact (go_sign_Verify_unknown_signer c Hc F v sk pieces r kr vd VV KR). Qed.

(* the mode gate: the attached signer's bytes are refused by both detached entry points (any keyring, any message). *)
Theorem C05_source_end_to_end_refused_by_VerifyDetached (c : crypto) (Hc : crypto_ok c) (F : nat) (v : version)
        (sk : bytes) (pieces : list bytes) (r : rng) (kr : sigring) (vd : validator) (VV KR : gval) (msg : bytes) :
  (5 <= F)%nat -> v = v1 \/ v = v2 -> (16 <= List.length r)%nat -> good_validator vd v ->
  Forall (fun p : bytes => (len p + 1048576 < N.of_nat F * 1048576)%N) pieces ->
  (len (List.concat pieces) < GoAstProofs6a.two64)%N ->
  exists out,
    go_sign_session c F v sk pieces r = Some out /\
    fst (run_func2 (ext_vdet2 c vd kr) f_saltpack_VerifyDetached [VV; VBytes msg; VBytes out; KR])
    = ORet [VNil; VErr "ErrWrongMessageType" []] /\
    fst (run_func2 (ext_vdet c vd kr) f_saltpack_VerifyDetachedReader [VV; g_rdr msg None; VBytes out; KR])
    = ORet [VNil; VErr "ErrWrongMessageType" []].
Proof. exact (go_sign_refused_by_VerifyDetached c Hc F v sk pieces r kr vd VV KR msg). Qed.
End C05_source_end_to_end.

Print Assumptions C05_source_end_to_end_Verify.
Print Assumptions C05_source_end_to_end_Verify_model.
Print Assumptions C05_source_end_to_end_sender.
Print Assumptions C05_source_end_to_end_NewVerifyStream.
Print Assumptions C05_source_end_to_end_stream.
Print Assumptions C05_source_end_to_end_drain_loop.
Print Assumptions C05_source_end_to_end_unknown_signer.
Print Assumptions C05_source_end_to_end_refused_by_VerifyDetached.

(* non-vacuity: sender and receiver terms evaluated by the kernel on the toy primitives (two Writes, "he" + "llo") *)
Example C05_ex_source_end_to_end :
  let c := ToyCrypto.toy_crypto in
  let sk := repeat x07 64 in
  match GoEndToEndSign.go_sign_session c 297 v2 sk [[x68; x65]; [x6c; x6c; x6f]] (repeat x01 16) with
  | Some out => fst (run_func2 (GoAstProofs7c.ext_verify c AnyKnownMajor [ed_pub c sk]) f_saltpack_Verify [VNil; VBytes out; VNil])
  | None => OStuck "sender"
  end = ORet [GoAstProofs7c.g_spk (ed_pub ToyCrypto.toy_crypto (repeat x07 64)); VBytes [x68; x65; x6c; x6c; x6f]; VNil].
Proof. vm_compute. reflexivity. Qed.

(* =========================================== PART C05: props/C05.v ======================================= *)
From SP Require GoAstEntry GoAstProofs5a GoAstProofs5c GoAstProofs6a GoAstProofs6b GoEndToEndEnc GoEndToEndSign GoAstProofs8a.
(* ---- source ties: NewSignStream, signToStream, Sign (/repo/sign.go), lemmas of proofs/GoAstProofs8a.v ----
   NewSignStream = sas_new of GoAstProofs6a.v (the translated newSignAttachedStream: compose_newSignAttachedStream).
   signToStream for an ARBITRARY streamer: its body is NOT EXPRESSIBLE beyond the control flow (it returns &buf, a stale
   copy in the evaluator; head of GoAstProofs8a.v).  Sign for every meaning of signToStream, and with the specification
   session sign_att_spec (constructor; Write; Close over the in-memory writer), which returns the model's sign_attached. *)
Section C05_source_entry.
Import GoAstEntry GoAstProofs8a.
Local Open Scope string_scope.

Theorem C05_source_go_NewSignStream :
  forall (c : crypto) (enc_step : gval -> bytes -> gval * A.gerr) (r : rng) (v : version) 
    (w : gval) (signer : option bytes),
  fst (run_func2 (ext_NSS c enc_step r) f_saltpack_NewSignStream [g_version v; w; A.g_signer signer]) =
  A.sas_new c enc_step v w signer r.
Proof. exact go_NewSignStream. Qed.

Theorem C05_source_go_signToStream_glue :
  forall (NEW : list gval -> option (gval * GoAstProofs5a.gerr * gval))
    (WR : gval -> gval -> option (gval * GoAstProofs5a.gerr * gval))
    (CL : gval -> option (GoAstProofs5a.gerr * gval)) (BY : gval -> option gval) (V P S0 F : gval),
  fst (run_func2 (ext_glue NEW WR CL BY "streamer" 1) f_saltpack_signToStream [V; P; S0; F]) =
  glue_outcome NEW WR CL [V; VNil; S0] P (fun b : gval => ORet [b; VNil]).
Proof. exact go_signToStream_glue. Qed.

Theorem C05_source_go_Sign :
  forall (STS : list gval -> option (gval * GoAstProofs5a.gerr)) (BY : gval -> option gval) (V P S : gval),
  fst (run_func2 (ext_sign STS BY) f_saltpack_Sign [V; P; S]) = sign_wrap STS BY [V; P; S; fn_NewSignStream].
Proof. exact go_Sign. Qed.

Theorem C05_source_go_Sign_spec :
  forall (c : crypto) (r : rng) (v : version) (p : bytes) (signer : option bytes),
  fst
    (run_func2 (ext_sign (STS_spec c r) (fun b : gval => Some b)) f_saltpack_Sign
       [g_version v; VBytes p; A.g_signer signer]) = sign_att_spec c r v p signer.
Proof. exact go_Sign_spec. Qed.

Theorem C05_source_sign_att_spec_model :
  forall (c : crypto) (r : rng) (v : version) (sk p : bytes) (r' : rng) (outb : bytes),
  sign_attached c v sk p r = Ok (outb, r') ->
  (length (cw_session v sig_block_size [] [p]) < 297)%nat ->
  N.of_nat (length (cw_session v sig_block_size [] [p])) + 2 < A.two64 ->
  sign_att_spec c r v p (Some sk) = ORet [VBytes outb; VNil].
Proof. exact sign_att_spec_model. Qed.

Theorem C05_source_sign_spec_model_err :
  forall (c : crypto) (r : rng) (v : version) (p sk : bytes),
  (known_version v = false ->
   sign_att_spec c r v p (Some sk) = ORet [VNil; VErr "ErrBadVersion" [g_version v]] /\
   sign_det_spec c r v p (Some sk) = ORet [VNil; VErr "ErrBadVersion" [g_version v]] /\
   sign_attached c v sk p r = Err ErrBadVersion /\ sign_detached c v sk p r = Err ErrBadVersion) /\
  (known_version v = true ->
   read_full 16 r = None ->
   sign_att_spec c r v p (Some sk) = ORet [VNil; VErr "ErrRand" []] /\
   sign_det_spec c r v p (Some sk) = ORet [VNil; VErr "ErrRand" []] /\
   sign_attached c v sk p r = Err ErrRand /\ sign_detached c v sk p r = Err ErrRand).
Proof. exact sign_spec_model_err. Qed.

Theorem C05_source_compose_newSignAttachedStream :
  forall (c : crypto) (enc_step : gval -> bytes -> gval * A.gerr) (r : rng) (v : version) 
    (w : gval) (signer : option bytes),
  fst (run_func2 (A.ext_new c enc_step r) f_saltpack_newSignAttachedStream [g_version v; w; A.g_signer signer]) =
  match ext_NSS c enc_step r "newSignAttachedStream" [g_version v; w; A.g_signer signer] with
  | Some rs => ORet rs
  | None => OStuck "call"
  end.
Proof. exact compose_newSignAttachedStream. Qed.

Theorem C05_source_go_sign_session_from_NewSignStream :
  forall (c : crypto) (F : nat) (v : version) (sk : bytes) (pieces : list bytes) (r : rng),
  S.go_sign_session c F v sk pieces r =
  match
    fst
      (run_func2 (ext_NSS c A.mem_enc r) f_saltpack_NewSignStream [g_version v; VBytes []; A.g_signer (Some sk)])
  with
  | ORet [obj; VNil] => S.go_sas_finish c F (A.sas_complete obj) pieces
  | ORet [obj] | ORet (obj :: VInt _ :: _) | ORet (obj :: VBool _ :: _) | ORet (obj :: VBytes _ :: _) |
    ORet (obj :: VStruct _ :: _) | ORet (obj :: VList _ :: _) | ORet (obj :: VNil :: _ :: _) |
    ORet (obj :: VErr _ _ :: _) => None
  | _ => None
  end.
Proof. exact go_sign_session_from_NewSignStream. Qed.

End C05_source_entry.

Print Assumptions C05_source_go_NewSignStream.
Print Assumptions C05_source_go_signToStream_glue.
Print Assumptions C05_source_go_Sign.
Print Assumptions C05_source_go_Sign_spec.
Print Assumptions C05_source_sign_att_spec_model.
Print Assumptions C05_source_sign_spec_model_err.
Print Assumptions C05_source_compose_newSignAttachedStream.
Print Assumptions C05_source_go_sign_session_from_NewSignStream.


