(* C05 — Attached signatures round trip to the exact message and signer.
   Only property theorems, each closed by `exact` of a lemma from proofs/. *)
From Coq Require Import List NArith ZArith.
From Coq.Strings Require Import Byte.
From SP Require Import Bytes Params Msgpack Crypto Errors Packets Chunker Rand Sign Verify SignProofs.
From SP Require Import BaseX Encodings Armor ArmorProofs ArmoredForms.
Import ListNotations.

Section C05.
Variable c : crypto.
Hypothesis Hc : crypto_ok c.        (* functional correctness of SHA-512 / Ed25519 (trusted base) *)

(* Every message (any length, any split into Write calls), version 1 or 2, any
   signing key, any randomness stream of at least 16 bytes: the emitted bytes
   verify — streaming and all-at-once, under the major-version validator or the
   single-version validator — to exactly the message and the signer's public key. *)
Theorem C05_roundtrip (v : version) (sk : bytes) (pieces : list bytes) (r : rng)
        (kr : sigring) (vd : validator) :
  v = v1 \/ v = v2 -> (16 <= length r)%nat -> In (ed_pub c sk) kr -> good_validator vd v ->
  exists out chunks,
    sign_attached_stream c v sk pieces r = Ok (out, skipn 16 r) /\
    verify_stream c vd kr out = Ok (ed_pub c sk, mkOut chunks EOF) /\
    concat chunks = concat pieces /\
    verify_all c vd kr out = Ok (ed_pub c sk, concat pieces).
Proof. exact (sign_verify_roundtrip c Hc v sk pieces r kr vd). Qed.

(* A keyring that does not know the signer gets the no-sender-key error and no bytes. *)
Theorem C05_unknown_signer (v : version) (sk : bytes) (pieces : list bytes) (r r' : rng)
        (kr : sigring) (vd : validator) (out : bytes) :
  v = v1 \/ v = v2 -> good_validator vd v ->
  sign_attached_stream c v sk pieces r = Ok (out, r') -> ~ In (ed_pub c sk) kr ->
  verify_stream c vd kr out = Err ErrNoSenderKey /\ verify_all c vd kr out = Err ErrNoSenderKey.
Proof. exact (verify_unknown_signer c Hc v sk pieces r r' kr vd out). Qed.

(* Streaming and one-shot signers emit the same bytes. *)
Theorem C05_forms_agree (v : version) (sk : bytes) (pieces : list bytes) (r : rng) :
  sign_attached_stream c v sk pieces r = sign_attached c v sk (concat pieces) r.
Proof. exact (sign_stream_oneshot c v sk pieces r). Qed.
End C05.

(* BINARY AND ARMORED FORMS AGREE: the armored all-at-once entry point is the binary one composed
   with dearmoring; on the armored form of ANY binary message (genuine or not) it returns exactly
   what the binary entry point returns on that message, plus the brand. *)
Theorem C05_armored_form_agrees (c : crypto) (vd : validator) (kr : sigring) (wire brand : bytes) :
  brand_ok brand ->
  dearmor62_verify c vd kr (armor62_seal wire mt_attached brand) =
  bind (verify_all c vd kr wire) (fun r => Ok (fst r, snd r, brand)).
Proof. exact (armored_verify_agrees c vd kr wire brand). Qed.

Print Assumptions C05_armored_form_agrees.
Print Assumptions C05_roundtrip.
Print Assumptions C05_unknown_signer.
Print Assumptions C05_forms_agree.

(* Non-vacuity: [crypto_ok] is satisfiable (toy instance), and on it a two-write
   message round-trips, evaluated by the kernel. *)
From SP Require Import ToyCrypto ToyCryptoProofs.
Example C05_crypto_ok_satisfiable : crypto_ok toy_crypto.
Proof. exact toy_crypto_ok. Qed.
Example C05_ex_roundtrip :
  let sk := repeat x07 64 in
  match sign_attached_stream toy_crypto v2 sk [[x68; x65]; [x6c; x6c; x6f]] (repeat x01 16) with
  | Ok (out, _) => verify_all toy_crypto AnyKnownMajor [ed_pub toy_crypto sk] out
  | Err e => Err e
  end = Ok (ed_pub toy_crypto (repeat x07 64), [x68; x65; x6c; x6c; x6f]).
Proof. vm_compute. reflexivity. Qed.
