(* C04 — Signcryption: released plaintext was signed by the named sender, in order.
   Reduction-style, for EVERY input and EVERY instance of the primitives (only the
   64-byte length of SHA-512 outputs is assumed; nothing about secretbox, so other
   recipients who know the payload key are covered): what the opener releases
   under a named signer is a prefix of one plaintext that signer signcrypted in a
   single message with exactly the header presented (hence the same recipient
   entries, one of which the opener's key opened); clean end only after all of
   it — or the input itself carries, inside an examined packet, a signature that
   verifies on a string the signer never signed, or a SHA-512 collision.
   LOCATED BREAKS: every witness of the break disjunct lies in a finite list computed by a
   fixed function from (the primitives, this input and the receiver's keys) or from (the
   primitives, the honest history): a forged tag/signature is one of the pairs the receiver
   actually checked on this input; a SHA-512 collision is between one string the receiver
   hashed while processing this input and one string the honest party hashed while producing
   its history.  (An unrestricted "exists x <> y with equal hashes" is true of real SHA-512 by
   pigeonhole and would make the disjunction empty of content.) *)
From Coq Require Import List NArith ZArith.
From Coq.Strings Require Import Byte.
From SP Require Import Bytes Params Msgpack Crypto Errors Packets Chunker Rand Verify Encrypt Decrypt Signcrypt
     SignAuthProofs ScAuthProofs ScAuthLocated.
From SP Require Import Nonce Packets Signcrypt GoLang GoLang2 GoAst GoAstProofs GoAstProofs2 GoAstProofs3 GoAstProofs4b.
From SP Require Import GoAstRecv.
From Coq Require String.
Import String.StringSyntax.
Import ListNotations.
Open Scope N_scope.

Section C04.
Variable c : crypto.
Hypothesis Hsha : forall x, length (sha512 c x) = 64%nat.

Theorem C04_authentic (kr : keyring) (signers : sigring) (rv : resolver) (input : bytes)
        (pk : bytes) (out : stream_out) (M : list sc_msg) (others : list sign_event) :
  Forall sm_ok M -> sm_headers_distinct M -> Forall other_ok others ->
  N.of_nat (length input) < 18446744073709551616 ->
  signcrypt_open_stream c kr signers rv input = Ok (Some pk, out) ->
  (so_chunks out = [] /\ so_end out <> EOF) \/
  (exists m hb rest,
      In m M /\ read_header_bytes input = Ok (hb, rest) /\ hb = sm_header m /\
      list_prefix (so_chunks out) (map fst (sm_packets m)) /\
      (so_end out = EOF -> so_chunks out = map fst (sm_packets m)))
  \/ ScBreakL c kr signers rv pk M others input.
Proof. exact (signcrypt_authentic_located c Hsha kr signers rv input pk out M others). Qed.

Theorem C04_all_at_once (kr : keyring) (signers : sigring) (rv : resolver) (input : bytes)
        (pk pt : bytes) (M : list sc_msg) (others : list sign_event) :
  Forall sm_ok M -> sm_headers_distinct M -> Forall other_ok others ->
  N.of_nat (length input) < 18446744073709551616 ->
  signcrypt_open_all c kr signers rv input = Ok (Some pk, pt) ->
  (exists m, In m M /\ pt = concat (map fst (sm_packets m)))
  \/ ScBreakL c kr signers rv pk M others input.
Proof. exact (signcrypt_authentic_all_located c Hsha kr signers rv input pk pt M others). Qed.
End C04.

(* SOURCE TIE: the terms f_saltpack_* are generated on every run from the Go syntax trees of
   /repo (harness/cmd/gen/goast.go); under the Go semantics of model/GoLang.v, with the standard
   library / NaCl primitives interpreted by ext_prims over the crypto record and calls to other
   saltpack functions interpreted by the model (each of those has its own such theorem), they
   compute exactly what the model says, for ALL arguments and EVERY instance of the primitives. *)
Theorem C04_source_signcrypt_processBlock (c : crypto) (pkey hh : bytes) (signer : option bytes) (n : N) (ct : bytes) (final : bool) :
  (n < 18446744073709551615)%N \/ (n = 18446744073709551615)%N ->
  g_block_result (run_func (ext_model c) f_saltpack_signcryptOpenStream_processBlock
                   [g_sc_state pkey hh signer; VBytes ct; VBool final; VInt (Z.of_N n + 1)])
  = sc_block_step c pkey hh signer n ct final.
Proof. exact (go_signcrypt_processBlock c pkey hh signer n ct final). Qed.

Theorem C04_source_computeSigncryptionSignatureInput (c : crypto) (hh nonce chunk : bytes) (final : bool) :
  run_func (ext_prims c) f_saltpack_computeSigncryptionSignatureInput [VBytes hh; VBytes nonce; VBool final; VBytes chunk]
  = ORet [VBytes (signcrypt_sig_input c hh nonce final chunk)].
Proof. exact (go_computeSigncryptionSignatureInput c hh nonce chunk final). Qed.

Theorem C04_source_nonceForChunkSigncryption (c : crypto) (hh : bytes) (final : bool) (i : N) :
  (16 <= List.length hh)%nat -> (i < 18446744073709551616)%N ->
  run_func (ext_prims c) f_saltpack_nonceForChunkSigncryption [VBytes hh; VBool final; VInt (Z.of_N i)]
  = ORet [VBytes (nonce_chunk_signcryption hh final i)].
Proof. exact (go_nonceForChunkSigncryption c hh final i). Qed.

(* SOURCE TIE (per-packet glue): the translated signcryptOpenStream.getNextChunk of /repo, run on a receiver object
   holding the unconsumed input BYTES and Go's packet counter, returns exactly what one step of the model's
   receive loop says and leaves the stream advanced — for ALL inputs.  `C04_source_signcrypt_loop_is_step` shows the model's
   loop is that step followed by the end-of-stream check or the next iteration. *)
Theorem C04_source_signcrypt_getNextChunk (c : crypto) (pkey hh : bytes) (signer : option bytes) (n : N) (input : bytes) :
  (n < 18446744073709551616)%N ->
  chunk_spec "sos" VBytes (fun rest => g_sos pkey hh signer (g_mps rest (n + 1)))
             (sc_step c pkey signer hh n input)
             (run_func2 (ext_chunk c TSigncryptionBlock) f_saltpack_signcryptOpenStream_getNextChunk
                        [g_sos pkey hh signer (g_mps input n)]).
Proof. exact (go_signcrypt_getNextChunk c pkey hh signer n input). Qed.

Theorem C04_source_signcrypt_loop_is_step (c : crypto) (fuel : nat) (pkey : bytes) (signer : option bytes) (hh : bytes) (n : N) (input : bytes) (acc : list bytes) :
  sc_open_loop c (S fuel) pkey signer hh n input acc =
  match sc_step c pkey signer hh n input with
  | Err e => mkOut (rev_append acc []) e
  | Ok (chunk, final, rest) =>
    if final then mkOut (rev_append (chunk :: acc) []) (assert_end_of_stream rest)
    else sc_open_loop c fuel pkey signer hh (n + 1) rest (chunk :: acc)
  end.
Proof. exact (sc_open_loop_step c fuel pkey signer hh n input acc). Qed.

Print Assumptions C04_source_signcrypt_getNextChunk.
Print Assumptions C04_source_signcrypt_loop_is_step.
Print Assumptions C04_source_signcrypt_processBlock.
Print Assumptions C04_source_computeSigncryptionSignatureInput.
Print Assumptions C04_source_nonceForChunkSigncryption.
Print Assumptions C04_authentic.
Print Assumptions C04_all_at_once.

From SP Require Import ToyCrypto ToyCryptoProofs.
Example C04_ex_genuine :
  let sk := repeat x11 32 in let sig := repeat x07 64 in
  match signcrypt_core toy_crypto (Some sig) (repeat x44 32) (repeat x55 32) [BoxRcpt (dh_pub toy_crypto sk)] [[x68; x69]] with
  | Ok out =>
    match signcrypt_open_stream toy_crypto (mkRing [(sk, dh_pub toy_crypto sk)] None) [ed_pub toy_crypto sig] None out with
    | Ok (s, o) => Some (s, so_chunks o, so_end o)
    | Err _ => None
    end
  | Err _ => None
  end = Some (Some (ed_pub toy_crypto (repeat x07 64)), [[x68; x69]], EOF).
Proof. vm_compute. reflexivity. Qed.
