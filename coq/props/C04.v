(* C04 — Signcryption: released plaintext was signed by the named sender, in order.
   Reduction-style, for EVERY input and EVERY instance of the primitives (only the
   64-byte length of SHA-512 outputs is assumed; nothing about secretbox, so other
   recipients who know the payload key are covered): what the opener releases
   under a named signer is a prefix of one plaintext that signer signcrypted in a
   single message with exactly the header presented (hence the same recipient
   entries, one of which the opener's key opened); clean end only after all of
   it — or the input itself carries, inside an examined packet, a signature that
   verifies on a string the signer never signed, or a SHA-512 collision.
   LOCATED BREAKS: every witness of the break disjunct lies in a finite list computed by a
   fixed function from (the primitives, this input and the receiver's keys) or from (the
   primitives, the honest history): a forged tag/signature is one of the pairs the receiver
   actually checked on this input; a SHA-512 collision is between one string the receiver
   hashed while processing this input and one string the honest party hashed while producing
   its history.  (An unrestricted "exists x <> y with equal hashes" is true of real SHA-512 by
   pigeonhole and would make the disjunction empty of content.) *)
From Coq Require Import List NArith ZArith.
From Coq.Strings Require Import Byte.
From SP Require Import Bytes Params Msgpack Crypto Errors Packets Chunker Rand Verify Encrypt Decrypt Signcrypt
     SignAuthProofs ScAuthProofs ScAuthLocated ScAnonLocated.
From SP Require Import Nonce Packets Signcrypt GoLang GoLang2 GoAst GoAstProofs GoAstProofs2 GoAstProofs3 GoAstProofs4b.
From SP Require Import GoAstRecv.
From Coq Require String.
Import String.StringSyntax.
Import ListNotations.
Open Scope N_scope.

Section C04.
Variable c : crypto.
Hypothesis Hsha : forall x, length (sha512 c x) = 64%nat.

Theorem C04_authentic (kr : keyring) (signers : sigring) (rv : resolver) (input : bytes)
        (pk : bytes) (out : stream_out) (M : list sc_msg) (others : list sign_event) :
  Forall sm_ok M -> sm_headers_distinct M -> Forall other_ok others ->
  N.of_nat (length input) < 18446744073709551616 ->
  signcrypt_open_stream c kr signers rv input = Ok (Some pk, out) ->
  (so_chunks out = [] /\ so_end out <> EOF) \/
  (exists m hb rest,
      In m M /\ read_header_bytes input = Ok (hb, rest) /\ hb = sm_header m /\
      list_prefix (so_chunks out) (map fst (sm_packets m)) /\
      (so_end out = EOF -> so_chunks out = map fst (sm_packets m)))
  \/ ScBreakL c kr signers rv pk M others input.
Proof. exact (signcrypt_authentic_located c Hsha kr signers rv input pk out M others). Qed.

Theorem C04_all_at_once (kr : keyring) (signers : sigring) (rv : resolver) (input : bytes)
        (pk pt : bytes) (M : list sc_msg) (others : list sign_event) :
  Forall sm_ok M -> sm_headers_distinct M -> Forall other_ok others ->
  N.of_nat (length input) < 18446744073709551616 ->
  signcrypt_open_all c kr signers rv input = Ok (Some pk, pt) ->
  (exists m, In m M /\ pt = concat (map fst (sm_packets m)))
  \/ ScBreakL c kr signers rv pk M others input.
Proof. exact (signcrypt_authentic_all_located c Hsha kr signers rv input pk pt M others). Qed.
End C04.

(* SOURCE TIE: the terms f_saltpack_* are generated on every run from the Go syntax trees of
   /repo (harness/cmd/gen/goast.go); under the Go semantics of model/GoLang.v, with the standard
   library / NaCl primitives interpreted by ext_prims over the crypto record and calls to other
   saltpack functions interpreted by the model (each of those has its own such theorem), they
   compute exactly what the model says, for ALL arguments and EVERY instance of the primitives. *)
Theorem C04_source_signcrypt_processBlock (c : crypto) (pkey hh : bytes) (signer : option bytes) (n : N) (ct : bytes) (final : bool) :
  (n < 18446744073709551615)%N \/ (n = 18446744073709551615)%N ->
  g_block_result (run_func (ext_model c) f_saltpack_signcryptOpenStream_processBlock
                   [g_sc_state pkey hh signer; VBytes ct; VBool final; VInt (Z.of_N n + 1)])
  = sc_block_step c pkey hh signer n ct final.
Proof. exact (go_signcrypt_processBlock c pkey hh signer n ct final). Qed.

Theorem C04_source_computeSigncryptionSignatureInput (c : crypto) (hh nonce chunk : bytes) (final : bool) :
  run_func (ext_prims c) f_saltpack_computeSigncryptionSignatureInput [VBytes hh; VBytes nonce; VBool final; VBytes chunk]
  = ORet [VBytes (signcrypt_sig_input c hh nonce final chunk)].
Proof. exact (go_computeSigncryptionSignatureInput c hh nonce chunk final). Qed.

Theorem C04_source_nonceForChunkSigncryption (c : crypto) (hh : bytes) (final : bool) (i : N) :
  (16 <= List.length hh)%nat -> (i < 18446744073709551616)%N ->
  run_func (ext_prims c) f_saltpack_nonceForChunkSigncryption [VBytes hh; VBool final; VInt (Z.of_N i)]
  = ORet [VBytes (nonce_chunk_signcryption hh final i)].
Proof. exact (go_nonceForChunkSigncryption c hh final i). Qed.

(* SOURCE TIE (per-packet glue): the translated signcryptOpenStream.getNextChunk of /repo, run on a receiver object
   holding the unconsumed input BYTES and Go's packet counter, returns exactly what one step of the model's
   receive loop says and leaves the stream advanced — for ALL inputs.  `C04_source_signcrypt_loop_is_step` shows the model's
   loop is that step followed by the end-of-stream check or the next iteration. *)
Theorem C04_source_signcrypt_getNextChunk (c : crypto) (pkey hh : bytes) (signer : option bytes) (n : N) (input : bytes) :
  (n < 18446744073709551616)%N ->
  chunk_spec "sos" VBytes (fun rest => g_sos pkey hh signer (g_mps rest (n + 1)))
             (sc_step c pkey signer hh n input)
             (run_func2 (ext_chunk c TSigncryptionBlock) f_saltpack_signcryptOpenStream_getNextChunk
                        [g_sos pkey hh signer (g_mps input n)]).
Proof. exact (go_signcrypt_getNextChunk c pkey hh signer n input). Qed.

Theorem C04_source_signcrypt_loop_is_step (c : crypto) (fuel : nat) (pkey : bytes) (signer : option bytes) (hh : bytes) (n : N) (input : bytes) (acc : list bytes) :
  sc_open_loop c (S fuel) pkey signer hh n input acc =
  match sc_step c pkey signer hh n input with
  | Err e => mkOut (rev_append acc []) e
  | Ok (chunk, final, rest) =>
    if final then mkOut (rev_append (chunk :: acc) []) (assert_end_of_stream rest)
    else sc_open_loop c fuel pkey signer hh (n + 1) rest (chunk :: acc)
  end.
Proof. exact (sc_open_loop_step c fuel pkey signer hh n input acc). Qed.


(* ---- ANONYMOUS SENDER: "an anonymous-sender message promises only integrity against parties who lack the payload
   key".  Reduction with located breaks, for EVERY input: what the opener releases under the anonymous sender is a
   prefix (all of it on a clean end) of the chunks of ONE anonymous message of the honest history whose header bytes are
   the input's (so the payload key the receiver derived is that message's) - or one of the (key, nonce, ciphertext)
   triples THE RECEIVER ACTUALLY OPENED on this input opens although no honest sender sealed it (a secretbox forgery,
   located in [sc_anon_opened_boxes], which mirrors the receive loop), or two different strings - one the receiver hashed
   on this input, one an honest header - agree on the 127 bits of SHA-512 that reach the packet nonce.  (Only those 127
   bits bind an anonymous message to its header: nonce.go copies headerHash[:16] and overwrites one bit, as the
   specification says; ScAnonLocated.sc_anon_full_collision_insufficient shows the statement with a full collision
   would be FALSE.)  Hypotheses on the primitives: SHA-512 outputs have 64 bytes; secretbox is functionally correct
   (opening a sealed box gives the plaintext back - needed: ScAnonLocated.sc_anon_needs_sb_correctness).  The history
   holds no events by other recipients of the same message: they know the payload key and CAN forge an anonymous
   message (ScAnonLocated.sc_anon_insider_forgery_accepted, evaluated on the toy primitives) - the documented limit of
   anonymous mode, which the property text states. *)
Section C04_anonymous.
Variable c : crypto.
Hypothesis Hsha : forall x, length (sha512 c x) = 64%nat.
Hypothesis Hsb : forall k n m, sb_open c k n (sb_seal c k n m) = Some m.

Theorem C04_anonymous_integrity (kr : keyring) (signers : sigring) (rv : resolver) (input : bytes)
        (out : stream_out) (M : list sc_anon_msg) :
  Forall sam_ok M -> sam_headers_distinct M ->
  signcrypt_open_stream c kr signers rv input = Ok (None, out) ->
  (so_chunks out = [] /\ so_end out <> EOF) \/
  (exists m hb rest,
      In m M /\ read_header_bytes input = Ok (hb, rest) /\ hb = sam_header m /\
      sc_receiver_state c kr signers rv input = Some (sha512 c hb, sam_pkey m, rest) /\
      list_prefix (so_chunks out) (map fst (sam_packets m)) /\
      (so_end out = EOF -> so_chunks out = map fst (sam_packets m)))
  \/ ScAnonBreakL c kr signers rv M input.
Proof. exact (signcrypt_anon_authentic_located c Hsha Hsb kr signers rv input out M). Qed.

Theorem C04_anonymous_all_at_once (kr : keyring) (signers : sigring) (rv : resolver) (input : bytes)
        (pt : bytes) (M : list sc_anon_msg) :
  Forall sam_ok M -> sam_headers_distinct M ->
  signcrypt_open_all c kr signers rv input = Ok (None, pt) ->
  (exists m hb rest,
      In m M /\ read_header_bytes input = Ok (hb, rest) /\ hb = sam_header m /\
      sc_receiver_state c kr signers rv input = Some (sha512 c hb, sam_pkey m, rest) /\
      pt = concat (map fst (sam_packets m)))
  \/ ScAnonBreakL c kr signers rv M input.
Proof. exact (signcrypt_anon_authentic_all_located c Hsha Hsb kr signers rv input pt M). Qed.
End C04_anonymous.

(* what a located break is, in plain terms; and the nonce depends on the header hash exactly through those 127 bits *)
Theorem C04_anonymous_break_meaning (c : crypto) (kr : keyring) (signers : sigring) (rv : resolver)
        (M : list sc_anon_msg) (input : bytes) :
  ScAnonBreakL c kr signers rv M input ->
  (exists k nonce ct, sb_open c k nonce ct <> None /\ ~ In (k, nonce, ct) (sc_hist_sealed c M)) \/
  (exists x y, x <> y /\ sc_nonce_prefix (sha512 c x) = sc_nonce_prefix (sha512 c y)).
Proof. exact (anon_located_implies_unlocated c kr signers rv M input). Qed.

Theorem C04_anonymous_nonce_prefix (hh hh' : bytes) :
  sc_nonce_prefix hh = sc_nonce_prefix hh' <->
  (forall (f : bool) (i : N), nonce_chunk_signcryption hh f i = nonce_chunk_signcryption hh' f i).
Proof. exact (sc_nonce_prefix_spec hh hh'). Qed.

Print Assumptions C04_anonymous_integrity.
Print Assumptions C04_anonymous_all_at_once.
Print Assumptions C04_anonymous_break_meaning.
Print Assumptions C04_anonymous_nonce_prefix.
Print Assumptions C04_source_signcrypt_getNextChunk.
Print Assumptions C04_source_signcrypt_loop_is_step.
Print Assumptions C04_source_signcrypt_processBlock.
Print Assumptions C04_source_computeSigncryptionSignatureInput.
Print Assumptions C04_source_nonceForChunkSigncryption.
Print Assumptions C04_authentic.
Print Assumptions C04_all_at_once.

From SP Require Import ToyCrypto ToyCryptoProofs.
Example C04_ex_genuine :
  let sk := repeat x11 32 in let sig := repeat x07 64 in
  match signcrypt_core toy_crypto (Some sig) (repeat x44 32) (repeat x55 32) [BoxRcpt (dh_pub toy_crypto sk)] [[x68; x69]] with
  | Ok out =>
    match signcrypt_open_stream toy_crypto (mkRing [(sk, dh_pub toy_crypto sk)] None) [ed_pub toy_crypto sig] None out with
    | Ok (s, o) => Some (s, so_chunks o, so_end o)
    | Err _ => None
    end
  | Err _ => None
  end = Some (Some (ed_pub toy_crypto (repeat x07 64)), [[x68; x69]], EOF).
Proof. vm_compute. reflexivity. Qed.

(* ===== BEGIN props/C04.v ===== *)
(* ---- END TO END (source level): what the TRANSLATED saltpack.SigncryptOpen / NewSigncryptOpenStream release under a named
   sender was signcrypted by that sender (go_SigncryptOpen + scopen_outcome_model / go_NewSigncryptOpenStream + the per-chunk
   tie on the constructor's object, with C04_all_at_once / C04_authentic); for the ANONYMOUS sender: integrity against
   parties who lack the payload key (ScAnonLocated.signcrypt_anon_authentic_all_located / _located: secretbox forgery or a
   collision on the 127 bits of the header hash the nonce carries).  proofs/GoEndToEndAuth.v. ---- *)
From SP Require GoAstOpen GoAstRecv GoAstProofs4b GoAstProofs5a GoAstProofs7c ScAnonLocated GoEndToEndAuth.
Section C04_source_end_to_end.
Import GoLang GoLang2 GoAstOpen GoAstRecv GoAstProofs4b GoAstProofs7c ScAnonLocated GoEndToEndAuth.
Local Open Scope string_scope.

Theorem C04_source_end_to_end_SigncryptOpen (c : crypto) (Hsha : forall x, List.length (sha512 c x) = 64%nat)
        (kr : keyring) (signers : sigring) (rv : resolver) (KR RV : gval) (input pk pt : bytes)
        (M : list sc_msg) (others : list sign_event) :
  Forall sm_ok M -> sm_headers_distinct M -> Forall other_ok others ->
  (N.of_nat (List.length input) < 18446744073709551616)%N ->
  scopen_class (fst (run_func2 (ext_scopen c kr signers rv) f_saltpack_SigncryptOpen [VBytes input; KR; RV])) = Ok (Some pk, pt) ->
  (exists m, In m M /\ pt = List.concat (map fst (sm_packets m)))
  \/ ScBreakL c kr signers rv pk M others input.
Proof. exact (go_SigncryptOpen_authentic c Hsha kr signers rv KR RV input pk pt M others). Qed.

Theorem C04_source_end_to_end_SigncryptOpen_nil_error (c : crypto) (Hsha : forall x, List.length (sha512 c x) = 64%nat)
        (kr : keyring) (signers : sigring) (rv : resolver) (KR RV : gval) (input pk : bytes)
        (body : gval) (M : list sc_msg) (others : list sign_event) :
  Forall sm_ok M -> sm_headers_distinct M -> Forall other_ok others ->
  (N.of_nat (List.length input) < 18446744073709551616)%N ->
  fst (run_func2 (ext_scopen c kr signers rv) f_saltpack_SigncryptOpen [VBytes input; KR; RV]) = ORet [VBytes pk; body; VNil] ->
  exists pt, body = VBytes pt /\
    ((exists m, In m M /\ pt = List.concat (map fst (sm_packets m)))
     \/ ScBreakL c kr signers rv pk M others input).
Proof. exact (go_SigncryptOpen_authentic_nil_error c Hsha kr signers rv KR RV input pk body M others). Qed.

Theorem C04_source_end_to_end_SigncryptOpen_anonymous (c : crypto) (Hsha : forall x, List.length (sha512 c x) = 64%nat)
        (Hsb : forall k n m, sb_open c k n (sb_seal c k n m) = Some m)
        (kr : keyring) (signers : sigring) (rv : resolver) (KR RV : gval) (input pt : bytes) (M : list sc_anon_msg) :
  Forall (sam_ok) M -> sam_headers_distinct M ->
  scopen_class (fst (run_func2 (ext_scopen c kr signers rv) f_saltpack_SigncryptOpen [VBytes input; KR; RV])) = Ok (None, pt) ->
  (exists m hb rest,
      In m M /\ read_header_bytes input = Ok (hb, rest) /\ hb = sam_header m /\
      sc_receiver_state c kr signers rv input = Some (sha512 c hb, sam_pkey m, rest) /\
      pt = List.concat (map fst (sam_packets m)))
  \/ ScAnonBreakL c kr signers rv M input.
Proof. exact (go_SigncryptOpen_anonymous_authentic c Hsha Hsb kr signers rv KR RV input pt M). Qed.

Theorem C04_source_end_to_end_SigncryptOpen_anonymous_nil_error (c : crypto) (Hsha : forall x, List.length (sha512 c x) = 64%nat)
        (Hsb : forall k n m, sb_open c k n (sb_seal c k n m) = Some m)
        (kr : keyring) (signers : sigring) (rv : resolver) (KR RV : gval) (input : bytes) (body : gval) (M : list sc_anon_msg) :
  Forall (sam_ok) M -> sam_headers_distinct M ->
  fst (run_func2 (ext_scopen c kr signers rv) f_saltpack_SigncryptOpen [VBytes input; KR; RV]) = ORet [VNil; body; VNil] ->
  exists pt, body = VBytes pt /\
    ((exists m hb rest,
        In m M /\ read_header_bytes input = Ok (hb, rest) /\ hb = sam_header m /\
        sc_receiver_state c kr signers rv input = Some (sha512 c hb, sam_pkey m, rest) /\
        pt = List.concat (map fst (sam_packets m)))
     \/ ScAnonBreakL c kr signers rv M input).
Proof. exact (go_SigncryptOpen_anonymous_authentic_nil_error c Hsha Hsb kr signers rv KR RV input body M). Qed.

Theorem C04_source_end_to_end_NewSigncryptOpenStream (c : crypto) (Hsha : forall x, List.length (sha512 c x) = 64%nat)
        (kr : keyring) (signers : sigring) (rv : resolver) (r KR RV : gval) (input pk : bytes)
        (rdr : gval) (M : list sc_msg) (others : list sign_event) :
  Forall sm_ok M -> sm_headers_distinct M -> Forall other_ok others ->
  (N.of_nat (List.length input) < 18446744073709551616)%N ->
  rdr_bytes r = Some input ->
  fst (run_func2 (ext_nsos c kr signers rv) f_saltpack_NewSigncryptOpenStream [r; KR; RV]) = ORet [VBytes pk; rdr; VNil] ->
  exists obj,
    rdr = g_cr_new obj /\
    forall F, (N.of_nat F <= 18446744073709551616)%N ->
      let d := go_drain (ext_chunk c TSigncryptionBlock) f_saltpack_signcryptOpenStream_getNextChunk "sos" F obj in
      exists chunks tl,
        fst d = (chunks ++ tl)%list /\ (tl = [] \/ tl = [[]]) /\
        ((chunks = [] /\ snd d <> Some (VErr "io.EOF" [])) \/
         (exists m hb rest,
             In m M /\ read_header_bytes input = Ok (hb, rest) /\ hb = sm_header m /\
             list_prefix chunks (map fst (sm_packets m)) /\
             (snd d = Some (VErr "io.EOF" []) -> chunks = map fst (sm_packets m)))
         \/ ScBreakL c kr signers rv pk M others input).
Proof. exact (go_NewSigncryptOpenStream_authentic c Hsha kr signers rv r KR RV input pk rdr M others). Qed.

Theorem C04_source_end_to_end_NewSigncryptOpenStream_anonymous (c : crypto) (Hsha : forall x, List.length (sha512 c x) = 64%nat)
        (Hsb : forall k n m, sb_open c k n (sb_seal c k n m) = Some m)
        (kr : keyring) (signers : sigring) (rv : resolver) (r KR RV : gval) (input : bytes) (rdr : gval) (M : list sc_anon_msg) :
  Forall sam_ok M -> sam_headers_distinct M ->
  (N.of_nat (List.length input) < 18446744073709551616)%N ->
  rdr_bytes r = Some input ->
  fst (run_func2 (ext_nsos c kr signers rv) f_saltpack_NewSigncryptOpenStream [r; KR; RV]) = ORet [VNil; rdr; VNil] ->
  exists obj,
    rdr = g_cr_new obj /\
    forall F, (N.of_nat F <= 18446744073709551616)%N ->
      let d := go_drain (ext_chunk c TSigncryptionBlock) f_saltpack_signcryptOpenStream_getNextChunk "sos" F obj in
      exists chunks tl,
        fst d = (chunks ++ tl)%list /\ (tl = [] \/ tl = [[]]) /\
        ((chunks = [] /\ snd d <> Some (VErr "io.EOF" [])) \/
         (exists m hb rest,
             In m M /\ read_header_bytes input = Ok (hb, rest) /\ hb = sam_header m /\
             sc_receiver_state c kr signers rv input = Some (sha512 c hb, sam_pkey m, rest) /\
             list_prefix chunks (map fst (sam_packets m)) /\
             (snd d = Some (VErr "io.EOF" []) -> chunks = map fst (sam_packets m)))
         \/ ScAnonBreakL c kr signers rv M input).
Proof. exact (go_NewSigncryptOpenStream_anonymous_authentic c Hsha Hsb kr signers rv r KR RV input rdr M). Qed.
End C04_source_end_to_end.
Print Assumptions C04_source_end_to_end_SigncryptOpen.
Print Assumptions C04_source_end_to_end_SigncryptOpen_nil_error.
Print Assumptions C04_source_end_to_end_SigncryptOpen_anonymous.
Print Assumptions C04_source_end_to_end_SigncryptOpen_anonymous_nil_error.
Print Assumptions C04_source_end_to_end_NewSigncryptOpenStream.
Print Assumptions C04_source_end_to_end_NewSigncryptOpenStream_anonymous.

(* ============================== BLOCK 3: append to props/C04.v ============================== *)
From SP Require Spec AcceptDefs AcceptScProofs AcceptScSymProofs ScAuthProofs ScAuthLocated ScAnonLocated GoAstOpen GoAstRecv GoAstProofs4b GoAstProofs5a GoAstProofs7c GoEndToEndAuth GoAstProofs8c.
Section C04_source_end_to_end_read.
Import Spec AcceptDefs AcceptScProofs AcceptScSymProofs ScAuthProofs ScAuthLocated ScAnonLocated GoLang GoLang2 GoAstOpen GoAstRecv GoAstProofs4b GoAstProofs7c GoEndToEndAuth GoAstProofs8c.
Local Open Scope string_scope.

Theorem C04_source_end_to_end_read_NewSigncryptOpenStream (c : crypto) (Hsha : forall x, List.length (sha512 c x) = 64%nat)
        (kr : keyring) (signers : sigring) (rv : resolver) (r KR RV : gval) (input pk : bytes)
        (rdr : gval) (M : list sc_msg) (others : list sign_event) :
  Forall sm_ok M -> sm_headers_distinct M -> Forall other_ok others ->
  (N.of_nat (List.length input) < 18446744073709551616)%N ->
  rdr_bytes r = Some input ->
  fst (run_func2 (ext_nsos c kr signers rv) f_saltpack_NewSigncryptOpenStream [r; KR; RV]) = ORet [VBytes pk; rdr; VNil] ->
  exists obj,
    rdr = g_cr_new obj /\
    forall F bufs, (10 <= F)%nat -> (S (List.length input) < F)%nat -> Forall (fun b : bytes => b <> []) bufs ->
      reads_auth_shape
        (fun full => exists m hb rest,
             In m M /\ read_header_bytes input = Ok (hb, rest) /\ hb = sm_header m /\ full = map fst (sm_packets m))
        (ScBreakL c kr signers rv pk M others input)
        (go_reads (gnc_sc c) F bufs rdr 0).
Proof. exact (go_NewSigncryptOpenStream_read_authentic c Hsha kr signers rv r KR RV input pk rdr M others). Qed.

Theorem C04_source_end_to_end_read_NewSigncryptOpenStream_anonymous (c : crypto) (Hsha : forall x, List.length (sha512 c x) = 64%nat)
        (Hsb : forall k n m, sb_open c k n (sb_seal c k n m) = Some m)
        (kr : keyring) (signers : sigring) (rv : resolver) (r KR RV : gval)
        (input : bytes) (rdr : gval) (M : list sc_anon_msg) :
  Forall sam_ok M -> sam_headers_distinct M ->
  (N.of_nat (List.length input) < 18446744073709551616)%N ->
  rdr_bytes r = Some input ->
  fst (run_func2 (ext_nsos c kr signers rv) f_saltpack_NewSigncryptOpenStream [r; KR; RV]) = ORet [VNil; rdr; VNil] ->
  exists obj,
    rdr = g_cr_new obj /\
    forall F bufs, (10 <= F)%nat -> (S (List.length input) < F)%nat -> Forall (fun b : bytes => b <> []) bufs ->
      reads_auth_shape
        (fun full => exists m hb rest,
             In m M /\ read_header_bytes input = Ok (hb, rest) /\ hb = sam_header m /\
             sc_receiver_state c kr signers rv input = Some (sha512 c hb, sam_pkey m, rest) /\
             full = map fst (sam_packets m))
        (ScAnonBreakL c kr signers rv M input)
        (go_reads (gnc_sc c) F bufs rdr 0).
Proof. exact (go_NewSigncryptOpenStream_read_anonymous_authentic c Hsha Hsb kr signers rv r KR RV input rdr M). Qed.

Theorem C04_source_end_to_end_read_of_model (c : crypto) (kr : keyring) (signers : sigring) (rv : resolver) (KR RV rd : gval)
        (wire : bytes) (sg : option bytes) (out : stream_out) :
  signcrypt_open_stream c kr signers rv wire = Ok (sg, out) ->
  rdr_bytes rd = Some wire ->
  (N.of_nat (List.length wire) < 18446744073709551616)%N ->
  exists obj : gval,
    fst (run_func2 (ext_nsos c kr signers rv) f_saltpack_NewSigncryptOpenStream [rd; KR; RV])
    = ORet [g_signer sg; g_cr_new obj; VNil] /\
    forall F bufs, (10 <= F)%nat -> (S (List.length wire) < F)%nat -> Forall (fun p : bytes => p <> []) bufs ->
      let res := go_reads (gnc_sc c) F bufs (g_cr_new obj) 0 in
      reads_spec res (List.concat (so_chunks out)) (so_end out) /\
      ((List.length (List.concat (so_chunks out)) + List.length wire + 2 <= List.length bufs)%nat -> reads_done res).
Proof. exact (go_NewSigncryptOpenStream_reads_of_model c kr signers rv KR RV rd wire sg out). Qed.

Theorem C04_source_end_to_end_read_accepts_spec_box (c : crypto) (Hc : crypto_ok c) (p : S_sc) (sk : bytes) (i : nat)
        (signers : sigring) (rv : resolver) (KR RV rd : gval) :
  sc_params_ok c p ->
  nth_error (sc_rcpts p) i = Some (S_BoxR (dh_pub c sk)) ->
  (forall s, sc_signer p = Some s -> In (ed_pub c s) signers) ->
  rdr_bytes rd = Some (S_encode_signcryption c p) ->
  (N.of_nat (List.length (S_encode_signcryption c p)) < 18446744073709551616)%N ->
  let kr := mkRing [(sk, dh_pub c sk)] None in
  let sg := option_map (ed_pub c) (sc_signer p) in
  (exists obj : gval,
      fst (run_func2 (ext_nsos c kr signers rv) f_saltpack_NewSigncryptOpenStream [rd; KR; RV])
      = ORet [g_signer sg; g_cr_new obj; VNil] /\
      forall F bufs, (10 <= F)%nat -> (S (List.length (S_encode_signcryption c p)) < F)%nat -> Forall (fun b : bytes => b <> []) bufs ->
        let res := go_reads (gnc_sc c) F bufs (g_cr_new obj) 0 in
        reads_spec res (List.concat (sc_chunks p)) EOF /\
        ((List.length (List.concat (sc_chunks p)) + List.length (S_encode_signcryption c p) + 2 <= List.length bufs)%nat ->
         res = Some (Z.of_nat (List.length (List.concat (sc_chunks p))), VErr "io.EOF" [])))
  \/ S_identifier_collision c p sk i.
Proof. exact (go_NewSigncryptOpenStream_read_accepts_spec_box c Hc p sk i signers rv KR RV rd). Qed.

Theorem C04_source_end_to_end_read_accepts_spec_sym (c : crypto) (Hc : crypto_ok c) (p : S_sc) (i : nat) (key ident : bytes)
        (rsl : list (bytes * bytes)) (signers : sigring) (KR RV rd : gval) :
  sc_params_ok c p ->
  nth_error (sc_rcpts p) i = Some (S_SymR key ident) ->
  resolve rsl ident = Some key ->
  S_resolver_genuine c rsl p ->
  (forall s, sc_signer p = Some s -> In (ed_pub c s) signers) ->
  rdr_bytes rd = Some (S_encode_signcryption c p) ->
  (N.of_nat (List.length (S_encode_signcryption c p)) < 18446744073709551616)%N ->
  let kr := mkRing [] None in
  let sg := option_map (ed_pub c) (sc_signer p) in
  exists obj : gval,
    fst (run_func2 (ext_nsos c kr signers (Some rsl)) f_saltpack_NewSigncryptOpenStream [rd; KR; RV])
    = ORet [g_signer sg; g_cr_new obj; VNil] /\
    forall F bufs, (10 <= F)%nat -> (S (List.length (S_encode_signcryption c p)) < F)%nat -> Forall (fun b : bytes => b <> []) bufs ->
      let res := go_reads (gnc_sc c) F bufs (g_cr_new obj) 0 in
      reads_spec res (List.concat (sc_chunks p)) EOF /\
      ((List.length (List.concat (sc_chunks p)) + List.length (S_encode_signcryption c p) + 2 <= List.length bufs)%nat ->
       res = Some (Z.of_nat (List.length (List.concat (sc_chunks p))), VErr "io.EOF" [])).
Proof. exact (go_NewSigncryptOpenStream_read_accepts_spec_sym c Hc p i key ident rsl signers KR RV rd). Qed.
End C04_source_end_to_end_read.
Print Assumptions C04_source_end_to_end_read_NewSigncryptOpenStream.
Print Assumptions C04_source_end_to_end_read_NewSigncryptOpenStream_anonymous.
Print Assumptions C04_source_end_to_end_read_of_model.
Print Assumptions C04_source_end_to_end_read_accepts_spec_box.
Print Assumptions C04_source_end_to_end_read_accepts_spec_sym.


