(* C15 — hostile input is rejected, never a crash.
   PROVED on the model (whose Go panics are explicit [Panic n] outcomes): for EVERY input
   byte string, every keyring/resolver behaviour and every crypto record, the three
   receivers end in a released prefix plus an ordinary error or a clean end — never a
   panic outcome — under validators admitting only the major versions the library
   implements (the shipped validators are such); dearmoring never panics; chunkReader's
   "empty chunk and nil error" panic is unreachable because no receiver hands it an empty
   non-final chunk; the classifier's word-count panic is unreachable; and the inventory
   of panic-capable constructs regenerated from /repo on this run is exactly the one the
   model accounts for.  The decryption receiver needs one fact about secretbox (an opened
   box is 16 bytes longer than its plaintext), true of NaCl and of the toy instance: the
   V1 final-flag is computed from the ciphertext length and checked against the plaintext
   length (checkChunkState panics on disagreement).
   PARTIAL (campaign only, see DESIGN.md): go-codec's robustness on hostile bytes,
   allocation bounded by the input, termination in real time.
   Only property theorems here. *)
From Coq Require Import List NArith ZArith Bool Lia.
From Coq.Strings Require Import Byte.
From SP Require Import Bytes Params Msgpack Crypto Errors Nonce Packets Verify Decrypt Signcrypt Armor
  PanicSites PanicModel ToyCrypto NoPanicProofs.
From SP Require Import GoLang GoLang2 GoAst GoAstProofs GoAstProofs2 GoAstProofs3.
From SP Require Import GoAstRecv.
From Coq Require String.
Import String.StringSyntax.
Import ListNotations.

Definition sb_open_len (c : crypto) : Prop :=
  forall k n b m, sb_open c k n b = Some m -> List.length b = (16 + List.length m)%nat.

Theorem C15_inventory_covered : panic_sites = expected_sites.
Proof. exact inventory_covered. Qed.

Theorem C15_shipped_validators_ok : vd_ok AnyKnownMajor /\ vd_ok (Single v1) /\ vd_ok (Single v2).
Proof. exact shipped_validators_ok. Qed.

Theorem C15_verify_stream_no_panic (c : crypto) (vd : validator) (kr : sigring) (input : bytes) :
  vd_ok vd ->
  match verify_stream c vd kr input with
  | Err e => is_panic e = false
  | Ok (_, out) => is_panic (so_end out) = false
  end.
Proof. exact (verify_stream_no_panic c vd kr input). Qed.

Theorem C15_verify_detached_no_panic (c : crypto) (vd : validator) (kr : sigring) (msg sigfile : bytes) :
  match verify_detached c vd kr msg sigfile with
  | Err e => is_panic e = false
  | Ok _ => True
  end.
Proof. exact (verify_detached_no_panic c vd kr msg sigfile). Qed.

Theorem C15_open_stream_no_panic (c : crypto) (vd : validator) (kr : keyring) (input : bytes) :
  sb_open_len c -> vd_ok vd ->
  match open_stream c vd kr input with
  | Err e => is_panic e = false
  | Ok (_, out) => is_panic (so_end out) = false
  end.
Proof. intro H. exact (open_stream_no_panic c H vd kr input). Qed.

Theorem C15_signcrypt_open_no_panic (c : crypto) (kr : keyring) (signers : sigring) (rv : resolver) (input : bytes) :
  match signcrypt_open_stream c kr signers rv input with
  | Err e => is_panic e = false
  | Ok (_, out) => is_panic (so_end out) = false
  end.
Proof. exact (signcrypt_open_no_panic c kr signers rv input). Qed.

(* chunkReader panics on an empty chunk with a nil error: no receiver produces one *)
Theorem C15_verify_no_empty_nonfinal_chunk (c : crypto) (vd : validator) (kr : sigring) (input : bytes) pk out :
  verify_stream c vd kr input = Ok (pk, out) -> Forall (fun ch => ch <> []) (removelast (so_chunks out)).
Proof. exact (verify_no_empty_nonfinal_chunk c vd kr input pk out). Qed.

Theorem C15_open_no_empty_nonfinal_chunk (c : crypto) (vd : validator) (kr : keyring) (input : bytes) m out :
  open_stream c vd kr input = Ok (m, out) -> Forall (fun ch => ch <> []) (removelast (so_chunks out)).
Proof. exact (open_no_empty_nonfinal_chunk c vd kr input m out). Qed.

Theorem C15_signcrypt_no_empty_nonfinal_chunk (c : crypto) (kr : keyring) (signers : sigring) (rv : resolver) (input : bytes) s out :
  signcrypt_open_stream c kr signers rv input = Ok (s, out) -> Forall (fun ch => ch <> []) (removelast (so_chunks out)).
Proof. exact (signcrypt_no_empty_nonfinal_chunk c kr signers rv input s out). Qed.

Theorem C15_dearmor_no_panic (chk : option Z) (input : bytes) (e : err) :
  dearmor chk input = Err e -> is_panic e = false.
Proof. exact (dearmor_no_panic chk input e). Qed.

Theorem C15_classify_no_logic_panic (pref : bytes) :
  let s := normalise pref in
  partial_words_ok 5 s = true -> (1 <= List.length (words s) <= 5)%nat.
Proof. exact (classify_no_logic_panic pref). Qed.

(* SOURCE TIE: the term f_saltpack_checkChunkState is generated on every run from the Go syntax tree of
   /repo's checkChunkState (harness/cmd/gen/goast.go); under the Go semantics of model/GoLang.v it computes
   exactly what the model says, for ALL arguments.  An edit of that function in /repo changes
   the term and this theorem has to be re-established. *)
Theorem C15_source_checkChunkState (v : version) (l : nat) (i : N) (f : bool) :
  g_result1 (run_func no_ext f_saltpack_checkChunkState [g_version v; VInt (Z.of_nat l); VInt (Z.of_N i); VBool f])
  = m_result1 (check_chunk_state v l i f).
Proof. exact (go_checkChunkState v l i f). Qed.

(* the two fixed-length key conversions on the receive paths (payload key after unboxing, ephemeral key):
   for EVERY byte string they return the error value unless the length is exactly 32 — the array
   conversion that would panic on any other length is never reached *)
Theorem C15_source_symmetricKeyFromSlice (c : crypto) (b : bytes) :
  fst (run_func2 (ext_prims c) f_saltpack_symmetricKeyFromSlice [VBytes b])
  = if Nat.eqb (List.length b) 32 then ORet [VBytes b; VNil] else ORet [VNil; VErr "ErrBadSymmetricKey" []].
Proof.
  rewrite (go_symmetricKeyFromSlice c b). unfold sym_key.
  destruct (Nat.eqb (List.length b) 32); reflexivity.
Qed.

Theorem C15_source_rawBoxKeyFromSlice (c : crypto) (b : bytes) :
  fst (run_func2 (ext_prims c) f_saltpack_rawBoxKeyFromSlice [VBytes b])
  = if Nat.eqb (List.length b) 32 then ORet [VBytes b; VNil] else ORet [VNil; VErr "ErrBadBoxKey" []].
Proof. exact (go_rawBoxKeyFromSlice c b). Qed.

Print Assumptions C15_source_checkChunkState.
Print Assumptions C15_source_symmetricKeyFromSlice.
Print Assumptions C15_source_rawBoxKeyFromSlice.
Print Assumptions C15_inventory_covered.
Print Assumptions C15_shipped_validators_ok.
Print Assumptions C15_verify_stream_no_panic.
Print Assumptions C15_verify_detached_no_panic.
Print Assumptions C15_open_stream_no_panic.
Print Assumptions C15_signcrypt_open_no_panic.
Print Assumptions C15_verify_no_empty_nonfinal_chunk.
Print Assumptions C15_open_no_empty_nonfinal_chunk.
Print Assumptions C15_signcrypt_no_empty_nonfinal_chunk.
Print Assumptions C15_dearmor_no_panic.
Print Assumptions C15_classify_no_logic_panic.

(* Non-vacuity: the secretbox length fact holds of the toy instance ... *)
Example C15_ex_toy_open_len : sb_open_len toy_crypto.
Proof.
  intros k n b m. change (sb_open toy_crypto k n b) with (if Nat.leb 16 (List.length b) then Some (skipn 16 b) else None).
  destruct (Nat.leb 16 (List.length b)) eqn:E; [|discriminate].
  intro H. injection H as H. subst m. apply PeanoNat.Nat.leb_le in E.
  change (List.length b = (16 + List.length (skipn 16 b))%nat). rewrite skipn_length. lia.
Qed.

(* ... and is needed: with a secretbox that returns 32 bytes for a 16-byte box the V1
   receiver reaches checkChunkState's panic (the model's Panic 1) *)
Definition bad_crypto : crypto :=
  {| sha512 := fun _ => zeros 64; hmac512 := fun _ _ => zeros 64;
     sb_seal := sb_seal toy_crypto; sb_open := fun _ _ _ => Some (zeros 32);
     dh_pub := dh_pub toy_crypto; dh_shared := fun _ _ => zeros 32;
     ed_pub := ed_pub toy_crypto; ed_sign := ed_sign toy_crypto; ed_verify := fun _ _ _ => true |}.
Example C15_ex_length_fact_needed :
  let hdr := mp_encode (mv_enc_header v1 mt_encryption (zeros 32) [] [(Some (zeros 32), [])]) in
  let msg := mp_encode (MBin hdr) ++ mp_encode (mv_enc_block v1 [zeros 32] (zeros 16) true) in
  match open_stream bad_crypto AnyKnownMajor (mkRing [(zeros 32, zeros 32)] None) msg with
  | Ok (_, o) => so_end o = Panic 1
  | Err _ => False
  end.
Proof. vm_compute. reflexivity. Qed.
