(* C06 — Attached signatures: only bytes signed by the looked-up key are released.
   Reduction-style: for EVERY input byte string and EVERY instance of the
   primitives (only the 64-byte length of SHA-512 outputs is assumed), what the
   verifier releases is a prefix of one message in the key's honest history,
   whole message iff clean end — or the input exhibits a forged Ed25519
   signature or a SHA-512 collision.  Only property theorems here.
   LOCATED BREAKS: every witness of the break disjunct lies in a finite list computed by a
   fixed function from (the primitives, this input and the receiver's keys) or from (the
   primitives, the honest history): a forged tag/signature is one of the pairs the receiver
   actually checked on this input; a SHA-512 collision is between one string the receiver
   hashed while processing this input and one string the honest party hashed while producing
   its history.  (An unrestricted "exists x <> y with equal hashes" is true of real SHA-512 by
   pigeonhole and would make the disjunction empty of content.) *)
From Coq Require Import List NArith ZArith.
From Coq.Strings Require Import Byte.
From SP Require Import Bytes Params Msgpack Crypto Errors Packets Chunker Rand Sign Verify SignProofs SignAuthProofs SignAuthLocated.
Import ListNotations.
Open Scope N_scope.

Section C06.
Variable c : crypto.
Hypothesis Hsha : forall x, length (sha512 c x) = 64%nat.

Theorem C06_authentic (vd : validator) (kr : sigring) (input : bytes) (pk : bytes) (out : stream_out)
        (L : list (sign_event)) :
  Forall event_ok L -> headers_distinct pk L ->
  N.of_nat (length input) < 18446744073709551616 -> len pk < 4294967296 ->
  verify_stream c vd kr input = Ok (pk, out) ->
  (so_chunks out = [] /\ so_end out <> EOF) \/
  (exists v nonce ps,
      In (EvAttached v nonce ps) L /\
      list_prefix (so_chunks out) (map fst ps) /\
      (so_end out = EOF -> so_chunks out = map fst ps))
  \/ AttBreak c vd pk L input.
Proof. exact (attached_authentic_located c Hsha vd kr input pk out L). Qed.

Theorem C06_all_at_once (vd : validator) (kr : sigring) (input : bytes) (pk msg : bytes)
        (L : list (sign_event)) :
  Forall event_ok L -> headers_distinct pk L ->
  N.of_nat (length input) < 18446744073709551616 -> len pk < 4294967296 ->
  verify_all c vd kr input = Ok (pk, msg) ->
  (exists v nonce ps, In (EvAttached v nonce ps) L /\ msg = concat (map fst ps))
  \/ AttBreak c vd pk L input.
Proof. exact (attached_authentic_all_located c Hsha vd kr input pk msg L). Qed.
End C06.

Print Assumptions C06_authentic.
Print Assumptions C06_all_at_once.

(* Non-vacuity: on the toy instance a genuine two-chunk history satisfies the premises
   and the verifier really releases its chunks (the middle disjunct is inhabited). *)
From SP Require Import ToyCrypto ToyCryptoProofs.
Example C06_ex_genuine :
  let sk := repeat x07 64 in
  match sign_attached_stream toy_crypto v2 sk [[x68; x69]] (repeat x01 16) with
  | Ok (out, _) =>
    match verify_stream toy_crypto AnyKnownMajor [ed_pub toy_crypto sk] out with
    | Ok (_, o) => Some (so_chunks o, so_end o)
    | Err _ => None
    end
  | Err _ => None
  end = Some ([[x68; x69]], EOF).
Proof. vm_compute. reflexivity. Qed.
