(* C06 — Attached signatures: only bytes signed by the looked-up key are released.
   Reduction-style: for EVERY input byte string and EVERY instance of the
   primitives (only the 64-byte length of SHA-512 outputs is assumed), what the
   verifier releases is a prefix of one message in the key's honest history,
   whole message iff clean end — or the input exhibits a forged Ed25519
   signature or a SHA-512 collision.  Only property theorems here.
   LOCATED BREAKS: every witness of the break disjunct lies in a finite list computed by a
   fixed function from (the primitives, this input and the receiver's keys) or from (the
   primitives, the honest history): a forged tag/signature is one of the pairs the receiver
   actually checked on this input; a SHA-512 collision is between one string the receiver
   hashed while processing this input and one string the honest party hashed while producing
   its history.  (An unrestricted "exists x <> y with equal hashes" is true of real SHA-512 by
   pigeonhole and would make the disjunction empty of content.) *)
From Coq Require Import List NArith ZArith.
From Coq.Strings Require Import Byte.
From SP Require Import Bytes Params Msgpack Crypto Errors Packets Chunker Rand Sign Verify SignProofs SignAuthProofs SignAuthLocated.
From SP Require Import Nonce Packets Signcrypt GoLang GoLang2 GoAst GoAstProofs GoAstProofs2 GoAstProofs3 GoAstProofs4b.
From SP Require Import GoAstRecv.
From Coq Require String.
Import String.StringSyntax.
Import ListNotations.
Open Scope N_scope.

Section C06.
Variable c : crypto.
Hypothesis Hsha : forall x, length (sha512 c x) = 64%nat.

Theorem C06_authentic (vd : validator) (kr : sigring) (input : bytes) (pk : bytes) (out : stream_out)
        (L : list (sign_event)) :
  Forall event_ok L -> headers_distinct pk L ->
  N.of_nat (length input) < 18446744073709551616 -> len pk < 4294967296 ->
  verify_stream c vd kr input = Ok (pk, out) ->
  (so_chunks out = [] /\ so_end out <> EOF) \/
  (exists v nonce ps,
      In (EvAttached v nonce ps) L /\
      list_prefix (so_chunks out) (map fst ps) /\
      (so_end out = EOF -> so_chunks out = map fst ps))
  \/ AttBreak c vd pk L input.
Proof. exact (attached_authentic_located c Hsha vd kr input pk out L). Qed.

Theorem C06_all_at_once (vd : validator) (kr : sigring) (input : bytes) (pk msg : bytes)
        (L : list (sign_event)) :
  Forall event_ok L -> headers_distinct pk L ->
  N.of_nat (length input) < 18446744073709551616 -> len pk < 4294967296 ->
  verify_all c vd kr input = Ok (pk, msg) ->
  (exists v nonce ps, In (EvAttached v nonce ps) L /\ msg = concat (map fst ps))
  \/ AttBreak c vd pk L input.
Proof. exact (attached_authentic_all_located c Hsha vd kr input pk msg L). Qed.
End C06.

(* SOURCE TIE: the terms f_saltpack_* are generated on every run from the Go syntax trees of
   /repo (harness/cmd/gen/goast.go); under the Go semantics of model/GoLang.v, with the standard
   library / NaCl primitives interpreted by ext_prims over the crypto record and calls to other
   saltpack functions interpreted by the model (each of those has its own such theorem), they
   compute exactly what the model says, for ALL arguments and EVERY instance of the primitives. *)
Local Open Scope string_scope.
Theorem C06_source_verify_processBlock (c : crypto) (v : version) (pk hh sig chunk : bytes) (n : N) (final : bool) :
  (n < 18446744073709551615)%N ->
  (vmaj v = 1 \/ vmaj v = 2)%Z ->
  run_func (ext_model c) f_saltpack_verifyStream_processBlock
               [VStruct [("publicKey", VBytes pk); ("header", VStruct [("Version", g_version v)]); ("headerHash", VBytes hh)];
                VBytes sig; VBytes chunk; VBool final; VInt (Z.of_N n + 1)]
  = match attached_sig_input c v hh chunk n final with
    | Some inp => if ed_verify c pk inp sig then ORet [VNil] else ORet [VErr "ErrBadSignature" []]
    | None => OPanic
    end.
Proof. exact (go_verify_processBlock_outcome c v pk hh sig chunk n final). Qed.
Local Close Scope string_scope.

Theorem C06_source_attachedSignatureInput (c : crypto) (v : version) (hh chunk : bytes) (seqno : N) (final : bool) :
  (seqno < 18446744073709551616)%N ->
  run_func (ext_prims c) f_saltpack_attachedSignatureInput
           [g_version v; VBytes hh; VBytes chunk; VInt (Z.of_N seqno); VBool final]
  = ret_bytes (attached_sig_input c v hh chunk seqno final).
Proof. exact (go_attachedSignatureInput c v hh chunk seqno final). Qed.

(* SOURCE TIE (per-packet glue): the translated verifyStream.getNextChunk of /repo, run on a receiver object
   holding the unconsumed input BYTES and Go's packet counter, returns exactly what one step of the model's
   receive loop says and leaves the stream advanced — for ALL inputs.  `C06_source_verify_loop_is_step` shows the model's
   loop is that step followed by the end-of-stream check or the next iteration. *)
Theorem C06_source_verify_getNextChunk (c : crypto) (h : header) (pk hh : bytes) (n : N) (input : bytes) :
  (vmaj (h_version h) = 1 \/ vmaj (h_version h) = 2)%Z ->
  (n < 18446744073709551616)%N ->
  chunk_spec "v" VBytes (fun rest => g_vs h pk hh (g_mps rest (n + 1)))
             (verify_step c (h_version h) pk hh n input)
             (run_func2 (ext_chunk c TBytes) f_saltpack_verifyStream_getNextChunk [g_vs h pk hh (g_mps input n)]).
Proof. exact (go_verify_getNextChunk c h pk hh n input). Qed.

Theorem C06_source_verify_loop_is_step (c : crypto) (fuel : nat) (v : version) (pk hh : bytes) (n : N) (input : bytes) (acc : list bytes) :
  verify_loop c (S fuel) v pk hh n input acc =
  match verify_step c v pk hh n input with
  | Err e => mkOut (rev_append acc []) e
  | Ok (chunk, final, rest) =>
    if final then mkOut (rev_append (chunk :: acc) []) (assert_end_of_stream rest)
    else verify_loop c fuel v pk hh (n + 1) rest (chunk :: acc)
  end.
Proof. exact (verify_loop_step c fuel v pk hh n input acc). Qed.

(* the signature receiver's header reading: error class, or the header hash / decoded header / advanced
   stream left in the receiver object, as the model's verify_read_header says, for ALL input bytes *)
Local Open Scope string_scope.
Theorem C06_source_verify_readHeader (c : crypto) (vd : validator) (typ : Z) (input : bytes) (s : Z) :
  typ = mt_attached \/ typ = mt_detached ->
  let r := run_func2 (ext_vhdr c vd) f_saltpack_verifyStream_readHeader
                     [VStruct [("mps", g_mps_raw input s)]; VNil; VInt typ] in
  match verify_read_header c vd typ input with
  | Ok (h, hh, rest) =>
    fst r = ORet [VNil] /\
    lookup "v" (snd r) = Some (g_vs_after_header h hh (g_mps_raw rest ((s + 1) mod two64)))
  | Err Unmodelled => fst r = OStuck "call"
  | Err e => exists ev, fst r = ORet [ev] /\ hdr_err_class ev = Some e
  end.
Proof. exact (go_verify_readHeader c vd typ input s). Qed.
Local Close Scope string_scope.

Print Assumptions C06_source_verify_getNextChunk.
Print Assumptions C06_source_verify_loop_is_step.
Print Assumptions C06_source_verify_readHeader.
Print Assumptions C06_source_verify_processBlock.
Print Assumptions C06_source_attachedSignatureInput.
Print Assumptions C06_authentic.
Print Assumptions C06_all_at_once.

(* Non-vacuity: on the toy instance a genuine two-chunk history satisfies the premises
   and the verifier really releases its chunks (the middle disjunct is inhabited). *)
From SP Require Import ToyCrypto ToyCryptoProofs.
Example C06_ex_genuine :
  let sk := repeat x07 64 in
  match sign_attached_stream toy_crypto v2 sk [[x68; x69]] (repeat x01 16) with
  | Ok (out, _) =>
    match verify_stream toy_crypto AnyKnownMajor [ed_pub toy_crypto sk] out with
    | Ok (_, o) => Some (so_chunks o, so_end o)
    | Err _ => None
    end
  | Err _ => None
  end = Some ([[x68; x69]], EOF).
Proof. vm_compute. reflexivity. Qed.
