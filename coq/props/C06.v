(* C06 — Attached signatures: only bytes signed by the looked-up key are released.
   Reduction-style: for EVERY input byte string and EVERY instance of the
   primitives (only the 64-byte length of SHA-512 outputs is assumed), what the
   verifier releases is a prefix of one message in the key's honest history,
   whole message iff clean end — or the input exhibits a forged Ed25519
   signature or a SHA-512 collision.  Only property theorems here.
   LOCATED BREAKS: every witness of the break disjunct lies in a finite list computed by a
   fixed function from (the primitives, this input and the receiver's keys) or from (the
   primitives, the honest history): a forged tag/signature is one of the pairs the receiver
   actually checked on this input; a SHA-512 collision is between one string the receiver
   hashed while processing this input and one string the honest party hashed while producing
   its history.  (An unrestricted "exists x <> y with equal hashes" is true of real SHA-512 by
   pigeonhole and would make the disjunction empty of content.) *)
From Coq Require Import List NArith ZArith.
From Coq.Strings Require Import Byte.
From SP Require Import Bytes Params Msgpack Crypto Errors Packets Chunker Rand Sign Verify SignProofs SignAuthProofs SignAuthLocated.
From SP Require Import Nonce Packets Signcrypt GoLang GoLang2 GoAst GoAstProofs GoAstProofs2 GoAstProofs3 GoAstProofs4b.
From SP Require Import GoAstRecv.
From SP Require GoAstOpen GoAstProofs5a GoAstProofs7c.
From Coq Require String.
Import String.StringSyntax.
Import ListNotations.
Open Scope N_scope.

Section C06.
Variable c : crypto.
Hypothesis Hsha : forall x, length (sha512 c x) = 64%nat.

Theorem C06_authentic (vd : validator) (kr : sigring) (input : bytes) (pk : bytes) (out : stream_out)
        (L : list (sign_event)) :
  Forall event_ok L -> headers_distinct pk L ->
  N.of_nat (length input) < 18446744073709551616 -> len pk < 4294967296 ->
  verify_stream c vd kr input = Ok (pk, out) ->
  (so_chunks out = [] /\ so_end out <> EOF) \/
  (exists v nonce ps,
      In (EvAttached v nonce ps) L /\
      list_prefix (so_chunks out) (map fst ps) /\
      (so_end out = EOF -> so_chunks out = map fst ps))
  \/ AttBreak c vd pk L input.
Proof. exact (attached_authentic_located c Hsha vd kr input pk out L). Qed.

Theorem C06_all_at_once (vd : validator) (kr : sigring) (input : bytes) (pk msg : bytes)
        (L : list (sign_event)) :
  Forall event_ok L -> headers_distinct pk L ->
  N.of_nat (length input) < 18446744073709551616 -> len pk < 4294967296 ->
  verify_all c vd kr input = Ok (pk, msg) ->
  (exists v nonce ps, In (EvAttached v nonce ps) L /\ msg = concat (map fst ps))
  \/ AttBreak c vd pk L input.
Proof. exact (attached_authentic_all_located c Hsha vd kr input pk msg L). Qed.
End C06.

(* SOURCE TIE: the terms f_saltpack_* are generated on every run from the Go syntax trees of
   /repo (harness/cmd/gen/goast.go); under the Go semantics of model/GoLang.v, with the standard
   library / NaCl primitives interpreted by ext_prims over the crypto record and calls to other
   saltpack functions interpreted by the model (each of those has its own such theorem), they
   compute exactly what the model says, for ALL arguments and EVERY instance of the primitives. *)
Local Open Scope string_scope.
Theorem C06_source_verify_processBlock (c : crypto) (v : version) (pk hh sig chunk : bytes) (n : N) (final : bool) :
  (n < 18446744073709551615)%N ->
  (vmaj v = 1 \/ vmaj v = 2)%Z ->
  run_func (ext_model c) f_saltpack_verifyStream_processBlock
               [VStruct [("publicKey", VBytes pk); ("header", VStruct [("Version", g_version v)]); ("headerHash", VBytes hh)];
                VBytes sig; VBytes chunk; VBool final; VInt (Z.of_N n + 1)]
  = match attached_sig_input c v hh chunk n final with
    | Some inp => if ed_verify c pk inp sig then ORet [VNil] else ORet [VErr "ErrBadSignature" []]
    | None => OPanic
    end.
Proof. exact (go_verify_processBlock_outcome c v pk hh sig chunk n final). Qed.
Local Close Scope string_scope.

Theorem C06_source_attachedSignatureInput (c : crypto) (v : version) (hh chunk : bytes) (seqno : N) (final : bool) :
  (seqno < 18446744073709551616)%N ->
  run_func (ext_prims c) f_saltpack_attachedSignatureInput
           [g_version v; VBytes hh; VBytes chunk; VInt (Z.of_N seqno); VBool final]
  = ret_bytes (attached_sig_input c v hh chunk seqno final).
Proof. exact (go_attachedSignatureInput c v hh chunk seqno final). Qed.

(* SOURCE TIE (per-packet glue): the translated verifyStream.getNextChunk of /repo, run on a receiver object
   holding the unconsumed input BYTES and Go's packet counter, returns exactly what one step of the model's
   receive loop says and leaves the stream advanced — for ALL inputs.  `C06_source_verify_loop_is_step` shows the model's
   loop is that step followed by the end-of-stream check or the next iteration. *)
Theorem C06_source_verify_getNextChunk (c : crypto) (h : header) (pk hh : bytes) (n : N) (input : bytes) :
  (vmaj (h_version h) = 1 \/ vmaj (h_version h) = 2)%Z ->
  (n < 18446744073709551616)%N ->
  chunk_spec "v" VBytes (fun rest => g_vs h pk hh (g_mps rest (n + 1)))
             (verify_step c (h_version h) pk hh n input)
             (run_func2 (ext_chunk c TBytes) f_saltpack_verifyStream_getNextChunk [g_vs h pk hh (g_mps input n)]).
Proof. exact (go_verify_getNextChunk c h pk hh n input). Qed.

Theorem C06_source_verify_loop_is_step (c : crypto) (fuel : nat) (v : version) (pk hh : bytes) (n : N) (input : bytes) (acc : list bytes) :
  verify_loop c (S fuel) v pk hh n input acc =
  match verify_step c v pk hh n input with
  | Err e => mkOut (rev_append acc []) e
  | Ok (chunk, final, rest) =>
    if final then mkOut (rev_append (chunk :: acc) []) (assert_end_of_stream rest)
    else verify_loop c fuel v pk hh (n + 1) rest (chunk :: acc)
  end.
Proof. exact (verify_loop_step c fuel v pk hh n input acc). Qed.

(* the signature receiver's header reading: error class, or the header hash / decoded header / advanced
   stream left in the receiver object, as the model's verify_read_header says, for ALL input bytes *)
Local Open Scope string_scope.
Theorem C06_source_verify_readHeader (c : crypto) (vd : validator) (typ : Z) (input : bytes) (s : Z) :
  typ = mt_attached \/ typ = mt_detached ->
  let r := run_func2 (ext_vhdr c vd) f_saltpack_verifyStream_readHeader
                     [VStruct [("mps", g_mps_raw input s)]; VNil; VInt typ] in
  match verify_read_header c vd typ input with
  | Ok (h, hh, rest) =>
    fst r = ORet [VNil] /\
    lookup "v" (snd r) = Some (g_vs_after_header h hh (g_mps_raw rest ((s + 1) mod two64)))
  | Err Unmodelled => fst r = OStuck "call"
  | Err e => exists ev, fst r = ORet [ev] /\ hdr_err_class ev = Some e
  end.
Proof. exact (go_verify_readHeader c vd typ input s). Qed.
Local Close Scope string_scope.

(* ---- source ties: the entry-point glue of the ATTACHED-signature receiver (/repo/verify.go, verify_stream.go,
        common.go), lemmas of proofs/GoAstProofs7c.v ---- *)
(* The terms f_saltpack_assertEndOfStream, readSignatureBlock, newVerifyStream, NewVerifyStream and Verify are
   generated on every run from the Go syntax trees of /repo (gen/GoAstOpen.v) and run by the evaluator of
   model/GoLang2.v (run_func2: outcome AND final environment) on ENCODED arguments.  A msgpack stream is
   [g_mps_raw input s]: the input BYTES not yet consumed and Go's packet counter s; a reader that cannot fail
   (a *bytes.Buffer, bytes.NewReader) is the bytes it holds (rdr_bytes r = Some input says which bytes r holds, it
   does not restrict them); a SigningPublicKey object is [g_spk pk]; the version validator VV and the keyring KR are
   opaque values whose meaning is in the externs (vd, kr).  msgpackStream.Read(&x) = ext_read ty: the model's parser
   on the remaining input, then go-codec's decoding at the STATIC type ty of x (the translator records it in the
   declaration of x, so the extern is taken at the type the version selects: sig_target v), returning (seqno, err) and
   then the advanced stream and the decoded value.  Calls of saltpack functions have the MODEL's meaning, and the
   compose_ theorems show that these meanings ARE the outcomes of the translated callees.  An extern has NO value
   where the model says Unmodelled or where the callee panics: the evaluator is then stuck at that call
   (OStuck "call"), and the statements say exactly when.  nvs_outcome / verify_outcome (GoAstProofs7c.v) are what
   NewVerifyStream / Verify return, as Go values; verify_class reads such an outcome back as a result of the model.
   LIMITS: a reader failing in mid-packet is not modelled; "reading the returned chunk reader to the end yields the
   model's loop" is the meaning of an extern inside Verify, its pieces being C13_source_chunkReader_Read and
   C06_source_verify_getNextChunk / C06_source_verify_loop_is_step. *)
Section C06_source_entry.
Import GoAstOpen GoAstProofs5a GoAstProofs7c.
Local Open Scope string_scope.

(* assertEndOfStream(stream) returns the Go value of the model's assert_end_of_stream of the remaining input
   (ErrTrailingGarbage / io.EOF / decode error; stuck where the model says Unmodelled), and the stream is advanced past
   the object read, or left as it was after a failed read.  No hypothesis (any input, any start counter). *)
Theorem C06_source_assertEndOfStream (input : bytes) (s : Z) :
  let r := run_func2 (ext_read TAny) f_saltpack_assertEndOfStream [g_mps_raw input s] in
  match GoAstProofs4b.g_err (assert_end_of_stream input) with
  | Some ev => fst r = ORet [ev]
  | None => fst r = OStuck "call"
  end /\
  match mp_read input with
  | POk _ rest => lookup "stream" (snd r) = Some (g_mps_raw rest ((s + 1) mod two64))
  | PShort | PBad => lookup "stream" (snd r) = Some (g_mps_raw input s)
  | PUnmod => True
  end.
Proof. exact (go_assertEndOfStream input s). Qed.

(* the struct decoders of ext_read are the model's view: view_sig_block of a packet is go-codec's decoding into
   signatureBlockV1 [sig, chunk] (isFinal computed from the chunk being empty, as the code does) or signatureBlockV2
   [final, sig, chunk], followed by what the Go code computes from the fields.  No hypothesis. *)
Theorem C06_source_view_sig_block_struct (v : version) (m : mval) :
  view_sig_block v m =
  if (vmaj v =? 1)%Z
  then dbind (view_sbV1 m) (fun x => DOk (fst x, snd x, match snd x with [] => true | _ => false end))
  else dbind (view_sbV2 m) (fun x => DOk (snd (fst x), snd x, fst (fst x))).
Proof. exact (view_sig_block_struct v m). Qed.

(* readSignatureBlock(version, mps): for major version 1 or 2 (ver12) the five results are the model's view_sig_block
   of the next packet (signature, chunk, isFinal) with the packet's seqno and nil, the stream advanced (blk_spec,
   case RdOk); or (nil, nil, false, 0, err) with the stream unchanged (RdErr); stuck where the model says Unmodelled
   (RdNone); for any other major version the function panics.  No hypothesis (any start counter). *)
Theorem C06_source_readSignatureBlock (v : version) (input : bytes) (s : Z) :
  let r := run_func2 (ext_read (sig_target v)) f_saltpack_readSignatureBlock [g_version v; g_mps_raw input s] in
  if ver12 v
  then blk_spec (fun x : bytes * bytes * bool => [VBytes (fst (fst x)); VBytes (snd (fst x)); VBool (snd x)])
                input s (mps_read (view_sig_block v) (g_mps_raw input s)) r
  else r = (OPanic, []).
Proof. exact (go_readSignatureBlock v input s). Qed.

(* newVerifyStream(vv, r, msgType), r any error-free reader over the input bytes, returns (the verifyStream object
   g_vs_new: stream advanced past the header packet, header, header hash, no key yet; nil) or (nil, the error of the
   model's verify_read_header); stuck where the model says Unmodelled.  Hypotheses: rdr_bytes r = Some input (which
   bytes r holds); msgType is MessageTypeAttachedSignature or MessageTypeDetachedSignature (sig_type_ok: the two
   constants its callers pass; otherwise validate returns ErrInvalidParameter, which the model does not have). *)
Theorem C06_source_newVerifyStream (c : crypto) (vd : validator) (VV r : gval) (input : bytes) (typ : Z) :
  rdr_bytes r = Some input -> sig_type_ok typ = true ->
  fst (run_func2 (ext_nvs c vd) f_saltpack_newVerifyStream [VV; r; VInt typ])
  = match verify_read_header c vd typ input with
    | Ok (h, hh, rest) => ORet [g_vs_new h hh (g_mps_raw rest 1); VNil]
    | Err e => match g_herr e with Some ev => ORet [VNil; ev] | None => OStuck "call" end
    end.
Proof. exact (go_newVerifyStream c vd VV r input typ). Qed.

(* NewVerifyStream(vv, r, keyring) returns nvs_outcome: the header error, ErrNoSenderKey{sender}, or the signer's key,
   the chunk reader over the verifyStream object with publicKey set, nil.  Hypothesis: rdr_bytes r = Some input. *)
Theorem C06_source_NewVerifyStream (c : crypto) (vd : validator) (kr : sigring) (VV r KR : gval) (input : bytes) :
  rdr_bytes r = Some input ->
  fst (run_func2 (ext_NVS c vd kr) f_saltpack_NewVerifyStream [VV; r; KR])
  = nvs_outcome c vd kr input.
Proof. exact (go_NewVerifyStream c vd kr VV r KR input). Qed.

(* NewVerifyStream against the model's verify_stream: the same error class; on success the signer and the chunk reader
   over the verifyStream object holding exactly the state the model's verify_loop starts from (header version, key,
   header hash, packet counter, remaining input), whose run is the model's output.  No hypothesis. *)
Theorem C06_source_nvs_outcome_model (c : crypto) (vd : validator) (kr : sigring) (input : bytes) :
  match verify_stream c vd kr input with
  | Ok (pk, out) =>
    exists h hh rest,
      verify_read_header c vd mt_attached input = Ok (h, hh, rest) /\
      nvs_outcome c vd kr input = ORet [g_spk pk; g_cr_new (g_vs_key h hh pk (g_mps_raw rest 1)); VNil] /\
      out = verify_loop c (S (List.length rest)) (h_version h) pk hh 0 rest []
  | Err e =>
    match g_herr e with
    | Some (VErr n _) => exists a, nvs_outcome c vd kr input = ORet [VNil; VNil; VErr n a]
    | _ => nvs_outcome c vd kr input = OStuck "call"
    end
  end.
Proof. exact (nvs_outcome_model c vd kr input). Qed.

(* Verify(vv, signedMsg, keyring), the all-at-once entry point (NewVerifyStream inside it = the model's verify_stream,
   io.ReadAll = all chunks and the ending error unless io.EOF), returns verify_outcome: the signer and the
   concatenated chunks when the stream ends cleanly, (nil, nil, err) when it ends with an error, the constructor's
   error otherwise.  No hypothesis. *)
Theorem C06_source_Verify (c : crypto) (vd : validator) (kr : sigring) (VV KR : gval) (input : bytes) :
  fst (run_func2 (ext_verify c vd kr) f_saltpack_Verify [VV; VBytes input; KR])
  = verify_outcome c vd kr input.
Proof. exact (go_Verify c vd kr VV KR input). Qed.

(* Verify against the model: the class of what it returns is the model's verify_all (the function C06_all_at_once
   and C06_authentic are about).  Hypothesis: the outcome is not the stuck evaluator (the model says Unmodelled or a
   panic). *)
Theorem C06_source_verify_outcome_model (c : crypto) (vd : validator) (kr : sigring) (input : bytes) :
  verify_outcome c vd kr input <> OStuck "call" ->
  verify_class (verify_outcome c vd kr input) = verify_all c vd kr input.
Proof. exact (verify_outcome_model c vd kr input). Qed.

(* COMPOSITION.  The meaning GoAstProofs4b.ext_chunk gives to the call readSignatureBlock inside getNextChunk
   (C06_source_verify_getNextChunk) IS the outcome of the translated function: its five results, and the stream
   written back; no value exactly where the callee is stuck ("call") or panics (another major version).
   No hypothesis. *)
Theorem C06_source_compose_readSignatureBlock (c : crypto) (ty : read_target) (v : version) (input : bytes) (s : Z) :
  let r := run_func2 (ext_read (sig_target v)) f_saltpack_readSignatureBlock [g_version v; g_mps_raw input s] in
  match ext_chunk c ty "readSignatureBlock" [g_version v; g_mps_raw input s] with
  | Some rs => fst r = ORet (firstn 5 rs) /\ lookup "mps" (snd r) = nth_error rs 6
  | None => if ver12 v then fst r = OStuck "call" else r = (OPanic, [])
  end.
Proof. exact (compose_readSignatureBlock c ty v input s). Qed.

(* the same for assertEndOfStream (called by the getNextChunk of all three receivers).  No hypothesis. *)
Theorem C06_source_compose_assertEndOfStream (c : crypto) (ty : read_target) (input : bytes) (s : Z) :
  fst (run_func2 (ext_read TAny) f_saltpack_assertEndOfStream [g_mps_raw input s])
  = match ext_chunk c ty "assertEndOfStream" [g_mps_raw input s] with Some rs => ORet rs | None => OStuck "call" end.
Proof. exact (compose_assertEndOfStream c ty input s). Qed.

(* the meaning ext_vdet (VerifyDetachedReader, NewVerifyStream) gives to the call newVerifyStream is the outcome of the
   translated newVerifyStream.  Hypothesis: msgType is one of the two signature types. *)
Theorem C06_source_compose_newVerifyStream (c : crypto) (vd : validator) (kr : sigring) (VV : gval) (input : bytes) (typ : Z) :
  sig_type_ok typ = true ->
  fst (run_func2 (ext_nvs c vd) f_saltpack_newVerifyStream [VV; VBytes input; VInt typ])
  = match ext_vdet c vd kr "newVerifyStream" [VV; VBytes input; VInt typ] with Some rs => ORet rs | None => OStuck "call" end.
Proof. exact (compose_newVerifyStream c vd kr VV input typ). Qed.

(* the meaning ext_nvs (newVerifyStream) gives to the call verifyStream.readHeader, on the object
   C06_source_verify_readHeader is stated on, gives that theorem's results: nil and the same receiver object, or an
   error of the same class.  Hypothesis: the message type is attached or detached. *)
Theorem C06_source_compose_verify_readHeader (c : crypto) (vd : validator) (typ : Z) (input : bytes) (s : Z) :
  typ = mt_attached \/ typ = mt_detached ->
  let r := run_func2 (ext_vhdr c vd) GoAstRecv.f_saltpack_verifyStream_readHeader
                     [VStruct [("mps", g_mps_raw input s)]; VNil; VInt typ] in
  match ext_nvs c vd "verifyStream.readHeader" [VStruct [("mps", g_mps_raw input s)]; VNil; VInt typ] with
  | Some [VNil; obj] => fst r = ORet [VNil] /\ lookup "v" (snd r) = Some obj
  | Some [ev'] => exists ev, fst r = ORet [ev] /\ hdr_err_class ev = hdr_err_class ev'
  | _ => fst r = OStuck "call"
  end.
Proof. exact (compose_verify_readHeader c vd typ input s). Qed.
End C06_source_entry.

Print Assumptions C06_source_assertEndOfStream.
Print Assumptions C06_source_view_sig_block_struct.
Print Assumptions C06_source_readSignatureBlock.
Print Assumptions C06_source_newVerifyStream.
Print Assumptions C06_source_NewVerifyStream.
Print Assumptions C06_source_nvs_outcome_model.
Print Assumptions C06_source_Verify.
Print Assumptions C06_source_verify_outcome_model.
Print Assumptions C06_source_compose_readSignatureBlock.
Print Assumptions C06_source_compose_assertEndOfStream.
Print Assumptions C06_source_compose_newVerifyStream.
Print Assumptions C06_source_compose_verify_readHeader.
Print Assumptions C06_source_verify_getNextChunk.
Print Assumptions C06_source_verify_loop_is_step.
Print Assumptions C06_source_verify_readHeader.
Print Assumptions C06_source_verify_processBlock.
Print Assumptions C06_source_attachedSignatureInput.
Print Assumptions C06_authentic.
Print Assumptions C06_all_at_once.

(* Non-vacuity: on the toy instance a genuine two-chunk history satisfies the premises
   and the verifier really releases its chunks (the middle disjunct is inhabited). *)
From SP Require Import ToyCrypto ToyCryptoProofs.
Example C06_ex_genuine :
  let sk := repeat x07 64 in
  match sign_attached_stream toy_crypto v2 sk [[x68; x69]] (repeat x01 16) with
  | Ok (out, _) =>
    match verify_stream toy_crypto AnyKnownMajor [ed_pub toy_crypto sk] out with
    | Ok (_, o) => Some (so_chunks o, so_end o)
    | Err _ => None
    end
  | Err _ => None
  end = Some ([[x68; x69]], EOF).
Proof. vm_compute. reflexivity. Qed.

(* ===== BEGIN props/C06.v ===== *)
(* ---- END TO END (source level): what the TRANSLATED saltpack.Verify / NewVerifyStream release was signed by the key they
   return (composition of go_Verify + verify_outcome_model / go_NewVerifyStream + the per-chunk tie on the constructor's
   object with C06_all_at_once / C06_authentic); proofs/GoEndToEndAuth.v. ---- *)
From SP Require GoAstOpen GoAstRecv GoAstProofs4b GoAstProofs5a GoAstProofs7c GoEndToEndAuth.
Section C06_source_end_to_end.
Import GoLang GoLang2 GoAstOpen GoAstRecv GoAstProofs4b GoAstProofs7c GoEndToEndAuth.
Local Open Scope string_scope.

Theorem C06_source_end_to_end_Verify (c : crypto) (Hsha : forall x, List.length (sha512 c x) = 64%nat)
        (vd : validator) (kr : sigring) (VV KR : gval) (input pk msg : bytes) (L : list sign_event) :
  Forall event_ok L -> headers_distinct pk L ->
  (N.of_nat (List.length input) < 18446744073709551616)%N -> (len pk < 4294967296)%N ->
  verify_class (fst (run_func2 (ext_verify c vd kr) f_saltpack_Verify [VV; VBytes input; KR])) = Ok (pk, msg) ->
  (exists v nonce ps, In (EvAttached v nonce ps) L /\ msg = List.concat (map fst ps))
  \/ AttBreak c vd pk L input.
Proof. exact (go_Verify_authentic c Hsha vd kr VV KR input pk msg L). Qed.

Theorem C06_source_end_to_end_Verify_nil_error (c : crypto) (Hsha : forall x, List.length (sha512 c x) = 64%nat)
        (vd : validator) (kr : sigring) (VV KR : gval) (input : bytes) (sg body : gval) (L : list sign_event) :
  Forall event_ok L ->
  (N.of_nat (List.length input) < 18446744073709551616)%N ->
  fst (run_func2 (ext_verify c vd kr) f_saltpack_Verify [VV; VBytes input; KR]) = ORet [sg; body; VNil] ->
  exists pk msg,
    sg = g_spk pk /\ body = VBytes msg /\
    (headers_distinct pk L -> (len pk < 4294967296)%N ->
     (exists v nonce ps, In (EvAttached v nonce ps) L /\ msg = List.concat (map fst ps))
     \/ AttBreak c vd pk L input).
Proof. exact (go_Verify_authentic_nil_error c Hsha vd kr VV KR input sg body L). Qed.

Theorem C06_source_end_to_end_NewVerifyStream (c : crypto) (Hsha : forall x, List.length (sha512 c x) = 64%nat)
        (vd : validator) (kr : sigring) (VV r KR : gval) (input : bytes) (sg rdr : gval) (L : list sign_event) :
  Forall event_ok L ->
  (N.of_nat (List.length input) < 18446744073709551616)%N ->
  rdr_bytes r = Some input ->
  fst (run_func2 (ext_NVS c vd kr) f_saltpack_NewVerifyStream [VV; r; KR]) = ORet [sg; rdr; VNil] ->
  exists pk obj,
    sg = g_spk pk /\ rdr = g_cr_new obj /\
    (headers_distinct pk L -> (len pk < 4294967296)%N ->
     forall F, (N.of_nat F <= 18446744073709551616)%N ->
       let d := go_drain (ext_chunk_key c TBytes) f_saltpack_verifyStream_getNextChunk "v" F obj in
       exists chunks tl,
         fst d = (chunks ++ tl)%list /\ (tl = [] \/ tl = [[]]) /\
         ((chunks = [] /\ snd d <> Some (VErr "io.EOF" [])) \/
          (exists v nonce ps,
              In (EvAttached v nonce ps) L /\
              list_prefix chunks (map fst ps) /\
              (snd d = Some (VErr "io.EOF" []) -> chunks = map fst ps))
          \/ AttBreak c vd pk L input)).
Proof. exact (go_NewVerifyStream_authentic c Hsha vd kr VV r KR input sg rdr L). Qed.
End C06_source_end_to_end.
Print Assumptions C06_source_end_to_end_Verify.
Print Assumptions C06_source_end_to_end_Verify_nil_error.
Print Assumptions C06_source_end_to_end_NewVerifyStream.

(* ============================== BLOCK 4: append to props/C06.v ============================== *)
From SP Require Spec Msgpack AcceptDefs AcceptSignProofs SignAuthLocated GoAstOpen GoAstRecv GoAstProofs4b GoAstProofs5a GoAstProofs7c GoEndToEndAuth GoAstProofs8c.
Section C06_source_end_to_end_read.
Import Spec Msgpack AcceptDefs AcceptSignProofs SignAuthLocated GoLang GoLang2 GoAstOpen GoAstRecv GoAstProofs4b GoAstProofs7c GoEndToEndAuth GoAstProofs8c.
Local Open Scope string_scope.

Theorem C06_source_end_to_end_read_NewVerifyStream (c : crypto) (Hsha : forall x, List.length (sha512 c x) = 64%nat)
        (vd : validator) (kr : sigring) (VV r KR : gval) (input : bytes)
        (sg rdr : gval) (L : list sign_event) :
  Forall event_ok L ->
  (N.of_nat (List.length input) < 18446744073709551616)%N ->
  rdr_bytes r = Some input ->
  fst (run_func2 (ext_NVS c vd kr) f_saltpack_NewVerifyStream [VV; r; KR]) = ORet [sg; rdr; VNil] ->
  exists pk obj,
    sg = g_spk pk /\ rdr = g_cr_new obj /\
    (headers_distinct pk L -> (len pk < 4294967296)%N ->
     forall F bufs, (10 <= F)%nat -> (S (List.length input) < F)%nat -> Forall (fun b : bytes => b <> []) bufs ->
       reads_auth_shape
         (fun full => exists v nonce ps, In (EvAttached v nonce ps) L /\ full = map fst ps)
         (AttBreak c vd pk L input)
         (go_reads (gnc_ver c) F bufs rdr 0)).
Proof. exact (go_NewVerifyStream_read_authentic c Hsha vd kr VV r KR input sg rdr L). Qed.

Theorem C06_source_end_to_end_read_of_model (c : crypto) (vd : validator) (kr : sigring) (VV KR rd : gval)
        (wire : bytes) (pk : bytes) (out : stream_out) :
  verify_stream c vd kr wire = Ok (pk, out) ->
  rdr_bytes rd = Some wire ->
  (N.of_nat (List.length wire) < 18446744073709551616)%N ->
  exists (h : header) (hh rest : bytes) (obj : gval),
    verify_read_header c vd mt_attached wire = Ok (h, hh, rest) /\
    fst (run_func2 (ext_NVS c vd kr) f_saltpack_NewVerifyStream [VV; rd; KR]) = ORet [g_spk pk; g_cr_new obj; VNil] /\
    forall F bufs, (10 <= F)%nat -> (S (List.length wire) < F)%nat -> Forall (fun p : bytes => p <> []) bufs ->
      let res := go_reads (gnc_ver c) F bufs (g_cr_new obj) 0 in
      if ver12 (h_version h)
      then reads_spec res (List.concat (so_chunks out)) (so_end out) /\
           ((List.length (List.concat (so_chunks out)) + List.length wire + 2 <= List.length bufs)%nat -> reads_done res)
      else bufs <> [] -> res = None.
Proof. exact (go_NewVerifyStream_reads_of_model c vd kr VV KR rd wire pk out). Qed.

Theorem C06_source_end_to_end_read_accepts_spec (c : crypto) (Hc : crypto_ok c) (p : S_sig) (kr : sigring) (vd : validator)
        (VV KR rd : gval) :
  sig_params_ok p ->
  (len (mp_encode (S_sig_header_list c p S_mode_attached)) < 4294967296)%N ->
  admits vd (ss_major p) (ss_minor p) -> In (ed_pub c (ss_sk p)) kr ->
  rdr_bytes rd = Some (S_encode_attached c p) ->
  (N.of_nat (List.length (S_encode_attached c p)) < 18446744073709551616)%N ->
  exists obj : gval,
    fst (run_func2 (ext_NVS c vd kr) f_saltpack_NewVerifyStream [VV; rd; KR]) = ORet [g_spk (ed_pub c (ss_sk p)); g_cr_new obj; VNil] /\
    forall F bufs, (10 <= F)%nat -> (S (List.length (S_encode_attached c p)) < F)%nat -> Forall (fun b : bytes => b <> []) bufs ->
      let res := go_reads (gnc_ver c) F bufs (g_cr_new obj) 0 in
      reads_spec res (List.concat (ss_chunks p)) EOF /\
      ((List.length (List.concat (ss_chunks p)) + List.length (S_encode_attached c p) + 2 <= List.length bufs)%nat ->
       res = Some (Z.of_nat (List.length (List.concat (ss_chunks p))), VErr "io.EOF" [])).
Proof. exact (go_NewVerifyStream_read_accepts_spec c Hc p kr vd VV KR rd). Qed.
End C06_source_end_to_end_read.
Print Assumptions C06_source_end_to_end_read_NewVerifyStream.
Print Assumptions C06_source_end_to_end_read_of_model.
Print Assumptions C06_source_end_to_end_read_accepts_spec.

