(* C18 — Fresh secrets for every message; fail closed when randomness fails.
   The randomness source is an explicit byte stream: "fresh" means every secret of
   a message is a segment of the stream that no other draw of this or a later
   operation overlaps, so secrets repeat only if the source repeats.
   Only property theorems here, each closed by `exact` of a lemma from proofs/. *)
From Coq Require Import List NArith ZArith Permutation.
From Coq.Strings Require Import Byte.
From SP Require Import Bytes Params Msgpack Crypto Errors Nonce Packets Chunker Rand Sign Verify Encrypt Decrypt Signcrypt
     SignProofs EncryptProofs SigncryptProofs FreshProofs.
From SP Require GoAst GoAstProofs2 GoLang GoLang2 GoAstSend GoAstSign GoAstProofs GoAstProofs5a GoAstProofs6a GoAstProofs6b RandFailSource.
From Coq Require String.
Import String.StringSyntax.
Import ListNotations.
Open Scope N_scope.

(* signatures: the header nonce is exactly the first 16 bytes of the stream and
   the rest of the stream (what the next operation will see) starts right after them *)
Theorem C18_sign_nonce_is_drawn (c : crypto) (v : version) (sk : bytes) (pieces : list bytes) (r r' : rng) (out : bytes) :
  sign_attached_stream c v sk pieces r = Ok (out, r') ->
  exists body,
    out = mp_encode (MBin (mp_encode (mv_sig_header v mt_attached (ed_pub c sk) (firstn 16 r)))) ++ body /\
    r' = skipn 16 r.
Proof. exact (sign_header_nonce c v sk pieces r r' out). Qed.

(* encryption: after the shuffle's own draws (a prefix of the stream), the ephemeral
   secret and the payload key are the next two disjoint 32-byte segments, and the
   operation hands on exactly what follows them *)
Theorem C18_seal_secrets_are_drawn (c : crypto) (v : version) (sender : option bytes) (rcpts : list rcpt)
        (pieces : list bytes) (r r' : rng) (out : bytes) :
  seal_stream c v sender rcpts pieces r = Ok (out, r') ->
  (v = v1 \/ v = v2) /\ NoDup (map fst rcpts) /\ rcpts <> [] /\
  N.of_nat (length rcpts) < 4294967296 /\
  exists rs r1 eph_sk pkey,
    shuffle rcpts r = Some (rs, r1) /\ Permutation rcpts rs /\
    eph_sk = firstn 32 r1 /\ pkey = firstn 32 (skipn 32 r1) /\ r' = skipn 64 r1 /\
    (64 <= length r1)%nat /\
    seal_core c v sender eph_sk pkey rs pieces = Ok out.
Proof. exact (seal_stream_core c v sender rcpts pieces r r' out). Qed.

Theorem C18_signcrypt_secrets_are_drawn (c : crypto) (signer : option bytes) (boxes : list bytes) (syms : list (bytes * bytes))
        (pieces : list bytes) (r r' : rng) (out : bytes) :
  signcrypt_seal_stream c signer boxes syms pieces r = Ok (out, r') ->
  let all := map BoxRcpt boxes ++ map (fun s => SymRcpt (fst s) (snd s)) syms in
  all <> [] /\ N.of_nat (length all) < 4294967296 /\
  exists rs r1 eph_sk pkey,
    shuffle all r = Some (rs, r1) /\ Permutation all rs /\
    eph_sk = firstn 32 r1 /\ pkey = firstn 32 (skipn 32 r1) /\ r' = skipn 64 r1 /\
    (64 <= length r1)%nat /\
    signcrypt_core c signer eph_sk pkey rs pieces = Ok out.
Proof. exact (signcrypt_seal_stream_core c signer boxes syms pieces r r' out). Qed.

Theorem C18_shuffle_consumes_a_prefix (A : Type) (l l' : list A) (r r' : rng) :
  shuffle l r = Some (l', r') -> exists pre, r = pre ++ r'.
Proof. exact (shuffle_suffix l l' r r'). Qed.

(* within one message no two chunks are protected under the same key and nonce *)
Theorem C18_chunk_nonces_distinct_encryption (i j : N) :
  i < 18446744073709551615 -> j < 18446744073709551615 -> i <> j ->
  nonce_chunk_secretbox i <> nonce_chunk_secretbox j.
Proof. exact (enc_chunk_nonces_distinct i j). Qed.

Theorem C18_chunk_nonces_distinct_signcryption (hh : bytes) (f f' : bool) (i j : N) :
  i < 18446744073709551615 -> j < 18446744073709551615 -> i <> j ->
  nonce_chunk_signcryption hh f i <> nonce_chunk_signcryption hh f' j.
Proof. exact (sc_chunk_nonces_distinct hh f f' i j). Qed.

(* the block counter that feeds the nonce is refused at 2^64-1 (ErrPacketOverflow) *)
Theorem C18_counter_bound : block_number_ok 18446744073709551614 = true /\ block_number_ok 18446744073709551615 = false.
Proof. vm_compute. split; reflexivity. Qed.

(* fail closed: the source failing (stream too short) at any of the draws makes the operation fail *)
Theorem C18_sign_fail_closed (c : crypto) (v : version) (sk : bytes) (pieces : list bytes) (msg : bytes) (r : rng) :
  (length r < 16)%nat -> known_version v = true ->
  sign_attached_stream c v sk pieces r = Err ErrRand /\
  sign_detached c v sk msg r = Err ErrRand.
Proof. exact (sign_rng_fail c v sk pieces msg r). Qed.

Theorem C18_seal_fail_closed (c : crypto) (v : version) sender rcpts pieces (r : rng) :
  known_version v = true -> check_receivers rcpts = Ok tt ->
  (shuffle rcpts r = None \/
   (exists rs r1, shuffle rcpts r = Some (rs, r1) /\ (length r1 < 64)%nat)) ->
  seal_stream c v sender rcpts pieces r = Err ErrRand.
Proof. exact (seal_rng_fail c v sender rcpts pieces r). Qed.

Theorem C18_signcrypt_fail_closed (c : crypto) signer boxes syms pieces (r : rng) :
  sc_check_receivers boxes syms = Ok tt ->
  let all := map BoxRcpt boxes ++ map (fun s => SymRcpt (fst s) (snd s)) syms in
  (shuffle all r = None \/
   (exists rs r1, shuffle all r = Some (rs, r1) /\ (length r1 < 64)%nat)) ->
  signcrypt_seal_stream c signer boxes syms pieces r = Err ErrRand.
Proof. exact (signcrypt_rng_fail c signer boxes syms pieces r). Qed.


(* ---- SOURCE TIES: fail closed, at the level of the Go source ----
   The terms f_saltpack_* are generated on every run from the Go syntax trees of /repo (harness/cmd/gen/goast.go).
   The constructors of the four sending streams, run by the evaluator of model/GoLang2.v with the randomness sources
   as explicit byte streams (the shuffle's source ra, the ephemeral-key creator's rb, the payload-key source rk/rc; the
   signature nonce source r), return the error value ErrRand and leave the stream object as it was - nothing has been
   handed to the output writer [enc_step] - whenever ANY of their draws cannot be served (the source is short or
   fails: shuffle / read_full = None), for every crypto record c, every writer, every argument that passes the earlier
   argument checks.  (Proofs: proofs/RandFailSource.v, corollaries of the init ties of GoAstProofs5a/6a/6b.v.) *)
Module C18_source.
Import GoLang GoLang2 GoAstSend GoAstSign GoAstProofs.
Local Open Scope string_scope.

Theorem C18_source_encrypt_init_fail_closed (c : crypto) (enc_step : gval -> bytes -> gval * GoAstProofs5a.gerr)
        (st : GoAstProofs5a.es_state) (v : version) (sender : option bytes) (rcpts : list rcpt) (ra rb rc : rng) :
  known_version v = true -> GoAstProofs5a.check_rcv_err rcpts = None ->
  (Z.of_nat (List.length rcpts) <= 2147483647)%Z ->
  (shuffle rcpts ra = None \/ read_full 32 rb = None \/ read_full 32 rc = None) ->
  let r := run_func2 (GoAstProofs5a.ext_init c enc_step) f_saltpack_encryptStream_init
                     [GoAstProofs5a.g_es st; g_version v; GoAstProofs5a.g_sender sender;
                      VList (map GoAstProofs5a.g_rcpt rcpts); VBytes rb; GoAstProofs5a.g_rng ra rc] in
  fst r = ORet [VErr "ErrRand" []] /\ lookup "es" (snd r) = Some (GoAstProofs5a.g_es st).
Proof. exact (RandFailSource.Enc.go_encrypt_init_fail_closed c enc_step st v sender rcpts ra rb rc). Qed.

(* ... and when init succeeds, the recipient order, the ephemeral secret and the payload key ARE what shuffle,
   read_full 32 and read_full 32 deliver from those sources, which are left advanced past exactly the bytes used *)
Theorem C18_source_encrypt_init_draws (c : crypto) (enc_step : gval -> bytes -> gval * GoAstProofs5a.gerr)
        (st st' : GoAstProofs5a.es_state) (v : version) (sender : option bytes) (rcpts : list rcpt)
        (ra rb rc ra' rb' rc' : rng) :
  GoAstProofs5a.es_init c enc_step st v sender rcpts ra rb rc = GoAstProofs5a.IRet None st' ra' rb' rc' ->
  exists rs eph_sk,
    shuffle rcpts ra = Some (rs, ra') /\
    read_full 32 rb = Some (eph_sk, rb') /\
    read_full 32 rc = Some (GoAstProofs5a.es_pk st', rc').
Proof. exact (RandFailSource.Enc.es_init_draws c enc_step st st' v sender rcpts ra rb rc ra' rb' rc'). Qed.

Theorem C18_source_signcrypt_init_fail_closed (c : crypto) (enc_step : gval -> bytes -> gval * GoAstProofs6b.gerr)
        (st : GoAstProofs6b.sss_state) (boxes : list bytes) (syms : list (bytes * bytes)) (ra rk rb : bytes) :
  sc_check_receivers boxes syms = Ok tt ->
  (shuffle (GoAstProofs6b.all_rcpts boxes syms) ra = None \/ read_full 32 rb = None \/ read_full 32 rk = None) ->
  let r := run_func2 (GoAstProofs6b.ext_init c enc_step) f_saltpack_signcryptSealStream_init
             [GoAstProofs6b.g_sss st; VList (map VBytes boxes); VList (map GoAstProofs6b.g_sym syms); VBytes rb;
              GoAstProofs6b.g_rng ra rk] in
  fst r = ORet [VErr "ErrRand" []] /\ lookup "sss" (snd r) = Some (GoAstProofs6b.g_sss st).
Proof. exact (RandFailSource.Sc.go_signcrypt_init_fail_closed c enc_step st boxes syms ra rk rb). Qed.

Theorem C18_source_sign_attached_new_fail_closed (c : crypto) (enc_step : gval -> bytes -> gval * GoAstProofs6a.gerr)
        (v : version) (w : gval) (sk : bytes) (r : rng) :
  known_version v = true -> read_full 16 r = None ->
  fst (run_func2 (GoAstProofs6a.ext_new c enc_step r) f_saltpack_newSignAttachedStream
                 [g_version v; w; GoAstProofs6a.g_signer (Some sk)])
  = ORet [VNil; VErr "ErrRand" []].
Proof. exact (RandFailSource.Sig.go_sign_attached_new_fail_closed c enc_step v w sk r). Qed.

Theorem C18_source_sign_detached_new_fail_closed (c : crypto) (enc_step : gval -> bytes -> gval * GoAstProofs6a.gerr)
        (v : version) (w : gval) (sk : bytes) (r : rng) :
  known_version v = true -> read_full 16 r = None ->
  fst (run_func2 (GoAstProofs6a.ext_new c enc_step r) f_saltpack_newSignDetachedStream
                 [g_version v; w; GoAstProofs6a.g_signer (Some sk)])
  = ORet [VNil; VErr "ErrRand" []].
Proof. exact (RandFailSource.Sig.go_sign_detached_new_fail_closed c enc_step v w sk r). Qed.
(* the block counter that feeds the chunk nonce: encryptionBlockNumber.check of /repo refuses exactly 2^64-1
   (the statement C18_counter_bound is about), for every counter value *)
Theorem C18_source_counter_check (n : N) :
  run_func GoAstProofs.no_ext GoAst.f_saltpack_encryptionBlockNumber_check [VInt (Z.of_N n)]
  = if block_number_ok n then ORet [VNil] else ORet [VErr "ErrPacketOverflow" []].
Proof. exact (GoAstProofs2.go_encryptionBlockNumber_check n). Qed.
End C18_source.

Print Assumptions C18_sign_nonce_is_drawn.
Print Assumptions C18_source.C18_source_encrypt_init_fail_closed.
Print Assumptions C18_source.C18_source_encrypt_init_draws.
Print Assumptions C18_source.C18_source_signcrypt_init_fail_closed.
Print Assumptions C18_source.C18_source_sign_attached_new_fail_closed.
Print Assumptions C18_source.C18_source_sign_detached_new_fail_closed.
Print Assumptions C18_source.C18_source_counter_check.
Print Assumptions C18_seal_secrets_are_drawn.
Print Assumptions C18_signcrypt_secrets_are_drawn.
Print Assumptions C18_shuffle_consumes_a_prefix.
Print Assumptions C18_chunk_nonces_distinct_encryption.
Print Assumptions C18_chunk_nonces_distinct_signcryption.
Print Assumptions C18_sign_fail_closed.
Print Assumptions C18_seal_fail_closed.
Print Assumptions C18_signcrypt_fail_closed.
