(* C19 — Sender and hidden-recipient identities stay hidden; recipient order is
   a uniformly distributed permutation.
   This file contains only the property theorems, each closed by `exact` of a
   lemma from proofs/, followed by (* SOURCE TIE: the term f_saltpack_csprngUint32n is generated on every run from the Go syntax tree of
   /repo's csprngUint32n (harness/cmd/gen/goast.go); under the Go semantics of model/GoLang.v it computes
   exactly what the model says, for ALL arguments.  An edit of that function in /repo changes
   the term and this theorem has to be re-established. *)
Theorem C19_source_csprngUint32n (n : N) (r : rng) :
  (0 < n < 4294967296)%N ->
  let o := run_func ext_rand f_saltpack_csprngUint32n [VBytes r; VInt (Z.of_N n)] in
  (exists w, o = OStuck w /\ (w = "loop fuel"%string \/ w = "fuel"%string)) \/
  o = match uint32n n r with
      | Some (k, _) => ORet [VInt (Z.of_N k); VNil]
      | None => ORet [VInt 0; VErr "ErrRand"%string []]
      end.
Proof. exact (go_csprngUint32n n r). Qed.

Print Assumptions C19_source_csprngUint32n.
Print Assumptions. *)
From Coq Require Import List NArith Permutation.
From SP Require Import Bytes Rand RandProofs.
From SP Require Import GoLang GoAst GoAstProofs.
From Coq Require String.
Import String.StringSyntax.
Import ListNotations.
Open Scope N_scope.

(* The code's two-stage rejection test (low < n, then low < thresh) is the single
   test low < 2^32 mod n. *)
Theorem C19_lemire_two_stage (n v : N) :
  0 < n -> lem_reject n v = (lem_low n v <? lem_thresh n).
Proof. exact (lemire_two_stage n v). Qed.
Print Assumptions C19_lemire_two_stage.

(* Exact uniformity of the bounded draw: for every n in [1, 2^32), the map
   (k,t) |-> ceil((k*2^32 + thresh)/n) + t sends [0,n) x [0, floor(2^32/n)) into
   the accepted 32-bit source values with output k ... *)
Theorem C19_lemire_uniform_onto (n k t : N) :
  0 < n -> n < two32 -> k < n -> t < two32 / n ->
  let v := cdiv (k * two32 + lem_thresh n) n + t in
  v < two32 /\ lem_reject n v = false /\ lem_out n v = k.
Proof. exact (lemire_uniform_onto n k t). Qed.
Print Assumptions C19_lemire_uniform_onto.

(* ... and every accepted source value is hit, by the pair (its output, its
   offset): so each result k has exactly floor(2^32/n) accepted pre-images. *)
Theorem C19_lemire_uniform_into (n v : N) :
  0 < n -> n < two32 -> v < two32 -> lem_reject n v = false ->
  lem_out n v < n /\
  exists t, t < two32 / n /\ v = cdiv (lem_out n v * two32 + lem_thresh n) n + t.
Proof. exact (lemire_uniform_into n v). Qed.
Print Assumptions C19_lemire_uniform_into.

(* The bounded-draw routine returns the output of the first accepted 4-byte
   big-endian draw and consumes exactly the draws up to it. *)
Theorem C19_uint32n_first_accept (n : N) (r r' : rng) (k : N) :
  0 < n ->
  uint32n n r = Some (k, r') ->
  exists (rejected : list N) (v : N),
    r = concat (map be32 rejected) ++ be32 v ++ r' /\
    Forall (fun w => w < two32 /\ lem_reject n w = true) rejected /\
    v < two32 /\ lem_reject n v = false /\ k = lem_out n v.
Proof. exact (uint32n_first_accept n r r' k). Qed.
Print Assumptions C19_uint32n_first_accept.

(* Fisher-Yates: the result is a permutation of the input, every arrangement is
   reached, and (for distinct items) by exactly one draw sequence
   j_{n-1} <= n-1, ..., j_1 <= 1 — whatever order the caller supplied. *)
Theorem C19_fisher_yates_perm (A : Type) (l : list A) (js : list nat) :
  Permutation l (fisher_yates l js).
Proof. exact (fisher_yates_perm l js). Qed.
Print Assumptions C19_fisher_yates_perm.

Theorem C19_fisher_yates_surj (A : Type) (l p : list A) :
  Permutation l p ->
  exists js, valid_draws (pred (length l)) js /\ fisher_yates l js = p.
Proof. exact (fisher_yates_surj l p). Qed.
Print Assumptions C19_fisher_yates_surj.

Theorem C19_fisher_yates_inj (A : Type) (l : list A) (js js' : list nat) :
  NoDup l ->
  valid_draws (pred (length l)) js -> valid_draws (pred (length l)) js' ->
  fisher_yates l js = fisher_yates l js' -> js = js'.
Proof. exact (fisher_yates_inj l js js'). Qed.
Print Assumptions C19_fisher_yates_inj.

(* The shuffle driven by the randomness source is Fisher-Yates on its accepted draws. *)
Theorem C19_shuffle_is_fisher_yates (A : Type) (l l' : list A) (r r' : rng) :
  N.of_nat (length l) < two32 ->
  shuffle l r = Some (l', r') ->
  exists js, valid_draws (pred (length l)) js /\ l' = fisher_yates l js.
Proof. exact (shuffle_is_fisher_yates l l' r r'). Qed.
Print Assumptions C19_shuffle_is_fisher_yates.

(* Non-vacuity: concrete instances evaluated by the kernel. *)
Example C19_ex_accept : lem_reject 6 4 = false /\ lem_out 6 4 = 0 /\ lem_reject 6 0 = true.
Proof. vm_compute. repeat split. Qed.
Example C19_ex_shuffle :
  shuffle [1; 2; 3; 4] (be32 1 ++ be32 4294967295 ++ be32 2147483648) = Some ([4; 2; 3; 1], []).
Proof. vm_compute. reflexivity. Qed.
