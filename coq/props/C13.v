(* C13 — Results never depend on how input or output streams are fragmented.
   Only property theorems here, each closed by `exact` of a lemma from proofs/.
   Read side: the saltpack adaptors (chunkReader, punctuatedReader) are proved to
   compute a function of the BYTES of their source under every fragmentation of the
   underlying reader (including data delivered together with EOF or another error)
   and every sequence of caller buffer sizes; so is the streaming base-X decoder
   (filteringReader + decoder of encoding/basex/stream.go, model/BxStream.v, compared
   call by call with basex.NewDecoder): what it delivers is a prefix of the one-shot
   decoding of the source's bytes, it ends cleanly only when that decoding succeeds and
   then has delivered all of it, and good input is always decoded completely.  The composed armored read stack
   (punctuatedReader, framedDecoderStream, base-X decoder = NewArmor62DecoderStream) refines the
   one-shot dearmor (theorems C13_armor_stream_...).  go-codec's reader on top of these stacks is PARTIAL:
   it is covered by the C13 campaign (16 fragmentations + exhaustive two-cut splits per input),
   not by a theorem.  Write side and buffer bounds are proved for every stream encoder. *)
From Coq Require Import List NArith ZArith.
From Coq.Strings Require Import Byte.
From SP Require Import Bytes Params Crypto Errors BaseX Encodings Chunker Armor Streams Rand Sign Encrypt Signcrypt
     ChunkerProofs SignProofs EncryptProofs SigncryptProofs StreamProofs BxStream BxStreamProofs ArmorStream ArmorStreamProofs.
From SP Require Import GoLang GoLang2 GoAst GoAstStreams GoAstProofs GoAstProofs2 GoAstProofs3 GoAstProofs4c GoAstProofs4d.
From Coq Require String.
Import String.StringSyntax.
Import ListNotations.

(* ---------------- write side ---------------- *)

(* the plaintext chunker shared by encrypt / sign / signcrypt streams *)
Theorem C13_write_oblivious_chunker (v : version) (B : nat) (pieces : list bytes) :
  (0 < B)%nat -> cw_session v B [] pieces = plan v B (concat pieces).
Proof. exact (cw_session_plan v B pieces). Qed.

Theorem C13_write_oblivious_sign (c : crypto) (v : version) (sk : bytes) (pieces : list bytes) (r : rng) :
  sign_attached_stream c v sk pieces r = sign_attached c v sk (concat pieces) r.
Proof. exact (sign_stream_oneshot c v sk pieces r). Qed.

Theorem C13_write_oblivious_seal (c : crypto) (v : version) (sender : option bytes) (rcpts : list rcpt)
        (pieces : list bytes) (r : rng) :
  seal_stream c v sender rcpts pieces r = seal c v sender rcpts (concat pieces) r.
Proof. exact (seal_stream_oneshot c v sender rcpts pieces r). Qed.

Theorem C13_write_oblivious_signcrypt (c : crypto) (signer : option bytes) boxes syms (pieces : list bytes) (r : rng) :
  signcrypt_seal_stream c signer boxes syms pieces r = signcrypt_seal_stream c signer boxes syms [concat pieces] r.
Proof. exact (signcrypt_stream_oneshot c signer boxes syms pieces r). Qed.

Theorem C13_write_oblivious_basex (e : encoding) (pieces : list bytes) :
  (0 < enc_ibl e)%N -> concat (bxe_session e [] pieces) = BaseX.encode e (concat pieces).
Proof. exact (bxe_session_encode e pieces). Qed.

Theorem C13_write_oblivious_armor (header footer : bytes) (pieces : list bytes) :
  armor_stream header footer pieces = armor_seal (concat pieces) header footer.
Proof. exact (armor_stream_seal header footer pieces). Qed.

(* ---------------- bounded buffering ---------------- *)

Theorem C13_bounded_plaintext_buffer (B : nat) (buf p : bytes) :
  (0 < B)%nat -> (length (snd (cw_write B buf p)) <= B)%nat.
Proof. exact (cw_write_bounded B buf p). Qed.

Theorem C13_bounded_basex_buffer (e : encoding) (buf p : bytes) :
  (0 < enc_ibl e)%N -> (length buf < N.to_nat (enc_ibl e))%nat ->
  (length (snd (bxe_write e buf p)) < N.to_nat (enc_ibl e))%nat.
Proof. exact (bxe_write_bounded e buf p). Qed.

Theorem C13_bounded_armor_buffer (st : ae_state) (p : bytes) :
  (length (ae_bx st) < 32)%nat ->
  (length (ae_chars (snd (ae_write st p))) <= 15)%nat /\ (length (ae_bx (snd (ae_write st p))) < 32)%nat.
Proof. exact (ae_write_bounded st p). Qed.

(* ---------------- read side ---------------- *)

(* chunkReader: what has been delivered is a prefix of the chunks' concatenation whatever
   the caller's buffer sizes; an error is reported only after all of it, and it is the
   chunker's own; enough reads always get there *)
Theorem C13_read_oblivious_chunk_reader (l : list (bytes * option err)) (sizes : list nat) :
  chunks_wf l -> pos_sizes sizes ->
  let '(d, oe) := cr_drain sizes (mkCr [] None l) [] in
  let '(D, E) := chunks_denote l in
  match oe with
  | Some e => d = D /\ Some e = E
  | None => is_prefix d D = true
  end.
Proof. exact (cr_drain_sound l sizes). Qed.

Theorem C13_chunk_reader_progress (l : list (bytes * option err)) (sizes : list nat) :
  chunks_wf l -> pos_sizes sizes ->
  (length (fst (chunks_denote l)) + length l + 1 <= length sizes)%nat ->
  snd (cr_drain sizes (mkCr [] None l) []) <> None.
Proof. exact (cr_drain_complete l sizes). Qed.

(* punctuatedReader: for every fragmentation of the underlying reader — including bytes
   delivered together with EOF or with another error — and every sequence of caller
   buffer sizes, the pieces delivered are the input cut at the punctuation marks, and an
   error is reported only after ALL the source's bytes, and it is the source's own *)
Theorem C13_read_oblivious_punctuated_reader (s : source) (sizes : list nat) :
  pos_sizes sizes ->
  let '(done, cur, oe) := pr_drain sizes (pr_init s) [] [] in
  let '(D, E) := src_denote s in
  Forall nodot done /\ nodot cur /\
  match oe with
  | Some e => flatten done cur = D /\ e = E
  | None => is_prefix (flatten done cur) D = true
  end.
Proof. exact (pr_drain_sound s sizes). Qed.

(* the frame sentences (ReadUntilPunctuation) are a function of the bytes alone *)
Theorem C13_sentence_depends_on_bytes_only (s : source) (lim fuel : nat) :
  src_wf s -> (0 < lim)%nat ->
  (length (fst (src_denote s)) + length (src_segs s) + 2 <= fuel)%nat ->
  fst (pr_read_until fuel lim (pr_init s) []) = sentence_denote lim (fst (src_denote s)) (snd (src_denote s)).
Proof. exact (pr_read_until_denote s lim fuel). Qed.

Print Assumptions C13_write_oblivious_chunker.
Print Assumptions C13_write_oblivious_basex.
Print Assumptions C13_write_oblivious_armor.
Print Assumptions C13_bounded_plaintext_buffer.
Print Assumptions C13_bounded_basex_buffer.
Print Assumptions C13_bounded_armor_buffer.
Print Assumptions C13_read_oblivious_chunk_reader.
Print Assumptions C13_chunk_reader_progress.
Print Assumptions C13_read_oblivious_punctuated_reader.
Print Assumptions C13_sentence_depends_on_bytes_only.

(* Non-vacuity: data delivered together with EOF is scanned (the case /repo used to get wrong) *)
Example C13_ex_data_with_eof :
  pr_drain [7; 7; 7]%nat (pr_init (mkSource [mkSeg [x61; x2e; x62] (Some EOF)] EOF)) [] []
  = ([[x61]], [x62], Some EOF).
Proof. vm_compute. reflexivity. Qed.

(* ---------------- the streaming base-X decoder ---------------- *)
Section BxStreamDecoder.
Variable e : encoding.
Hypothesis Hbase_lo : (2 <= BaseX.base e)%N.
Hypothesis Hbase_hi : (BaseX.base e <= 256)%N.
Hypothesis Hnodup : NoDup (enc_alphabet e).
Hypothesis Hibl : (0 < enc_ibl e)%N.
Hypothesis Hcap : (N.to_nat (BaseX.obl e) <= 8192 * N.to_nat (BaseX.ibl e))%nat.
Hypothesis Hskip : forall b, BaseX.is_skip e b = true -> BaseX.digit_of e b = None.

(* safety, for every fragmentation of the source and every caller buffer sizes *)
Theorem C13_bx_stream_delivers_prefix (s : source) (sizes : list nat) :
  src_wf s -> pos_sizes sizes ->
  bprefix (fst (bd_drain e sizes (bd_init s) [])) (fst (BaseX.decode e (fst (src_denote s)))).
Proof. exact (bd_drain_prefix e Hbase_lo Hbase_hi Hnodup Hibl Hcap Hskip s sizes). Qed.

(* a clean end only on good, completely delivered input *)
Theorem C13_bx_stream_clean_end (s : source) (sizes : list nat) (out : bytes) :
  src_wf s -> pos_sizes sizes ->
  bd_drain e sizes (bd_init s) [] = (out, Some EOF) ->
  snd (src_denote s) = EOF /\ BaseX.decode e (fst (src_denote s)) = (out, None).
Proof. exact (bd_drain_clean_end e Hbase_lo Hbase_hi Hnodup Hibl Hcap Hskip s sizes out). Qed.

(* good input is decoded completely whatever the fragmentation, given enough Read calls *)
Theorem C13_bx_stream_complete (s : source) (sizes : list nat) (out : bytes) :
  src_wf s -> pos_sizes sizes ->
  snd (src_denote s) = EOF ->
  BaseX.decode e (fst (src_denote s)) = (out, None) ->
  (length out + length (fst (src_denote s)) + length (src_segs s) + 3 <= length sizes)%nat ->
  bd_drain e sizes (bd_init s) [] = (out, Some EOF).
Proof. exact (bd_drain_complete e Hbase_lo Hbase_hi Hnodup Hibl Hcap Hskip s sizes out). Qed.

(* a failing source never looks like a clean end *)
Theorem C13_bx_stream_source_error (s : source) (sizes : list nat) (out : bytes) (x : err) :
  src_wf s -> pos_sizes sizes ->
  snd (src_denote s) <> EOF ->
  bd_drain e sizes (bd_init s) [] = (out, Some x) ->
  x <> EOF.
Proof. exact (bd_drain_source_error e Hbase_lo Hbase_hi Hnodup Hibl Hcap Hskip s sizes out x). Qed.
End BxStreamDecoder.

(* the two extra hypotheses hold of the four shipped encodings (the others: C10_shipped_encodings_ok) *)
Theorem C13_bx_stream_shipped :
  Forall (fun e => (N.to_nat (BaseX.obl e) <= 8192 * N.to_nat (BaseX.ibl e))%nat /\
                   forall b, BaseX.is_skip e b = true -> BaseX.digit_of e b = None)
         [base62; base62_strict; base58; base58_strict].
Proof.
  assert (H : forall e, (Nat.leb (N.to_nat (BaseX.obl e)) (8192 * N.to_nat (BaseX.ibl e)) = true) ->
             (forall b, BaseX.is_skip e b = true -> BaseX.digit_of e b = None) ->
             (N.to_nat (BaseX.obl e) <= 8192 * N.to_nat (BaseX.ibl e))%nat /\
             forall b, BaseX.is_skip e b = true -> BaseX.digit_of e b = None).
  { intros e Hl Hs. split; [apply Nat.leb_le; exact Hl|exact Hs]. }
  repeat (apply Forall_cons; [apply H; [vm_compute; reflexivity|
    intros b; destruct b; vm_compute; intro Hs; try reflexivity; discriminate Hs]|]).
  apply Forall_nil.
Qed.

Print Assumptions C13_bx_stream_delivers_prefix.
Print Assumptions C13_bx_stream_clean_end.
Print Assumptions C13_bx_stream_complete.
Print Assumptions C13_bx_stream_source_error.
Print Assumptions C13_bx_stream_shipped.

(* ---------------- the composed armored read stack ---------------- *)
(* model/ArmorStream.v: punctuatedReader under framedDecoderStream (armor.go) under the base-X stream
   decoder = saltpack.NewArmor62DecoderStream, compared call by call with it (ad_sched).  For EVERY source
   (any fragmentation, data delivered with or without its error), every caller buffer sizes and every
   checker type: what the stack delivers is a prefix of the payload the text dearmors to (Armor.dearmor, the
   one-shot denotation C11's theorems are about); it ends with EOF only when the source ended with EOF and
   the text dearmors, and then the WHOLE payload has been delivered; a text that dearmors is always decoded
   completely; a failing source never looks like a clean end; the model's out-of-fuel value is never
   reached.  (Without checkers the stream does not look at the characters of the frame sentences, which the
   one-shot Armor62Open does afterwards through Frame.GetHeader/GetFooter: that is the second disjunct.) *)
Theorem C13_armor_stream_delivers_prefix (chk : option Z) (s : source) (sizes : list nat) (d : dearmored) :
  src_wf s -> pos_sizes sizes ->
  dearmor chk (fst (src_denote s)) = Ok d ->
  bprefix (fst (ad_drain chk sizes s)) (da_payload d).
Proof. exact (ad_drain_prefix chk s sizes d). Qed.

Theorem C13_armor_stream_clean_end (chk : option Z) (s : source) (sizes : list nat) (out : bytes) :
  src_wf s -> pos_sizes sizes ->
  ad_drain chk sizes s = (out, Some EOF) ->
  snd (src_denote s) = EOF /\
  ((exists d, dearmor chk (fst (src_denote s)) = Ok d /\ da_payload d = out) \/
   (chk = None /\ dearmor None (fst (src_denote s)) = Err ErrBadFrame)).
Proof. exact (ad_drain_clean_end chk s sizes out). Qed.

Theorem C13_armor_stream_clean_end_checked (typ : Z) (s : source) (sizes : list nat) (out : bytes) :
  src_wf s -> pos_sizes sizes ->
  ad_drain (Some typ) sizes s = (out, Some EOF) ->
  snd (src_denote s) = EOF /\
  exists d, dearmor (Some typ) (fst (src_denote s)) = Ok d /\ da_payload d = out.
Proof. exact (ad_drain_clean_end_checked typ s sizes out). Qed.

Theorem C13_armor_stream_complete (chk : option Z) (s : source) (sizes : list nat) (d : dearmored) :
  src_wf s -> pos_sizes sizes ->
  snd (src_denote s) = EOF ->
  dearmor chk (fst (src_denote s)) = Ok d ->
  (length (da_payload d) + length (fst (src_denote s)) + length (src_segs s) + 8 <= length sizes)%nat ->
  ad_drain chk sizes s = (da_payload d, Some EOF).
Proof. exact (ad_drain_complete chk s sizes d). Qed.

Theorem C13_armor_stream_source_error (chk : option Z) (s : source) (sizes : list nat) (out : bytes) (x : err) :
  src_wf s -> pos_sizes sizes ->
  snd (src_denote s) <> EOF ->
  ad_drain chk sizes s = (out, Some x) ->
  x <> EOF.
Proof. exact (ad_drain_source_error chk s sizes out x). Qed.

Theorem C13_armor_stream_modelled (chk : option Z) (s : source) (sizes : list nat) (out : bytes) (x : err) :
  src_wf s -> pos_sizes sizes ->
  snd (src_denote s) <> Unmodelled ->
  ad_drain chk sizes s = (out, Some x) ->
  x <> Unmodelled.
Proof. exact (ad_drain_modelled chk s sizes out x). Qed.

(* the decoder written over an abstract reader is, over a source, the decoder of BxStream.v *)
Theorem C13_generic_decoder_is_bx_stream (e : encoding) (sizes : list nat) (s : source) (fuel : nat) :
  src_wf s -> (src_fuel s <= fuel)%nat ->
  gbd_trace e source src_read fuel sizes (gbd_init source s) = bd_trace e sizes (bd_init s).
Proof. exact (gbd_source_agrees e sizes s fuel). Qed.

Print Assumptions C13_armor_stream_delivers_prefix.
Print Assumptions C13_armor_stream_clean_end.
Print Assumptions C13_armor_stream_clean_end_checked.
Print Assumptions C13_armor_stream_complete.
Print Assumptions C13_armor_stream_source_error.
Print Assumptions C13_armor_stream_modelled.
Print Assumptions C13_generic_decoder_is_bx_stream.

(* ---------------- SOURCE TIE of the two reader adaptors ---------------- *)
(* The terms f_saltpack_chunkReader_Read and f_saltpack_punctuatedReader_Read are generated on every run from
   the Go syntax trees of /repo (gen/GoAstStreams.v).  Under the Go semantics of model/GoLang2.v they compute
   one step of the very state machines (cr_read, pr_read) the theorems above are about, for EVERY reader
   state, caller buffer and chunk source / underlying source: the returned count and error, and the state
   left in the receiver.  (chunkReader: the bytes copied into the caller's buffer through the slice
   expression p[n:] are not observable in this semantics; they are tied by the call-by-call correspondence.
   The hypotheses of the first theorem bound the evaluator's fuel only.) *)
Theorem C13_source_chunkReader_Read (F : nat) (st : cr_state) (p : bytes) :
  (10 <= F)%nat -> (List.length (cr_pending st) < F)%nat ->
  let r := run_func2_at (S F) ext_cr f_saltpack_chunkReader_Read [g_cr st; VBytes p] in
  match cr_read (S (S (List.length (cr_pending st)))) (List.length p) st [] with
  | ((out, e), st') as m =>
    if cr_go_panics m then r = (OPanic, [])
    else fst r = ORet [VInt (Z.of_nat (List.length out)); g_err_opt e] /\
         lookup "r" (snd r) = Some (g_cr st') /\
         lookup "p" (snd r) = Some (VBytes p)
  end.
Proof. exact (go_chunkReader_Read F st p). Qed.

Theorem C13_source_punctuatedReader_Read (z1 z2 : bool) (buf : bytes) (st : pr_state) (out : bytes) :
  (pr_this st = [] -> pr_this_punct st = false) ->
  let r := run_func2 ext_pr f_saltpack_punctuatedReader_Read [g_pr z1 z2 buf st; VBytes out] in
  match pr_read (List.length out) st with
  | (res, st') =>
    fst r = ORet [VInt (Z.of_nat (List.length (pr_data res))); pr_res_err res] /\
    (exists z1' z2', lookup "p" (snd r) = Some (g_pr z1' z2' buf st')) /\
    (exists out', lookup "out" (snd r) = Some (VBytes out') /\
                  List.length out' = List.length out /\ firstn (List.length (pr_data res)) out' = pr_data res)
  end.
Proof. exact (go_punctuatedReader_Read z1 z2 buf st out). Qed.

(* the hypothesis of the second theorem is an invariant of the reader *)
Theorem C13_source_punctuatedReader_invariant (s : source) (n : nat) (st : pr_state) :
  (pr_this (pr_init s) = [] -> pr_this_punct (pr_init s) = false) /\
  ((pr_this st = [] -> pr_this_punct st = false) ->
   pr_this (snd (pr_read n st)) = [] -> pr_this_punct (snd (pr_read n st)) = false).
Proof. split; [exact (pr_punct_wf_init s)|exact (pr_punct_wf_read n st)]. Qed.

(* ReadUntilPunctuation (the frame sentences): the translated loop returns what pr_read_until says — the
   sentence, ErrOverflow, io.ErrUnexpectedEOF or the source's error — and leaves the model's final reader state,
   for every state, limit and source; the inner call p.Read(p.buf[:]) has the meaning
   C13_source_punctuatedReader_Read proves (read_call_sound), with an oracle for what that theorem leaves
   open (nil-or-empty slices, buffer bytes beyond the count).  pr_clean: the underlying reader does not
   itself return saltpack's internal ErrPunctuated value (if it did, the Go switch would take it for the end
   of a sentence; the model passes it on as an error).  The last two hypotheses bound the evaluator's fuel. *)
Theorem C13_source_ReadUntilPunctuation (O : read_oracle) (F : nat) (z1 z2 : bool) (buf : bytes) (st : pr_state) (lim : Z) :
  oracle_ok O -> List.length buf = 4096%nat ->
  (pr_this st = [] -> pr_this_punct st = false) -> pr_clean st ->
  (12 <= F)%nat -> (rup_need (Z.to_nat lim) st [] < F)%nat ->
  let r := run_func2_at (S F) (ext_rup O) f_saltpack_punctuatedReader_ReadUntilPunctuation [g_pr z1 z2 buf st; VInt lim] in
  let m := pr_read_until (S (rup_need (Z.to_nat lim) st [])) (Z.to_nat lim) st [] in
  fst r = ORet (g_rup_result (fst m)) /\
  exists z1' z2' buf', lookup "p" (snd r) = Some (g_pr z1' z2' buf' (snd m)) /\ List.length buf' = 4096%nat.
Proof. exact (go_punctuatedReader_ReadUntilPunctuation O F z1 z2 buf st lim). Qed.

Print Assumptions C13_source_ReadUntilPunctuation.
Print Assumptions C13_source_chunkReader_Read.
Print Assumptions C13_source_punctuatedReader_Read.
Print Assumptions C13_source_punctuatedReader_invariant.
