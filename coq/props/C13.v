(* C13 — Results never depend on how input or output streams are fragmented.
   Only property theorems here, each closed by `exact` of a lemma from proofs/.
   Read side: the saltpack adaptors (chunkReader, punctuatedReader) are proved to
   compute a function of the BYTES of their source under every fragmentation of the
   underlying reader (including data delivered together with EOF or another error)
   and every sequence of caller buffer sizes; so is the streaming base-X decoder
   (filteringReader + decoder of encoding/basex/stream.go, model/BxStream.v, compared
   call by call with basex.NewDecoder): what it delivers is a prefix of the one-shot
   decoding of the source's bytes, it ends cleanly only when that decoding succeeds and
   then has delivered all of it, and good input is always decoded completely.  The composed armored read stack
   (punctuatedReader, framedDecoderStream, base-X decoder = NewArmor62DecoderStream) refines the
   one-shot dearmor (theorems C13_armor_stream_...).  go-codec's reader on top of these stacks is PARTIAL:
   it is covered by the C13 campaign (16 fragmentations + exhaustive two-cut splits per input),
   not by a theorem.  Write side and buffer bounds are proved for every stream encoder. *)
From Coq Require Import List NArith ZArith.
From Coq.Strings Require Import Byte.
From SP Require Import Bytes Params Crypto Errors BaseX Encodings Chunker Armor Streams Rand Sign Encrypt Signcrypt
     ChunkerProofs SignProofs EncryptProofs SigncryptProofs StreamProofs BxStream BxStreamProofs ArmorStream ArmorStreamProofs.
From SP Require Import GoLang GoLang2 GoAst GoAstStreams GoAstProofs GoAstProofs2 GoAstProofs3 GoAstProofs4c GoAstProofs4d.
From SP Require GoAstDearmor GoAstProofs7a GoAstProofs7b.
From Coq Require String.
Import String.StringSyntax.
Import ListNotations.

(* ---------------- write side ---------------- *)

(* the plaintext chunker shared by encrypt / sign / signcrypt streams *)
Theorem C13_write_oblivious_chunker (v : version) (B : nat) (pieces : list bytes) :
  (0 < B)%nat -> cw_session v B [] pieces = plan v B (concat pieces).
Proof. exact (cw_session_plan v B pieces). Qed.

Theorem C13_write_oblivious_sign (c : crypto) (v : version) (sk : bytes) (pieces : list bytes) (r : rng) :
  sign_attached_stream c v sk pieces r = sign_attached c v sk (concat pieces) r.
Proof. exact (sign_stream_oneshot c v sk pieces r). Qed.

Theorem C13_write_oblivious_seal (c : crypto) (v : version) (sender : option bytes) (rcpts : list rcpt)
        (pieces : list bytes) (r : rng) :
  seal_stream c v sender rcpts pieces r = seal c v sender rcpts (concat pieces) r.
Proof. exact (seal_stream_oneshot c v sender rcpts pieces r). Qed.

Theorem C13_write_oblivious_signcrypt (c : crypto) (signer : option bytes) boxes syms (pieces : list bytes) (r : rng) :
  signcrypt_seal_stream c signer boxes syms pieces r = signcrypt_seal_stream c signer boxes syms [concat pieces] r.
Proof. exact (signcrypt_stream_oneshot c signer boxes syms pieces r). Qed.

Theorem C13_write_oblivious_basex (e : encoding) (pieces : list bytes) :
  (0 < enc_ibl e)%N -> concat (bxe_session e [] pieces) = BaseX.encode e (concat pieces).
Proof. exact (bxe_session_encode e pieces). Qed.

Theorem C13_write_oblivious_armor (header footer : bytes) (pieces : list bytes) :
  armor_stream header footer pieces = armor_seal (concat pieces) header footer.
Proof. exact (armor_stream_seal header footer pieces). Qed.

(* ---------------- bounded buffering ---------------- *)

Theorem C13_bounded_plaintext_buffer (B : nat) (buf p : bytes) :
  (0 < B)%nat -> (length (snd (cw_write B buf p)) <= B)%nat.
Proof. exact (cw_write_bounded B buf p). Qed.

Theorem C13_bounded_basex_buffer (e : encoding) (buf p : bytes) :
  (0 < enc_ibl e)%N -> (length buf < N.to_nat (enc_ibl e))%nat ->
  (length (snd (bxe_write e buf p)) < N.to_nat (enc_ibl e))%nat.
Proof. exact (bxe_write_bounded e buf p). Qed.

Theorem C13_bounded_armor_buffer (st : ae_state) (p : bytes) :
  (length (ae_bx st) < 32)%nat ->
  (length (ae_chars (snd (ae_write st p))) <= 15)%nat /\ (length (ae_bx (snd (ae_write st p))) < 32)%nat.
Proof. exact (ae_write_bounded st p). Qed.

(* ---------------- read side ---------------- *)

(* chunkReader: what has been delivered is a prefix of the chunks' concatenation whatever
   the caller's buffer sizes; an error is reported only after all of it, and it is the
   chunker's own; enough reads always get there *)
Theorem C13_read_oblivious_chunk_reader (l : list (bytes * option err)) (sizes : list nat) :
  chunks_wf l -> pos_sizes sizes ->
  let '(d, oe) := cr_drain sizes (mkCr [] None l) [] in
  let '(D, E) := chunks_denote l in
  match oe with
  | Some e => d = D /\ Some e = E
  | None => is_prefix d D = true
  end.
Proof. exact (cr_drain_sound l sizes). Qed.

Theorem C13_chunk_reader_progress (l : list (bytes * option err)) (sizes : list nat) :
  chunks_wf l -> pos_sizes sizes ->
  (length (fst (chunks_denote l)) + length l + 1 <= length sizes)%nat ->
  snd (cr_drain sizes (mkCr [] None l) []) <> None.
Proof. exact (cr_drain_complete l sizes). Qed.

(* punctuatedReader: for every fragmentation of the underlying reader — including bytes
   delivered together with EOF or with another error — and every sequence of caller
   buffer sizes, the pieces delivered are the input cut at the punctuation marks, and an
   error is reported only after ALL the source's bytes, and it is the source's own *)
Theorem C13_read_oblivious_punctuated_reader (s : source) (sizes : list nat) :
  pos_sizes sizes ->
  let '(done, cur, oe) := pr_drain sizes (pr_init s) [] [] in
  let '(D, E) := src_denote s in
  Forall nodot done /\ nodot cur /\
  match oe with
  | Some e => flatten done cur = D /\ e = E
  | None => is_prefix (flatten done cur) D = true
  end.
Proof. exact (pr_drain_sound s sizes). Qed.

(* the frame sentences (ReadUntilPunctuation) are a function of the bytes alone *)
Theorem C13_sentence_depends_on_bytes_only (s : source) (lim fuel : nat) :
  src_wf s -> (0 < lim)%nat ->
  (length (fst (src_denote s)) + length (src_segs s) + 2 <= fuel)%nat ->
  fst (pr_read_until fuel lim (pr_init s) []) = sentence_denote lim (fst (src_denote s)) (snd (src_denote s)).
Proof. exact (pr_read_until_denote s lim fuel). Qed.

Print Assumptions C13_write_oblivious_chunker.
Print Assumptions C13_write_oblivious_basex.
Print Assumptions C13_write_oblivious_armor.
Print Assumptions C13_bounded_plaintext_buffer.
Print Assumptions C13_bounded_basex_buffer.
Print Assumptions C13_bounded_armor_buffer.
Print Assumptions C13_read_oblivious_chunk_reader.
Print Assumptions C13_chunk_reader_progress.
Print Assumptions C13_read_oblivious_punctuated_reader.
Print Assumptions C13_sentence_depends_on_bytes_only.

(* Non-vacuity: data delivered together with EOF is scanned (the case /repo used to get wrong) *)
Example C13_ex_data_with_eof :
  pr_drain [7; 7; 7]%nat (pr_init (mkSource [mkSeg [x61; x2e; x62] (Some EOF)] EOF)) [] []
  = ([[x61]], [x62], Some EOF).
Proof. vm_compute. reflexivity. Qed.

(* ---------------- the streaming base-X decoder ---------------- *)
Section BxStreamDecoder.
Variable e : encoding.
Hypothesis Hbase_lo : (2 <= BaseX.base e)%N.
Hypothesis Hbase_hi : (BaseX.base e <= 256)%N.
Hypothesis Hnodup : NoDup (enc_alphabet e).
Hypothesis Hibl : (0 < enc_ibl e)%N.
Hypothesis Hcap : (N.to_nat (BaseX.obl e) <= 8192 * N.to_nat (BaseX.ibl e))%nat.
Hypothesis Hskip : forall b, BaseX.is_skip e b = true -> BaseX.digit_of e b = None.

(* safety, for every fragmentation of the source and every caller buffer sizes *)
Theorem C13_bx_stream_delivers_prefix (s : source) (sizes : list nat) :
  src_wf s -> pos_sizes sizes ->
  bprefix (fst (bd_drain e sizes (bd_init s) [])) (fst (BaseX.decode e (fst (src_denote s)))).
Proof. exact (bd_drain_prefix e Hbase_lo Hbase_hi Hnodup Hibl Hcap Hskip s sizes). Qed.

(* a clean end only on good, completely delivered input *)
Theorem C13_bx_stream_clean_end (s : source) (sizes : list nat) (out : bytes) :
  src_wf s -> pos_sizes sizes ->
  bd_drain e sizes (bd_init s) [] = (out, Some EOF) ->
  snd (src_denote s) = EOF /\ BaseX.decode e (fst (src_denote s)) = (out, None).
Proof. exact (bd_drain_clean_end e Hbase_lo Hbase_hi Hnodup Hibl Hcap Hskip s sizes out). Qed.

(* good input is decoded completely whatever the fragmentation, given enough Read calls *)
Theorem C13_bx_stream_complete (s : source) (sizes : list nat) (out : bytes) :
  src_wf s -> pos_sizes sizes ->
  snd (src_denote s) = EOF ->
  BaseX.decode e (fst (src_denote s)) = (out, None) ->
  (length out + length (fst (src_denote s)) + length (src_segs s) + 3 <= length sizes)%nat ->
  bd_drain e sizes (bd_init s) [] = (out, Some EOF).
Proof. exact (bd_drain_complete e Hbase_lo Hbase_hi Hnodup Hibl Hcap Hskip s sizes out). Qed.

(* a failing source never looks like a clean end *)
Theorem C13_bx_stream_source_error (s : source) (sizes : list nat) (out : bytes) (x : err) :
  src_wf s -> pos_sizes sizes ->
  snd (src_denote s) <> EOF ->
  bd_drain e sizes (bd_init s) [] = (out, Some x) ->
  x <> EOF.
Proof. exact (bd_drain_source_error e Hbase_lo Hbase_hi Hnodup Hibl Hcap Hskip s sizes out x). Qed.
End BxStreamDecoder.

(* the two extra hypotheses hold of the four shipped encodings (the others: C10_shipped_encodings_ok) *)
Theorem C13_bx_stream_shipped :
  Forall (fun e => (N.to_nat (BaseX.obl e) <= 8192 * N.to_nat (BaseX.ibl e))%nat /\
                   forall b, BaseX.is_skip e b = true -> BaseX.digit_of e b = None)
         [base62; base62_strict; base58; base58_strict].
Proof.
  assert (H : forall e, (Nat.leb (N.to_nat (BaseX.obl e)) (8192 * N.to_nat (BaseX.ibl e)) = true) ->
             (forall b, BaseX.is_skip e b = true -> BaseX.digit_of e b = None) ->
             (N.to_nat (BaseX.obl e) <= 8192 * N.to_nat (BaseX.ibl e))%nat /\
             forall b, BaseX.is_skip e b = true -> BaseX.digit_of e b = None).
  { intros e Hl Hs. split; [apply Nat.leb_le; exact Hl|exact Hs]. }
  repeat (apply Forall_cons; [apply H; [vm_compute; reflexivity|
    intros b; destruct b; vm_compute; intro Hs; try reflexivity; discriminate Hs]|]).
  apply Forall_nil.
Qed.

Print Assumptions C13_bx_stream_delivers_prefix.
Print Assumptions C13_bx_stream_clean_end.
Print Assumptions C13_bx_stream_complete.
Print Assumptions C13_bx_stream_source_error.
Print Assumptions C13_bx_stream_shipped.

(* ---------------- the composed armored read stack ---------------- *)
(* model/ArmorStream.v: punctuatedReader under framedDecoderStream (armor.go) under the base-X stream
   decoder = saltpack.NewArmor62DecoderStream, compared call by call with it (ad_sched).  For EVERY source
   (any fragmentation, data delivered with or without its error), every caller buffer sizes and every
   checker type: what the stack delivers is a prefix of the payload the text dearmors to (Armor.dearmor, the
   one-shot denotation C11's theorems are about); it ends with EOF only when the source ended with EOF and
   the text dearmors, and then the WHOLE payload has been delivered; a text that dearmors is always decoded
   completely; a failing source never looks like a clean end; the model's out-of-fuel value is never
   reached.  (Without checkers the stream does not look at the characters of the frame sentences, which the
   one-shot Armor62Open does afterwards through Frame.GetHeader/GetFooter: that is the second disjunct.) *)
Theorem C13_armor_stream_delivers_prefix (chk : option Z) (s : source) (sizes : list nat) (d : dearmored) :
  src_wf s -> pos_sizes sizes ->
  dearmor chk (fst (src_denote s)) = Ok d ->
  bprefix (fst (ad_drain chk sizes s)) (da_payload d).
Proof. exact (ad_drain_prefix chk s sizes d). Qed.

Theorem C13_armor_stream_clean_end (chk : option Z) (s : source) (sizes : list nat) (out : bytes) :
  src_wf s -> pos_sizes sizes ->
  ad_drain chk sizes s = (out, Some EOF) ->
  snd (src_denote s) = EOF /\
  ((exists d, dearmor chk (fst (src_denote s)) = Ok d /\ da_payload d = out) \/
   (chk = None /\ dearmor None (fst (src_denote s)) = Err ErrBadFrame)).
Proof. exact (ad_drain_clean_end chk s sizes out). Qed.

Theorem C13_armor_stream_clean_end_checked (typ : Z) (s : source) (sizes : list nat) (out : bytes) :
  src_wf s -> pos_sizes sizes ->
  ad_drain (Some typ) sizes s = (out, Some EOF) ->
  snd (src_denote s) = EOF /\
  exists d, dearmor (Some typ) (fst (src_denote s)) = Ok d /\ da_payload d = out.
Proof. exact (ad_drain_clean_end_checked typ s sizes out). Qed.

Theorem C13_armor_stream_complete (chk : option Z) (s : source) (sizes : list nat) (d : dearmored) :
  src_wf s -> pos_sizes sizes ->
  snd (src_denote s) = EOF ->
  dearmor chk (fst (src_denote s)) = Ok d ->
  (length (da_payload d) + length (fst (src_denote s)) + length (src_segs s) + 8 <= length sizes)%nat ->
  ad_drain chk sizes s = (da_payload d, Some EOF).
Proof. exact (ad_drain_complete chk s sizes d). Qed.

Theorem C13_armor_stream_source_error (chk : option Z) (s : source) (sizes : list nat) (out : bytes) (x : err) :
  src_wf s -> pos_sizes sizes ->
  snd (src_denote s) <> EOF ->
  ad_drain chk sizes s = (out, Some x) ->
  x <> EOF.
Proof. exact (ad_drain_source_error chk s sizes out x). Qed.

Theorem C13_armor_stream_modelled (chk : option Z) (s : source) (sizes : list nat) (out : bytes) (x : err) :
  src_wf s -> pos_sizes sizes ->
  snd (src_denote s) <> Unmodelled ->
  ad_drain chk sizes s = (out, Some x) ->
  x <> Unmodelled.
Proof. exact (ad_drain_modelled chk s sizes out x). Qed.

(* the decoder written over an abstract reader is, over a source, the decoder of BxStream.v *)
Theorem C13_generic_decoder_is_bx_stream (e : encoding) (sizes : list nat) (s : source) (fuel : nat) :
  src_wf s -> (src_fuel s <= fuel)%nat ->
  gbd_trace e source src_read fuel sizes (gbd_init source s) = bd_trace e sizes (bd_init s).
Proof. exact (gbd_source_agrees e sizes s fuel). Qed.

Print Assumptions C13_armor_stream_delivers_prefix.
Print Assumptions C13_armor_stream_clean_end.
Print Assumptions C13_armor_stream_clean_end_checked.
Print Assumptions C13_armor_stream_complete.
Print Assumptions C13_armor_stream_source_error.
Print Assumptions C13_armor_stream_modelled.
Print Assumptions C13_generic_decoder_is_bx_stream.

(* ---------------- SOURCE TIE of the two reader adaptors ---------------- *)
(* The terms f_saltpack_chunkReader_Read and f_saltpack_punctuatedReader_Read are generated on every run from
   the Go syntax trees of /repo (gen/GoAstStreams.v).  Under the Go semantics of model/GoLang2.v they compute
   one step of the very state machines (cr_read, pr_read) the theorems above are about, for EVERY reader
   state, caller buffer and chunk source / underlying source: the returned count and error, and the state
   left in the receiver.  (chunkReader: the bytes copied into the caller's buffer through the slice
   expression p[n:] are not observable in this semantics; they are tied by the call-by-call correspondence.
   The hypotheses of the first theorem bound the evaluator's fuel only.) *)
Theorem C13_source_chunkReader_Read (F : nat) (st : cr_state) (p : bytes) :
  (10 <= F)%nat -> (List.length (cr_pending st) < F)%nat ->
  let r := run_func2_at (S F) ext_cr f_saltpack_chunkReader_Read [g_cr st; VBytes p] in
  match cr_read (S (S (List.length (cr_pending st)))) (List.length p) st [] with
  | ((out, e), st') as m =>
    if cr_go_panics m then r = (OPanic, [])
    else fst r = ORet [VInt (Z.of_nat (List.length out)); g_err_opt e] /\
         lookup "r" (snd r) = Some (g_cr st') /\
         lookup "p" (snd r) = Some (VBytes p)
  end.
Proof. exact (go_chunkReader_Read F st p). Qed.

Theorem C13_source_punctuatedReader_Read (z1 z2 : bool) (buf : bytes) (st : pr_state) (out : bytes) :
  (pr_this st = [] -> pr_this_punct st = false) ->
  let r := run_func2 ext_pr f_saltpack_punctuatedReader_Read [g_pr z1 z2 buf st; VBytes out] in
  match pr_read (List.length out) st with
  | (res, st') =>
    fst r = ORet [VInt (Z.of_nat (List.length (pr_data res))); pr_res_err res] /\
    (exists z1' z2', lookup "p" (snd r) = Some (g_pr z1' z2' buf st')) /\
    (exists out', lookup "out" (snd r) = Some (VBytes out') /\
                  List.length out' = List.length out /\ firstn (List.length (pr_data res)) out' = pr_data res)
  end.
Proof. exact (go_punctuatedReader_Read z1 z2 buf st out). Qed.

(* the hypothesis of the second theorem is an invariant of the reader *)
Theorem C13_source_punctuatedReader_invariant (s : source) (n : nat) (st : pr_state) :
  (pr_this (pr_init s) = [] -> pr_this_punct (pr_init s) = false) /\
  ((pr_this st = [] -> pr_this_punct st = false) ->
   pr_this (snd (pr_read n st)) = [] -> pr_this_punct (snd (pr_read n st)) = false).
Proof. split; [exact (pr_punct_wf_init s)|exact (pr_punct_wf_read n st)]. Qed.

(* ReadUntilPunctuation (the frame sentences): the translated loop returns what pr_read_until says — the
   sentence, ErrOverflow, io.ErrUnexpectedEOF or the source's error — and leaves the model's final reader state,
   for every state, limit and source; the inner call p.Read(p.buf[:]) has the meaning
   C13_source_punctuatedReader_Read proves (read_call_sound), with an oracle for what that theorem leaves
   open (nil-or-empty slices, buffer bytes beyond the count).  pr_clean: the underlying reader does not
   itself return saltpack's internal ErrPunctuated value (if it did, the Go switch would take it for the end
   of a sentence; the model passes it on as an error).  The last two hypotheses bound the evaluator's fuel. *)
Theorem C13_source_ReadUntilPunctuation (O : read_oracle) (F : nat) (z1 z2 : bool) (buf : bytes) (st : pr_state) (lim : Z) :
  oracle_ok O -> List.length buf = 4096%nat ->
  (pr_this st = [] -> pr_this_punct st = false) -> pr_clean st ->
  (12 <= F)%nat -> (rup_need (Z.to_nat lim) st [] < F)%nat ->
  let r := run_func2_at (S F) (ext_rup O) f_saltpack_punctuatedReader_ReadUntilPunctuation [g_pr z1 z2 buf st; VInt lim] in
  let m := pr_read_until (S (rup_need (Z.to_nat lim) st [])) (Z.to_nat lim) st [] in
  fst r = ORet (g_rup_result (fst m)) /\
  exists z1' z2' buf', lookup "p" (snd r) = Some (g_pr z1' z2' buf' (snd m)) /\ List.length buf' = 4096%nat.
Proof. exact (go_punctuatedReader_ReadUntilPunctuation O F z1 z2 buf st lim). Qed.

(* ---------------- SOURCE TIE of the streaming base-X DECODER: what is expressible, and what is not ---------------- *)
(* Lemmas of proofs/GoAstProofs7b.v.  The terms f_basex_filteringReader_Read and f_basex_decoder_Read are generated on
   every run from the Go syntax trees of /repo/encoding/basex/stream.go (gen/GoAstDearmor.v) and run by the evaluator of
   model/GoLang2.v, against the state machine of model/BxStream.v (fr_filter / fr_read, bd_read) the C13_bx_stream_
   theorems above are about.  The *decoder object is [g_dec en o], o : gdec = (d.err, d.out, d.buf = the whole array,
   d.nbuf, d.scratchbuf, d.r), or [g_decU en U g_U ...] when the reader d.r is the encoding g_U u of a state u of an
   ARBITRARY reader state machine (uread n u = what Read(p) with len(p) = n delivers, and the next state); the
   filteringReader object is [g_fr en st]; an underlying io.Reader is g_source s read by src_read.  [run_func2_at F] is
   run_func2 with the evaluator's fuel as a parameter; exec2 runs a statement list from an environment.
   NOT EXPRESSIBLE in model/GoLang2.v, with machine-checked witnesses:
   1. filteringReader.Read ranges over a byte slice, `for i, b := range p[:n]`; the evaluator gives SRange a meaning on
      lists only, so a whole run is stuck ("range") as soon as the wrapped reader delivers at least one byte
      (C13_source_filteringReader_Read_range_stuck).
   2. decoder.Read reads into a window of a field, `n, d.err = d.r.Read(d.buf[d.nbuf:nn])`, and moves the leftover
      input with `copy(d.buf[0:d.nbuf], d.buf[numBytesToDecode:...])`: a slice of a field is not a place an extern can
      write back to (C13_source_decoder_Read_read_places, _copy_places), so the bytes the underlying reader delivers
      can never appear in d.buf and the leftover input is never moved to the front.
   3. the two `copy` calls of decoder.Read need different result lists from the SAME extern
      (C13_source_copy_sites_conflict), and every run of the decoding part reaches both
      (C13_source_rd_shift_stuck: the shift statement is stuck under the extern table the rest needs).
   WHAT IS TIED ON THE TRANSLATED SOURCE.  Whole runs: filteringReader.Read when the first read delivers no byte;
   decoder.Read on the two paths that do not reach the fill loop (nofill) and on every exit of the fill loop that does
   not decode (exits, exits_model).  And SEGMENT BY SEGMENT, for every state of the object — so for whatever d.buf
   holds — every other statement: f_body f_basex_decoder_Read = rd_pre ++ SFor rd_cond rd_loop_body :: rd_post,
   rd_post = the eof / error dispatch ++ rd_post2, rd_post2 = rd_mid ++ rd_shift :: rd_fin (the two split theorems, by
   reflexivity on the generated term): rd_pre_exec (nn), rd_loop (the fill loop turn by turn), rd_post_exec (the
   dispatch), rd_mid_exec (the decoding part = gd_mid), rd_fin_exec (the final returns = gd_fin), and, without the
   evaluator, gd_decode_model: gd_mid followed by gd_fin IS the decoding part bd_after of the model's bd_read on an
   object whose d.buf[:d.nbuf] holds the characters the model has buffered.  For filteringReader.Read: fr_body_step
   (one turn of the range body = one step of fr_filter), fr_after_exec (the statements after the range), and, without
   the evaluator, gfr_range_filter: iterating fr_body_step over p[:n] IS fr_filter, with the in-place compaction.
   THEREFORE TIED BY THE CALL-BY-CALL CAMPAIGN ONLY (the C13 campaign: the model's decoder compared call by call with
   basex.NewDecoder under 16 fragmentations + exhaustive two-cut splits per input), not by a theorem on the source:
   - that `range p[:n]` visits the bytes of p[:n] in order with their indices (the range HEADER of
     filteringReader.Read; its body, what follows it, and the iteration as a function are tied), and that
     CorruptInputError(r.nRead) is an error value (the evaluator makes the composite literal a struct);
   - the two writes into d.buf: that after `d.r.Read(d.buf[d.nbuf:nn])` the bytes read are in d.buf[d.nbuf:], and that
     the shift moves d.buf[num:num+d.nbuf] to the front — i.e. the hypothesis of gd_decode_model that d.buf[:d.nbuf]
     holds the model's buffered characters (counts, errors, reader states and d.nbuf ARE tied);
   - consequently the end-to-end run of decoder.Read on a path that decodes is assembled from the segment theorems
     by hand across the shift statement, not produced by one run of the evaluator. *)
Section C13_source_bx_decoder.
Import GoAstDearmor GoAstProofs7b.
Local Open Scope string_scope.
Variable en : encoding.

(* filteringReader.Read(p), whole run: for every state and p, the run is the model's when the first Read of the wrapped
   reader delivers no byte — (0, err) returned as is, the wrapped reader advanced, nRead unchanged: fr_read's first
   case — and OStuck "range" in EVERY other case.  The outcome and the whole final environment.  No hypothesis. *)
Theorem C13_source_filteringReader_Read_range_stuck (st : fr_state) (p : bytes) :
  run_func2 (ext_fr en) f_basex_filteringReader_Read [g_fr en st; VBytes p]
  = match src_read (List.length p) (fr_src st) with
    | (([], er), s') =>
      (ORet [VInt 0; g_err_opt er],
       [("r", g_fr en (mkFr s' (fr_nread st))); ("p", VBytes p); ("n", VInt 0); ("err", g_err_opt er)])
    | ((_ :: _, _), _) => (OStuck "range", [])
    end.
Proof. exact (go_filteringReader_Read_range_stuck en st p). Qed.

(* one turn of the body of `for i, b := range p[:n]` (fr_rbody) on the byte b at index i, with `offset` bytes kept so
   far — the step of BxStream.fr_filter: a foreign byte returns (0, CorruptInputError(r.nRead)) [the struct the
   evaluator makes of the composite literal]; otherwise r.nRead++, a skip byte `continue`s, an alphabet byte is stored
   at p[offset] (when i != offset) and offset++.  envR = the environment (r, p, n, err, offset, i, b, then "typ" once
   declared).  Hypotheses: the shape of the environment's tail (fr_tl); offset < len(p). *)
Theorem C13_source_fr_body_step (f : nat) (st : fr_state) (p : bytes) (n : Z) (ev : gval) (off i : nat) (b : byte) (tl : env) :
  fr_tl tl -> (off < List.length p)%nat ->
  exec2 (ext_fr en) (S (S (S (S (S (S (S (S f)))))))) (envR en st p n ev off i b tl) fr_rbody
  = match digit_of en b with
    | Some _ => CNorm (envR en (mkFr (fr_src st) (fr_nread st + 1)%N) (if Nat.eqb i off then p else set_nth off b p) n ev (off + 1) i b
                            [("typ", VInt 0)])
    | None =>
      if is_skip en b then CCont (envR en (mkFr (fr_src st) (fr_nread st + 1)%N) p n ev off i b [("typ", VInt 1)])
      else CRet [VInt 0; VStruct [("0", VInt (Z.of_N (fr_nread st)))]] (envR en st p n ev off i b [("typ", VInt 2)])
    end.
Proof. exact (fr_body_step en f st p n ev off i b tl). Qed.

(* the statements after the range (fr_after): `return offset, err` when something was kept or the reader failed, else
   the next r.wrapped.Read(p) (src_read; r.wrapped and p written back) and round the outer loop again — fr_read's last
   match.  No hypothesis. *)
Theorem C13_source_fr_after_exec (f : nat) (st : fr_state) (p : bytes) (n : Z) (er : option err) (off : nat) (xi xb xt : gval) :
  exec2 (ext_fr en) (S (S (S (S (S f))))) (envA en st p n (g_err_opt er) off xi xb xt) fr_after
  = if (Nat.ltb 0 off || (match er with Some _ => true | None => false end))%bool
    then CRet [VInt (Z.of_nat off); g_err_opt er] (envA en st p n (g_err_opt er) off xi xb xt)
    else let '((data, er'), s') := src_read (List.length p) (fr_src st) in
         CNorm (envA en (mkFr s' (fr_nread st)) (data ++ skipn (List.length data) p) (Z.of_nat (List.length data)) (g_err_opt er') off xi xb xt).
Proof. exact (fr_after_exec en f st p n er off xi xb xt). Qed.

(* (no evaluator) the iteration gfr_range of that body step over the bytes l = p[i:i+len l] IS the model's fr_filter:
   the same verdict (kept / foreign byte at nRead), the same nRead, and the kept characters are p[:offset] afterwards —
   the in-place compaction.  Hypotheses: offset <= i <= len(p); l is what p holds from index i on; p[:offset] is what
   has been kept so far (acc, in reverse). *)
Theorem C13_source_gfr_range_filter (l : bytes) (i off : nat) (p : bytes) (nread : N) (acc post : bytes) :
  (off <= i)%nat -> (i <= List.length p)%nat -> skipn i p = l ++ post -> firstn off p = rev acc ->
  match fr_filter en l nread acc with
  | inl (kept, nread') =>
    exists p', gfr_range en l i off p nread = inl (p', List.length kept, nread') /\
               firstn (List.length kept) p' = kept /\ List.length p' = List.length p
  | inr x => gfr_range en l i off p nread = inr x
  end.
Proof. exact (gfr_range_filter en l i off p nread acc post). Qed.

(* decoder.Read, whole run, the two paths that do not reach the fill loop (gd_read_nofill), for every object and every
   p: a sticky d.err is returned as (0, d.err) and nothing changes; otherwise non-empty leftover output d.out is copied:
   (min(len p, len out), nil), p gets the bytes at its front, d.out loses them — the first two cases of
   BxStream.bd_read.  (gd_read_nofill is None, and the statement True, when d.err = nil and d.out is empty.)
   No hypothesis. *)
Theorem C13_source_decoder_Read_nofill (o : gdec) (p : bytes) :
  match gd_read_nofill o p with
  | Some ((n, er), o', p') =>
    exists tl,
    run_func2 ext_copy f_basex_decoder_Read [g_dec en o; VBytes p]
    = (ORet [VInt (Z.of_nat n); g_err_opt er], [("d", g_dec en o'); ("p", VBytes p')] ++ tl)
  | None => True
  end.
Proof. exact (go_decoder_Read_nofill en o p). Qed.

(* the decomposition of the body of decoder.Read the segment theorems refer to (by reflexivity on the generated term) *)
Theorem C13_source_rd_body_split : f_body f_basex_decoder_Read = rd_pre ++ SFor rd_cond rd_loop_body :: rd_post.
Proof. exact rd_body_split. Qed.
Theorem C13_source_rd_post2_split : rd_post2 = rd_mid ++ rd_shift :: rd_fin.
Proof. exact rd_post2_split. Qed.

Section Reader.
(* the underlying reader: an arbitrary state machine; as_U_g: decoding an encoded reader gives a reader with the same
   behaviour *)
Variable U : Type.
Variable uread : nat -> U -> (bytes * option err) * U.
Variable g_U : U -> gval.
Variable as_U : gval -> option U.
Hypothesis as_U_g : forall u, exists u', as_U (g_U u) = Some u' /\
  forall n, fst (uread n u') = fst (uread n u) /\ g_U (snd (uread n u')) = g_U (snd (uread n u)).

(* segment 1, the prefix (rd_pre) from a state with d.err = nil and d.out empty: it computes ibl, obl and nn = gd_nn
   (len(p)/ibl*obl, at least obl, at most len(d.buf)) and goes on with the rest in the environment envL.
   Hypotheses: as_U_g; 0 < base256BlockLen (Go would panic dividing by zero). *)
Theorem C13_source_rd_pre_exec (f : nat) (buf : bytes) (nbuf : nat) (scr : bytes) (u : U) (p : bytes) (rest : list gstmt) :
  (0 < N.to_nat (BaseX.ibl en))%nat ->
  exec2 (ext_rd en U uread g_U as_U) (S (S (S (S (S (S (S (S (S f))))))))) [("d", g_decU en U g_U None [] buf nbuf scr u); ("p", VBytes p)] (rd_pre ++ rest)
  = exec2 (ext_rd en U uread g_U as_U) (S (S f)) (envL en (g_decU en U g_U None [] buf nbuf scr u) p (gd_nn en (List.length buf) (List.length p)) []) rest.
Proof. exact (rd_pre_exec en U uread g_U as_U as_U_g f buf nbuf scr u p rest). Qed.

(* segment 2, the fill loop `for d.nbuf < obl && d.err == nil` with k turns of evaluator fuel: it makes exactly the reads
   gd_fill describes — one d.r.Read(d.buf[d.nbuf:nn]) of nn - d.nbuf bytes per turn, d.nbuf += n, d.err = err, the
   reader written back — and goes on with the rest; out of fuel (gd_fill = None) it is CStuck "loop fuel".  d.buf is
   unchanged (NOT EXPRESSIBLE 2).  Hypotheses: as_U_g; baseXBlockLen <= nn <= len(d.buf); the shape of the
   environment's tail (rd_tl). *)
Theorem C13_source_rd_loop (f : nat) (out buf scr p : bytes) (nn : nat) (rest : list gstmt) :
  (nn <= List.length buf)%nat -> (N.to_nat (BaseX.obl en) <= nn)%nat ->
  forall (k nbuf : nat) (er : option err) (u : U) (tl : env), rd_tl tl ->
  match gd_fill en U uread k nn nbuf er u with
  | None => for_loop2 (ext_rd en U uread g_U as_U) (F5 f) rd_cond rd_loop_body rest k (envL en (g_decU en U g_U er out buf nbuf scr u) p nn tl) = CStuck "loop fuel"
  | Some (nbuf', er', u') =>
    exists tl', rd_tl tl' /\
    for_loop2 (ext_rd en U uread g_U as_U) (F5 f) rd_cond rd_loop_body rest k (envL en (g_decU en U g_U er out buf nbuf scr u) p nn tl)
    = exec2 (ext_rd en U uread g_U as_U) (F5 f) (envL en (g_decU en U g_U er' out buf nbuf' scr u') p nn tl') rest
  end.
Proof. exact (rd_loop en U uread g_U as_U as_U_g f out buf scr p nn rest). Qed.

(* segment 3, the eof / error dispatch after the loop (the first two statements of rd_post): an error other than io.EOF,
   or io.EOF with nothing buffered, is returned at once as (0, err); io.EOF with characters buffered clears d.err,
   sets eof = true and goes on to the decoding part rd_post2; no error: eof = false and on to rd_post2.
   Hypotheses: as_U_g; the shape of the environment's tail. *)
Theorem C13_source_rd_post_exec (f : nat) (er : option err) (out buf : bytes) (nbuf : nat) (scr : bytes) (u : U) (p : bytes) (nn : nat) (tl : env) :
  rd_tl tl ->
  exec2 (ext_rd en U uread g_U as_U) (S (S (S (S (S (S f)))))) (envL en (g_decU en U g_U er out buf nbuf scr u) p nn tl) rd_post
  = match er with
    | Some x =>
      if (is_eof7 x && negb (Nat.eqb nbuf 0))%bool
      then exec2 (ext_rd en U uread g_U as_U) (S (S (S (S f)))) (envL en (g_decU en U g_U None out buf nbuf scr u) p nn (tl ++ [("eof", VBool true)])) rd_post2
      else CRet [VInt 0; g_err x] (envL en (g_decU en U g_U er out buf nbuf scr u) p nn (tl ++ [("eof", VBool false)]))
    | None => exec2 (ext_rd en U uread g_U as_U) (S (S (S (S f)))) (envL en (g_decU en U g_U None out buf nbuf scr u) p nn (tl ++ [("eof", VBool false)])) rd_post2
    end.
Proof. exact (rd_post_exec en U uread g_U as_U as_U_g f er out buf nbuf scr u p nn tl). Qed.

(* whole run, decoder.Read from a state with d.err = nil and d.out empty: the three segments above put together — when
   the loop ends with an error other than io.EOF, or with io.EOF and d.nbuf = 0, Read returns (0, that error) at once,
   leaving d.err = the error, d.nbuf and d.r as the loop left them, p untouched.  The other endings (True here) go on to
   the decoding part, which one run of the evaluator cannot cross (the shift statement).  Hypotheses: as_U_g;
   0 < base256BlockLen; baseXBlockLen <= len(d.buf) (newDecoder: len(d.buf) = 8192*ibl); 13 <= F.  When the loop needs
   more than F - 7 turns the evaluator is out of fuel (stated: OStuck "loop fuel"; a bound on the evaluator). *)
Theorem C13_source_decoder_Read_exits (F : nat) (buf : bytes) (nbuf : nat) (scr : bytes) (u : U) (p : bytes) :
  (0 < N.to_nat (BaseX.ibl en))%nat -> (N.to_nat (BaseX.obl en) <= List.length buf)%nat -> (13 <= F)%nat ->
  let r := run_func2_at (S F) (ext_rd en U uread g_U as_U) f_basex_decoder_Read [g_decU en U g_U None [] buf nbuf scr u; VBytes p] in
  match gd_fill en U uread (F - 7) (gd_nn en (List.length buf) (List.length p)) nbuf None u with
  | None => r = (OStuck "loop fuel", [])
  | Some (nbuf', Some x, u') =>
    if (is_eof7 x && negb (Nat.eqb nbuf' 0))%bool then True
    else fst r = ORet [VInt 0; g_err x] /\
         lookup "d" (snd r) = Some (g_decU en U g_U (Some x) [] buf nbuf' scr u') /\
         lookup "p" (snd r) = Some (VBytes p)
  | Some (_, None, _) => True
  end.
Proof. exact (go_decoder_Read_exits en U uread g_U as_U as_U_g F buf nbuf scr u p). Qed.

(* segment 4, the decoding part (rd_mid, statements 10..15) = gd_mid: numBytesToDecode (all of d.nbuf at eof, else whole
   blocks), DecodedLen, then Decode into d.scratchbuf + copy into p + surplus kept in d.out when the output exceeds
   len(p), or Decode straight into p; d.err = the decode error; d.nbuf -= numBytesToDecode; the bytes delivered are
   observed in p (p is a variable: Decode / copy write it back).  CStuck "call" exactly when Decode's destination is
   too short (gd_mid = None: the Go code would panic).  Xm = the extern table ext_rd.  Hypotheses: 0 < baseXBlockLen;
   d.nbuf <= len(d.buf); "n" is declared (one turn of the loop has run: its value x is arbitrary). *)
Theorem C13_source_rd_mid_exec (f : nat) (eof : bool) (out buf : bytes) (nbuf : nat) (scr : bytes) (R : gval) (p : bytes) (nn : nat)
        (x : gval) (rest : list gstmt) :
  (0 < N.to_nat (BaseX.obl en))%nat -> (nbuf <= List.length buf)%nat ->
  let o := mkGd None out buf nbuf scr R in
  let num := if eof then nbuf else (nbuf / N.to_nat (BaseX.obl en) * N.to_nat (BaseX.obl en))%nat in
  let nout := decoded_len en (N.of_nat num) in
  exec2 (Xm en U uread g_U as_U) (S (S (S (S (S (S (S (S (S (S (S (S f))))))))))))
        [("d", g_dec en o); ("p", VBytes p); ("ibl", VInt (Z.of_nat (N.to_nat (BaseX.ibl en)))); ("obl", VInt (Z.of_nat (N.to_nat (BaseX.obl en))));
         ("nn", VInt (Z.of_nat nn)); ("n", x); ("eof", VBool eof)] (rd_mid ++ rest)
  = match gd_mid en eof o p with
    | Some (ret, o', p') =>
      exec2 (Xm en U uread g_U as_U) (S (S (S (S (S (S f))))))
            (envM en (g_dec en o') p' nn
                  (if Nat.ltb (List.length p) (N.to_nat nout) then VInt (Z.of_nat (List.length (fst (decode en (firstn num buf))))) else x)
                  eof num nout ret) rest
    | None => CStuck "call"
    end.
Proof. exact (rd_mid_exec en U uread g_U as_U f eof out buf nbuf scr R p nn x rest). Qed.

(* WITNESS of NOT EXPRESSIBLE 2/3 in place: the buffer shift copy(d.buf[0:d.nbuf], d.buf[num:num+d.nbuf]) between
   segments 4 and 5 is stuck ("call arity") under this extern table (copy returns the count and the destination, as
   the assignment `ret = copy(p, d.out)` of segment 4 needs).  Hypothesis: num + d.nbuf <= len(d.buf). *)
Theorem C13_source_rd_shift_stuck (f : nat) (o' : gdec) (p' : bytes) (nn : nat) (nv : gval) (eof : bool) (num : nat) (nout : N)
        (ret : nat) (rest : list gstmt) :
  (num + gd_nbuf o' <= List.length (gd_buf o'))%nat ->
  exec2 (Xm en U uread g_U as_U) (S (S f)) (envM en (g_dec en o') p' nn nv eof num nout ret) (rd_shift :: rest) = CStuck "call arity".
Proof. exact (rd_shift_stuck en U uread g_U as_U f o' p' nn nv eof num nout ret rest). Qed.

(* segment 5, the final returns (rd_fin) = gd_fin: (0, io.EOF) when nothing was delivered without error into a non-empty
   p, else (ret, d.err); the environment unchanged.  No hypothesis. *)
Theorem C13_source_rd_fin_exec (f : nat) (o' : gdec) (p' : bytes) (nn : nat) (nv : gval) (eof : bool) (num : nat) (nout : N) (ret : nat) :
  exec2 (Xm en U uread g_U as_U) (S (S (S (S f)))) (envM en (g_dec en o') p' nn nv eof num nout ret) rd_fin
  = CRet [VInt (Z.of_nat (fst (gd_fin ret (gd_err o') (List.length p')))); g_err_opt (snd (gd_fin ret (gd_err o') (List.length p')))]
         (envM en (g_dec en o') p' nn nv eof num nout ret).
Proof. exact (rd_fin_exec en U uread g_U as_U f o' p' nn nv eof num nout ret). Qed.
End Reader.

(* whole run over the reader of model/BxStream.v (the raw source for a strict encoding, source + filteringReader state
   otherwise: g_rd; read by under_read) against bd_read: on the paths that leave Read right after the fill loop, bd_read
   returns BdErr [] x with state (Some x, [], buffered characters, reader) and the Go code returns (0, x) leaving
   d.err = x, d.nbuf = the number of buffered characters and d.r = the model's reader.  The object is the one newDecoder
   builds, d.buf[:d.nbuf] standing for the model's bd_buf (only its LENGTH matters on these paths).  Hypotheses:
   bd_err st = None, bd_out st = []; 0 < base256BlockLen; len(d.buf) = input_cap en; baseXBlockLen <= input_cap en;
   13 <= F. *)
Theorem C13_source_decoder_Read_exits_model (F : nat) (st : bd_state) (buf scr p : bytes) :
  bd_err st = None -> bd_out st = [] ->
  (0 < N.to_nat (BaseX.ibl en))%nat -> List.length buf = input_cap en -> (N.to_nat (BaseX.obl en) <= input_cap en)%nat ->
  (13 <= F)%nat ->
  let r := run_func2_at (S F) (ext_bd en) f_basex_decoder_Read
             [g_decU en fr_state (g_rd en) None [] buf (List.length (bd_buf st)) scr (bd_r st); VBytes p] in
  match gd_fill en fr_state (under_read en) (F - 7) (gd_nn en (List.length buf) (List.length p)) (List.length (bd_buf st)) None (bd_r st) with
  | None => r = (OStuck "loop fuel", [])
  | Some (n', Some x, _) =>
    if (is_eof7 x && negb (Nat.eqb n' 0))%bool then True
    else
    let '(res, st') := bd_read en (F - 7) (List.length p) st in
         res = BdErr [] x /\ bd_err st' = Some x /\ bd_out st' = [] /\
         fst r = ORet [VInt 0; g_err x] /\
         lookup "d" (snd r) = Some (g_decU en fr_state (g_rd en) (bd_err st') [] buf (List.length (bd_buf st')) scr (bd_r st')) /\
         lookup "p" (snd r) = Some (VBytes p)
  | Some (_, None, _) => True
  end.
Proof. exact (go_decoder_Read_exits_model en F st buf scr p). Qed.

(* (no evaluator) THE DECODING PART AGAINST THE MODEL: gd_mid followed by gd_fin IS BxStreamProofs.bd_after, the decoding
   part of bd_read, on an object whose d.buf[:d.nbuf] holds the characters the model has buffered: the same result
   (data or data + error, res_of), d.err, d.out, and the leftover input = d.buf[num:num+d.nbuf], i.e. d.buf[:d.nbuf]
   once the shift is performed.  Hypotheses: d.nbuf <= len(d.buf); len(p) > 0 (the model is defined for non-empty p;
   for an empty p the Go code returns (0, nil), gd_fin says so). *)
Theorem C13_source_gd_decode_model (eof : bool) (buf : bytes) (nbuf : nat) (scr : bytes) (R : gval) (r' : fr_state) (p : bytes) :
  (nbuf <= List.length buf)%nat -> (0 < List.length p)%nat ->
  let o := mkGd None [] buf nbuf scr R in
  let num := if eof then nbuf else (nbuf / N.to_nat (BaseX.obl en) * N.to_nat (BaseX.obl en))%nat in
  match gd_mid en eof o p with
  | Some (ret, o', p') =>
    BxStreamProofs.bd_after en (List.length p) (firstn nbuf buf) r' eof
    = (res_of (gd_fin ret (gd_err o') (List.length p')) p',
       mkBd (gd_err o') (gd_out o') (firstn (gd_nbuf o') (skipn num buf)) r')
  | None => True
  end.
Proof. exact (gd_decode_model en eof buf nbuf scr R r' p). Qed.

(* WITNESS of NOT EXPRESSIBLE 2, the read: the second statement of the fill loop is the call "Reader.Read" on d.r and
   the slice expression d.buf[d.nbuf:nn], and the ONLY place among its arguments an extern can write back to is d.r. *)
Theorem C13_source_decoder_Read_read_places :
  match nth 1 rd_loop_body SBreak with
  | SAssignL _ [ECall fn args] => (fn, args, mutable_places args)
  | _ => ("", [], [])
  end
  = ("Reader.Read",
     [ESel (EVar "d") "r"; ESlice (ESel (EVar "d") "buf") (Some (ESel (EVar "d") "nbuf")) (Some (EVar "nn"))],
     [LField (LVar "d") "r"]).
Proof. exact decoder_Read_read_places. Qed.

(* WITNESS of NOT EXPRESSIBLE 2, the move: statement 16 of decoder.Read is the call "copy" and NONE of its arguments is a
   place: its effect on d.buf cannot be expressed. *)
Theorem C13_source_decoder_Read_copy_places :
  match nth 16 (f_body f_basex_decoder_Read) SBreak with
  | SExpr (ECall fn args) => (fn, mutable_places args)
  | _ => ("", [LVar ""])
  end = ("copy", []).
Proof. exact decoder_Read_copy_places. Qed.

(* WITNESS of NOT EXPRESSIBLE 3: for every extern table X, a result list rs that a call STATEMENT without places accepts
   (write_back2 X [] rs e succeeds: rs must be empty) is one the assignment `ret = copy(..)` rejects (it needs the
   count as first result): no result list of the extern "copy" serves both sites. *)
Theorem C13_source_copy_sites_conflict (X : externs) (rs : list gval) (e : env) :
  write_back2 X [] rs e <> None -> lv_set_all X [LVar "ret"] (firstn 1 rs) e = None.
Proof. exact (copy_sites_conflict X rs e). Qed.
End C13_source_bx_decoder.

(* ---------------- SOURCE TIE of the armored READ stack's framing layer: framedDecoderStream ---------------- *)
(* Lemmas of proofs/GoAstProofs7a.v.  The terms f_saltpack_framedDecoderStream_{isValidByteSequence, toASCII, loadHeader,
   Read, GetHeader, GetFooter, GetBrand, consumeUntilEOF} are generated on every run from the Go syntax trees of
   /repo/armor.go (gen/GoAstDearmor.v) and run by the evaluator of model/GoLang2.v on ENCODED receiver objects.
   WHAT IS TIED: framedDecoderStream.Read (with loadHeader and the getters) computes exactly the state machine gfds_read /
   gfds_load_header_m / gfds_get_ of GoAstProofs7a.v — framedDecoderStream for ARBITRARY header / frame checkers hc, fc
   (None = nil) — every return value, the error, the object left in the receiver and the bytes left in p; and that
   machine, at the checkers the library ships (parseFrame / CheckArmor62 at a message type: hc_opt / fc_opt (Some typ))
   and at "no checkers" (None), IS the model's fds_read / fds_load_header of model/ArmorStream.v — the middle layer of
   the composed stack the C13_armor_stream_ theorems above are about.  All this UNDER THE INVARIANT pr_clean (the
   underlying io.Reader never returns saltpack's internal value ErrPunctuated itself; Read would take it for the end
   of the body), which holds of the initial object over a source that never delivers that value and which Read and
   loadHeader PRESERVE (C13_source_gfds_read_clean).
   The object is [g_fds hc fc encv flim r st]: st : fds_state the model's record (reader state, phase, header, footer,
   brand); r : fds_rep the representation choices the model does not fix (an empty header / footer slice is nil or
   empty, the punctuatedReader's internal buffer); frameLim an ARBITRARY value flim (newArmorDecoderStream stores
   lim0 = 8192); params.Encoding an ARBITRARY value encv.  Externs (ext_fds): punctuatedReader.ReadUntilPunctuation
   = pr_read_until fuel (tie: C13_source_ReadUntilPunctuation), punctuatedReader.Read = pr_read (tie:
   C13_source_punctuatedReader_Read) — C13_source_ext_Read_sound / ext_RUP_sound show these externs return and write
   back exactly what the translated methods do; what those ties leave open (nil-or-empty slices in the new reader
   object, the internal buffer, the bytes of p beyond the count) is supplied by oracles Orup, Ord, and the
   representation after a nested method call by oracles Olh, Oce: every statement holds for EVERY oracle and every
   model fuel.  "Some representation r'" always comes with keeps_ok r r': if the reader's buffer has its real length
   4096 in r and the oracles keep it, it has in r' — so the statements compose with themselves and with the tie of
   ReadUntilPunctuation.
   WHAT STAYS CAMPAIGN-ONLY (the C13 / C11 campaigns compare the composed stack call by call with
   NewArmor62DecoderStream): (1) the BODY of consumeUntilEOF — `n, err := s.r.Read(buf[:])` fills a LOCAL array through a
   slice expression, which is not a place of the evaluator: it is stuck for every state
   (C13_source_consumeUntilEOF_not_expressible); inside Read the call s.consumeUntilEOF() has the model's meaning
   fds_consume.  (2) isValidByteSequence on a BYTE-STRING argument, which is what every caller passes: the evaluator's
   `range` iterates lists only, so the loop is tied on the list of the byte values and stuck on VBytes
   (C13_source_isValidByteSequence_bytes_stuck); inside toASCII / consumeUntilEOF the call has the meaning
   forallb valid_armor_byte.  Also toASCII of a NIL slice (string(nil) is not convertible in the evaluator).
   FINDING recorded in GoAstProofs7a.v: after a header the checker refuses, Go has overwritten s.frameBrand with the
   checker's first result while the model keeps the old brand — hence the relation fds_rel (equal but for frameBrand
   while the phase is Header) instead of equality; not observable through the API. *)
Section C13_source_framed_decoder.
Import GoAstDearmor GoAstProofs7a.
Local Open Scope string_scope.

Section Go_side.
Variable hc : option checker1.
Variable fc : option checker2.
Variable encv : gval.
Variable fuel : nat.
Variable flim : Z.
Variable Orup : gval -> (bool * bool) * bytes.
Variable Ord : read_oracle.
Variable Olh : gval -> fds_rep.
Variable Oce : gval -> fds_rep.
(* the extern table and the receiver object of this section, written out once *)
Local Notation EXT := (ext_fds hc fc encv fuel flim Orup Ord Olh Oce).
Local Notation OBJ := (g_fds hc fc encv flim).

(* s.isValidByteSequence(p), p given as the LIST OF ITS BYTE VALUES (g_blist p): returns forallb valid_armor_byte p;
   receiver unchanged.  No hypothesis. *)
Theorem C13_source_isValidByteSequence (r : fds_rep) (st : fds_state) (p : bytes) :
  let R := run_func2 EXT f_saltpack_framedDecoderStream_isValidByteSequence [OBJ r st; g_blist p] in
  fst R = ORet [VBool (forallb valid_armor_byte p)] /\ lookup "s" (snd R) = Some (OBJ r st).
Proof. exact (go_isValidByteSequence hc fc encv fuel flim Orup Ord Olh Oce r st p). Qed.

(* a nil slice: true.  No hypothesis. *)
Theorem C13_source_isValidByteSequence_nil (r : fds_rep) (st : fds_state) :
  fst (run_func2 EXT f_saltpack_framedDecoderStream_isValidByteSequence [OBJ r st; VNil]) = ORet [VBool true].
Proof. exact (go_isValidByteSequence_nil hc fc encv fuel flim Orup Ord Olh Oce r st). Qed.

(* with the slice given as a byte string (the representation every caller passes) the evaluator is stuck at the range
   loop, for every state and every p: this use is campaign-only.  No hypothesis. *)
Theorem C13_source_isValidByteSequence_bytes_stuck (r : fds_rep) (st : fds_state) (p : bytes) :
  fst (run_func2 EXT f_saltpack_framedDecoderStream_isValidByteSequence [OBJ r st; VBytes p]) = OStuck "range".
Proof. exact (go_isValidByteSequence_bytes_stuck hc fc encv fuel flim Orup Ord Olh Oce r st p). Qed.

(* s.toASCII(buf) on a byte string returns (trim_space buf, nil) if every byte is a valid armor byte, ("", ErrBadFrame)
   otherwise — asc_val / res_err of the model's to_ascii buf; receiver unchanged.  No hypothesis. *)
Theorem C13_source_toASCII (r : fds_rep) (st : fds_state) (b : bytes) :
  let R := run_func2 EXT f_saltpack_framedDecoderStream_toASCII [OBJ r st; VBytes b] in
  fst R = ORet [asc_val (to_ascii b); res_err (to_ascii b)] /\ lookup "s" (snd R) = Some (OBJ r st).
Proof. exact (go_toASCII hc fc encv fuel flim Orup Ord Olh Oce r st b). Qed.

(* s.loadHeader() returns the error of gfds_load_header_m st and leaves, in some representation r', its state: nothing
   happens unless the phase is Header; else the sentence read by ReadUntilPunctuation(s.frameLim) is stored in s.header
   (nil on error), then, with a header checker, toASCII and the checker: s.frameBrand := the checker's first result
   (ALSO when it returns an error), state := Body on success.  No hypothesis. *)
Theorem C13_source_loadHeader (r : fds_rep) (st : fds_state) :
  let R := run_func2 EXT f_saltpack_framedDecoderStream_loadHeader [OBJ r st] in
  fst R = ORet [g_err_opt (fst (gfds_load_header_m hc fuel flim st))] /\
  exists r', lookup "s" (snd R) = Some (OBJ r' (snd (gfds_load_header_m hc fuel flim st))) /\ keeps_ok Orup Olh Oce r r'.
Proof. exact (go_loadHeader hc fc encv fuel flim Orup Ord Olh Oce r st). Qed.

(* s.Read(p) returns (len d, e) and leaves the state st' in some representation r', where ((d, e), st') =
   gfds_read (len p) st (header stage, body stage, footer stage, end-of-stream stage); and p afterwards is buf2 st1 p
   (st1 = the state after the header stage): p itself if the body stage did not run, else the slice as written back by
   punctuatedReader.Read; in both cases d is at its front.  When a stage after the body fails the count is 0 and d = []
   although the body bytes are in p (as in Go).  Hypothesis: the invariant pr_clean (fds_pr st). *)
Theorem C13_source_framedDecoderStream_Read (r : fds_rep) (st : fds_state) (p : bytes) :
  pr_clean (fds_pr st) ->
  let R := run_func2 EXT f_saltpack_framedDecoderStream_Read [OBJ r st; VBytes p] in
  let m := gfds_read hc fc fuel flim (List.length p) st in
  fst R = ORet [VInt (Z.of_nat (List.length (fst (fst m)))); g_err_opt (snd (fst m))] /\
  (exists r', lookup "s" (snd R) = Some (OBJ r' (snd m)) /\ keeps_ok Orup Olh Oce r r') /\
  (let p' := buf2 Ord (snd (gfds_load_header_m hc fuel flim st)) p in
   lookup "p" (snd R) = Some (VBytes p') /\ firstn (List.length (fst (fst m))) p' = fst (fst m)).
Proof. exact (go_framedDecoderStream_Read hc fc encv fuel flim Orup Ord Olh Oce r st p). Qed.

(* the invariant is kept by Read (and by loadHeader: gfds_load_header_m_clean; it holds of the initial object over a
   source that never delivers ErrPunctuated: fds_init_clean).  Hypothesis: it holds before. *)
Theorem C13_source_gfds_read_clean (n : nat) (st : fds_state) :
  pr_clean (fds_pr st) -> pr_clean (fds_pr (snd (gfds_read hc fc fuel flim n st))).
Proof. exact (gfds_read_clean hc fc fuel flim n st). Qed.

(* s.GetFooter(): ("", fmt.Errorf(..)) before the footer phase, else toASCII(s.footer) (gfds_get_footer); receiver
   unchanged.  No hypothesis. *)
Theorem C13_source_GetFooter (r : fds_rep) (st : fds_state) :
  let R := run_func2 EXT f_saltpack_framedDecoderStream_GetFooter [OBJ r st] in
  fst R = ORet (gfds_get_footer st) /\ lookup "s" (snd R) = Some (OBJ r st).
Proof. exact (go_GetFooter hc fc encv fuel flim Orup Ord Olh Oce r st). Qed.

(* s.GetHeader(): loads the header if the phase is Header (error: ("", err)), then toASCII(s.header) (gfds_get_header);
   the receiver is some representation of the state after loading.  No hypothesis. *)
Theorem C13_source_GetHeader (r : fds_rep) (st : fds_state) :
  let R := run_func2 EXT f_saltpack_framedDecoderStream_GetHeader [OBJ r st] in
  fst R = ORet (fst (gfds_get_header hc fuel flim st)) /\
  exists r', lookup "s" (snd R) = Some (OBJ r' (snd (gfds_get_header hc fuel flim st))) /\ keeps_ok Orup Olh Oce r r'.
Proof. exact (go_GetHeader hc fc encv fuel flim Orup Ord Olh Oce r st). Qed.

(* s.GetBrand(): loads the header if the phase is Header (error: ("", err)), then (s.frameBrand, nil) (gfds_get_brand).
   No hypothesis. *)
Theorem C13_source_GetBrand (r : fds_rep) (st : fds_state) :
  let R := run_func2 EXT f_saltpack_framedDecoderStream_GetBrand [OBJ r st] in
  fst R = ORet (fst (gfds_get_brand hc fuel flim st)) /\
  exists r', lookup "s" (snd R) = Some (OBJ r' (snd (gfds_get_brand hc fuel flim st))) /\ keeps_ok Orup Olh Oce r r'.
Proof. exact (go_GetBrand hc fc encv fuel flim Orup Ord Olh Oce r st). Qed.

(* NOT EXPRESSIBLE: consumeUntilEOF is stuck at `n, err := s.r.Read(buf[:])` (the extern cannot write the data back into
   the local array buf through the slice expression), for every state, representation and oracle: its body is
   campaign-only.  No hypothesis. *)
Theorem C13_source_consumeUntilEOF_not_expressible (r : fds_rep) (st : fds_state) :
  fst (run_func2 EXT f_saltpack_framedDecoderStream_consumeUntilEOF [OBJ r st]) = OStuck "call".
Proof. exact (go_consumeUntilEOF_not_expressible hc fc encv fuel flim Orup Ord Olh Oce r st). Qed.
End Go_side.

(* the extern punctuatedReader.Read of ext_fds IS what the translated method does: run on the reader object and a caller
   buffer (under the reader's invariant, as C13_source_punctuatedReader_Read), the method returns the first two results
   of the extern and leaves in "p" / "out" its third and fourth, for some value (fl, raw) of the oracle that keeps the
   buffer's length — whatever the other parameters of ext_fds. *)
Theorem C13_source_ext_Read_sound (z1 z2 : bool) (buf : bytes) (st : pr_state) (out : bytes) :
  (pr_this st = [] -> pr_this_punct st = false) ->
  let r := run_func2 ext_pr f_saltpack_punctuatedReader_Read [g_pr z1 z2 buf st; VBytes out] in
  exists (fl : bool * bool) (raw : bytes), List.length raw = List.length out /\
    forall hc fc encv fuel flim Orup Olh Oce,
    ext_fds hc fc encv fuel flim Orup (fun _ _ => (fl, raw)) Olh Oce "punctuatedReader.Read" [g_pr z1 z2 buf st; VBytes out]
    = Some (match fst r with ORet vs => vs | _ => [] end ++
            [match lookup "p" (snd r) with Some v => v | None => VNil end;
             match lookup "out" (snd r) with Some v => v | None => VNil end]).
Proof. exact (ext_Read_sound z1 z2 buf st out). Qed.

(* the same for punctuatedReader.ReadUntilPunctuation: the translated method returns the first two results of the extern
   and leaves its third in "p", for some value of the oracle.  Hypotheses: those of C13_source_ReadUntilPunctuation
   (oracle_ok, a 4096-byte buffer, the reader's invariant, pr_clean) and both the evaluator's fuel (299) and the model's
   fuel exceed the number of turns the loop can take (rup_need). *)
Theorem C13_source_ext_RUP_sound (O : read_oracle) (z1 z2 : bool) (buf : bytes) (st : pr_state) (lim : Z) (fuel : nat) :
  oracle_ok O -> List.length buf = 4096%nat ->
  (pr_this st = [] -> pr_this_punct st = false) -> pr_clean st ->
  (rup_need (Z.to_nat lim) st [] < 299)%nat -> (rup_need (Z.to_nat lim) st [] < fuel)%nat ->
  let r := run_func2 (ext_rup O) f_saltpack_punctuatedReader_ReadUntilPunctuation [g_pr z1 z2 buf st; VInt lim] in
  exists (fl : bool * bool) (buf' : bytes), List.length buf' = 4096%nat /\
    forall hc fc encv flim Ord Olh Oce,
    ext_fds hc fc encv fuel flim (fun _ => (fl, buf')) Ord Olh Oce "punctuatedReader.ReadUntilPunctuation" [g_pr z1 z2 buf st; VInt lim]
    = Some (match fst r with ORet vs => vs | _ => [] end ++
            [match lookup "p" (snd r) with Some v => v | None => VNil end]).
Proof. exact (ext_RUP_sound O z1 z2 buf st lim fuel). Qed.

(* MODEL SIDE.  At frameLim = 8192 (lim0) and the shipped checkers hc_opt chk jb / fc_opt chk jb2 (chk = Some typ:
   parseFrame(., typ, headerMarker) / CheckArmor62(., ., typ); chk = None: no checkers; jb, jb2 = the string such a
   checker returns TOGETHER WITH an error, arbitrary), the machine of GoAstProofs7a.v and the model's fds_read chk,
   started in RELATED states (fds_rel chk: equality without checkers; equal but for frameBrand while the phase is
   Header otherwise), return the same (data, error) and end in related states.  Hypothesis: the states are related. *)
Theorem C13_source_gfds_read_model (chk : option Z) (jb : bytes -> bytes) (jb2 : bytes -> bytes -> bytes) (fuel n : nat)
        (a b : fds_state) :
  fds_rel chk a b ->
  fst (gfds_read (hc_opt chk jb) (fc_opt chk jb2) fuel lim0 n a) = fst (fds_read chk fuel n b) /\
  fds_rel chk (snd (gfds_read (hc_opt chk jb) (fc_opt chk jb2) fuel lim0 n a)) (snd (fds_read chk fuel n b)).
Proof. exact (gfds_read_model chk jb jb2 fuel n a b). Qed.

(* the same for loadHeader: the method (nothing unless the phase is Header) against the model's fds_load_header.
   (jb2 is a parameter of the lemma it does not use.)  Hypothesis: the states are related. *)
Theorem C13_source_gfds_load_header_m_model (chk : option Z) (jb : bytes -> bytes) (jb2 : bytes -> bytes -> bytes) (fuel : nat)
        (a b : fds_state) :
  fds_rel chk a b ->
  fst (gfds_load_header_m (hc_opt chk jb) fuel lim0 a) = fst (match fds_ph b with FdsHeader => fds_load_header chk fuel b | _ => (None, b) end) /\
  fds_rel chk (snd (gfds_load_header_m (hc_opt chk jb) fuel lim0 a)) (snd (match fds_ph b with FdsHeader => fds_load_header chk fuel b | _ => (None, b) end)).
Proof. exact (gfds_load_header_m_model chk jb jb2 fuel a b). Qed.

(* from the initial state fds_init s the results agree (the initial states are related, and by the two theorems above
   they stay related call after call).  No hypothesis. *)
Theorem C13_source_gfds_read_init (chk : option Z) (jb : bytes -> bytes) (jb2 : bytes -> bytes -> bytes) (fuel : nat) (n : nat) (s : source) :
  fst (gfds_read (hc_opt chk jb) (fc_opt chk jb2) fuel lim0 n (fds_init s)) = fst (fds_read chk fuel n (fds_init s)).
Proof. exact (gfds_read_init chk jb jb2 fuel n s). Qed.

(* THE TIE: the translated framedDecoderStream.Read against the model's state machine, for the shipped checker pairs
   (chk = Some typ) and for the stream without checkers (chk = None): on an object related to a model state b, Read
   returns fds_read chk fuel (len p) b's (len d, e), leaves an object related to the model's next state (in a
   representation that keeps the buffer length), and d at the front of p.  Hypotheses: fds_rel chk a b; the invariant
   pr_clean (fds_pr a). *)
Theorem C13_source_framedDecoderStream_Read_model (chk : option Z) (jb : bytes -> bytes) (jb2 : bytes -> bytes -> bytes)
        (encv : gval) (fuel : nat) (Orup : gval -> (bool * bool) * bytes) (Ord : read_oracle) (Olh Oce : gval -> fds_rep)
        (r : fds_rep) (a b : fds_state) (p : bytes) :
  fds_rel chk a b -> pr_clean (fds_pr a) ->
  let hc := hc_opt chk jb in
  let fc := fc_opt chk jb2 in
  let R := run_func2 (ext_fds hc fc encv fuel lim0 Orup Ord Olh Oce) f_saltpack_framedDecoderStream_Read [g_fds hc fc encv lim0 r a; VBytes p] in
  let m := fds_read chk fuel (List.length p) b in
  fst R = ORet [VInt (Z.of_nat (List.length (fst (fst m)))); g_err_opt (snd (fst m))] /\
  (exists r' a', lookup "s" (snd R) = Some (g_fds hc fc encv lim0 r' a') /\ fds_rel chk a' (snd m) /\
                 keeps_ok Orup Olh Oce r r') /\
  (exists p', lookup "p" (snd R) = Some (VBytes p') /\ firstn (List.length (fst (fst m))) p' = fst (fst m)).
Proof. exact (go_framedDecoderStream_Read_model chk jb jb2 encv fuel Orup Ord Olh Oce r a b p). Qed.

(* its three instances for the shipped checker pairs: armor62EncryptionHeaderChecker / FrameChecker (armor62_signcrypt.go
   reuses this pair), armor62SignatureHeaderChecker / FrameChecker, armor62DetachedSignatureHeaderChecker / FrameChecker *)
Theorem C13_source_Read_armor62_encryption (jb : bytes -> bytes) (jb2 : bytes -> bytes -> bytes)
        (encv : gval) (fuel : nat) (Orup : gval -> (bool * bool) * bytes) (Ord : read_oracle) (Olh Oce : gval -> fds_rep)
        (r : fds_rep) (a b : fds_state) (p : bytes) :
  fds_rel (Some mt_encryption) a b -> pr_clean (fds_pr a) ->
  let hc := hc_opt (Some mt_encryption) jb in
  let fc := fc_opt (Some mt_encryption) jb2 in
  let R := run_func2 (ext_fds hc fc encv fuel lim0 Orup Ord Olh Oce) f_saltpack_framedDecoderStream_Read [g_fds hc fc encv lim0 r a; VBytes p] in
  let m := fds_read (Some mt_encryption) fuel (List.length p) b in
  fst R = ORet [VInt (Z.of_nat (List.length (fst (fst m)))); g_err_opt (snd (fst m))] /\
  (exists r' a', lookup "s" (snd R) = Some (g_fds hc fc encv lim0 r' a') /\ fds_rel (Some mt_encryption) a' (snd m) /\
                 keeps_ok Orup Olh Oce r r') /\
  (exists p', lookup "p" (snd R) = Some (VBytes p') /\ firstn (List.length (fst (fst m))) p' = fst (fst m)).
Proof. exact (go_Read_armor62_encryption jb jb2 encv fuel Orup Ord Olh Oce r a b p). Qed.

Theorem C13_source_Read_armor62_attached (jb : bytes -> bytes) (jb2 : bytes -> bytes -> bytes)
        (encv : gval) (fuel : nat) (Orup : gval -> (bool * bool) * bytes) (Ord : read_oracle) (Olh Oce : gval -> fds_rep)
        (r : fds_rep) (a b : fds_state) (p : bytes) :
  fds_rel (Some mt_attached) a b -> pr_clean (fds_pr a) ->
  let hc := hc_opt (Some mt_attached) jb in
  let fc := fc_opt (Some mt_attached) jb2 in
  let R := run_func2 (ext_fds hc fc encv fuel lim0 Orup Ord Olh Oce) f_saltpack_framedDecoderStream_Read [g_fds hc fc encv lim0 r a; VBytes p] in
  let m := fds_read (Some mt_attached) fuel (List.length p) b in
  fst R = ORet [VInt (Z.of_nat (List.length (fst (fst m)))); g_err_opt (snd (fst m))] /\
  (exists r' a', lookup "s" (snd R) = Some (g_fds hc fc encv lim0 r' a') /\ fds_rel (Some mt_attached) a' (snd m) /\
                 keeps_ok Orup Olh Oce r r') /\
  (exists p', lookup "p" (snd R) = Some (VBytes p') /\ firstn (List.length (fst (fst m))) p' = fst (fst m)).
Proof. exact (go_Read_armor62_attached jb jb2 encv fuel Orup Ord Olh Oce r a b p). Qed.

Theorem C13_source_Read_armor62_detached (jb : bytes -> bytes) (jb2 : bytes -> bytes -> bytes)
        (encv : gval) (fuel : nat) (Orup : gval -> (bool * bool) * bytes) (Ord : read_oracle) (Olh Oce : gval -> fds_rep)
        (r : fds_rep) (a b : fds_state) (p : bytes) :
  fds_rel (Some mt_detached) a b -> pr_clean (fds_pr a) ->
  let hc := hc_opt (Some mt_detached) jb in
  let fc := fc_opt (Some mt_detached) jb2 in
  let R := run_func2 (ext_fds hc fc encv fuel lim0 Orup Ord Olh Oce) f_saltpack_framedDecoderStream_Read [g_fds hc fc encv lim0 r a; VBytes p] in
  let m := fds_read (Some mt_detached) fuel (List.length p) b in
  fst R = ORet [VInt (Z.of_nat (List.length (fst (fst m)))); g_err_opt (snd (fst m))] /\
  (exists r' a', lookup "s" (snd R) = Some (g_fds hc fc encv lim0 r' a') /\ fds_rel (Some mt_detached) a' (snd m) /\
                 keeps_ok Orup Olh Oce r r') /\
  (exists p', lookup "p" (snd R) = Some (VBytes p') /\ firstn (List.length (fst (fst m))) p' = fst (fst m)).
Proof. exact (go_Read_armor62_detached jb jb2 encv fuel Orup Ord Olh Oce r a b p). Qed.
End C13_source_framed_decoder.

Print Assumptions C13_source_isValidByteSequence.
Print Assumptions C13_source_isValidByteSequence_nil.
Print Assumptions C13_source_isValidByteSequence_bytes_stuck.
Print Assumptions C13_source_toASCII.
Print Assumptions C13_source_loadHeader.
Print Assumptions C13_source_framedDecoderStream_Read.
Print Assumptions C13_source_gfds_read_clean.
Print Assumptions C13_source_GetFooter.
Print Assumptions C13_source_GetHeader.
Print Assumptions C13_source_GetBrand.
Print Assumptions C13_source_consumeUntilEOF_not_expressible.
Print Assumptions C13_source_ext_Read_sound.
Print Assumptions C13_source_ext_RUP_sound.
Print Assumptions C13_source_gfds_read_model.
Print Assumptions C13_source_gfds_load_header_m_model.
Print Assumptions C13_source_gfds_read_init.
Print Assumptions C13_source_framedDecoderStream_Read_model.
Print Assumptions C13_source_Read_armor62_encryption.
Print Assumptions C13_source_Read_armor62_attached.
Print Assumptions C13_source_Read_armor62_detached.
Print Assumptions C13_source_filteringReader_Read_range_stuck.
Print Assumptions C13_source_fr_body_step.
Print Assumptions C13_source_fr_after_exec.
Print Assumptions C13_source_gfr_range_filter.
Print Assumptions C13_source_decoder_Read_nofill.
Print Assumptions C13_source_rd_body_split.
Print Assumptions C13_source_rd_post2_split.
Print Assumptions C13_source_rd_pre_exec.
Print Assumptions C13_source_rd_loop.
Print Assumptions C13_source_rd_post_exec.
Print Assumptions C13_source_decoder_Read_exits.
Print Assumptions C13_source_rd_mid_exec.
Print Assumptions C13_source_rd_shift_stuck.
Print Assumptions C13_source_rd_fin_exec.
Print Assumptions C13_source_decoder_Read_exits_model.
Print Assumptions C13_source_gd_decode_model.
Print Assumptions C13_source_decoder_Read_read_places.
Print Assumptions C13_source_decoder_Read_copy_places.
Print Assumptions C13_source_copy_sites_conflict.
Print Assumptions C13_source_ReadUntilPunctuation.
Print Assumptions C13_source_chunkReader_Read.
Print Assumptions C13_source_punctuatedReader_Read.
Print Assumptions C13_source_punctuatedReader_invariant.

(* ============================== BLOCK 1: append to props/C13.v ============================== *)
From SP Require Crypto Packets Decrypt Verify Signcrypt Streams StreamProofs GoAstStreams GoAstOpen GoAstRecv GoAstProofs4b GoAstProofs4c GoAstProofs7c GoEndToEndAuth GoAstProofs8c.
Section C13_source_chunkReader_getNextChunk.
Import Crypto Errors Packets Decrypt Verify Signcrypt Streams StreamProofs GoLang GoLang2 GoAstStreams GoAstOpen GoAstRecv GoAstProofs4b GoAstProofs7c GoEndToEndAuth GoAstProofs4c GoAstProofs8c.
Local Open Scope string_scope.

(* one Read, r.chunker.getNextChunk() being ANY function gnc of the chunker object (in particular the translated method run by
   the evaluator: gnc_of), on every reader object representing a state st of the model's reader: count, error, reader left *)
Theorem C13_source_chunkReader_Read_getNextChunk (gnc : gval -> option (list gval)) (F : nat) (st : cr_state) (o pv evv : gval) (p : bytes) :
  (10 <= F)%nat -> (List.length (cr_pending st) < F)%nat -> cr_rep gnc st o pv evv ->
  read_spec gnc st p (run_func2_at (S F) (ext_crx gnc) f_saltpack_chunkReader_Read [g_crx o pv evv; VBytes p]).
Proof. exact (go_chunkReader_Read_gnc gnc F st o pv evv p). Qed.

(* the first Read on the reader the three constructors return (the receiver object in its post-header state) *)
Theorem C13_source_chunkReader_Read_decryptStream (c : crypto) (VV RING SK MK : gval) (st : dec_state) (F : nat) (n : N) (input p : bytes) :
  (vmaj (ds_version st) = 1 \/ vmaj (ds_version st) = 2)%Z ->
  (10 <= F)%nat -> (S (List.length input) < F)%nat ->
  (n + N.of_nat (List.length input) < 18446744073709551616)%N ->
  read_spec (gnc_dec c) (mkCr [] None (step_pending (dec_step c st) (S (List.length input)) n input)) p
    (run_func2_at (S F) (ext_crx (gnc_dec c)) f_saltpack_chunkReader_Read
                  [g_cr_new (ds_obj VV RING SK MK st (g_mps input n)); VBytes p]).
Proof. exact (go_chunkReader_Read_decryptStream c VV RING SK MK st F n input p). Qed.

Theorem C13_source_chunkReader_Read_verifyStream (c : crypto) (h : header) (pk hh : bytes) (F : nat) (n : N) (input p : bytes) :
  (vmaj (h_version h) = 1 \/ vmaj (h_version h) = 2)%Z ->
  (10 <= F)%nat -> (S (List.length input) < F)%nat ->
  (n + N.of_nat (List.length input) < 18446744073709551616)%N ->
  read_spec (gnc_ver c) (mkCr [] None (step_pending (verify_step c (h_version h) pk hh) (S (List.length input)) n input)) p
    (run_func2_at (S F) (ext_crx (gnc_ver c)) f_saltpack_chunkReader_Read
                  [g_cr_new (g_vs_key h hh pk (g_mps input n)); VBytes p]).
Proof. exact (go_chunkReader_Read_verifyStream c h pk hh F n input p). Qed.

Theorem C13_source_chunkReader_Read_signcryptOpenStream (c : crypto) (KR RV : gval) (pkey hh : bytes) (signer : option bytes)
        (F : nat) (n : N) (input p : bytes) :
  (10 <= F)%nat -> (S (List.length input) < F)%nat ->
  (n + N.of_nat (List.length input) < 18446744073709551616)%N ->
  read_spec (gnc_sc c) (mkCr [] None (step_pending (sc_step c pkey signer hh) (S (List.length input)) n input)) p
    (run_func2_at (S F) (ext_crx (gnc_sc c)) f_saltpack_chunkReader_Read
                  [g_cr_new (g_sos_done (g_mps input n) KR RV pkey hh signer); VBytes p]).
Proof. exact (go_chunkReader_Read_signcryptOpenStream c KR RV pkey hh signer F n input p). Qed.

(* a Read loop with any non-empty caller buffers is the model's cr_drain (C13_read_oblivious_chunk_reader is about cr_drain) *)
Theorem C13_source_chunkReader_Read_loop (gnc : gval -> option (list gval)) (F : nat) (HF : (10 <= F)%nat) (bufs : list bytes)
        (st : cr_state) (o pv evv : gval) (accb : bytes) :
  pos_sizes (map (@List.length byte) bufs) -> cr_inv st -> (List.length (cr_pending st) < F)%nat -> cr_rep gnc st o pv evv ->
  match go_reads gnc F bufs (g_crx o pv evv) (Z.of_nat (List.length accb)) with
  | Some (cnt, ev) =>
    err_rep ev (snd (cr_drain (map (@List.length byte) bufs) st accb)) /\
    cnt = Z.of_nat (List.length (fst (cr_drain (map (@List.length byte) bufs) st accb)))
  | None => unrep (snd (cr_rem st)) = true
  end.
Proof. exact (go_reads_drain gnc F HF bufs st o pv evv accb). Qed.

(* ... over the readers of the three receivers: the plaintext of the model's loop (a prefix while no error), its ending error *)
Theorem C13_source_chunkReader_Read_loop_decryptStream (c : crypto) (VV RING SK MK : gval) (st : dec_state) (F : nat) (n : N)
        (input : bytes) (bufs : list bytes) :
  (vmaj (ds_version st) = 1 \/ vmaj (ds_version st) = 2)%Z ->
  (10 <= F)%nat -> (S (List.length input) < F)%nat ->
  (n + N.of_nat (List.length input) < 18446744073709551616)%N ->
  Forall (fun p => p <> []) bufs ->
  let sl := step_loop (dec_step c st) (S (List.length input)) n input in
  let res := go_reads (gnc_dec c) F bufs (g_cr_new (ds_obj VV RING SK MK st (g_mps input n))) 0 in
  reads_spec res (List.concat (fst sl)) (snd sl) /\
  ((List.length (List.concat (fst sl)) + List.length input + 2 <= List.length bufs)%nat -> reads_done res).
Proof. exact (go_reads_decryptStream c VV RING SK MK st F n input bufs). Qed.

Theorem C13_source_chunkReader_Read_loop_verifyStream (c : crypto) (h : header) (pk hh : bytes) (F : nat) (n : N)
        (input : bytes) (bufs : list bytes) :
  (vmaj (h_version h) = 1 \/ vmaj (h_version h) = 2)%Z ->
  (10 <= F)%nat -> (S (List.length input) < F)%nat ->
  (n + N.of_nat (List.length input) < 18446744073709551616)%N ->
  Forall (fun p => p <> []) bufs ->
  let sl := step_loop (verify_step c (h_version h) pk hh) (S (List.length input)) n input in
  let res := go_reads (gnc_ver c) F bufs (g_cr_new (g_vs_key h hh pk (g_mps input n))) 0 in
  reads_spec res (List.concat (fst sl)) (snd sl) /\
  ((List.length (List.concat (fst sl)) + List.length input + 2 <= List.length bufs)%nat -> reads_done res).
Proof. exact (go_reads_verifyStream c h pk hh F n input bufs). Qed.

Theorem C13_source_chunkReader_Read_loop_signcryptOpenStream (c : crypto) (KR RV : gval) (pkey hh : bytes) (signer : option bytes)
        (F : nat) (n : N) (input : bytes) (bufs : list bytes) :
  (10 <= F)%nat -> (S (List.length input) < F)%nat ->
  (n + N.of_nat (List.length input) < 18446744073709551616)%N ->
  Forall (fun p => p <> []) bufs ->
  let sl := step_loop (sc_step c pkey signer hh) (S (List.length input)) n input in
  let res := go_reads (gnc_sc c) F bufs (g_cr_new (g_sos_done (g_mps input n) KR RV pkey hh signer)) 0 in
  reads_spec res (List.concat (fst sl)) (snd sl) /\
  ((List.length (List.concat (fst sl)) + List.length input + 2 <= List.length bufs)%nat -> reads_done res).
Proof. exact (go_reads_signcryptOpenStream c KR RV pkey hh signer F n input bufs). Qed.
End C13_source_chunkReader_getNextChunk.
Print Assumptions C13_source_chunkReader_Read_getNextChunk.
Print Assumptions C13_source_chunkReader_Read_decryptStream.
Print Assumptions C13_source_chunkReader_Read_verifyStream.
Print Assumptions C13_source_chunkReader_Read_signcryptOpenStream.
Print Assumptions C13_source_chunkReader_Read_loop.
Print Assumptions C13_source_chunkReader_Read_loop_decryptStream.
Print Assumptions C13_source_chunkReader_Read_loop_verifyStream.
Print Assumptions C13_source_chunkReader_Read_loop_signcryptOpenStream.


