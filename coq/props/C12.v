(* C12 — Abuse resistance: long-term secret keys only touch saltpack-specific inputs.
   The calls made on the application's key objects are given by coq/model/KeyTrace.v
   (tied to /repo by recording key wrappers in the C12 campaign).  For EVERY received
   byte string, validator and keyring — no cryptographic assumption — every Unbox by a
   long-term key uses one of the fixed payload-key nonces and every Box by a long-term
   key boxes 32 zero bytes; every string a signing key signs is a domain-separation
   string followed by fixed-length hash material bound to the freshly drawn header nonce.
   Only property theorems here. *)
From Coq Require Import List NArith ZArith String.
From Coq.Strings Require Import Byte.
From SP Require Import Bytes Params Crypto Errors Nonce Packets Rand Verify Encrypt Decrypt Signcrypt Sign KeyTrace KeyTraceProofs.
From SP Require Import Nonce Packets Signcrypt GoLang GoAst GoAstProofs GoAstProofs2.
From Coq Require String.
Import String.StringSyntax.
Import ListNotations.

Theorem C12_receiver_encryption (c : crypto) (vd : validator) (kr : keyring) (input : bytes) :
  Forall receiver_event_ok (open_events c vd kr input).
Proof. exact (open_events_ok c vd kr input). Qed.

Theorem C12_receiver_signcryption (kr : keyring) (input : bytes) :
  Forall (fun e => match e with
                   | KBox _ _ nonce msg => nonce = nonce_derived_shared_key /\ msg = zeros 32
                   | _ => False
                   end) (sc_open_events kr input).
Proof. exact (sc_open_events_ok kr input). Qed.

Theorem C12_sender_box (c : crypto) (v : version) (sender_sk eph_sk pkey : bytes) (rs : list rcpt) :
  Forall (fun e => match e with KBox _ _ _ msg => msg = zeros 32 | _ => False end)
         (seal_sender_events c v sender_sk eph_sk pkey rs).
Proof. exact (seal_sender_events_ok c v sender_sk eph_sk pkey rs). Qed.

Section Signer.
Variable c : crypto.
Hypothesis Hsha : forall x, List.length (sha512 c x) = 64%nat.

Theorem C12_signer_attached (v : version) (sk : bytes) (pieces : list bytes) (r : rng) :
  Forall (fun e => match e with KSign _ m => sign_input_ok m | _ => False end)
         (sign_attached_events c v sk pieces r).
Proof. exact (sign_attached_events_ok c Hsha v sk pieces r). Qed.

Theorem C12_signer_detached (v : version) (sk msg : bytes) (r : rng) :
  Forall (fun e => match e with KSign _ m => sign_input_ok m | _ => False end)
         (sign_detached_events c v sk msg r).
Proof. exact (sign_detached_events_ok c Hsha v sk msg r). Qed.

Theorem C12_signer_signcryption (hdr : bytes) (n : N) (ps : list (bytes * bool)) :
  Forall sign_input_ok (signcrypt_sign_inputs c (sha512 c hdr) n ps).
Proof. exact (signcrypt_sign_inputs_ok c Hsha hdr n ps). Qed.

Theorem C12_signer_bound_to_fresh_nonce (v : version) (sk : bytes) (pieces : list bytes) (r : rng) :
  Forall (fun e => match e with
                   | KSign _ m => exists rest,
                       m = sig_attached_prefix ++
                           sha512 c (sha512 c (sig_header_bytes v mt_attached (ed_pub c sk) (firstn 16 r)) ++ rest)
                   | _ => False
                   end) (sign_attached_events c v sk pieces r).
Proof. exact (sign_attached_inputs_bound c v sk pieces r). Qed.
End Signer.

(* the fixed nonces, as literals regenerated from /repo *)
Theorem C12_fixed_nonces :
  nonce_v1_const = bytes_of_string "saltpack_payload_key_box"%string /\
  (forall i, nonce_payload_key_box_v2 i = bytes_of_string "saltpack_recipsb"%string ++ be64 i) /\
  nonce_derived_shared_key = bytes_of_string "saltpack_derived_sboxkey"%string.
Proof. repeat split. Qed.

(* SOURCE TIE: the terms f_saltpack_* are generated on every run from the Go syntax trees of
   /repo (harness/cmd/gen/goast.go); under the Go semantics of model/GoLang.v, with the standard
   library / NaCl primitives interpreted by ext_prims over the crypto record and calls to other
   saltpack functions interpreted by the model (each of those has its own such theorem), they
   compute exactly what the model says, for ALL arguments and EVERY instance of the primitives. *)
(* the nonces under which a long-term box key is ever asked to open or box: fixed strings plus an index *)
Theorem C12_source_nonceForPayloadKeyBox (c : crypto) (v : version) (i : N) :
  run_func (ext_model c) f_saltpack_nonceForPayloadKeyBox [g_version v; VInt (Z.of_N i)]
  = ret_bytes (nonce_payload_key_box v i).
Proof. exact (go_nonceForPayloadKeyBox c v i). Qed.

Theorem C12_source_nonceForPayloadKeyBoxV2 (c : crypto) (i : N) :
  (i < 18446744073709551616)%N ->
  run_func (ext_prims c) f_saltpack_nonceForPayloadKeyBoxV2 [VInt (Z.of_N i)] = ORet [VBytes (nonce_payload_key_box_v2 i)].
Proof. exact (go_nonceForPayloadKeyBoxV2 c i). Qed.

Theorem C12_source_nonce_constants (c : crypto) :
  run_func (ext_prims c) f_saltpack_nonceForSenderKeySecretBox [] = ORet [VBytes nonce_sender_key_sbox] /\
  run_func (ext_prims c) f_saltpack_nonceForDerivedSharedKey [] = ORet [VBytes nonce_derived_shared_key].
Proof. exact (go_nonce_constants c). Qed.

(* what a long-term box key boxes for key derivation: 32 zero bytes under the MAC-key nonce *)
Theorem C12_source_computeMACKeySingle (c : crypto) (sk pk nonce : bytes) :
  (48 <= List.length (box_seal c sk pk nonce (zeros 32)))%nat ->
  run_func (ext_prims c) f_saltpack_computeMACKeySingle [VBytes sk; VBytes pk; VBytes nonce]
  = ORet [VBytes (mac_key_single c sk pk nonce)].
Proof. exact (go_computeMACKeySingle c sk pk nonce). Qed.

Print Assumptions C12_source_nonceForPayloadKeyBox.
Print Assumptions C12_source_nonceForPayloadKeyBoxV2.
Print Assumptions C12_source_nonce_constants.
Print Assumptions C12_source_computeMACKeySingle.
Print Assumptions C12_receiver_encryption.
Print Assumptions C12_receiver_signcryption.
Print Assumptions C12_sender_box.
Print Assumptions C12_signer_attached.
Print Assumptions C12_signer_detached.
Print Assumptions C12_signer_signcryption.
Print Assumptions C12_signer_bound_to_fresh_nonce.
