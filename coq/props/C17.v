(* C17 — Format name, version and mode are gated on both sides; no cross-mode confusion.
   Only property theorems here, each closed by `exact` of a lemma from proofs/. *)
From Coq Require Import List NArith ZArith.
From Coq.Strings Require Import Byte.
From SP Require Import Bytes Params Msgpack Crypto Errors Packets Chunker Rand Sign Verify Encrypt Decrypt Signcrypt
     SignProofs EncryptProofs GateProofs.
From SP Require Import GoLang GoAst GoAstProofs.
From Coq Require String.
Import String.StringSyntax.
Import ListNotations.

(* ---- receivers: a successful header phase implies format name "saltpack", a version the
        caller's validator accepts, and the entry point's own mode ---- *)
Theorem C17_gate_verify (c : crypto) vd kr input pk out :
  verify_stream c vd kr input = Ok (pk, out) -> gated (Some vd) mt_attached input.
Proof. exact (verify_stream_gated c vd kr input pk out). Qed.
Theorem C17_gate_verify_detached (c : crypto) vd kr msg sigfile pk :
  verify_detached c vd kr msg sigfile = Ok pk -> gated (Some vd) mt_detached sigfile.
Proof. exact (verify_detached_gated c vd kr msg sigfile pk). Qed.
Theorem C17_gate_open (c : crypto) vd kr input m out :
  open_stream c vd kr input = Ok (m, out) -> gated (Some vd) mt_encryption input.
Proof. exact (open_stream_gated c vd kr input m out). Qed.
Theorem C17_gate_signcrypt_open (c : crypto) kr signers rv input s out :
  signcrypt_open_stream c kr signers rv input = Ok (s, out) -> gated None mt_signcryption input.
Proof. exact (signcrypt_open_stream_gated c kr signers rv input s out). Qed.

(* the four modes are four different header values, and V1/V2 two different versions *)
Theorem C17_modes_distinct :
  NoDup [mt_encryption; mt_attached; mt_detached; mt_signcryption] /\ version_eqb v1 v2 = false /\
  validate_version (Single v1) v2 = false /\ validate_version (Single v2) v1 = false.
Proof. vm_compute. repeat split; repeat constructor; cbn; intuition discriminate. Qed.

(* ---- no cross-mode / cross-version acceptance of genuine messages ---- *)
Section Cross.
Variable c : crypto.
Hypothesis Hc : crypto_ok c.

Theorem C17_attached_not_detached (v : version) (sk : bytes) (pieces : list bytes) (r r' : rng)
        (kr : sigring) (vd : validator) (msg out : bytes) :
  v = v1 \/ v = v2 -> good_validator vd v ->
  sign_attached_stream c v sk pieces r = Ok (out, r') ->
  verify_detached c vd kr msg out = Err ErrWrongMessageType.
Proof. exact (detached_rejects_attached c Hc v sk pieces r r' kr vd msg out). Qed.

Theorem C17_detached_not_attached (v : version) (sk msg : bytes) (r r' : rng)
        (kr : sigring) (vd : validator) (out : bytes) :
  v = v1 \/ v = v2 -> good_validator vd v ->
  sign_detached c v sk msg r = Ok (out, r') ->
  verify_stream c vd kr out = Err ErrWrongMessageType.
Proof. exact (attached_rejects_detached c Hc v sk msg r r' kr vd out). Qed.

Theorem C17_other_version_refused (v v' : version) (sk : bytes) (pieces : list bytes) (r r' : rng)
        (kr : sigring) (out : bytes) :
  v = v1 \/ v = v2 -> v' = v1 \/ v' = v2 -> v <> v' ->
  sign_attached_stream c v sk pieces r = Ok (out, r') ->
  verify_stream c (Single v') kr out = Err ErrBadVersion.
Proof. exact (verify_other_version c Hc v v' sk pieces r r' kr out). Qed.
End Cross.

(* ---- senders refuse versions the library does not implement: an error, nothing
        emitted (the result carries no bytes), and the model has no panic there ---- *)
Theorem C17_signers_refuse (c : crypto) (v : version) (sk : bytes) (pieces : list bytes) (msg : bytes) (r : rng) :
  known_version v = false ->
  sign_attached_stream c v sk pieces r = Err ErrBadVersion /\
  sign_detached c v sk msg r = Err ErrBadVersion.
Proof. exact (sign_unknown_version c v sk pieces msg r). Qed.

Theorem C17_sealer_refuses (c : crypto) (v : version) sender rcpts pieces r :
  known_version v = false -> seal_stream c v sender rcpts pieces r = Err ErrBadVersion.
Proof. exact (seal_unknown_version c v sender rcpts pieces r). Qed.

Theorem C17_known_versions : known_versions = [v1; v2] /\ known_version (mkV 3 0) = false /\ known_version (mkV 2 1) = false.
Proof. vm_compute. repeat split. Qed.

(* SOURCE TIE: the term f_saltpack_{checkKnownVersion, CheckKnownMajorVersion, *Header_validate} is generated on every run from the Go syntax tree of
   /repo's version gates and header validation (harness/cmd/gen/goast.go); under the Go semantics of model/GoLang.v it computes
   exactly what the model says, for ALL arguments.  An edit of that function in /repo changes
   the term and this theorem has to be re-established. *)
Theorem C17_source_checkKnownVersion (v : version) :
  g_result1 (run_func ext_versions f_saltpack_checkKnownVersion [g_version v])
  = if existsb (version_eqb v) known_versions then GOk else GErr ErrBadVersion.
Proof. exact (go_checkKnownVersion v). Qed.

Theorem C17_source_CheckKnownMajorVersion (v : version) :
  g_result1 (run_func ext_versions f_saltpack_CheckKnownMajorVersion [g_version v])
  = if validate_version AnyKnownMajor v then GOk else GErr ErrBadVersion.
Proof. exact (go_CheckKnownMajorVersion v). Qed.

Theorem C17_source_EncryptionHeader_validate (vd : validator) (h : header) :
  g_result1 (run_func (ext_validator vd) f_saltpack_EncryptionHeader_validate [g_header h; VNil])
  = m_result1 (validate_enc_header vd h).
Proof. exact (go_EncryptionHeader_validate vd h). Qed.

Theorem C17_source_SigncryptionHeader_validate (h : header) :
  g_result1 (run_func ext_versions f_saltpack_SigncryptionHeader_validate [g_header h])
  = m_result1 (validate_sc_header h).
Proof. exact (go_SigncryptionHeader_validate h). Qed.

Theorem C17_source_SignatureHeader_validate (vd : validator) (typ : Z) (h : header) :
  typ = mt_attached \/ typ = mt_detached ->
  g_result1 (run_func (ext_validator vd) f_saltpack_SignatureHeader_validate [g_header h; VNil; VInt typ])
  = m_result1 (validate_sig_header vd typ h).
Proof. exact (go_SignatureHeader_validate vd typ h). Qed.

Print Assumptions C17_source_checkKnownVersion.
Print Assumptions C17_source_CheckKnownMajorVersion.
Print Assumptions C17_source_EncryptionHeader_validate.
Print Assumptions C17_source_SigncryptionHeader_validate.
Print Assumptions C17_source_SignatureHeader_validate.
Print Assumptions C17_gate_verify.
Print Assumptions C17_gate_verify_detached.
Print Assumptions C17_gate_open.
Print Assumptions C17_gate_signcrypt_open.
Print Assumptions C17_attached_not_detached.
Print Assumptions C17_detached_not_attached.
Print Assumptions C17_other_version_refused.
Print Assumptions C17_signers_refuse.
Print Assumptions C17_sealer_refuses.
