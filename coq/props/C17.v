(* C17 — Format name, version and mode are gated on both sides; no cross-mode confusion.
   Only property theorems here, each closed by `exact` of a lemma from proofs/. *)
From Coq Require Import List NArith ZArith.
From Coq.Strings Require Import Byte.
From SP Require Import Bytes Params Msgpack Crypto Errors Packets Chunker Rand Sign Verify Encrypt Decrypt Signcrypt
     SignProofs EncryptProofs GateProofs.
From SP Require Import GoLang GoAst GoAstProofs.
From Coq Require String.
Import String.StringSyntax.
Import ListNotations.

(* ---- receivers: a successful header phase implies format name "saltpack", a version the
        caller's validator accepts, and the entry point's own mode ---- *)
Theorem C17_gate_verify (c : crypto) vd kr input pk out :
  verify_stream c vd kr input = Ok (pk, out) -> gated (Some vd) mt_attached input.
Proof. exact (verify_stream_gated c vd kr input pk out). Qed.
Theorem C17_gate_verify_detached (c : crypto) vd kr msg sigfile pk :
  verify_detached c vd kr msg sigfile = Ok pk -> gated (Some vd) mt_detached sigfile.
Proof. exact (verify_detached_gated c vd kr msg sigfile pk). Qed.
Theorem C17_gate_open (c : crypto) vd kr input m out :
  open_stream c vd kr input = Ok (m, out) -> gated (Some vd) mt_encryption input.
Proof. exact (open_stream_gated c vd kr input m out). Qed.
Theorem C17_gate_signcrypt_open (c : crypto) kr signers rv input s out :
  signcrypt_open_stream c kr signers rv input = Ok (s, out) -> gated None mt_signcryption input.
Proof. exact (signcrypt_open_stream_gated c kr signers rv input s out). Qed.

(* the four modes are four different header values, and V1/V2 two different versions *)
Theorem C17_modes_distinct :
  NoDup [mt_encryption; mt_attached; mt_detached; mt_signcryption] /\ version_eqb v1 v2 = false /\
  validate_version (Single v1) v2 = false /\ validate_version (Single v2) v1 = false.
Proof. vm_compute. repeat split; repeat constructor; cbn; intuition discriminate. Qed.

(* ---- no cross-mode / cross-version acceptance of genuine messages ---- *)
Section Cross.
Variable c : crypto.
Hypothesis Hc : crypto_ok c.

Theorem C17_attached_not_detached (v : version) (sk : bytes) (pieces : list bytes) (r r' : rng)
        (kr : sigring) (vd : validator) (msg out : bytes) :
  v = v1 \/ v = v2 -> good_validator vd v ->
  sign_attached_stream c v sk pieces r = Ok (out, r') ->
  verify_detached c vd kr msg out = Err ErrWrongMessageType.
Proof. exact (detached_rejects_attached c Hc v sk pieces r r' kr vd msg out). Qed.

Theorem C17_detached_not_attached (v : version) (sk msg : bytes) (r r' : rng)
        (kr : sigring) (vd : validator) (out : bytes) :
  v = v1 \/ v = v2 -> good_validator vd v ->
  sign_detached c v sk msg r = Ok (out, r') ->
  verify_stream c vd kr out = Err ErrWrongMessageType.
Proof. exact (attached_rejects_detached c Hc v sk msg r r' kr vd out). Qed.

Theorem C17_other_version_refused (v v' : version) (sk : bytes) (pieces : list bytes) (r r' : rng)
        (kr : sigring) (out : bytes) :
  v = v1 \/ v = v2 -> v' = v1 \/ v' = v2 -> v <> v' ->
  sign_attached_stream c v sk pieces r = Ok (out, r') ->
  verify_stream c (Single v') kr out = Err ErrBadVersion.
Proof. exact (verify_other_version c Hc v v' sk pieces r r' kr out). Qed.
End Cross.

(* ---- senders refuse versions the library does not implement: an error, nothing
        emitted (the result carries no bytes), and the model has no panic there ---- *)
Theorem C17_signers_refuse (c : crypto) (v : version) (sk : bytes) (pieces : list bytes) (msg : bytes) (r : rng) :
  known_version v = false ->
  sign_attached_stream c v sk pieces r = Err ErrBadVersion /\
  sign_detached c v sk msg r = Err ErrBadVersion.
Proof. exact (sign_unknown_version c v sk pieces msg r). Qed.

Theorem C17_sealer_refuses (c : crypto) (v : version) sender rcpts pieces r :
  known_version v = false -> seal_stream c v sender rcpts pieces r = Err ErrBadVersion.
Proof. exact (seal_unknown_version c v sender rcpts pieces r). Qed.

Theorem C17_known_versions : known_versions = [v1; v2] /\ known_version (mkV 3 0) = false /\ known_version (mkV 2 1) = false.
Proof. vm_compute. repeat split. Qed.

(* SOURCE TIE: the term f_saltpack_{checkKnownVersion, CheckKnownMajorVersion, *Header_validate} is generated on every run from the Go syntax tree of
   /repo's version gates and header validation (harness/cmd/gen/goast.go); under the Go semantics of model/GoLang.v it computes
   exactly what the model says, for ALL arguments.  An edit of that function in /repo changes
   the term and this theorem has to be re-established. *)
Theorem C17_source_checkKnownVersion (v : version) :
  g_result1 (run_func ext_versions f_saltpack_checkKnownVersion [g_version v])
  = if existsb (version_eqb v) known_versions then GOk else GErr ErrBadVersion.
Proof. exact (go_checkKnownVersion v). Qed.

Theorem C17_source_CheckKnownMajorVersion (v : version) :
  g_result1 (run_func ext_versions f_saltpack_CheckKnownMajorVersion [g_version v])
  = if validate_version AnyKnownMajor v then GOk else GErr ErrBadVersion.
Proof. exact (go_CheckKnownMajorVersion v). Qed.

Theorem C17_source_EncryptionHeader_validate (vd : validator) (h : header) :
  g_result1 (run_func (ext_validator vd) f_saltpack_EncryptionHeader_validate [g_header h; VNil])
  = m_result1 (validate_enc_header vd h).
Proof. exact (go_EncryptionHeader_validate vd h). Qed.

Theorem C17_source_SigncryptionHeader_validate (h : header) :
  g_result1 (run_func ext_versions f_saltpack_SigncryptionHeader_validate [g_header h])
  = m_result1 (validate_sc_header h).
Proof. exact (go_SigncryptionHeader_validate h). Qed.

Theorem C17_source_SignatureHeader_validate (vd : validator) (typ : Z) (h : header) :
  typ = mt_attached \/ typ = mt_detached ->
  g_result1 (run_func (ext_validator vd) f_saltpack_SignatureHeader_validate [g_header h; VNil; VInt typ])
  = m_result1 (validate_sig_header vd typ h).
Proof. exact (go_SignatureHeader_validate vd typ h). Qed.

Print Assumptions C17_source_checkKnownVersion.
Print Assumptions C17_source_CheckKnownMajorVersion.
Print Assumptions C17_source_EncryptionHeader_validate.
Print Assumptions C17_source_SigncryptionHeader_validate.
Print Assumptions C17_source_SignatureHeader_validate.
Print Assumptions C17_gate_verify.
Print Assumptions C17_gate_verify_detached.
Print Assumptions C17_gate_open.
Print Assumptions C17_gate_signcrypt_open.
Print Assumptions C17_attached_not_detached.
Print Assumptions C17_detached_not_attached.
Print Assumptions C17_other_version_refused.
Print Assumptions C17_signers_refuse.
Print Assumptions C17_sealer_refuses.

From SP Require Import Spec AcceptDefs AcceptSignProofs AcceptEncProofs AcceptScProofs GoLang2 GoAstProofs2 GoAstProofs4b GoAstProofs7c GoAstOpen GoAstRecv GoEndToEndGate.
(* ---------- paste into props/C17.v (at the end, before the Print Assumptions) ----------
   SOURCE END TO END: the gate at the level of the translated Go code.  Success of the TRANSLATED Verify / NewVerifyStream /
   VerifyDetached / VerifyDetachedReader / Open / NewDecryptStream / SigncryptOpen / NewSigncryptOpenStream implies that the header
   decoded from the input names "saltpack", carries a version the validator accepts and the entry point's mode (gated_view:
   GateProofs.gated with the header view named; the C17_source_end_to_end_X_gate theorems restate four of them with `gated` itself); the
   refusals as outcomes for every input whose header decodes; cross-mode / cross-version refusals of every genuine message of
   the model's senders and of the general specification encoders.  Additional imports needed in props/C17.v:
     From SP Require Import Spec AcceptDefs AcceptSignProofs AcceptEncProofs AcceptScProofs
                            GoLang2 GoAstProofs2 GoAstProofs4b GoAstProofs7c GoAstOpen GoAstRecv GoEndToEndGate.   *)

Local Open Scope string_scope.
Theorem C17_source_end_to_end_Verify_gated (c : crypto) (vd : validator) (kr : sigring) (VV KR : gval) (input pk msg : bytes) :
  verify_class (fst (run_func2 (ext_verify c vd kr) f_saltpack_Verify [VV; VBytes input; KR])) = Ok (pk, msg) ->
  gated_view view_sig_header (Some vd) mt_attached input.
Proof. exact (go_Verify_gated c vd kr VV KR input pk msg). Qed.

Theorem C17_source_end_to_end_Verify_gated_nil_error (c : crypto) (vd : validator) (kr : sigring) (VV KR : gval) (input : bytes) (sg body : gval) :
  fst (run_func2 (ext_verify c vd kr) f_saltpack_Verify [VV; VBytes input; KR]) = ORet [sg; body; VNil] ->
  gated_view view_sig_header (Some vd) mt_attached input.
Proof. exact (go_Verify_gated_nil_error c vd kr VV KR input sg body). Qed.

Theorem C17_source_end_to_end_NewVerifyStream_gated_nil_error (c : crypto) (vd : validator) (kr : sigring) (VV rd KR : gval) (input : bytes) (sg rdr : gval) :
  rdr_bytes rd = Some input ->
  fst (run_func2 (ext_NVS c vd kr) f_saltpack_NewVerifyStream [VV; rd; KR]) = ORet [sg; rdr; VNil] ->
  gated_view view_sig_header (Some vd) mt_attached input.
Proof. exact (go_NewVerifyStream_gated_nil_error c vd kr VV rd KR input sg rdr). Qed.

Theorem C17_source_end_to_end_VerifyDetached_gated (c : crypto) (vd : validator) (kr : sigring) (VV KR : gval) (msg sigfile pk : bytes) :
  vd_class (fst (run_func2 (ext_vdet2 c vd kr) f_saltpack_VerifyDetached [VV; VBytes msg; VBytes sigfile; KR])) = Ok pk ->
  gated_view view_sig_header (Some vd) mt_detached sigfile.
Proof. exact (go_VerifyDetached_gated c vd kr VV KR msg sigfile pk). Qed.

Theorem C17_source_end_to_end_VerifyDetachedReader_gated (c : crypto) (vd : validator) (kr : sigring) (VV KR : gval) (msg : bytes)
        (rerr : option (String.string * list gval)) (sigfile pk : bytes) :
  let rv := match rerr with Some (n, a) => Some (VErr n a) | None => None end in
  vd_class (fst (run_func2 (ext_vdet c vd kr) f_saltpack_VerifyDetachedReader [VV; g_rdr msg rv; VBytes sigfile; KR])) = Ok pk ->
  gated_view view_sig_header (Some vd) mt_detached sigfile.
Proof. exact (go_VerifyDetachedReader_gated c vd kr VV KR msg rerr sigfile pk). Qed.

Theorem C17_source_end_to_end_VerifyDetached_gated_nil_error (c : crypto) (vd : validator) (kr : sigring) (VV KR : gval) (msg sigfile : bytes) (sg : gval) :
  fst (run_func2 (ext_vdet2 c vd kr) f_saltpack_VerifyDetached [VV; VBytes msg; VBytes sigfile; KR]) = ORet [sg; VNil] ->
  gated_view view_sig_header (Some vd) mt_detached sigfile.
Proof. exact (go_VerifyDetached_gated_nil_error c vd kr VV KR msg sigfile sg). Qed.

Theorem C17_source_end_to_end_VerifyDetachedReader_gated_nil_error (c : crypto) (vd : validator) (kr : sigring) (VV KR : gval) (msg : bytes)
        (rerr : option (String.string * list gval)) (sigfile : bytes) (sg : gval) :
  let rv := match rerr with Some (n, a) => Some (VErr n a) | None => None end in
  fst (run_func2 (ext_vdet c vd kr) f_saltpack_VerifyDetachedReader [VV; g_rdr msg rv; VBytes sigfile; KR]) = ORet [sg; VNil] ->
  gated_view view_sig_header (Some vd) mt_detached sigfile.
Proof. exact (go_VerifyDetachedReader_gated_nil_error c vd kr VV KR msg rerr sigfile sg). Qed.

Theorem C17_source_end_to_end_Open_gated (c : crypto) (pm : bytes -> gval) (vd : validator) (kr : keyring) (VV RING : gval) (input : bytes) (m : mki) (pt : bytes) :
  open_class (fst (run_func2 (ext_open c pm vd kr) f_saltpack_Open [VV; VBytes input; RING])) = Ok (m, pt) ->
  gated_view view_enc_header (Some vd) mt_encryption input.
Proof. exact (go_Open_gated c pm vd kr VV RING input m pt). Qed.

Theorem C17_source_end_to_end_Open_gated_nil_error (c : crypto) (pm : bytes -> gval) (vd : validator) (kr : keyring) (VV RING : gval) (input : bytes) (mk body : gval) :
  fst (run_func2 (ext_open c pm vd kr) f_saltpack_Open [VV; VBytes input; RING]) = ORet [mk; body; VNil] ->
  gated_view view_enc_header (Some vd) mt_encryption input.
Proof. exact (go_Open_gated_nil_error c pm vd kr VV RING input mk body). Qed.

Theorem C17_source_end_to_end_NewDecryptStream_gated_nil_error (c : crypto) (pm : bytes -> gval) (vd : validator) (kr : keyring) (VV rd RING : gval) (input : bytes) (mk rdr : gval) :
  rdr_bytes rd = Some input ->
  fst (run_func2 (ext_nds c pm vd kr) f_saltpack_NewDecryptStream [VV; rd; RING]) = ORet [mk; rdr; VNil] ->
  gated_view view_enc_header (Some vd) mt_encryption input.
Proof. exact (go_NewDecryptStream_gated_nil_error c pm vd kr VV rd RING input mk rdr). Qed.

Theorem C17_source_end_to_end_SigncryptOpen_gated (c : crypto) (kr : keyring) (signers : sigring) (rv : resolver) (KR RV : gval) (input : bytes)
        (s : option bytes) (pt : bytes) :
  scopen_class (fst (run_func2 (ext_scopen c kr signers rv) f_saltpack_SigncryptOpen [VBytes input; KR; RV])) = Ok (s, pt) ->
  gated_view view_enc_header None mt_signcryption input.
Proof. exact (go_SigncryptOpen_gated c kr signers rv KR RV input s pt). Qed.

Theorem C17_source_end_to_end_SigncryptOpen_gated_nil_error (c : crypto) (kr : keyring) (signers : sigring) (rv : resolver) (KR RV : gval) (input : bytes)
        (sg body : gval) :
  fst (run_func2 (ext_scopen c kr signers rv) f_saltpack_SigncryptOpen [VBytes input; KR; RV]) = ORet [sg; body; VNil] ->
  gated_view view_enc_header None mt_signcryption input.
Proof. exact (go_SigncryptOpen_gated_nil_error c kr signers rv KR RV input sg body). Qed.

Theorem C17_source_end_to_end_NewSigncryptOpenStream_gated_nil_error (c : crypto) (kr : keyring) (signers : sigring) (rv : resolver) (rd KR RV : gval)
        (input : bytes) (sg rdr : gval) :
  rdr_bytes rd = Some input ->
  fst (run_func2 (ext_nsos c kr signers rv) f_saltpack_NewSigncryptOpenStream [rd; KR; RV]) = ORet [sg; rdr; VNil] ->
  gated_view view_enc_header None mt_signcryption input.
Proof. exact (go_NewSigncryptOpenStream_gated_nil_error c kr signers rv rd KR RV input sg rdr). Qed.

Theorem C17_source_end_to_end_Verify_gate_refusals (c : crypto) (vd : validator) (kr : sigring) (VV KR rd : gval) (input hb rest : bytes) (h : header) :
  read_header_bytes input = Ok (hb, rest) -> decode_header view_sig_header hb = Ok h ->
  rdr_bytes rd = Some input ->
  sig_gate vd mt_attached h (fun nm =>
    fst (run_func2 (ext_verify c vd kr) f_saltpack_Verify [VV; VBytes input; KR]) = ORet [VNil; VNil; VErr nm []] /\
    fst (run_func2 (ext_NVS c vd kr) f_saltpack_NewVerifyStream [VV; rd; KR]) = ORet [VNil; VNil; VErr nm []]).
Proof. exact (go_Verify_gate_refusals c vd kr VV KR rd input hb rest h). Qed.

Theorem C17_source_end_to_end_VerifyDetached_gate_refusals (c : crypto) (vd : validator) (kr : sigring) (VV KR : gval) (msg : bytes)
        (rerr : option (String.string * list gval)) (sigfile hb rest : bytes) (h : header) :
  read_header_bytes sigfile = Ok (hb, rest) -> decode_header view_sig_header hb = Ok h ->
  let rv := match rerr with Some (n, a) => Some (VErr n a) | None => None end in
  sig_gate vd mt_detached h (fun nm =>
    fst (run_func2 (ext_vdet2 c vd kr) f_saltpack_VerifyDetached [VV; VBytes msg; VBytes sigfile; KR]) = ORet [VNil; VErr nm []] /\
    fst (run_func2 (ext_vdet c vd kr) f_saltpack_VerifyDetachedReader [VV; g_rdr msg rv; VBytes sigfile; KR])
    = ORet [VNil; VErr nm []]).
Proof. exact (go_VerifyDetached_gate_refusals c vd kr VV KR msg rerr sigfile hb rest h). Qed.

Theorem C17_source_end_to_end_Open_gate_refusals (c : crypto) (pm : bytes -> gval) (vd : validator) (kr : keyring) (VV RING rd : gval)
        (input hb rest : bytes) (h : header) :
  read_header_bytes input = Ok (hb, rest) -> decode_header view_enc_header hb = Ok h ->
  rdr_bytes rd = Some input ->
  enc_gate (validate_version vd (h_version h)) mt_encryption h (fun nm =>
    fst (run_func2 (ext_open c pm vd kr) f_saltpack_Open [VV; VBytes input; RING]) = ORet [pm input; VNil; VErr nm []] /\
    fst (run_func2 (ext_nds c pm vd kr) f_saltpack_NewDecryptStream [VV; rd; RING]) = ORet [pm input; VNil; VErr nm []]).
Proof. exact (go_Open_gate_refusals c pm vd kr VV RING rd input hb rest h). Qed.

Theorem C17_source_end_to_end_SigncryptOpen_gate_refusals (c : crypto) (kr : keyring) (signers : sigring) (rv : resolver) (KR RV rd : gval)
        (input hb rest : bytes) (h : header) :
  read_header_bytes input = Ok (hb, rest) -> decode_header view_enc_header hb = Ok h ->
  rdr_bytes rd = Some input ->
  enc_gate (vmaj (h_version h) =? vmaj v2)%Z mt_signcryption h (fun nm =>
    fst (run_func2 (ext_scopen c kr signers rv) f_saltpack_SigncryptOpen [VBytes input; KR; RV]) = ORet [VNil; VNil; VErr nm []] /\
    fst (run_func2 (ext_nsos c kr signers rv) f_saltpack_NewSigncryptOpenStream [rd; KR; RV]) = ORet [VNil; VNil; VErr nm []]).
Proof. exact (go_SigncryptOpen_gate_refusals c kr signers rv KR RV rd input hb rest h). Qed.

Theorem C17_source_end_to_end_VerifyDetached_refuses_attached (c : crypto) (Hc : crypto_ok c) (v : version) (sk : bytes) (pieces : list bytes) (r r' : rng) (out : bytes)
        (kr : sigring) (vd : validator) (VV KR : gval) (msg : bytes) (rerr : option (String.string * list gval)) :
  v = v1 \/ v = v2 -> good_validator vd v ->
  sign_attached_stream c v sk pieces r = Ok (out, r') ->
  let rv := match rerr with Some (n, a) => Some (VErr n a) | None => None end in
  fst (run_func2 (ext_vdet2 c vd kr) f_saltpack_VerifyDetached [VV; VBytes msg; VBytes out; KR])
  = ORet [VNil; VErr "ErrWrongMessageType" []] /\
  fst (run_func2 (ext_vdet c vd kr) f_saltpack_VerifyDetachedReader [VV; g_rdr msg rv; VBytes out; KR])
  = ORet [VNil; VErr "ErrWrongMessageType" []].
Proof. exact (go_VerifyDetached_refuses_attached c Hc v sk pieces r r' out kr vd VV KR msg rerr). Qed.

Theorem C17_source_end_to_end_Verify_refuses_detached (c : crypto) (Hc : crypto_ok c) (v : version) (sk msg : bytes) (r r' : rng) (out : bytes)
        (kr : sigring) (vd : validator) (VV KR rd : gval) :
  v = v1 \/ v = v2 -> good_validator vd v ->
  sign_detached c v sk msg r = Ok (out, r') ->
  rdr_bytes rd = Some out ->
  fst (run_func2 (ext_verify c vd kr) f_saltpack_Verify [VV; VBytes out; KR])
  = ORet [VNil; VNil; VErr "ErrWrongMessageType" []] /\
  fst (run_func2 (ext_NVS c vd kr) f_saltpack_NewVerifyStream [VV; rd; KR])
  = ORet [VNil; VNil; VErr "ErrWrongMessageType" []].
Proof. exact (go_Verify_refuses_detached c Hc v sk msg r r' out kr vd VV KR rd). Qed.

Theorem C17_source_end_to_end_Verify_refuses_other_version (c : crypto) (Hc : crypto_ok c) (v v' : version) (sk : bytes) (pieces : list bytes) (r r' : rng) (out : bytes)
        (kr : sigring) (VV KR rd : gval) :
  v = v1 \/ v = v2 -> v' = v1 \/ v' = v2 -> v <> v' ->
  sign_attached_stream c v sk pieces r = Ok (out, r') ->
  rdr_bytes rd = Some out ->
  fst (run_func2 (ext_verify c (Single v') kr) f_saltpack_Verify [VV; VBytes out; KR])
  = ORet [VNil; VNil; VErr "ErrBadVersion" []] /\
  fst (run_func2 (ext_NVS c (Single v') kr) f_saltpack_NewVerifyStream [VV; rd; KR])
  = ORet [VNil; VNil; VErr "ErrBadVersion" []].
Proof. exact (go_Verify_refuses_other_version c Hc v v' sk pieces r r' out kr VV KR rd). Qed.

Theorem C17_source_end_to_end_VerifyDetached_refuses_spec_attached (c : crypto) (Hc : crypto_ok c) (p : S_sig) (kr : sigring) (vd : validator) (VV KR : gval) (msg : bytes)
        (rerr : option (String.string * list gval)) :
  (ss_major p = 1 \/ ss_major p = 2)%Z -> (0 <= ss_minor p <= 127)%Z ->
  (len (ss_nonce p) < 4294967296)%N -> extras_ok (ss_extra_hdr p) ->
  (len (mp_encode (S_sig_header_list c p S_mode_attached)) < 4294967296)%N ->
  admits vd (ss_major p) (ss_minor p) ->
  let rv := match rerr with Some (n, a) => Some (VErr n a) | None => None end in
  fst (run_func2 (ext_vdet2 c vd kr) f_saltpack_VerifyDetached [VV; VBytes msg; VBytes (S_encode_attached c p); KR])
  = ORet [VNil; VErr "ErrWrongMessageType" []] /\
  fst (run_func2 (ext_vdet c vd kr) f_saltpack_VerifyDetachedReader [VV; g_rdr msg rv; VBytes (S_encode_attached c p); KR])
  = ORet [VNil; VErr "ErrWrongMessageType" []].
Proof. exact (go_VerifyDetached_refuses_spec_attached c Hc p kr vd VV KR msg rerr). Qed.

Theorem C17_source_end_to_end_Verify_refuses_spec_detached (c : crypto) (Hc : crypto_ok c) (p : S_sig) (kr : sigring) (vd : validator) (VV KR rd : gval) :
  (ss_major p = 1 \/ ss_major p = 2)%Z -> (0 <= ss_minor p <= 127)%Z ->
  (len (ss_nonce p) < 4294967296)%N -> extras_ok (ss_extra_hdr p) ->
  (len (mp_encode (S_sig_header_list c p S_mode_detached)) < 4294967296)%N ->
  admits vd (ss_major p) (ss_minor p) ->
  rdr_bytes rd = Some (S_encode_detached c p) ->
  fst (run_func2 (ext_verify c vd kr) f_saltpack_Verify [VV; VBytes (S_encode_detached c p); KR])
  = ORet [VNil; VNil; VErr "ErrWrongMessageType" []] /\
  fst (run_func2 (ext_NVS c vd kr) f_saltpack_NewVerifyStream [VV; rd; KR])
  = ORet [VNil; VNil; VErr "ErrWrongMessageType" []].
Proof. exact (go_Verify_refuses_spec_detached c Hc p kr vd VV KR rd). Qed.

Theorem C17_source_end_to_end_Verify_refuses_spec_other_version (c : crypto) (Hc : crypto_ok c) (p : S_sig) (kr : sigring) (v' : version) (VV KR rd : gval) :
  (ss_major p = 1 \/ ss_major p = 2)%Z -> (0 <= ss_minor p <= 127)%Z ->
  (len (ss_nonce p) < 4294967296)%N -> extras_ok (ss_extra_hdr p) ->
  (len (mp_encode (S_sig_header_list c p S_mode_attached)) < 4294967296)%N ->
  v' <> mkV (ss_major p) (ss_minor p) ->
  rdr_bytes rd = Some (S_encode_attached c p) ->
  fst (run_func2 (ext_verify c (Single v') kr) f_saltpack_Verify [VV; VBytes (S_encode_attached c p); KR])
  = ORet [VNil; VNil; VErr "ErrBadVersion" []] /\
  fst (run_func2 (ext_NVS c (Single v') kr) f_saltpack_NewVerifyStream [VV; rd; KR])
  = ORet [VNil; VNil; VErr "ErrBadVersion" []].
Proof. exact (go_Verify_refuses_spec_other_version c Hc p kr v' VV KR rd). Qed.

Theorem C17_source_end_to_end_SigncryptOpen_refuses_spec_encryption (c : crypto) (Hc : crypto_ok c) (p : S_enc) (kr : keyring) (signers : sigring) (rv : resolver)
        (KR RV rd : gval) :
  enc_params_ok c p ->
  rdr_bytes rd = Some (S_encode_encryption c p) ->
  fst (run_func2 (ext_scopen c kr signers rv) f_saltpack_SigncryptOpen [VBytes (S_encode_encryption c p); KR; RV])
  = ORet [VNil; VNil; VErr "ErrWrongMessageType" []] /\
  fst (run_func2 (ext_nsos c kr signers rv) f_saltpack_NewSigncryptOpenStream [rd; KR; RV])
  = ORet [VNil; VNil; VErr "ErrWrongMessageType" []].
Proof. exact (go_SigncryptOpen_refuses_spec_encryption c Hc p kr signers rv KR RV rd). Qed.

Theorem C17_source_end_to_end_Open_refuses_spec_signcryption (c : crypto) (pm : bytes -> gval) (p : S_sc) (vd : validator) (kr : keyring) (VV RING rd : gval) :
  sc_params_ok c p ->
  rdr_bytes rd = Some (S_encode_signcryption c p) ->
  fst (run_func2 (ext_open c pm vd kr) f_saltpack_Open [VV; VBytes (S_encode_signcryption c p); RING])
  = ORet [pm (S_encode_signcryption c p); VNil; VErr "ErrWrongMessageType" []] /\
  fst (run_func2 (ext_nds c pm vd kr) f_saltpack_NewDecryptStream [VV; rd; RING])
  = ORet [pm (S_encode_signcryption c p); VNil; VErr "ErrWrongMessageType" []].
Proof. exact (go_Open_refuses_spec_signcryption c pm p vd kr VV RING rd). Qed.

Theorem C17_source_end_to_end_signature_receivers_refuse_spec_encryption (c : crypto) (Hc : crypto_ok c) (p : S_enc) (kr : sigring) (vd : validator) (VV KR rd : gval)
        (msg : bytes) (rerr : option (String.string * list gval)) :
  enc_params_ok c p -> admits vd (se_major p) (se_minor p) ->
  rdr_bytes rd = Some (S_encode_encryption c p) ->
  let rv := match rerr with Some (n, a) => Some (VErr n a) | None => None end in
  fst (run_func2 (ext_verify c vd kr) f_saltpack_Verify [VV; VBytes (S_encode_encryption c p); KR])
  = ORet [VNil; VNil; VErr "ErrWrongMessageType" []] /\
  fst (run_func2 (ext_NVS c vd kr) f_saltpack_NewVerifyStream [VV; rd; KR])
  = ORet [VNil; VNil; VErr "ErrWrongMessageType" []] /\
  fst (run_func2 (ext_vdet2 c vd kr) f_saltpack_VerifyDetached [VV; VBytes msg; VBytes (S_encode_encryption c p); KR])
  = ORet [VNil; VErr "ErrWrongMessageType" []] /\
  fst (run_func2 (ext_vdet c vd kr) f_saltpack_VerifyDetachedReader [VV; g_rdr msg rv; VBytes (S_encode_encryption c p); KR])
  = ORet [VNil; VErr "ErrWrongMessageType" []].
Proof. exact (go_signature_receivers_refuse_spec_encryption c Hc p kr vd VV KR rd msg rerr). Qed.

Theorem C17_source_end_to_end_signature_receivers_refuse_spec_signcryption (c : crypto) (p : S_sc) (kr : sigring) (vd : validator) (VV KR rd : gval)
        (msg : bytes) (rerr : option (String.string * list gval)) :
  sc_params_ok c p -> admits vd 2 (sc_minor p) ->
  rdr_bytes rd = Some (S_encode_signcryption c p) ->
  let rv := match rerr with Some (n, a) => Some (VErr n a) | None => None end in
  fst (run_func2 (ext_verify c vd kr) f_saltpack_Verify [VV; VBytes (S_encode_signcryption c p); KR])
  = ORet [VNil; VNil; VErr "ErrWrongMessageType" []] /\
  fst (run_func2 (ext_NVS c vd kr) f_saltpack_NewVerifyStream [VV; rd; KR])
  = ORet [VNil; VNil; VErr "ErrWrongMessageType" []] /\
  fst (run_func2 (ext_vdet2 c vd kr) f_saltpack_VerifyDetached [VV; VBytes msg; VBytes (S_encode_signcryption c p); KR])
  = ORet [VNil; VErr "ErrWrongMessageType" []] /\
  fst (run_func2 (ext_vdet c vd kr) f_saltpack_VerifyDetachedReader [VV; g_rdr msg rv; VBytes (S_encode_signcryption c p); KR])
  = ORet [VNil; VErr "ErrWrongMessageType" []].
Proof. exact (go_signature_receivers_refuse_spec_signcryption c p kr vd VV KR rd msg rerr). Qed.

(* the same four with GateProofs.gated itself (the predicate of the C17_gate theorems) *)
Theorem C17_source_end_to_end_Verify_gate (c : crypto) (vd : validator) (kr : sigring) (VV KR : gval) (input : bytes) (sg body : gval) :
  fst (run_func2 (ext_verify c vd kr) f_saltpack_Verify [VV; VBytes input; KR]) = ORet [sg; body; VNil] ->
  gated (Some vd) mt_attached input.
Proof. exact (fun H => gated_view_gated _ _ _ _ (go_Verify_gated_nil_error c vd kr VV KR input sg body H)). Qed.
Theorem C17_source_end_to_end_VerifyDetached_gate (c : crypto) (vd : validator) (kr : sigring) (VV KR : gval) (msg sigfile : bytes) (sg : gval) :
  fst (run_func2 (ext_vdet2 c vd kr) f_saltpack_VerifyDetached [VV; VBytes msg; VBytes sigfile; KR]) = ORet [sg; VNil] ->
  gated (Some vd) mt_detached sigfile.
Proof. exact (fun H => gated_view_gated _ _ _ _ (go_VerifyDetached_gated_nil_error c vd kr VV KR msg sigfile sg H)). Qed.
Theorem C17_source_end_to_end_Open_gate (c : crypto) (pm : bytes -> gval) (vd : validator) (kr : keyring) (VV RING : gval) (input : bytes) (mk body : gval) :
  fst (run_func2 (ext_open c pm vd kr) f_saltpack_Open [VV; VBytes input; RING]) = ORet [mk; body; VNil] ->
  gated (Some vd) mt_encryption input.
Proof. exact (fun H => gated_view_gated _ _ _ _ (go_Open_gated_nil_error c pm vd kr VV RING input mk body H)). Qed.
Theorem C17_source_end_to_end_SigncryptOpen_gate (c : crypto) (kr : keyring) (signers : sigring) (rv : resolver) (KR RV : gval) (input : bytes) (sg body : gval) :
  fst (run_func2 (ext_scopen c kr signers rv) f_saltpack_SigncryptOpen [VBytes input; KR; RV]) = ORet [sg; body; VNil] ->
  gated None mt_signcryption input.
Proof. exact (fun H => gated_view_gated _ _ _ _ (go_SigncryptOpen_gated_nil_error c kr signers rv KR RV input sg body H)). Qed.
Local Close Scope string_scope.

Print Assumptions C17_source_end_to_end_Verify_gated.
Print Assumptions C17_source_end_to_end_Verify_gated_nil_error.
Print Assumptions C17_source_end_to_end_NewVerifyStream_gated_nil_error.
Print Assumptions C17_source_end_to_end_VerifyDetached_gated.
Print Assumptions C17_source_end_to_end_VerifyDetachedReader_gated.
Print Assumptions C17_source_end_to_end_VerifyDetached_gated_nil_error.
Print Assumptions C17_source_end_to_end_VerifyDetachedReader_gated_nil_error.
Print Assumptions C17_source_end_to_end_Open_gated.
Print Assumptions C17_source_end_to_end_Open_gated_nil_error.
Print Assumptions C17_source_end_to_end_NewDecryptStream_gated_nil_error.
Print Assumptions C17_source_end_to_end_SigncryptOpen_gated.
Print Assumptions C17_source_end_to_end_SigncryptOpen_gated_nil_error.
Print Assumptions C17_source_end_to_end_NewSigncryptOpenStream_gated_nil_error.
Print Assumptions C17_source_end_to_end_Verify_gate_refusals.
Print Assumptions C17_source_end_to_end_VerifyDetached_gate_refusals.
Print Assumptions C17_source_end_to_end_Open_gate_refusals.
Print Assumptions C17_source_end_to_end_SigncryptOpen_gate_refusals.
Print Assumptions C17_source_end_to_end_VerifyDetached_refuses_attached.
Print Assumptions C17_source_end_to_end_Verify_refuses_detached.
Print Assumptions C17_source_end_to_end_Verify_refuses_other_version.
Print Assumptions C17_source_end_to_end_VerifyDetached_refuses_spec_attached.
Print Assumptions C17_source_end_to_end_Verify_refuses_spec_detached.
Print Assumptions C17_source_end_to_end_Verify_refuses_spec_other_version.
Print Assumptions C17_source_end_to_end_SigncryptOpen_refuses_spec_encryption.
Print Assumptions C17_source_end_to_end_Open_refuses_spec_signcryption.
Print Assumptions C17_source_end_to_end_signature_receivers_refuse_spec_encryption.
Print Assumptions C17_source_end_to_end_signature_receivers_refuse_spec_signcryption.
Print Assumptions C17_source_end_to_end_Verify_gate.
Print Assumptions C17_source_end_to_end_VerifyDetached_gate.
Print Assumptions C17_source_end_to_end_Open_gate.
Print Assumptions C17_source_end_to_end_SigncryptOpen_gate.

