(* C10 — BaseX is exact base conversion, and decoding accepts only canonical blocks.
   Only property theorems here, each closed by `exact` of a lemma from proofs/. *)
From Coq Require Import List NArith Bool.
From Coq.Strings Require Import Byte.
From SP Require Import Bytes BaseX Encodings BaseXProofs.
Import ListNotations.
Open Scope N_scope.

Section AnyEncoding.
(* every alphabet of 2..256 distinct characters and every block length > 0 *)
Variable e : encoding.
Hypothesis Hbase_lo : 2 <= base e.
Hypothesis Hbase_hi : base e <= 256.
Hypothesis Hnodup : NoDup (enc_alphabet e).
Hypothesis Hibl : 0 < enc_ibl e.

(* block length table: C(B) = min { c | 256^B <= A^c },  B(c) = max { b | 256^b <= A^c } *)
Theorem C10_min_chars_spec (r : N) :
  256 ^ r <= base e ^ min_chars e r /\
  (forall c, c < min_chars e r -> base e ^ c < 256 ^ r).
Proof. exact (min_chars_spec e Hbase_lo Hbase_hi Hnodup Hibl r). Qed.

Theorem C10_max_bytes_spec (c : N) :
  256 ^ max_bytes e c <= base e ^ c /\ base e ^ c < 256 ^ (max_bytes e c + 1).
Proof. exact (max_bytes_spec e Hbase_lo Hbase_hi Hnodup Hibl c). Qed.

(* encodeBlock = the digits of the big-endian value, most significant first,
   fixed length C(len), leading zero digits kept *)
Theorem C10_encode_is_base_conversion (src : bytes) :
  let ds := to_digits e (N.to_nat (min_chars e (len src))) (be_val src) [] in
  encode_block e src = map (char_of e) ds /\
  len (encode_block e src) = min_chars e (len src) /\
  Forall (fun d => d < base e) ds /\
  from_digits e 0 ds = be_val src.
Proof. exact (encode_block_base_conversion e Hbase_lo Hbase_hi Hnodup Hibl src). Qed.

Theorem C10_encode_length (src : bytes) :
  len (encode e src) = encoded_len e (len src).
Proof. exact (encode_length e Hbase_lo Hbase_hi Hnodup Hibl src). Qed.

(* round trip for every byte string (any number of blocks) *)
Theorem C10_decode_encode (src : bytes) :
  decode e (encode e src) = (src, None).
Proof. exact (decode_encode e Hbase_lo Hbase_hi Hnodup Hibl src). Qed.

(* strict decoding accepts a string only if it is the unique encoding of its value *)
Theorem C10_decode_canonical (s b : bytes) :
  enc_skip e = [] ->
  decode e s = (b, None) -> encode e b = s.
Proof. exact (decode_canonical e Hbase_lo Hbase_hi Hnodup Hibl s b). Qed.

(* skipping variant = strict variant after deleting the skip characters *)
Theorem C10_skip (s : bytes) :
  (forall b, In b s -> is_digit e b = true \/ is_skip e b = true) ->
  fst (decode e s) = fst (decode (strict e) (filter (is_digit e) s)) /\
  (snd (decode e s) = None <-> snd (decode (strict e) (filter (is_digit e) s)) = None).
Proof. exact (decode_skip e Hbase_lo Hbase_hi Hnodup Hibl s). Qed.

Theorem C10_foreign_rejected (s : bytes) :
  (exists b, In b s /\ is_digit e b = false /\ is_skip e b = false) ->
  snd (decode e s) <> None.
Proof. exact (decode_foreign e Hbase_lo Hbase_hi Hnodup Hibl s). Qed.
End AnyEncoding.

Print Assumptions C10_min_chars_spec.
Print Assumptions C10_max_bytes_spec.
Print Assumptions C10_encode_is_base_conversion.
Print Assumptions C10_encode_length.
Print Assumptions C10_decode_encode.
Print Assumptions C10_decode_canonical.
Print Assumptions C10_skip.
Print Assumptions C10_foreign_rejected.

(* The four shipped encodings (alphabets, block lengths and skip sets regenerated
   from /repo) satisfy the hypotheses, and their block lengths are 43 and 26. *)
Definition enc_ok (e : encoding) : bool :=
  (2 <=? base e) && (base e <=? 256) && (0 <? enc_ibl e) &&
  (fix nodup (l : bytes) : bool :=
     match l with [] => true | x :: t => negb (existsb (Byte.eqb x) t) && nodup t end) (enc_alphabet e).

Theorem C10_shipped_encodings_ok :
  enc_ok base62 = true /\ enc_ok base62_strict = true /\ enc_ok base58 = true /\ enc_ok base58_strict = true /\
  obl base62 = 43 /\ obl base58 = 26 /\ enc_skip base62_strict = [] /\ enc_skip base58_strict = [].
Proof. vm_compute. repeat split. Qed.

(* length table of the armor spec for the shipped alphabets: for every partial
   block length the character count and back *)
Theorem C10_len_table :
  forallb (fun r => (max_bytes base62 (min_chars base62 r) =? r) && valid_len base62 (min_chars base62 r))
          (map N.of_nat (seq 0 33)) = true /\
  forallb (fun r => (max_bytes base58 (min_chars base58 r) =? r) && valid_len base58 (min_chars base58 r))
          (map N.of_nat (seq 0 20)) = true.
Proof. vm_compute. split; reflexivity. Qed.

(* Non-vacuity / regression examples evaluated by the kernel *)
Example C10_ex_roundtrip :
  decode base62_strict (encode base62 [xff; x00; x01]) = ([xff; x00; x01], None).
Proof. vm_compute. reflexivity. Qed.
Example C10_ex_overflow_rejected :   (* "zz" = 3843 does not fit one byte *)
  decode base62_strict [x7a; x7a] = ([], Some InvalidEncodingLength).
Proof. vm_compute. reflexivity. Qed.
Example C10_ex_nonminimal_rejected : (* a single character is never a block *)
  decode base62_strict [x30] = ([], Some InvalidEncodingLength).
Proof. vm_compute. reflexivity. Qed.
