(* C10 — BaseX is exact base conversion, and decoding accepts only canonical blocks.
   Only property theorems here, each closed by `exact` of a lemma from proofs/. *)
From Coq Require Import List NArith Bool.
From Coq.Strings Require Import Byte.
From SP Require Import Bytes BaseX Encodings BaseXProofs.
From Coq Require ZArith String.
From SP Require Streams GoLang GoLang2 GoAst GoAstEnc GoAstProofs5b.
From SP Require GoAstDearmor GoAstProofs4c GoAstProofs7b.
Import ListNotations.
Open Scope N_scope.

Section AnyEncoding.
(* every alphabet of 2..256 distinct characters and every block length > 0 *)
Variable e : encoding.
Hypothesis Hbase_lo : 2 <= base e.
Hypothesis Hbase_hi : base e <= 256.
Hypothesis Hnodup : NoDup (enc_alphabet e).
Hypothesis Hibl : 0 < enc_ibl e.

(* block length table: C(B) = min { c | 256^B <= A^c },  B(c) = max { b | 256^b <= A^c } *)
Theorem C10_min_chars_spec (r : N) :
  256 ^ r <= base e ^ min_chars e r /\
  (forall c, c < min_chars e r -> base e ^ c < 256 ^ r).
Proof. exact (min_chars_spec e Hbase_lo Hbase_hi Hnodup Hibl r). Qed.

Theorem C10_max_bytes_spec (c : N) :
  256 ^ max_bytes e c <= base e ^ c /\ base e ^ c < 256 ^ (max_bytes e c + 1).
Proof. exact (max_bytes_spec e Hbase_lo Hbase_hi Hnodup Hibl c). Qed.

(* encodeBlock = the digits of the big-endian value, most significant first,
   fixed length C(len), leading zero digits kept *)
Theorem C10_encode_is_base_conversion (src : bytes) :
  let ds := to_digits e (N.to_nat (min_chars e (len src))) (be_val src) [] in
  encode_block e src = map (char_of e) ds /\
  len (encode_block e src) = min_chars e (len src) /\
  Forall (fun d => d < base e) ds /\
  from_digits e 0 ds = be_val src.
Proof. exact (encode_block_base_conversion e Hbase_lo Hbase_hi Hnodup Hibl src). Qed.

Theorem C10_encode_length (src : bytes) :
  len (encode e src) = encoded_len e (len src).
Proof. exact (encode_length e Hbase_lo Hbase_hi Hnodup Hibl src). Qed.

(* round trip for every byte string (any number of blocks) *)
Theorem C10_decode_encode (src : bytes) :
  decode e (encode e src) = (src, None).
Proof. exact (decode_encode e Hbase_lo Hbase_hi Hnodup Hibl src). Qed.

(* strict decoding accepts a string only if it is the unique encoding of its value *)
Theorem C10_decode_canonical (s b : bytes) :
  enc_skip e = [] ->
  decode e s = (b, None) -> encode e b = s.
Proof. exact (decode_canonical e Hbase_lo Hbase_hi Hnodup Hibl s b). Qed.

(* skipping variant = strict variant after deleting the skip characters *)
Theorem C10_skip (s : bytes) :
  (forall b, In b s -> is_digit e b = true \/ is_skip e b = true) ->
  fst (decode e s) = fst (decode (strict e) (filter (is_digit e) s)) /\
  (snd (decode e s) = None <-> snd (decode (strict e) (filter (is_digit e) s)) = None).
Proof. exact (decode_skip e Hbase_lo Hbase_hi Hnodup Hibl s). Qed.

Theorem C10_foreign_rejected (s : bytes) :
  (exists b, In b s /\ is_digit e b = false /\ is_skip e b = false) ->
  snd (decode e s) <> None.
Proof. exact (decode_foreign e Hbase_lo Hbase_hi Hnodup Hibl s). Qed.
End AnyEncoding.

(* ---- source ties: the streaming base-X ENCODER (/repo/encoding/basex/stream.go), lemmas of proofs/GoAstProofs5b.v ---- *)
(* The terms f_basex_encoder_Write and f_basex_encoder_Close are generated on every run from the Go syntax trees of
   /repo/encoding/basex/stream.go (gen/GoAstEnc.v) and run by the evaluator of model/GoLang2.v.  [run2] is
   run_func2 with the fuel as a parameter (run_func2 = run2 .. 300 by reflexivity): a `for` loop may iterate at most
   as often as the fuel left, so the theorems are stated for EVERY fuel F above an explicit bound that grows with
   the input — hence for every input — and the _300 corollaries are the instances for run_func2.
   The *encoder object is [g_obj en o], o : gobj = (e.err, e.buf, e.nbuf, e.out, e.w).  The underlying io.Writer is
   [g_wr w], w : wr = (w_log, w_sched): "Writer.Write" appends the byte string it is handed to w_log (the log is the
   list of Write calls, in order, failed or not) and returns the head of the schedule w_sched as its error (None =
   nil; an exhausted schedule never fails) — so every theorem holds for every failure behaviour of the writer.
   [run_calls calls w] hands a list of byte strings to such a writer until one call fails: (calls made, error, writer
   afterwards).  The model is the state machine bxe_write / bxe_close of model/Streams.v (the one C13's write-side
   theorems are about), which has no failing writer: the theorems say the Go code makes exactly the model's writes,
   in order, up to and including the first one that fails.  gw_write / gw_close are the Go-level specification
   functions of GoAstProofs5b.v (count, error, the whole receiver object including the scratch buffers, the final
   value of the local p); go_calls en K ws re-cuts every model write into the pieces of at most K blocks that Go's
   interior loop hands to the writer.
   Common hypotheses.  Hibl: 0 < base256BlockLen; HK: 1 <= K (with a zero block length or an empty output buffer the
   Go loop `for len(p) >= ibl` would not terminate); gobj_ok en K o = the invariants NewEncoder establishes and
   Write/Close keep: len(e.buf) = base256BlockLen, len(e.out) = K * baseXBlockLen (K = 128 in NewEncoder), and
   nbuf < base256BlockLen while e.err = nil.  The encoding en is otherwise arbitrary.
   NOT EXPRESSIBLE in the evaluator (reported in GoAstProofs5b.v): the last statement of Write,
   `copy(e.buf[0:len(p)], p)`, writes through a slice of a field, which is not a place of model/GoLang2.v: every
   statement about Write gives the object BEFORE that copy together with the final local p'; [pending_copy o' p'] is
   the object after it (the identity when the input ends on a block boundary). *)
Section C10_source.
Import ZArith GoLang GoLang2 GoAst GoAstEnc Streams GoAstProofs5b String.StringSyntax.
Local Open Scope nat_scope.
Variable en : encoding.
Variable K : nat.
Hypothesis Hibl : 0 < ibl_nat en.
Hypothesis HK : 1 <= K.

(* encoder.Write(p) computes exactly gw_write: the count, the error, the receiver object and the final local p, for
   every object, every p and every writer schedule.  Hypotheses: Hibl, HK, gobj_ok, and the fuel bound
   30 + ibl + len(p)/(K*ibl) <= F (one loop turn per K blocks of input plus up to ibl-1 for the leading fringe). *)
Theorem C10_source_encoder_Write_run (o : gobj) (p : bytes) (F : nat) :
  gobj_ok en K o -> 30 + ibl_nat en + List.length p / (K * ibl_nat en) <= F ->
  let r := run2 (ext_bx en) F f_basex_encoder_Write [g_obj en o; VBytes p] in
  let '(n, er, o', p') := gw_write en K o p in
  fst r = ORet [VInt (Z.of_nat n); g_werr er] /\ lookup "e" (snd r) = Some (g_obj en o') /\ lookup "p" (snd r) = Some (VBytes p').
Proof. exact (go_encoder_Write_run en K Hibl HK o p F). Qed.

(* encoder.Close() computes exactly gw_close: the error and the receiver object.  Hypotheses: Hibl, HK, gobj_ok,
   fuel >= 12 (Close has no loop). *)
Theorem C10_source_encoder_Close_run (o : gobj) (F : nat) :
  gobj_ok en K o -> 12 <= F ->
  let r := run2 (ext_bx en) F f_basex_encoder_Close [g_obj en o] in
  fst r = ORet [g_werr (fst (gw_close en o))] /\ lookup "e" (snd r) = Some (g_obj en (snd (gw_close en o))).
Proof. exact (go_encoder_Close_run en K Hibl HK o F). Qed.

(* gw_write against the model: with (ws, mb') = bxe_write en (buffered bytes) p, the writer ends as
   run_calls (go_calls en K ws) leaves it; the error returned and stored in e.err is that of the first failing
   call; without a failure n = len(p), nbuf = |mb'|, the buffered bytes are mb' once the trailing copy is performed
   (pending_copy) and the invariant holds again; with a failure n is the number of input bytes consumed before it.
   Hypotheses: Hibl, HK, gobj_ok, e.err = nil. *)
Theorem C10_source_gw_write_model (o : gobj) (p : bytes) :
  gobj_ok en K o -> go_err o = None ->
  let mb := firstn (go_nbuf o) (go_buf o) in
  let '(ws, mb') := bxe_write en mb p in
  let '(j, erm, wm) := run_calls (go_calls en K ws) (go_w o) in
  let '(n, er, o', p') := gw_write en K o p in
  er = erm /\ go_w o' = wm /\ go_err o' = er /\
  match er with
  | None => n = List.length p /\ go_nbuf o' = List.length mb' /\
            firstn (go_nbuf o') (go_buf (pending_copy o' p')) = mb' /\ gobj_ok en K (pending_copy o' p')
  | Some _ => n = (if Nat.ltb 0 (go_nbuf o) then ibl_nat en - go_nbuf o else 0)
                  + (j - 1 - (if Nat.ltb 0 (go_nbuf o) then 1 else 0)) * (K * ibl_nat en)
  end.
Proof. exact (gw_write_model en K Hibl HK o p). Qed.

(* gw_close against the model: the writer ends as run_calls (bxe_close en (buffered bytes)) leaves it (at most one
   write: the encoding of the last partial block), the error returned and stored is that call's, nbuf = 0, the
   scratch buffers keep their lengths.  Hypotheses: Hibl, HK, gobj_ok, e.err = nil. *)
Theorem C10_source_gw_close_model (o : gobj) :
  gobj_ok en K o -> go_err o = None ->
  let mb := firstn (go_nbuf o) (go_buf o) in
  let '(j, erm, wm) := run_calls (bxe_close en mb) (go_w o) in
  let (er, o') := gw_close en o in
  er = erm /\ go_w o' = wm /\ go_err o' = er /\ go_nbuf o' = 0 /\ go_buf o' = go_buf o /\
  List.length (go_out o') = K * obl_nat en.
Proof. exact (gw_close_model en K Hibl HK o). Qed.

(* the two combined — the translated Write against bxe_write: it returns (n, the first failing call's error or nil),
   leaves in `e` an object o' whose writer is what run_calls (go_calls en K ws) leaves and whose e.err is that error,
   and in the local `p` the unconsumed tail p'; count, nbuf and buffered bytes as in C10_source_gw_write_model.
   Hypotheses: Hibl, HK, gobj_ok, e.err = nil, the fuel bound. *)
Theorem C10_source_encoder_Write (o : gobj) (p : bytes) (F : nat) :
  gobj_ok en K o -> go_err o = None -> 30 + ibl_nat en + List.length p / (K * ibl_nat en) <= F ->
  let r := run2 (ext_bx en) F f_basex_encoder_Write [g_obj en o; VBytes p] in
  let '(ws, mb') := bxe_write en (firstn (go_nbuf o) (go_buf o)) p in
  let '(j, erm, wm) := run_calls (go_calls en K ws) (go_w o) in
  exists (n : nat) (o' : gobj) (p' : bytes),
    fst r = ORet [VInt (Z.of_nat n); g_werr erm] /\
    lookup "e" (snd r) = Some (g_obj en o') /\ lookup "p" (snd r) = Some (VBytes p') /\
    go_w o' = wm /\ go_err o' = erm /\
    match erm with
    | None => n = List.length p /\ go_nbuf o' = List.length mb' /\
              firstn (go_nbuf o') (go_buf (pending_copy o' p')) = mb' /\ gobj_ok en K (pending_copy o' p')
    | Some _ => n = (if Nat.ltb 0 (go_nbuf o) then ibl_nat en - go_nbuf o else 0)
                    + (j - 1 - (if Nat.ltb 0 (go_nbuf o) then 1 else 0)) * (K * ibl_nat en)
    end.
Proof. exact (go_encoder_Write en K Hibl HK o p F). Qed.

(* the translated Close against bxe_close.  Hypotheses: Hibl, HK, gobj_ok, e.err = nil, fuel >= 12 (no size
   hypothesis at all). *)
Theorem C10_source_encoder_Close (o : gobj) (F : nat) :
  gobj_ok en K o -> go_err o = None -> 12 <= F ->
  let r := run2 (ext_bx en) F f_basex_encoder_Close [g_obj en o] in
  let '(j, erm, wm) := run_calls (bxe_close en (firstn (go_nbuf o) (go_buf o))) (go_w o) in
  exists o' : gobj,
    fst r = ORet [g_werr erm] /\ lookup "e" (snd r) = Some (g_obj en o') /\
    go_w o' = wm /\ go_err o' = erm /\ go_nbuf o' = 0 /\ go_buf o' = go_buf o /\
    List.length (go_out o') = K * obl_nat en.
Proof. exact (go_encoder_Close en K Hibl HK o F). Qed.

(* C10_source_encoder_Write for run_func2 itself (fuel 300).  Extra hypothesis: 30 + ibl + len(p)/(K*ibl) <= 300
   (for base62 and K = 128: inputs up to about 950 KiB per Write call; larger inputs: the theorem above). *)
Theorem C10_source_encoder_Write_300 (o : gobj) (p : bytes) :
  gobj_ok en K o -> go_err o = None ->
  30 + ibl_nat en + List.length p / (K * ibl_nat en) <= 300 ->
  let r := run_func2 (ext_bx en) f_basex_encoder_Write [g_obj en o; VBytes p] in
  let '(ws, mb') := bxe_write en (firstn (go_nbuf o) (go_buf o)) p in
  let '(j, erm, wm) := run_calls (go_calls en K ws) (go_w o) in
  exists (n : nat) (o' : gobj) (p' : bytes),
    fst r = ORet [VInt (Z.of_nat n); g_werr erm] /\
    lookup "e" (snd r) = Some (g_obj en o') /\ lookup "p" (snd r) = Some (VBytes p') /\
    go_w o' = wm /\ go_err o' = erm /\
    match erm with
    | None => n = List.length p /\ go_nbuf o' = List.length mb' /\
              firstn (go_nbuf o') (go_buf (pending_copy o' p')) = mb' /\ gobj_ok en K (pending_copy o' p')
    | Some _ => n = (if Nat.ltb 0 (go_nbuf o) then ibl_nat en - go_nbuf o else 0)
                    + (j - 1 - (if Nat.ltb 0 (go_nbuf o) then 1 else 0)) * (K * ibl_nat en)
    end.
Proof. exact (go_encoder_Write_300 en K o p Hibl HK). Qed.

(* C10_source_encoder_Close for run_func2 itself.  Hypotheses: Hibl, HK, gobj_ok, e.err = nil. *)
Theorem C10_source_encoder_Close_300 (o : gobj) :
  gobj_ok en K o -> go_err o = None ->
  let r := run_func2 (ext_bx en) f_basex_encoder_Close [g_obj en o] in
  let '(j, erm, wm) := run_calls (bxe_close en (firstn (go_nbuf o) (go_buf o))) (go_w o) in
  exists o' : gobj,
    fst r = ORet [g_werr erm] /\ lookup "e" (snd r) = Some (g_obj en o') /\
    go_w o' = wm /\ go_err o' = erm /\ go_nbuf o' = 0 /\ go_buf o' = go_buf o /\
    List.length (go_out o') = K * obl_nat en.
Proof. exact (go_encoder_Close_300 en K o Hibl HK). Qed.
End C10_source.

(* ---- source ties: the base-X CODEC (/repo/encoding/basex/encoding.go), lemmas of proofs/GoAstProofs7b.v ---- *)
(* The terms f_basex_Encoding_{getByteType, IsValidByte, hasSkipBytes, decode, Decode, Encode} are generated on every run
   from the Go syntax trees of /repo/encoding/basex/encoding.go (gen/GoAstDearmor.v) and run by the evaluator of
   model/GoLang2.v (run_func2: outcome AND final environment) on ENCODED arguments, against model/BaseX.v — the
   digit_of / is_skip, decode and encode the theorems of Section AnyEncoding above are about.  An *Encoding object is
   [g_encoding en], built from the model's record en for EVERY en: decodeMap is the 256-entry table whose entry b is a
   *big.Int object (hence != nil) when digit_of en b = Some d and nil otherwise, skipMap the table of the booleans
   is_skip en b, then skipBytes, the alphabet, base256BlockLen = ibl, baseXBlockLen = obl, base.  A byte argument is
   [g_byte b] = VInt of its value, for b : byte (so 0 <= b < 256 is the bound Go's type imposes).  Errors:
   g_bx_opt maps the model's bx_err (CorruptInputError(offset) / ErrInvalidEncodingLength / nil).
   [run_func2_at F] is run_func2 with the evaluator's fuel as a parameter (run_func2 = run_func2_at 300); a `for` loop
   gets as many turns as there is fuel where it starts, so the loop theorems are stated for every fuel above a bound
   that grows with the input (decode_turns = blocks scanned by the model's decode loop, <= len(src); encode_turns =
   ceil(len(src)/ibl)); the _300 theorems are the instances for run_func2.  These are bounds on the EVALUATOR, not on
   the Go code.  The per-block callees decodeBlock / encodeBlock (math/big) are externs with the model's meaning
   (decode_block, encode_block). *)
Section C10_source_codec.
Import ZArith GoLang GoLang2 GoAst GoAstDearmor GoAstProofs4c GoAstProofs7b String.StringSyntax.
Local Open Scope string_scope.

(* enc.getByteType(b) = byte_type en b: 0 (normal) if digit_of en b is Some, else 1 (skip) if is_skip en b, else 2
   (invalid); the receiver and b unchanged (the final environment is given in full).  For every encoding, every byte,
   every extern table X.  No hypothesis. *)
Theorem C10_source_getByteType (X : externs) (en : encoding) (b : byte) :
  run_func2 X f_basex_Encoding_getByteType [g_encoding en; g_byte b]
  = (ORet [VInt (byte_type en b)], [("enc", g_encoding en); ("b", g_byte b)]).
Proof. exact (go_getByteType X en b). Qed.

(* enc.IsValidByte(b) = valid_byte en b: b is a digit of the alphabet or a skip character.  No hypothesis. *)
Theorem C10_source_IsValidByte (X : externs) (en : encoding) (b : byte) :
  run_func2 X f_basex_Encoding_IsValidByte [g_encoding en; g_byte b]
  = (ORet [VBool (valid_byte en b)], [("enc", g_encoding en); ("b", g_byte b)]).
Proof. exact (go_IsValidByte X en b). Qed.

(* enc.hasSkipBytes() = has_skip en: skipBytes is non-empty.  No hypothesis. *)
Theorem C10_source_hasSkipBytes (X : externs) (en : encoding) :
  run_func2 X f_basex_Encoding_hasSkipBytes [g_encoding en]
  = (ORet [VBool (has_skip en)], [("enc", g_encoding en)]).
Proof. exact (go_hasSkipBytes X en). Qed.

(* enc.decode(dst, src) returns (len d, e) for (d, e) = BaseX.decode en src — all blocks decoded before the first
   error, and that error — when d fits dst; when it does not, the evaluator is stuck at the call of decodeBlock whose
   block no longer fits (OStuck "call": the Go code panics there, slice bounds out of range).  enc and src unchanged.
   WHAT IS OBSERVED OF dst: nothing — decodeBlock writes through the slice EXPRESSION dst[dp:], which is not a place of
   model/GoLang2.v, so the decoded bytes cannot be written back: the theorem ties count and error and shows dst
   unchanged in the evaluator (the bytes are tied one level up, C10_source_Encoding_Decode).
   Hypothesis: decode_turns en src + 8 <= F (evaluator fuel). *)
Theorem C10_source_Encoding_decode (en : encoding) (F : nat) (dst src : bytes) :
  (decode_turns en src + 8 <= F)%nat ->
  let r := run_func2_at (S F) (ext_dec en) f_basex_Encoding_decode [g_encoding en; VBytes dst; VBytes src] in
  if Nat.leb (List.length (fst (decode en src))) (List.length dst)
  then fst r = ORet [VInt (Z.of_nat (List.length (fst (decode en src)))); g_bx_opt (snd (decode en src))] /\
       lookup "enc" (snd r) = Some (g_encoding en) /\
       lookup "dst" (snd r) = Some (VBytes dst) /\
       lookup "src" (snd r) = Some (VBytes src)
  else r = (OStuck "call", []).
Proof. exact (go_Encoding_decode en F dst src). Qed.

(* the same at the fuel of run_func2.  Hypothesis: at most 291 blocks scanned. *)
Theorem C10_source_Encoding_decode_300 (en : encoding) (dst src : bytes) :
  (decode_turns en src <= 291)%nat ->
  let r := run_func2 (ext_dec en) f_basex_Encoding_decode [g_encoding en; VBytes dst; VBytes src] in
  if Nat.leb (List.length (fst (decode en src))) (List.length dst)
  then fst r = ORet [VInt (Z.of_nat (List.length (fst (decode en src)))); g_bx_opt (snd (decode en src))] /\
       lookup "enc" (snd r) = Some (g_encoding en) /\
       lookup "dst" (snd r) = Some (VBytes dst) /\
       lookup "src" (snd r) = Some (VBytes src)
  else r = (OStuck "call", []).
Proof. exact (go_Encoding_decode_300 en dst src). Qed.

(* enc.Decode(dst, src), the exported wrapper `return enc.decode(dst, src)`: here dst is a VARIABLE of the caller, so the
   extern "Encoding.decode" (ext_Dec) has the meaning of the theorem above PLUS the bytes; Decode returns (len d, e)
   and leaves dst with the decoded bytes at its front (put_front), the rest untouched; stuck where the callee panics
   (d does not fit).  The outcome AND the whole final environment, for every receiver value E.  No hypothesis. *)
Theorem C10_source_Encoding_Decode (en : encoding) (E : gval) (dst src : bytes) :
  run_func2 (ext_Dec en) f_basex_Encoding_Decode [E; VBytes dst; VBytes src]
  = let r := decode en src in
    if Nat.leb (List.length (fst r)) (List.length dst)
    then (ORet [VInt (Z.of_nat (List.length (fst r))); g_bx_opt (snd r)],
          [("enc", E); ("dst", VBytes (put_front dst (fst r))); ("src", VBytes src); ("n", VInt 0); ("err", VNil);
           ("r'0", VInt (Z.of_nat (List.length (fst r)))); ("r'1", g_bx_opt (snd r))])
    else (OStuck "call", []).
Proof. exact (go_Encoding_Decode en E dst src). Qed.

(* enc.Encode(dst, src): dst ends as put_front dst (BaseX.encode en src) — the encoding at the front, the rest of dst
   untouched — when the encoding fits; otherwise PANIC (encodeBlock indexes past its window), exactly when
   len(encode en src) > len(dst).  Hypotheses: 0 < base256BlockLen (with 0 the Go loop does not terminate; NewEncoding
   is never called with 0); encode_turns en src + 10 <= F (evaluator fuel). *)
Theorem C10_source_Encoding_Encode (en : encoding) (F : nat) (dst src : bytes) :
  (0 < BaseX.ibl en)%N -> (encode_turns en src + 10 <= F)%nat ->
  let r := run_func2_at (S F) (ext_enc en) f_basex_Encoding_Encode [g_encoding en; VBytes dst; VBytes src] in
  if Nat.leb (List.length (encode en src)) (List.length dst)
  then fst r = ORet [] /\
       lookup "dst" (snd r) = Some (VBytes (put_front dst (encode en src))) /\
       lookup "enc" (snd r) = Some (g_encoding en) /\
       lookup "src" (snd r) = Some (VBytes src)
  else r = (OPanic, []).
Proof. exact (go_Encoding_Encode en F dst src). Qed.

(* the same at the fuel of run_func2.  Hypotheses: 0 < base256BlockLen; at most 289 blocks. *)
Theorem C10_source_Encoding_Encode_300 (en : encoding) (dst src : bytes) :
  (0 < BaseX.ibl en)%N -> (encode_turns en src <= 289)%nat ->
  let r := run_func2 (ext_enc en) f_basex_Encoding_Encode [g_encoding en; VBytes dst; VBytes src] in
  if Nat.leb (List.length (encode en src)) (List.length dst)
  then fst r = ORet [] /\
       lookup "dst" (snd r) = Some (VBytes (put_front dst (encode en src))) /\
       lookup "enc" (snd r) = Some (g_encoding en) /\
       lookup "src" (snd r) = Some (VBytes src)
  else r = (OPanic, []).
Proof. exact (go_Encoding_Encode_300 en dst src). Qed.
End C10_source_codec.

Print Assumptions C10_source_getByteType.
Print Assumptions C10_source_IsValidByte.
Print Assumptions C10_source_hasSkipBytes.
Print Assumptions C10_source_Encoding_decode.
Print Assumptions C10_source_Encoding_decode_300.
Print Assumptions C10_source_Encoding_Decode.
Print Assumptions C10_source_Encoding_Encode.
Print Assumptions C10_source_Encoding_Encode_300.
Print Assumptions C10_source_encoder_Write_run.
Print Assumptions C10_source_encoder_Close_run.
Print Assumptions C10_source_gw_write_model.
Print Assumptions C10_source_gw_close_model.
Print Assumptions C10_source_encoder_Write.
Print Assumptions C10_source_encoder_Close.
Print Assumptions C10_source_encoder_Write_300.
Print Assumptions C10_source_encoder_Close_300.
Print Assumptions C10_min_chars_spec.
Print Assumptions C10_max_bytes_spec.
Print Assumptions C10_encode_is_base_conversion.
Print Assumptions C10_encode_length.
Print Assumptions C10_decode_encode.
Print Assumptions C10_decode_canonical.
Print Assumptions C10_skip.
Print Assumptions C10_foreign_rejected.

(* The four shipped encodings (alphabets, block lengths and skip sets regenerated
   from /repo) satisfy the hypotheses, and their block lengths are 43 and 26. *)
Definition enc_ok (e : encoding) : bool :=
  (2 <=? base e) && (base e <=? 256) && (0 <? enc_ibl e) &&
  (fix nodup (l : bytes) : bool :=
     match l with [] => true | x :: t => negb (existsb (Byte.eqb x) t) && nodup t end) (enc_alphabet e).

Theorem C10_shipped_encodings_ok :
  enc_ok base62 = true /\ enc_ok base62_strict = true /\ enc_ok base58 = true /\ enc_ok base58_strict = true /\
  obl base62 = 43 /\ obl base58 = 26 /\ enc_skip base62_strict = [] /\ enc_skip base58_strict = [].
Proof. vm_compute. repeat split. Qed.

(* length table of the armor spec for the shipped alphabets: for every partial
   block length the character count and back *)
Theorem C10_len_table :
  forallb (fun r => (max_bytes base62 (min_chars base62 r) =? r) && valid_len base62 (min_chars base62 r))
          (map N.of_nat (seq 0 33)) = true /\
  forallb (fun r => (max_bytes base58 (min_chars base58 r) =? r) && valid_len base58 (min_chars base58 r))
          (map N.of_nat (seq 0 20)) = true.
Proof. vm_compute. split; reflexivity. Qed.

(* Non-vacuity / regression examples evaluated by the kernel *)
Example C10_ex_roundtrip :
  decode base62_strict (encode base62 [xff; x00; x01]) = ([xff; x00; x01], None).
Proof. vm_compute. reflexivity. Qed.
Example C10_ex_overflow_rejected :   (* "zz" = 3843 does not fit one byte *)
  decode base62_strict [x7a; x7a] = ([], Some InvalidEncodingLength).
Proof. vm_compute. reflexivity. Qed.
Example C10_ex_nonminimal_rejected : (* a single character is never a block *)
  decode base62_strict [x30] = ([], Some InvalidEncodingLength).
Proof. vm_compute. reflexivity. Qed.
