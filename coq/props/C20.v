(* C20 — Independent operations may run concurrently without interference.
   PARTIAL by nature (see DESIGN.md): the Go memory model, the scheduler and the race
   detector are outside Coq.  What is proved: (1) the logic — if operations only read
   the shared environment, EVERY interleaving gives every goroutine the result it would
   obtain running alone; (2) the premise, as far as a syntactic inventory regenerated
   from /repo on every run can establish it — no assignment, ++/-- or pointer-receiver
   method call writes through a package-level variable or through a shared
   basex.Encoding / armorParams value outside NewEncoding, and the package-level
   variables are exactly the encodings, armor parameters, frame checkers and error
   values.  The race-detector campaign (mixed workload, GOMAXPROCS 1/2/4/16) ties the
   premise to the running code.  Only property theorems here. *)
From Coq Require Import List String.
From SP Require Import Concurrency SharedState ConcurrencyProofs.
Import ListNotations.

Theorem C20_interleaving (Env Local : Type) (env : Env) (sch : list nat) (s : sys Env Local) :
  outcomes Env Local env (run_sched Env Local env sch s) = outcomes Env Local env s.
Proof. exact (interleaving_independent Env Local env sch s). Qed.

Theorem C20_no_shared_writes : shared_writes = [] /\ shared_pointer_method_calls = [].
Proof. exact no_shared_writes. Qed.

Theorem C20_package_state :
  forallb (fun v => orb (String.eqb (substring 0 10 v) "basex.Base")
                   (orb (String.eqb (substring 0 9 v) "basex.Err")
                   (orb (String.eqb (substring 0 12 v) "saltpack.Err")
                   (orb (String.eqb (substring 0 16 v) "saltpack.armor62")
                        (String.eqb (substring 0 22 v) "saltpack.Armor62Params"))))) package_vars = true.
Proof. exact package_vars_are_immutable_values. Qed.

Print Assumptions C20_interleaving.
Print Assumptions C20_no_shared_writes.
Print Assumptions C20_package_state.

(* Non-vacuity: three threads incrementing their own counters by a shared read-only amount *)
Example C20_ex :
  outcomes nat nat 5 (run_sched nat nat 5 [2; 0; 1; 1; 0; 7; 2]%nat
     [([fun e l => l + e; fun e l => l * 2], 1); ([fun e l => l + e], 10); ([fun e l => l + 1; fun e l => l + e; fun e l => l + e], 0)]%nat)
  = [12; 15; 11]%nat.
Proof. vm_compute. reflexivity. Qed.
