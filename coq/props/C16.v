(* C16 — classification is stable under truncation and sound.
   PROVED on the model of classify_and_decrypt.go (binary_slice = IsSaltpackBinarySlice,
   armored_prefix = IsSaltpackArmoredPrefix), for EVERY genuine message of every mode
   (any spec-following header: versions 0..127, the four modes, any further header
   fields, any payload) and EVERY cut position:
   - binary: a prefix shorter than 23 bytes is "need more data"; from 23 bytes on it is
     exactly (mode, version) — never "not saltpack", never another mode;
   - armored: a cut inside the header sentence is "need more data"; a cut in the body is
     "need more data" or exactly (brand, mode, version) — never an error, never another
     mode;
   - soundness: a positive binary answer really parses as format name, that version and
     that mode after a bin/array header; a positive armored answer has that mode's frame
     label, that brand, and a first block decoding to a binary header of that mode.
   STREAM LEVEL (source ties at the end of this file, proofs/GoAstProofs8b.v): IsSaltpackBinary,
   IsSaltpackArmored, ClassifyStream and ClassifyEncryptedStreamAndMakeDecoder of /repo compute
   specification functions of the peeked bytes over the documented contract of bufio.Reader.Peek/Size
   (trusted), leave the reader unchanged (classification consumes no input), and the dispatch hands
   back exactly the results of the direct entry point of the detected mode.  Campaign only:
   bufio itself, and IsSaltpackArmoredPrefix's body ([]string slicing: not expressible).
   Only property theorems here. *)
From Coq Require Import List NArith ZArith Bool.
From Coq.Strings Require Import Byte.
From SP Require Import Bytes Consts Params Msgpack Errors BaseX Encodings Packets Armor ArmorProofs ClassifyProofs.
From SP Require Import GoLang GoAst GoAstProofs.
From Coq Require String.
Import String.StringSyntax.
Import ListNotations.

Theorem C16_binary_prefix_stable (maj mi typ : Z) (fields : list mval) (rest : bytes) (k : nat) :
  spec_header_ok maj mi typ fields ->
  (23 <= length (spec_message maj mi typ fields rest))%nat ->
  binary_slice (firstn k (spec_message maj mi typ fields rest)) =
  if Nat.ltb k 23 then ClsShort else Cls typ (mkV maj mi).
Proof. exact (binary_prefix_stable maj mi typ fields rest k). Qed.

Theorem C16_binary_slice_sound (b : bytes) (typ : Z) (v : version) :
  binary_slice b = Cls typ v ->
  known_type typ = true /\ (23 <= length b)%nat /\
  exists skip rest1 fv r1 vv r2 tv r3,
    (skip = 3 \/ skip = 4 \/ skip = 5 \/ skip = 6 \/ skip = 7 \/ skip = 8 \/ skip = 10)%nat /\
    skipn skip b = rest1 /\
    mp_read rest1 = POk fv r1 /\ as_string fv = DOk format_name /\
    mp_read r1 = POk vv r2 /\ view_version vv = DOk v /\
    mp_read r2 = POk tv r3 /\ as_int tv = DOk typ.
Proof. exact (binary_slice_sound b typ v). Qed.

Theorem C16_armored_prefix_sound (pref brand : bytes) (typ : Z) (v : version) :
  armored_prefix pref = (brand, Cls typ v) ->
  exists ty body,
    match_header (normalise pref) = Some (brand, ty, body) /\
    ty = label_of typ /\
    binary_slice (fst (BaseX.decode base62 body)) = Cls typ v.
Proof. exact (armored_prefix_sound pref brand typ v). Qed.

Theorem C16_armored_prefix_stable_body (maj mi typ : Z) (fields : list mval) (rest : bytes) (brand : bytes) (k : nat) :
  spec_header_ok maj mi typ fields -> brand_ok brand ->
  let msg := spec_message maj mi typ fields rest in
  (32 <= length msg)%nat ->
  let text := armor62_seal msg (armor_type_of typ) brand in
  let hlen := length (make_frame header_marker (armor_type_of typ) brand) in
  (hlen < k)%nat ->
  armored_prefix (firstn k text) = (brand, Cls typ (mkV maj mi)) \/
  armored_prefix (firstn k text) = ([], ClsShort).
Proof. exact (armored_prefix_stable_body maj mi typ fields rest brand k). Qed.

Theorem C16_armored_prefix_stable_header (typ : Z) (payload brand : bytes) (k : nat) :
  known_type typ = true -> brand_ok brand ->
  let text := armor62_seal payload (armor_type_of typ) brand in
  let hlen := length (make_frame header_marker (armor_type_of typ) brand) in
  (k <= hlen)%nat ->
  armored_prefix (firstn k text) = ([], ClsShort).
Proof. exact (armored_prefix_stable_header typ payload brand k). Qed.

(* SOURCE TIE: the term f_saltpack_IsSaltpackBinarySlice is generated on every run from the Go syntax tree of
   /repo's IsSaltpackBinarySlice (harness/cmd/gen/goast.go); under the Go semantics of model/GoLang.v it computes
   exactly what the model says, for ALL arguments.  An edit of that function in /repo changes
   the term and this theorem has to be re-established. *)
Theorem C16_source_IsSaltpackBinarySlice (b : bytes) :
  g_classification (run_func ext_decode f_saltpack_IsSaltpackBinarySlice [VBytes b]) = binary_slice b.
Proof. exact (go_IsSaltpackBinarySlice b). Qed.

Print Assumptions C16_source_IsSaltpackBinarySlice.
Print Assumptions C16_binary_prefix_stable.
Print Assumptions C16_binary_slice_sound.
Print Assumptions C16_armored_prefix_sound.
Print Assumptions C16_armored_prefix_stable_body.
Print Assumptions C16_armored_prefix_stable_header.

(* Non-vacuity: an encryption-mode V2 header with two further fields; its armored form
   is classified once the first block is in *)
Example C16_ex_binary :
  let m := spec_message 2 0 0 [MBin (zeros 32); MArr []] [x01; x02] in
  binary_slice (firstn 22 m) = ClsShort /\ binary_slice (firstn 23 m) = Cls 0 (mkV 2 0) /\ binary_slice m = Cls 0 (mkV 2 0).
Proof. vm_compute. repeat split. Qed.

Example C16_ex_armored :
  let m := spec_message 2 0 0 [MBin (zeros 32); MArr []] [x01; x02] in
  let t := armor62_seal m (armor_type_of 0) [] in
  armored_prefix (firstn 40 t) = ([], ClsShort) /\ armored_prefix t = ([], Cls 0 (mkV 2 0)).
Proof. vm_compute. repeat split. Qed.

(* ===== to paste at the END of props/C16.v ===== *)
(* SOURCE TIES, stream level (proofs/GoAstProofs8b.v): the terms f_saltpack_IsSaltpackBinary, f_saltpack_IsSaltpackArmored,
   f_saltpack_ClassifyStream and f_saltpack_ClassifyEncryptedStreamAndMakeDecoder are generated on every run from the Go
   syntax trees of /repo/classify_and_decrypt.go (gen/GoAstEntry.v); under the Go semantics of model/GoLang2.v, over the
   documented contract of bufio.Reader.Peek / Size (GoAstProofs8b.peek: trusted), they compute exactly the specification
   functions isbin_spec / isarm_spec / cs_spec / ced_spec built from the model's binary_slice and armored_prefix, for ALL
   arguments, and leave the reader unchanged: classification consumes no input.  The dispatch theorem holds for ARBITRARY
   meanings of the four entry points and is instantiated with the meaning GoAstProofs7c.v proves for the binary ones.
   An edit of one of these functions in /repo changes the term and the theorem has to be re-established. *)
From SP Require Crypto Verify Decrypt Signcrypt GoLang2 GoAstEntry GoAstProofs7c GoAstProofs8b.

Section C16_source_stream.
Import Crypto Verify Decrypt Signcrypt GoLang2 GoAstEntry GoAstProofs8b String.StringSyntax.
Local Open Scope string_scope.

Theorem C16_source_IsSaltpackBinary (st : bufrd) :
  let r := run_func2 ext_cls f_saltpack_IsSaltpackBinary [g_bufrd st] in
  fst r = spec_out g_bin_res (isbin_spec st) /\
  (isbin_spec st <> None -> lookup "stream" (snd r) = Some (g_bufrd st)).
Proof. exact (go_IsSaltpackBinary st). Qed.

Theorem C16_source_IsSaltpackArmored (st : bufrd) :
  let r := run_func2 ext_cls f_saltpack_IsSaltpackArmored [g_bufrd st] in
  fst r = spec_out g_arm_res (isarm_spec st) /\
  (isarm_spec st <> None -> lookup "stream" (snd r) = Some (g_bufrd st)).
Proof. exact (go_IsSaltpackArmored st). Qed.

Theorem C16_source_ClassifyStream (st : bufrd) :
  let r := run_func2 ext_cls f_saltpack_ClassifyStream [g_bufrd st] in
  fst r = spec_out g_cs_res (cs_spec st) /\
  (cs_spec st <> None -> lookup "stream" (snd r) = Some (g_bufrd st)).
Proof. exact (go_ClassifyStream st). Qed.

Theorem C16_source_ClassifyEncryptedStreamAndMakeDecoder
        (nds : gval -> gval -> gval -> option (gval * gval * gval))
        (ndds : gval -> gval -> gval -> option (gval * gval * gval * gval))
        (nsos : gval -> gval -> gval -> option (gval * gval * gval))
        (ndsos : gval -> gval -> gval -> option (gval * gval * gval * gval))
        (d : bytes) (e : String.string * list gval) (osz : option Z) (RING RV : gval) :
  fst (run_func2 (ext_ced nds ndds nsos ndsos) f_saltpack_ClassifyEncryptedStreamAndMakeDecoder [g_src d e osz; RING; RV])
  = spec_out (fun x => x) (ced_spec nds ndds nsos ndsos d e osz RING RV).
Proof. exact (go_ClassifyEncryptedStreamAndMakeDecoder nds ndds nsos ndsos d e osz RING RV). Qed.

Theorem C16_source_cs_spec_model (st : bufrd) :
  (0 < br_size st)%Z -> br_data st <> [] -> clean_end st -> cs_spec st = cs_model st.
Proof. exact (cs_spec_model st). Qed.

Theorem C16_source_cs_sound_armored (st : bufrd) (brand : bytes) (t : Z) (v : gval) :
  (0 < br_size st)%Z ->
  cs_spec st = Some (true, brand, t, v, None) ->
  exists v' ty body,
    v = g_version v' /\
    match_header (normalise (fst (peek st (br_size st)))) = Some (brand, ty, body) /\
    ty = label_of t /\
    binary_slice (fst (BaseX.decode base62 body)) = Cls t v'.
Proof. exact (cs_sound_armored st brand t v). Qed.

Theorem C16_source_cs_sound_binary (st : bufrd) (brand : bytes) (t : Z) (v : gval) :
  (0 < br_size st)%Z ->
  cs_spec st = Some (false, brand, t, v, None) ->
  brand = [] /\ known_type t = true /\
  exists v' skip rest1 fv r1 vv r2 tv r3,
    v = g_version v' /\
    (skip = 3 \/ skip = 4 \/ skip = 5 \/ skip = 6 \/ skip = 7 \/ skip = 8 \/ skip = 10)%nat /\
    skipn skip (fst (peek st 23)) = rest1 /\
    mp_read rest1 = POk fv r1 /\ as_string fv = DOk format_name /\
    mp_read r1 = POk vv r2 /\ view_version vv = DOk v' /\
    mp_read r2 = POk tv r3 /\ as_int tv = DOk t.
Proof. exact (cs_sound_binary st brand t v). Qed.

Theorem C16_source_cs_armored_stable (maj mi typ : Z) (fields : list mval) (rest brand : bytes) (size : Z) :
  spec_header_ok maj mi typ fields -> brand_ok brand ->
  let msg := spec_message maj mi typ fields rest in
  (32 <= length msg)%nat ->
  let text := armor62_seal msg (armor_type_of typ) brand in
  (0 < size)%Z ->
  cs_spec (mkBR text eof_err size) = Some (true, brand, typ, g_version (mkV maj mi), None) \/
  cs_spec (mkBR text eof_err size) = Some (false, [], (-1)%Z, g_vzero_lit, short_err).
Proof. exact (cs_armored_stable maj mi typ fields rest brand size). Qed.

Theorem C16_source_cs_binary_stable (maj mi typ : Z) (fields : list mval) (rest : bytes) (size : Z) :
  spec_header_ok maj mi typ fields ->
  let msg := spec_message maj mi typ fields rest in
  (23 <= length msg)%nat -> (23 <= size)%Z ->
  cs_spec (mkBR msg eof_err size) = Some (false, [], typ, g_version (mkV maj mi), None).
Proof. exact (cs_binary_stable maj mi typ fields rest size). Qed.

Theorem C16_source_compose_IsSaltpackBinarySlice (b : bytes) :
  match ext_cls "IsSaltpackBinarySlice" [VBytes b] with
  | Some rs => g_classification (ORet rs) = g_classification (run_func ext_decode f_saltpack_IsSaltpackBinarySlice [VBytes b])
  | None => binary_slice b = ClsUnmod
  end.
Proof. exact (compose_IsSaltpackBinarySlice b). Qed.

Theorem C16_source_compose_IsSaltpackArmored (st : bufrd) :
  let r := run_func2 ext_cls f_saltpack_IsSaltpackArmored [g_bufrd st] in
  ext_cls "IsSaltpackArmored" [g_bufrd st] =
  match fst r, lookup "stream" (snd r) with ORet rs, Some s => Some (rs ++ [s])%list | _, _ => None end.
Proof. exact (compose_IsSaltpackArmored st). Qed.

Theorem C16_source_compose_IsSaltpackBinary (st : bufrd) :
  let r := run_func2 ext_cls f_saltpack_IsSaltpackBinary [g_bufrd st] in
  ext_cls "IsSaltpackBinary" [g_bufrd st] =
  match fst r, lookup "stream" (snd r) with ORet rs, Some s => Some (rs ++ [s])%list | _, _ => None end.
Proof. exact (compose_IsSaltpackBinary st). Qed.

Theorem C16_source_compose_ClassifyStream
        (nds : gval -> gval -> gval -> option (gval * gval * gval))
        (ndds : gval -> gval -> gval -> option (gval * gval * gval * gval))
        (nsos : gval -> gval -> gval -> option (gval * gval * gval))
        (ndsos : gval -> gval -> gval -> option (gval * gval * gval * gval)) (st : bufrd) :
  let r := run_func2 ext_cls f_saltpack_ClassifyStream [g_bufrd st] in
  ext_ced nds ndds nsos ndsos "ClassifyStream" [g_bufrd st] =
  match fst r, lookup "stream" (snd r) with ORet rs, Some s => Some (rs ++ [s])%list | _, _ => None end.
Proof. exact (compose_ClassifyStream nds ndds nsos ndsos st). Qed.

Theorem C16_source_ced_errors
        (nds : gval -> gval -> gval -> option (gval * gval * gval))
        (ndds : gval -> gval -> gval -> option (gval * gval * gval * gval))
        (nsos : gval -> gval -> gval -> option (gval * gval * gval))
        (ndsos : gval -> gval -> gval -> option (gval * gval * gval * gval))
        (d : bytes) (e : String.string * list gval) (osz : option Z) (RING RV : gval)
        (arm : bool) (b : bytes) (t : Z) (v : gval) (err : option (String.string * list gval)) :
  cs_spec (new_reader d e osz) = Some (arm, b, t, v, err) ->
  (is_err "ErrShortSliceOrBuffer" err = true ->
   ced_spec nds ndds nsos ndsos d e osz RING RV = Some (ced_fail (VErr "ErrShortSliceOrBuffer" []))) /\
  (err <> None -> is_err "ErrShortSliceOrBuffer" err = false ->
   ced_spec nds ndds nsos ndsos d e osz RING RV = Some (ced_fail (VErr "ErrNotASaltpackMessage" []))) /\
  (err = None -> t <> 0%Z -> t <> 3%Z ->
   ced_spec nds ndds nsos ndsos d e osz RING RV = Some (ced_fail (VErr "ErrWrongMessageType" [VInt 0; VInt t]))).
Proof. exact (ced_errors nds ndds nsos ndsos d e osz RING RV arm b t v err). Qed.

Theorem C16_source_ced_binary_encryption (c : crypto) (pm : bytes -> gval) (vd : validator) (kr : keyring)
        (signers : sigring) (rv : resolver) (d : bytes) (osz : option Z) (RING RV : gval) (b : bytes) (v : gval) :
  cs_spec (new_reader d eof_err osz) = Some (false, b, 0%Z, v, None) ->
  fst (run_func2 (ext_ced_m c pm vd kr signers rv) f_saltpack_ClassifyEncryptedStreamAndMakeDecoder [g_src d eof_err osz; RING; RV])
  = direct_enc c pm vd kr d false (VBytes []) v.
Proof. exact (ced_binary_encryption c pm vd kr signers rv d osz RING RV b v). Qed.

Theorem C16_source_ced_binary_signcryption (c : crypto) (pm : bytes -> gval) (vd : validator) (kr : keyring)
        (signers : sigring) (rv : resolver) (d : bytes) (osz : option Z) (RING RV : gval) (b : bytes) (v : gval) :
  cs_spec (new_reader d eof_err osz) = Some (false, b, 3%Z, v, None) ->
  fst (run_func2 (ext_ced_m c pm vd kr signers rv) f_saltpack_ClassifyEncryptedStreamAndMakeDecoder [g_src d eof_err osz; RING; RV])
  = direct_sc c kr signers rv d false (VBytes []) v.
Proof. exact (ced_binary_signcryption c pm vd kr signers rv d osz RING RV b v). Qed.

Theorem C16_source_ced_armored_encryption (c : crypto) (pm : bytes -> gval) (vd : validator) (kr : keyring)
        (signers : sigring) (rv : resolver) (d : bytes) (osz : option Z) (RING RV : gval) (b : bytes) (v : gval)
        (dd : dearmored) :
  cs_spec (new_reader d eof_err osz) = Some (true, b, 0%Z, v, None) ->
  dearmor (Some mt_encryption) d = Ok dd ->
  fst (run_func2 (ext_ced_m c pm vd kr signers rv) f_saltpack_ClassifyEncryptedStreamAndMakeDecoder [g_src d eof_err osz; RING; RV])
  = direct_enc c pm vd kr (da_payload dd) true (VBytes (da_brand dd)) v.
Proof. exact (ced_armored_encryption c pm vd kr signers rv d osz RING RV b v dd). Qed.

Theorem C16_source_ced_armored_signcryption (c : crypto) (pm : bytes -> gval) (vd : validator) (kr : keyring)
        (signers : sigring) (rv : resolver) (d : bytes) (osz : option Z) (RING RV : gval) (b : bytes) (v : gval)
        (dd : dearmored) :
  cs_spec (new_reader d eof_err osz) = Some (true, b, 3%Z, v, None) ->
  dearmor (Some mt_encryption) d = Ok dd ->
  fst (run_func2 (ext_ced_m c pm vd kr signers rv) f_saltpack_ClassifyEncryptedStreamAndMakeDecoder [g_src d eof_err osz; RING; RV])
  = direct_sc c kr signers rv (da_payload dd) true (VBytes (da_brand dd)) v.
Proof. exact (ced_armored_signcryption c pm vd kr signers rv d osz RING RV b v dd). Qed.

Theorem C16_source_ced_genuine_binary_encryption (c : crypto) (pm : bytes -> gval) (vd : validator) (kr : keyring)
        (signers : sigring) (rv : resolver) (maj mi : Z) (fields : list mval) (rest : bytes) (osz : option Z) (RING RV : gval) :
  spec_header_ok maj mi 0 fields ->
  let msg := spec_message maj mi 0 fields rest in
  (23 <= length msg)%nat ->
  fst (run_func2 (ext_ced_m c pm vd kr signers rv) f_saltpack_ClassifyEncryptedStreamAndMakeDecoder [g_src msg eof_err osz; RING; RV])
  = direct_enc c pm vd kr msg false (VBytes []) (g_version (mkV maj mi)).
Proof. exact (ced_genuine_binary_encryption c pm vd kr signers rv maj mi fields rest osz RING RV). Qed.

Theorem C16_source_ced_genuine_binary_signcryption (c : crypto) (pm : bytes -> gval) (vd : validator) (kr : keyring)
        (signers : sigring) (rv : resolver) (maj mi : Z) (fields : list mval) (rest : bytes) (osz : option Z) (RING RV : gval) :
  spec_header_ok maj mi 3 fields ->
  let msg := spec_message maj mi 3 fields rest in
  (23 <= length msg)%nat ->
  fst (run_func2 (ext_ced_m c pm vd kr signers rv) f_saltpack_ClassifyEncryptedStreamAndMakeDecoder [g_src msg eof_err osz; RING; RV])
  = direct_sc c kr signers rv msg false (VBytes []) (g_version (mkV maj mi)).
Proof. exact (ced_genuine_binary_signcryption c pm vd kr signers rv maj mi fields rest osz RING RV). Qed.

Theorem C16_source_ced_genuine_armored (c : crypto) (pm : bytes -> gval) (vd : validator) (kr : keyring)
        (signers : sigring) (rv : resolver) (maj mi typ : Z) (fields : list mval) (rest brand : bytes) (osz : option Z)
        (RING RV : gval) :
  typ = 0%Z \/ typ = 3%Z ->
  spec_header_ok maj mi typ fields -> brand_ok brand ->
  let msg := spec_message maj mi typ fields rest in
  (32 <= length msg)%nat ->
  let text := armor62_seal msg mt_encryption brand in
  let r := fst (run_func2 (ext_ced_m c pm vd kr signers rv) f_saltpack_ClassifyEncryptedStreamAndMakeDecoder
                          [g_src text eof_err osz; RING; RV]) in
  r = (if (typ =? 0)%Z then direct_enc c pm vd kr msg true (VBytes brand) (g_version (mkV maj mi))
       else direct_sc c kr signers rv msg true (VBytes brand) (g_version (mkV maj mi))) \/
  r = ORet (ced_fail (VErr "ErrShortSliceOrBuffer" [])).
Proof. exact (ced_genuine_armored c pm vd kr signers rv maj mi typ fields rest brand osz RING RV). Qed.

End C16_source_stream.

Print Assumptions C16_source_IsSaltpackBinary.
Print Assumptions C16_source_IsSaltpackArmored.
Print Assumptions C16_source_ClassifyStream.
Print Assumptions C16_source_ClassifyEncryptedStreamAndMakeDecoder.
Print Assumptions C16_source_cs_spec_model.
Print Assumptions C16_source_cs_sound_armored.
Print Assumptions C16_source_cs_sound_binary.
Print Assumptions C16_source_cs_armored_stable.
Print Assumptions C16_source_cs_binary_stable.
Print Assumptions C16_source_compose_IsSaltpackBinarySlice.
Print Assumptions C16_source_compose_IsSaltpackArmored.
Print Assumptions C16_source_compose_IsSaltpackBinary.
Print Assumptions C16_source_compose_ClassifyStream.
Print Assumptions C16_source_ced_errors.
Print Assumptions C16_source_ced_binary_encryption.
Print Assumptions C16_source_ced_binary_signcryption.
Print Assumptions C16_source_ced_armored_encryption.
Print Assumptions C16_source_ced_armored_signcryption.
Print Assumptions C16_source_ced_genuine_binary_encryption.
Print Assumptions C16_source_ced_genuine_binary_signcryption.
Print Assumptions C16_source_ced_genuine_armored.

