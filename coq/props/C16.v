(* C16 — classification is stable under truncation and sound.
   PROVED on the model of classify_and_decrypt.go (binary_slice = IsSaltpackBinarySlice,
   armored_prefix = IsSaltpackArmoredPrefix), for EVERY genuine message of every mode
   (any spec-following header: versions 0..127, the four modes, any further header
   fields, any payload) and EVERY cut position:
   - binary: a prefix shorter than 23 bytes is "need more data"; from 23 bytes on it is
     exactly (mode, version) — never "not saltpack", never another mode;
   - armored: a cut inside the header sentence is "need more data"; a cut in the body is
     "need more data" or exactly (brand, mode, version) — never an error, never another
     mode;
   - soundness: a positive binary answer really parses as format name, that version and
     that mode after a bin/array header; a positive armored answer has that mode's frame
     label, that brand, and a first block decoding to a binary header of that mode.
   PARTIAL (campaign only): bufio.Peek behaviour of ClassifyStream and the dispatch of
   ClassifyEncryptedStreamAndMakeDecoder to the matching decoder.
   Only property theorems here. *)
From Coq Require Import List NArith ZArith Bool.
From Coq.Strings Require Import Byte.
From SP Require Import Bytes Consts Params Msgpack Errors BaseX Encodings Packets Armor ArmorProofs ClassifyProofs.
From SP Require Import GoLang GoAst GoAstProofs.
From Coq Require String.
Import String.StringSyntax.
Import ListNotations.

Theorem C16_binary_prefix_stable (maj mi typ : Z) (fields : list mval) (rest : bytes) (k : nat) :
  spec_header_ok maj mi typ fields ->
  (23 <= length (spec_message maj mi typ fields rest))%nat ->
  binary_slice (firstn k (spec_message maj mi typ fields rest)) =
  if Nat.ltb k 23 then ClsShort else Cls typ (mkV maj mi).
Proof. exact (binary_prefix_stable maj mi typ fields rest k). Qed.

Theorem C16_binary_slice_sound (b : bytes) (typ : Z) (v : version) :
  binary_slice b = Cls typ v ->
  known_type typ = true /\ (23 <= length b)%nat /\
  exists skip rest1 fv r1 vv r2 tv r3,
    (skip = 3 \/ skip = 4 \/ skip = 5 \/ skip = 6 \/ skip = 7 \/ skip = 8 \/ skip = 10)%nat /\
    skipn skip b = rest1 /\
    mp_read rest1 = POk fv r1 /\ as_string fv = DOk format_name /\
    mp_read r1 = POk vv r2 /\ view_version vv = DOk v /\
    mp_read r2 = POk tv r3 /\ as_int tv = DOk typ.
Proof. exact (binary_slice_sound b typ v). Qed.

Theorem C16_armored_prefix_sound (pref brand : bytes) (typ : Z) (v : version) :
  armored_prefix pref = (brand, Cls typ v) ->
  exists ty body,
    match_header (normalise pref) = Some (brand, ty, body) /\
    ty = label_of typ /\
    binary_slice (fst (BaseX.decode base62 body)) = Cls typ v.
Proof. exact (armored_prefix_sound pref brand typ v). Qed.

Theorem C16_armored_prefix_stable_body (maj mi typ : Z) (fields : list mval) (rest : bytes) (brand : bytes) (k : nat) :
  spec_header_ok maj mi typ fields -> brand_ok brand ->
  let msg := spec_message maj mi typ fields rest in
  (32 <= length msg)%nat ->
  let text := armor62_seal msg (armor_type_of typ) brand in
  let hlen := length (make_frame header_marker (armor_type_of typ) brand) in
  (hlen < k)%nat ->
  armored_prefix (firstn k text) = (brand, Cls typ (mkV maj mi)) \/
  armored_prefix (firstn k text) = ([], ClsShort).
Proof. exact (armored_prefix_stable_body maj mi typ fields rest brand k). Qed.

Theorem C16_armored_prefix_stable_header (typ : Z) (payload brand : bytes) (k : nat) :
  known_type typ = true -> brand_ok brand ->
  let text := armor62_seal payload (armor_type_of typ) brand in
  let hlen := length (make_frame header_marker (armor_type_of typ) brand) in
  (k <= hlen)%nat ->
  armored_prefix (firstn k text) = ([], ClsShort).
Proof. exact (armored_prefix_stable_header typ payload brand k). Qed.

(* SOURCE TIE: the term f_saltpack_IsSaltpackBinarySlice is generated on every run from the Go syntax tree of
   /repo's IsSaltpackBinarySlice (harness/cmd/gen/goast.go); under the Go semantics of model/GoLang.v it computes
   exactly what the model says, for ALL arguments.  An edit of that function in /repo changes
   the term and this theorem has to be re-established. *)
Theorem C16_source_IsSaltpackBinarySlice (b : bytes) :
  g_classification (run_func ext_decode f_saltpack_IsSaltpackBinarySlice [VBytes b]) = binary_slice b.
Proof. exact (go_IsSaltpackBinarySlice b). Qed.

Print Assumptions C16_source_IsSaltpackBinarySlice.
Print Assumptions C16_binary_prefix_stable.
Print Assumptions C16_binary_slice_sound.
Print Assumptions C16_armored_prefix_sound.
Print Assumptions C16_armored_prefix_stable_body.
Print Assumptions C16_armored_prefix_stable_header.

(* Non-vacuity: an encryption-mode V2 header with two further fields; its armored form
   is classified once the first block is in *)
Example C16_ex_binary :
  let m := spec_message 2 0 0 [MBin (zeros 32); MArr []] [x01; x02] in
  binary_slice (firstn 22 m) = ClsShort /\ binary_slice (firstn 23 m) = Cls 0 (mkV 2 0) /\ binary_slice m = Cls 0 (mkV 2 0).
Proof. vm_compute. repeat split. Qed.

Example C16_ex_armored :
  let m := spec_message 2 0 0 [MBin (zeros 32); MArr []] [x01; x02] in
  let t := armor62_seal m (armor_type_of 0) [] in
  armored_prefix (firstn 40 t) = ([], ClsShort) /\ armored_prefix t = ([], Cls 0 (mkV 2 0)).
Proof. vm_compute. repeat split. Qed.
