(* C02 — Encryption: only plaintext authenticated for this recipient is ever released.
   Reduction-style, for EVERY input byte string: what an honest recipient releases
   under the name of an honest non-anonymous sender is a prefix of one plaintext
   that sender encrypted in a single message whose recipient list contains this
   recipient; clean end only after all of it — or the input itself carries, in
   the recipient's authenticator slot of an examined packet, a valid tag under
   the pairwise MAC key for a (header hash, index, payload hash) the sender never
   authenticated for this recipient, or a SHA-512 collision is exhibited.
   Co-recipients (who know the payload key) gain nothing: the payload key's
   secrecy is not used anywhere.  Only property theorems here.
   LOCATED BREAKS: every witness of the break disjunct lies in a finite list computed by a
   fixed function from (the primitives, this input and the receiver's keys) or from (the
   primitives, the honest history): a forged tag/signature is one of the pairs the receiver
   actually checked on this input; a SHA-512 collision is between one string the receiver
   hashed while processing this input and one string the honest party hashed while producing
   its history.  (An unrestricted "exists x <> y with equal hashes" is true of real SHA-512 by
   pigeonhole and would make the disjunction empty of content.) *)
From Coq Require Import List NArith ZArith.
From Coq.Strings Require Import Byte.
From SP Require Import Bytes Params Msgpack Crypto Errors Packets Chunker Rand Verify Encrypt Decrypt
     SignAuthProofs EncryptProofs EncAuthProofs EncAuthLocated.
Import ListNotations.
Open Scope N_scope.

Section C02.
Variable c : crypto.
Hypothesis Hc : crypto_ok c.
Variable s_sk r_sk : bytes.      (* honest sender's and honest recipient's long-term box secret keys *)

Theorem C02_authentic (vd : validator) (senders : option (list bytes)) (input : bytes)
        (m : mki) (out : stream_out) (L : list (enc_msg)) :
  Forall (em_ok c s_sk) L -> em_headers_distinct c s_sk L ->
  N.of_nat (length input) < 18446744073709551616 ->
  let kr := mkRing [(r_sk, dh_pub c r_sk)] senders in
  open_stream c vd kr input = Ok (m, out) ->
  mki_sender m = dh_pub c s_sk -> mki_sender_anon m = false ->
  (so_chunks out = [] /\ so_end out <> EOF) \/
  (exists msg hide pos,
      In msg L /\ nth_error (em_rs msg) pos = Some (dh_pub c r_sk, hide) /\
      list_prefix (so_chunks out) (map fst (em_packets msg)) /\
      (so_end out = EOF -> so_chunks out = map fst (em_packets msg)))
  \/ EncBreakL c s_sk r_sk vd kr L input.
Proof. exact (open_authentic_located c Hc s_sk r_sk vd senders input m out L). Qed.

Theorem C02_all_at_once (vd : validator) (senders : option (list bytes)) (input : bytes)
        (m : mki) (pt : bytes) (L : list (enc_msg)) :
  Forall (em_ok c s_sk) L -> em_headers_distinct c s_sk L ->
  N.of_nat (length input) < 18446744073709551616 ->
  let kr := mkRing [(r_sk, dh_pub c r_sk)] senders in
  open_all c vd kr input = Ok (m, pt) ->
  mki_sender m = dh_pub c s_sk -> mki_sender_anon m = false ->
  (exists msg hide pos,
      In msg L /\ nth_error (em_rs msg) pos = Some (dh_pub c r_sk, hide) /\ pt = concat (map fst (em_packets msg)))
  \/ EncBreakL c s_sk r_sk vd kr L input.
Proof. exact (open_authentic_all_located c Hc s_sk r_sk vd senders input m pt L). Qed.
End C02.

Print Assumptions C02_authentic.
Print Assumptions C02_all_at_once.

(* Non-vacuity: a genuine message on the toy instance is released whole (middle disjunct inhabited). *)
From SP Require Import ToyCrypto ToyCryptoProofs.
Example C02_ex_genuine :
  let sk := repeat x11 32 in
  match seal_core toy_crypto v1 (Some (repeat x33 32)) (repeat x44 32) (repeat x55 32) [(dh_pub toy_crypto sk, false)] [[x68; x69]] with
  | Ok out =>
    match open_stream toy_crypto (Single v1) (mkRing [(sk, dh_pub toy_crypto sk)] None) out with
    | Ok (m, o) => Some (so_chunks o, so_end o, mki_sender_anon m)
    | Err _ => None
    end
  | Err _ => None
  end = Some ([[x68; x69]; []], EOF, false).
Proof. vm_compute. reflexivity. Qed.
