(* C02 — Encryption: only plaintext authenticated for this recipient is ever released.
   Reduction-style, for EVERY input byte string: what an honest recipient releases
   under the name of an honest non-anonymous sender is a prefix of one plaintext
   that sender encrypted in a single message whose recipient list contains this
   recipient; clean end only after all of it — or the input itself carries, in
   the recipient's authenticator slot of an examined packet, a valid tag under
   the pairwise MAC key for a (header hash, index, payload hash) the sender never
   authenticated for this recipient, or a SHA-512 collision is exhibited.
   Co-recipients (who know the payload key) gain nothing: the payload key's
   secrecy is not used anywhere.  Only property theorems here.
   LOCATED BREAKS: every witness of the break disjunct lies in a finite list computed by a
   fixed function from (the primitives, this input and the receiver's keys) or from (the
   primitives, the honest history): a forged tag/signature is one of the pairs the receiver
   actually checked on this input; a SHA-512 collision is between one string the receiver
   hashed while processing this input and one string the honest party hashed while producing
   its history.  (An unrestricted "exists x <> y with equal hashes" is true of real SHA-512 by
   pigeonhole and would make the disjunction empty of content.) *)
From Coq Require Import List NArith ZArith.
From Coq.Strings Require Import Byte.
From SP Require Import Bytes Params Msgpack Crypto Errors Packets Chunker Rand Verify Encrypt Decrypt
     SignAuthProofs EncryptProofs EncAuthProofs EncAuthLocated.
From SP Require Import Nonce GoLang GoLang2 GoAst GoAstProofs GoAstProofs2 GoAstProofs3 GoAstProofs4b.
From SP Require Import GoAstRecv.
From Coq Require String.
Import String.StringSyntax.
Import ListNotations.
Open Scope N_scope.

Section C02.
Variable c : crypto.
Hypothesis Hc : crypto_ok c.
Variable s_sk r_sk : bytes.      (* honest sender's and honest recipient's long-term box secret keys *)

Theorem C02_authentic (vd : validator) (senders : option (list bytes)) (input : bytes)
        (m : mki) (out : stream_out) (L : list (enc_msg)) :
  Forall (em_ok c s_sk) L -> em_headers_distinct c s_sk L ->
  N.of_nat (length input) < 18446744073709551616 ->
  let kr := mkRing [(r_sk, dh_pub c r_sk)] senders in
  open_stream c vd kr input = Ok (m, out) ->
  mki_sender m = dh_pub c s_sk -> mki_sender_anon m = false ->
  (so_chunks out = [] /\ so_end out <> EOF) \/
  (exists msg hide pos,
      In msg L /\ nth_error (em_rs msg) pos = Some (dh_pub c r_sk, hide) /\
      list_prefix (so_chunks out) (map fst (em_packets msg)) /\
      (so_end out = EOF -> so_chunks out = map fst (em_packets msg)))
  \/ EncBreakL c s_sk r_sk vd kr L input.
Proof. exact (open_authentic_located c Hc s_sk r_sk vd senders input m out L). Qed.

Theorem C02_all_at_once (vd : validator) (senders : option (list bytes)) (input : bytes)
        (m : mki) (pt : bytes) (L : list (enc_msg)) :
  Forall (em_ok c s_sk) L -> em_headers_distinct c s_sk L ->
  N.of_nat (length input) < 18446744073709551616 ->
  let kr := mkRing [(r_sk, dh_pub c r_sk)] senders in
  open_all c vd kr input = Ok (m, pt) ->
  mki_sender m = dh_pub c s_sk -> mki_sender_anon m = false ->
  (exists msg hide pos,
      In msg L /\ nth_error (em_rs msg) pos = Some (dh_pub c r_sk, hide) /\ pt = concat (map fst (em_packets msg)))
  \/ EncBreakL c s_sk r_sk vd kr L input.
Proof. exact (open_authentic_all_located c Hc s_sk r_sk vd senders input m pt L). Qed.
End C02.

(* SOURCE TIE: the terms f_saltpack_* are generated on every run from the Go syntax trees of
   /repo (harness/cmd/gen/goast.go); under the Go semantics of model/GoLang.v, with the standard
   library / NaCl primitives interpreted by ext_prims over the crypto record and calls to other
   saltpack functions interpreted by the model (each of those has its own such theorem), they
   compute exactly what the model says, for ALL arguments and EVERY instance of the primitives. *)
Theorem C02_source_decrypt_processBlock (c : crypto) (st : dec_state) (n : N) (auths : list bytes) (ct : bytes) (final : bool) :
  (n < 18446744073709551615)%N \/ (n = 18446744073709551615)%N ->
  (vmaj (ds_version st) = 1 \/ vmaj (ds_version st) = 2)%Z ->
  (ds_position st < 9223372036854775808)%N ->
  g_block_result (run_func (ext_model c) f_saltpack_decryptStream_processBlock
                   [g_dec_state st; VBytes ct; VList (map VBytes auths); VBool final; VInt (Z.of_N n + 1)])
  = dec_block_step c st n auths ct final.
Proof. exact (go_decrypt_processBlock c st n auths ct final). Qed.

(* ... and the model's receiver loop is that step followed by the chunk-state check *)
Theorem C02_source_loop_uses_step (c : crypto) (fuel : nat) (st : dec_state) (n : N) (input : bytes) (acc : list bytes) :
  decrypt_loop c (S fuel) st n input acc =
  match read_packet input with
  | Err e => mkOut (rev_append acc []) e
  | Ok (m, rest) =>
    let v := ds_version st in
    if negb ((vmaj v =? 1)%Z || (vmaj v =? 2)%Z) then mkOut (rev_append acc []) (Panic 9)
    else match of_dres (view_enc_block v m) with
         | Err e => mkOut (rev_append acc []) e
         | Ok (auths, ct, final) =>
           match dec_block_step c st n auths ct final with
           | Err e => mkOut (rev_append acc []) e
           | Ok chunk =>
             match check_chunk_state v (List.length chunk) n final with
             | Err e => mkOut (rev_append acc []) e
             | Ok _ => if final then mkOut (rev_append (chunk :: acc) []) (assert_end_of_stream rest)
                       else decrypt_loop c fuel st (n + 1) rest (chunk :: acc)
             end
           end
         end
  end.
Proof. exact (decrypt_loop_step c fuel st n input acc). Qed.

Theorem C02_source_computePayloadHash (c : crypto) (v : version) (hh nonce ct : bytes) (final : bool) :
  (forall x, List.length (sha512 c x) = 64%nat) ->
  run_func (ext_prims c) f_saltpack_computePayloadHash [g_version v; VBytes hh; VBytes nonce; VBytes ct; VBool final]
  = ret_bytes (payload_hash c v hh nonce ct final).
Proof. exact (go_computePayloadHash c v hh nonce ct final). Qed.

Theorem C02_source_computePayloadAuthenticator (c : crypto) (k ph : bytes) :
  (32 <= List.length (hmac512 c k ph))%nat ->
  run_func (ext_prims c) f_saltpack_computePayloadAuthenticator [VBytes k; VBytes ph]
  = ORet [VBytes (payload_authenticator c k ph)].
Proof. exact (go_computePayloadAuthenticator c k ph). Qed.

Theorem C02_source_computeMACKeyReceiver (c : crypto) (v : version) (index : N) (sk spk epk hh : bytes) :
  run_func (ext_model c) f_saltpack_computeMACKeyReceiver
           [g_version v; VInt (Z.of_N index); VBytes sk; VBytes spk; VBytes epk; VBytes hh]
  = ret_bytes (mac_key_receiver c v index sk spk epk hh).
Proof. exact (go_computeMACKeyReceiver c v index sk spk epk hh). Qed.

Theorem C02_source_computeMACKeySingle (c : crypto) (sk pk nonce : bytes) :
  (48 <= List.length (box_seal c sk pk nonce (zeros 32)))%nat ->
  run_func (ext_prims c) f_saltpack_computeMACKeySingle [VBytes sk; VBytes pk; VBytes nonce]
  = ORet [VBytes (mac_key_single c sk pk nonce)].
Proof. exact (go_computeMACKeySingle c sk pk nonce). Qed.

Theorem C02_source_nonces (c : crypto) (hh : bytes) (eph : bool) (i : N) :
  (24 <= List.length hh)%nat -> (i < 18446744073709551616)%N ->
  run_func (ext_prims c) f_saltpack_nonceForChunkSecretBox [VInt (Z.of_N i)] = ORet [VBytes (nonce_chunk_secretbox i)] /\
  run_func (ext_prims c) f_saltpack_nonceForMACKeyBoxV2 [VBytes hh; VBool eph; VInt (Z.of_N i)] = ORet [VBytes (nonce_mac_key_box_v2 hh eph i)] /\
  run_func (ext_prims c) f_saltpack_nonceForMACKeyBoxV1 [VBytes hh] = ORet [VBytes (nonce_mac_key_box_v1 hh)].
Proof.
  intros Hh Hi. split; [exact (go_nonceForChunkSecretBox c i Hi)|].
  split; [apply (go_nonceForMACKeyBoxV2 c hh eph i); [apply (PeanoNat.Nat.le_trans _ 24); [repeat constructor|exact Hh]|exact Hi]|exact (go_nonceForMACKeyBoxV1 c hh Hh)].
Qed.

(* SOURCE TIE (per-packet glue): the translated decryptStream.getNextChunk of /repo, run on a receiver object
   holding the unconsumed input BYTES and Go's packet counter, returns exactly what one step of the model's
   receive loop says and leaves the stream advanced — for ALL inputs.  `C02_source_decrypt_loop_is_step` shows the model's
   loop is that step followed by the end-of-stream check or the next iteration. *)
Theorem C02_source_decrypt_getNextChunk (c : crypto) (st : dec_state) (n : N) (input : bytes) :
  (vmaj (ds_version st) = 1 \/ vmaj (ds_version st) = 2)%Z ->
  (n < 18446744073709551616)%N ->
  chunk_spec "ds" g_chunk_nil (fun rest => g_ds st (g_mps rest (n + 1)))
             (dec_step c st n input)
             (run_func2 (ext_chunk c TBytes) f_saltpack_decryptStream_getNextChunk [g_ds st (g_mps input n)]).
Proof. exact (go_decrypt_getNextChunk c st n input). Qed.

Theorem C02_source_decrypt_loop_is_step (c : crypto) (fuel : nat) (st : dec_state) (n : N) (input : bytes) (acc : list bytes) :
  decrypt_loop c (S fuel) st n input acc =
  match dec_step c st n input with
  | Err e => mkOut (rev_append acc []) e
  | Ok (chunk, final, rest) =>
    if final then mkOut (rev_append (chunk :: acc) []) (assert_end_of_stream rest)
    else decrypt_loop c fuel st (n + 1) rest (chunk :: acc)
  end.
Proof. exact (decrypt_loop_dec_step c fuel st n input acc). Qed.

Print Assumptions C02_source_decrypt_getNextChunk.
Print Assumptions C02_source_decrypt_loop_is_step.
Print Assumptions C02_source_decrypt_processBlock.
Print Assumptions C02_source_loop_uses_step.
Print Assumptions C02_source_computePayloadHash.
Print Assumptions C02_source_computePayloadAuthenticator.
Print Assumptions C02_source_computeMACKeyReceiver.
Print Assumptions C02_source_computeMACKeySingle.
Print Assumptions C02_source_nonces.
Print Assumptions C02_authentic.
Print Assumptions C02_all_at_once.

(* Non-vacuity: a genuine message on the toy instance is released whole (middle disjunct inhabited). *)
From SP Require Import ToyCrypto ToyCryptoProofs.
Example C02_ex_genuine :
  let sk := repeat x11 32 in
  match seal_core toy_crypto v1 (Some (repeat x33 32)) (repeat x44 32) (repeat x55 32) [(dh_pub toy_crypto sk, false)] [[x68; x69]] with
  | Ok out =>
    match open_stream toy_crypto (Single v1) (mkRing [(sk, dh_pub toy_crypto sk)] None) out with
    | Ok (m, o) => Some (so_chunks o, so_end o, mki_sender_anon m)
    | Err _ => None
    end
  | Err _ => None
  end = Some ([[x68; x69]; []], EOF, false).
Proof. vm_compute. reflexivity. Qed.

(* ===== BEGIN props/C02.v ===== *)
(* ---- END TO END (source level): authenticity of what the TRANSLATED saltpack.Open / NewDecryptStream of /repo release.
   Composition of C02_source-level receiver ties (GoAstProofs7c.go_Open + open_outcome_model, go_NewDecryptStream; the
   per-chunk tie re-proved on the constructor's object) with C02_all_at_once / C02_authentic.  The hypothesis "the outcome
   is not the stuck evaluator" of open_outcome_model is discharged: a successful result is not stuck.  See the header of
   proofs/GoEndToEndAuth.v for readings, the externs and what is not composed (chunkReader.Read's re-slicing). ---- *)
From SP Require GoAstOpen GoAstRecv GoAstProofs4b GoAstProofs5a GoAstProofs7c GoEndToEndAuth.
Section C02_source_end_to_end.
Import GoLang GoLang2 GoAstOpen GoAstRecv GoAstProofs4b GoAstProofs7c GoEndToEndAuth.
Local Open Scope string_scope.

Theorem C02_source_end_to_end_Open (c : crypto) (Hc : crypto_ok c) (pm : bytes -> gval) (s_sk r_sk : bytes)
        (vd : validator) (senders : option (list bytes)) (VV RING : gval) (input : bytes)
        (m : mki) (pt : bytes) (L : list enc_msg) :
  Forall (em_ok c s_sk) L -> em_headers_distinct c s_sk L ->
  (N.of_nat (List.length input) < 18446744073709551616)%N ->
  let kr := mkRing [(r_sk, dh_pub c r_sk)] senders in
  open_class (fst (run_func2 (ext_open c pm vd kr) f_saltpack_Open [VV; VBytes input; RING])) = Ok (m, pt) ->
  mki_sender m = dh_pub c s_sk -> mki_sender_anon m = false ->
  (exists msg hide pos,
      In msg L /\ nth_error (em_rs msg) pos = Some (dh_pub c r_sk, hide) /\ pt = List.concat (map fst (em_packets msg)))
  \/ EncBreakL c s_sk r_sk vd kr L input.
Proof. exact (go_Open_authentic c Hc pm s_sk r_sk vd senders VV RING input m pt L). Qed.

Theorem C02_source_end_to_end_Open_nil_error (c : crypto) (Hc : crypto_ok c) (pm : bytes -> gval) (s_sk r_sk : bytes)
        (vd : validator) (senders : option (list bytes)) (VV RING : gval) (input : bytes)
        (mk body : gval) (L : list enc_msg) :
  Forall (em_ok c s_sk) L -> em_headers_distinct c s_sk L ->
  (N.of_nat (List.length input) < 18446744073709551616)%N ->
  let kr := mkRing [(r_sk, dh_pub c r_sk)] senders in
  fst (run_func2 (ext_open c pm vd kr) f_saltpack_Open [VV; VBytes input; RING]) = ORet [mk; body; VNil] ->
  exists m k pt,
    mk = g_mki m k /\ snd k = mki_receiver m /\ body = VBytes pt /\
    (mki_sender m = dh_pub c s_sk -> mki_sender_anon m = false ->
     (exists msg hide pos,
         In msg L /\ nth_error (em_rs msg) pos = Some (dh_pub c r_sk, hide) /\ pt = List.concat (map fst (em_packets msg)))
     \/ EncBreakL c s_sk r_sk vd kr L input).
Proof. exact (go_Open_authentic_nil_error c Hc pm s_sk r_sk vd senders VV RING input mk body L). Qed.

Theorem C02_source_end_to_end_NewDecryptStream (c : crypto) (Hc : crypto_ok c) (pm : bytes -> gval) (s_sk r_sk : bytes)
        (vd : validator) (senders : option (list bytes)) (VV r RING : gval) (input : bytes)
        (mk rdr : gval) (L : list enc_msg) :
  Forall (em_ok c s_sk) L -> em_headers_distinct c s_sk L ->
  (N.of_nat (List.length input) < 18446744073709551616)%N ->
  rdr_bytes r = Some input ->
  let kr := mkRing [(r_sk, dh_pub c r_sk)] senders in
  fst (run_func2 (ext_nds c pm vd kr) f_saltpack_NewDecryptStream [VV; r; RING]) = ORet [mk; rdr; VNil] ->
  exists m k obj,
    mk = g_mki m k /\ snd k = mki_receiver m /\ rdr = g_cr_new obj /\
    (mki_sender m = dh_pub c s_sk -> mki_sender_anon m = false ->
     forall F, (N.of_nat F <= 18446744073709551616)%N ->
       let d := go_drain (ext_chunk c TBytes) f_saltpack_decryptStream_getNextChunk "ds" F obj in
       exists chunks tl,
         fst d = (chunks ++ tl)%list /\ (tl = [] \/ tl = [[]]) /\
         ((chunks = [] /\ snd d <> Some (VErr "io.EOF" [])) \/
          (exists msg hide pos,
              In msg L /\ nth_error (em_rs msg) pos = Some (dh_pub c r_sk, hide) /\
              list_prefix chunks (map fst (em_packets msg)) /\
              (snd d = Some (VErr "io.EOF" []) -> chunks = map fst (em_packets msg)))
          \/ EncBreakL c s_sk r_sk vd kr L input)).
Proof. exact (go_NewDecryptStream_authentic c Hc pm s_sk r_sk vd senders VV r RING input mk rdr L). Qed.
End C02_source_end_to_end.
Print Assumptions C02_source_end_to_end_Open.
Print Assumptions C02_source_end_to_end_Open_nil_error.
Print Assumptions C02_source_end_to_end_NewDecryptStream.

(* ============================== BLOCK 2: append to props/C02.v ============================== *)
From SP Require Spec AcceptDefs AcceptEncProofs GoAstOpen GoAstRecv GoAstProofs4b GoAstProofs5a GoAstProofs7c GoEndToEndAuth GoAstProofs8c.
Section C02_source_end_to_end_read.
Import Spec AcceptDefs AcceptEncProofs GoLang GoLang2 GoAstOpen GoAstRecv GoAstProofs4b GoAstProofs7c GoEndToEndAuth GoAstProofs8c.
Local Open Scope string_scope.

(* authenticity of what ANY Read loop over the plaintext stream of the translated NewDecryptStream delivers *)
Theorem C02_source_end_to_end_read_NewDecryptStream (c : crypto) (Hc : crypto_ok c) (pm : bytes -> gval) (s_sk r_sk : bytes)
        (vd : validator) (senders : option (list bytes)) (VV r RING : gval) (input : bytes)
        (mk rdr : gval) (L : list enc_msg) :
  Forall (em_ok c s_sk) L -> em_headers_distinct c s_sk L ->
  (N.of_nat (List.length input) < 18446744073709551616)%N ->
  rdr_bytes r = Some input ->
  let kr := mkRing [(r_sk, dh_pub c r_sk)] senders in
  fst (run_func2 (ext_nds c pm vd kr) f_saltpack_NewDecryptStream [VV; r; RING]) = ORet [mk; rdr; VNil] ->
  exists m k obj,
    mk = g_mki m k /\ snd k = mki_receiver m /\ rdr = g_cr_new obj /\
    (mki_sender m = dh_pub c s_sk -> mki_sender_anon m = false ->
     forall F bufs, (10 <= F)%nat -> (S (List.length input) < F)%nat -> Forall (fun b : bytes => b <> []) bufs ->
       reads_auth_shape
         (fun full => exists msg hide pos,
              In msg L /\ nth_error (em_rs msg) pos = Some (dh_pub c r_sk, hide) /\ full = map fst (em_packets msg))
         (EncBreakL c s_sk r_sk vd kr L input)
         (go_reads (gnc_dec c) F bufs rdr 0)).
Proof. exact (go_NewDecryptStream_read_authentic c Hc pm s_sk r_sk vd senders VV r RING input mk rdr L). Qed.

(* every input: the stream read with any buffers releases the model's plaintext (prefix) and ends with the model's error *)
Theorem C02_source_end_to_end_read_of_model (c : crypto) (pm : bytes -> gval) (vd : validator) (kr : keyring) (VV RING rd : gval)
        (wire : bytes) (m : mki) (out : stream_out) :
  open_stream c vd kr wire = Ok (m, out) ->
  rdr_bytes rd = Some wire ->
  (N.of_nat (List.length wire) < 18446744073709551616)%N ->
  exists (k : bytes * bytes) (obj : gval),
    In k (kr_keys kr) /\ snd k = mki_receiver m /\
    fst (run_func2 (ext_nds c pm vd kr) f_saltpack_NewDecryptStream [VV; rd; RING]) = ORet [g_mki m k; g_cr_new obj; VNil] /\
    forall F bufs, (10 <= F)%nat -> (S (List.length wire) < F)%nat -> Forall (fun p : bytes => p <> []) bufs ->
      let res := go_reads (gnc_dec c) F bufs (g_cr_new obj) 0 in
      reads_spec res (List.concat (so_chunks out)) (so_end out) /\
      ((List.length (List.concat (so_chunks out)) + List.length wire + 2 <= List.length bufs)%nat -> reads_done res).
Proof. exact (go_NewDecryptStream_reads_of_model c pm vd kr VV RING rd wire m out). Qed.

(* round trip: a spec-following message, read with enough non-empty buffers of any sizes: the whole plaintext, then io.EOF *)
Theorem C02_source_end_to_end_read_accepts_spec (c : crypto) (Hc : crypto_ok c) (pm : bytes -> gval) (p : S_enc) (sk : bytes)
        (hide : bool) (i : nat) (vd : validator) (VV RING rd : gval) :
  enc_params_ok c p -> admits vd (se_major p) (se_minor p) ->
  nth_error (se_rcpts p) i = Some (dh_pub c sk, hide) ->
  rdr_bytes rd = Some (S_encode_encryption c p) ->
  (N.of_nat (List.length (S_encode_encryption c p)) < 18446744073709551616)%N ->
  let kr := mkRing [(sk, dh_pub c sk)] None in
  (exists (m : mki) (obj : gval),
      fst (run_func2 (ext_nds c pm vd kr) f_saltpack_NewDecryptStream [VV; rd; RING])
      = ORet [g_mki m (sk, dh_pub c sk); g_cr_new obj; VNil] /\
      forall F bufs, (10 <= F)%nat -> (S (List.length (S_encode_encryption c p)) < F)%nat -> Forall (fun b : bytes => b <> []) bufs ->
        let res := go_reads (gnc_dec c) F bufs (g_cr_new obj) 0 in
        reads_spec res (List.concat (se_chunks p)) EOF /\
        ((List.length (List.concat (se_chunks p)) + List.length (S_encode_encryption c p) + 2 <= List.length bufs)%nat ->
         res = Some (Z.of_nat (List.length (List.concat (se_chunks p))), VErr "io.EOF" [])))
  \/ S_foreign_box_opens c p sk.
Proof. exact (go_NewDecryptStream_read_accepts_spec c Hc pm p sk hide i vd VV RING rd). Qed.
End C02_source_end_to_end_read.
Print Assumptions C02_source_end_to_end_read_NewDecryptStream.
Print Assumptions C02_source_end_to_end_read_of_model.
Print Assumptions C02_source_end_to_end_read_accepts_spec.


