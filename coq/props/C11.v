(* C11 — Armor framing: well-formed output, tolerant re-flowed input, validated frames.
   Only property theorems here, each closed by `exact` of a lemma from proofs/. *)
From Coq Require Import List NArith ZArith.
From Coq.Strings Require Import Byte.
From SP Require Import Bytes Params Errors BaseX Encodings Armor ArmorProofs.
From Coq Require String.
From SP Require Streams GoLang GoLang2 GoAst GoAstEnc GoAstProofs5b GoAstProofs5d GoAstFrame GoAstProofs7d.
Import ListNotations.
Open Scope N_scope.

(* The frames the library writes parse back to their brand (so they match the frame grammar) ... *)
Theorem C11_frames_parse (marker : bytes) (typ : Z) (brand : bytes) :
  marker_ok marker -> armorable typ -> brand_ok brand ->
  parse_frame (make_frame marker typ brand) typ marker = Ok brand.
Proof. exact (make_frame_parses marker typ brand). Qed.

(* ... and the body of every payload is base-62 words of at most 15 characters, at most
   200 per line, single separators, whose digits are exactly the block-wise encoding *)
Theorem C11_body_shape (payload : bytes) :
  let chars := BaseX.encode base62 payload in
  shape_scan (space_words (S (length chars)) chars 0) 0 0 = true.
Proof. exact (armor_body_shape payload). Qed.
Theorem C11_body_digits (payload : bytes) :
  let chars := BaseX.encode base62 payload in
  body_digits (space_words (S (length chars)) chars 0) = chars.
Proof. exact (armor_body_digits payload). Qed.

(* Dearmoring the armored text returns the identical payload, brand, header and footer ... *)
Theorem C11_roundtrip (payload : bytes) (typ : Z) (brand : bytes) :
  armorable typ -> brand_ok brand ->
  dearmor (Some typ) (armor62_seal payload typ brand) =
  Ok (mkDearmored payload brand (make_frame header_marker typ brand) (make_frame footer_marker typ brand)).
Proof. exact (dearmor_armor payload typ brand). Qed.

(* ... also after arbitrary runs of space, tab, CR, LF or '>' are inserted between any two
   payload characters (ws_ins), between frame words or around the frame (frame_reflow:
   the received sentence normalises to the canonical frame, stays within 512 characters
   after trimming and below the 8192-byte read limit).  Payload and brand are identical;
   header and footer are returned as received, i.e. identical up to the inserted runs. *)
Theorem C11_roundtrip_reflow (payload : bytes) (typ : Z) (brand : bytes) (H' B' F' T' : bytes) :
  armorable typ -> brand_ok brand ->
  let chars := BaseX.encode base62 payload in
  frame_reflow (make_frame header_marker typ brand) H' ->
  ws_ins (space_words (S (length chars)) chars 0) B' ->
  frame_reflow (make_frame footer_marker typ brand) F' ->
  forallb is_frame_ws T' = true ->
  dearmor (Some typ) (H' ++ [dot] ++ B' ++ [dot] ++ F' ++ [dot] ++ T') =
  Ok (mkDearmored payload brand (trim_space H') (trim_space F')).
Proof. exact (dearmor_reflow payload typ brand H' B' F' T'). Qed.

(* Rejection: a sentence is accepted as a frame ONLY if, up to runs of [>\n\r\t ] and
   surrounding white space, it is exactly the canonical frame of the expected marker and
   type, at most 512 bytes long, with a brand of at most 128 characters ... *)
Theorem C11_frame_sound (m : bytes) (typ : Z) (marker brand : bytes) :
  marker_ok marker ->
  parse_frame m typ marker = Ok brand ->
  armorable typ /\ normalise m = make_frame marker typ brand /\ len m <= 512 /\ len brand <= 128.
Proof. exact (parse_frame_sound m typ marker brand). Qed.

Theorem C11_frame_complete (m : bytes) (typ : Z) (marker brand : bytes) :
  marker_ok marker -> armorable typ -> brand_ok brand -> len m <= 512 ->
  normalise m = make_frame marker typ brand ->
  parse_frame m typ marker = Ok brand.
Proof. exact (parse_frame_complete m typ marker brand). Qed.

(* ... the footer must mirror the header's brand and type ... *)
Theorem C11_footer_mirrors_header (hdr ftr : bytes) (typ : Z) (brand : bytes) :
  check_armor62 hdr ftr typ = Ok brand ->
  parse_frame hdr typ header_marker = Ok brand /\ parse_frame ftr typ footer_marker = Ok brand.
Proof. exact (check_armor62_sound hdr ftr typ brand). Qed.

(* ... and whatever text a validating entry point accepts carries such a frame of the type it expects. *)
Theorem C11_dearmor_sound (typ : Z) (input : bytes) (d : dearmored) :
  dearmor (Some typ) input = Ok d ->
  exists h r1 body r2 f r3,
    split_dot input = Some (h, r1) /\ split_dot r1 = Some (body, r2) /\ split_dot r2 = Some (f, r3) /\
    check_armor62 (trim_space h) (trim_space f) typ = Ok (da_brand d) /\
    da_header d = trim_space h /\ da_footer d = trim_space f /\
    BaseX.decode base62 (body_digits body) = (da_payload d, None).
Proof. exact (dearmor_sound typ input d). Qed.

(* ---- source ties: the armor ENCODER stream (/repo/armor.go with the sticky-error fix), lemmas of proofs/GoAstProofs5d.v ---- *)
(* The terms f_saltpack_armorEncoderStream_{Write, spaceAndOutputBuffer, Close} are generated on every run from the
   Go syntax trees of /repo/armor.go (gen/GoAstEnc.v) and run by the evaluator of model/GoLang2.v ([run2] =
   run_func2 with the fuel F as a parameter; the theorems hold for EVERY fuel above an explicit bound).  The model is
   the state machine ae_space / ae_write / ae_close of model/Streams.v (armor_stream, the one
   C13_write_oblivious_armor equates with the one-shot armor_seal these C11 theorems are about).
   The *armorEncoderStream object is [g_armor chars footer w encv k err]: s.buf = the pending characters, the footer,
   s.encoded = the underlying io.Writer, s.encoder = an arbitrary value encv, s.nWords = k, params = Armor62Params
   (15-character words, 200 words per line, '.'), s.err = the STICKY ERROR (err : option string, nil or an error value):
   Write and Close return it at once when it is set, and store every error they return in it first, so that after
   every Write or Close s.err is the error that call returned.  The writer is [g_wr w], w : wr = (w_log, w_sched): every
   Writer.Write appends its argument to the log and returns the head of the schedule as its error, so the theorems
   hold for every failure behaviour; [run_calls calls w] hands byte strings to it until one call fails: (calls made,
   error, writer afterwards).  The model has no failing writer: the theorems say that the Go code makes exactly the
   model's writes, in order, up to and including the first one that fails.  ga_space, ga_close_tail, ga_write,
   ga_close are the Go-level specification functions of GoAstProofs5d.v (ga_write / ga_close take the sticky error as
   an argument; the error they return is the one left in s.err).
   NOT EXPRESSIBLE in the evaluator (reported there): the base-X encoder behind s.encoder writes into the SAME
   *bytes.Buffer as s.buf; values of the evaluator are trees without references, so the bytes the encoder writes
   cannot appear in s.buf.  What is expressible is proved: the control flow of Write and Close for ARBITRARY
   callees (W, C, SP = the meaning given to s.encoder.Write(b), s.encoder.Close(), s.spaceAndOutputBuffer():
   results first, then the updated receiver) — the glue and sticky theorems; spaceAndOutputBuffer and the tail of Close
   in full; and the composition against ae_write / ae_close with the sharing stated explicitly as hypotheses (the
   _aliased theorems). *)
Section C11_source.
Import GoLang GoLang2 GoAst GoAstEnc Streams GoAstProofs5b GoAstProofs5d String.StringSyntax.
Local Open Scope nat_scope.
Variable W : gval -> bytes -> option (list gval).
Variable C : gval -> option (list gval).
Variable SP : gval -> option (list gval).

(* s.spaceAndOutputBuffer() computes exactly ga_space: the error, the pending characters, the word count and the
   writer left in `s`, for every state, writer schedule and value of s.err (which it leaves alone).  Hypothesis:
   fuel >= 14 + len(chars)/15 (one loop turn per 15-character word).  (nWords is a Go int; the evaluator's int does
   not wrap, Go's would after 2^63 words.) *)
Theorem C11_source_spaceAndOutputBuffer_run (chars footer : bytes) (w : wr) (encv : gval) (k : N)
        (err : option String.string) (F : nat) :
  14 + List.length chars / 15 <= F ->
  let r := run2 (ext_ae W C SP) F f_saltpack_armorEncoderStream_spaceAndOutputBuffer [g_armor chars footer w encv k err] in
  let '(er, chars', k', w') := ga_space (S (List.length chars / 15)) chars k w in
  fst r = ORet [g_werr er] /\ lookup "s" (snd r) = Some (g_armor chars' footer w' encv k' err).
Proof. exact (go_spaceAndOutputBuffer_run W C SP chars footer w encv k err F). Qed.

(* ga_space against the model's ae_space: the writer calls are word, separator, word, separator ... (sp_calls), their
   concatenation is what ae_space appends to its output, the error is the first failing call's, and without a
   failure the remaining characters and the word count are ae_space's.  No hypothesis. *)
Theorem C11_source_ga_space_model (n : nat) (chars : bytes) (k : N) (w : wr) (acc : bytes) :
  let '(out, rest, k') := ae_space n chars k acc in
  let '(j, erm, wm) := run_calls (sp_calls n chars k) w in
  let '(er, chars', k2, w') := ga_space n chars k w in
  out = acc ++ List.concat (sp_calls n chars k) /\ er = erm /\ w' = wm /\ (er = None -> chars' = rest /\ k2 = k').
Proof. exact (ga_space_model n chars k w acc). Qed.

(* s.Write(b) with s.err = nil, for EVERY behaviour of its two callees: if s.encoder.Write(b) returns (n, e1) leaving
   encv', and (when e1 is nil) s.spaceAndOutputBuffer() returns e2 leaving the receiver struct fs2, then Write returns
   the encoder's count n with the first error of the two, AND STORES THAT ERROR IN s.err: the receiver is the object
   with the new encoder and err = e1; or what spaceAndOutputBuffer left with its field err set to e2; or, when both
   succeed, what spaceAndOutputBuffer left, untouched.  Hypotheses: fuel >= 12 and the two equations naming the
   callees' behaviour. *)
Theorem C11_source_armor_Write_glue (chars footer b : bytes) (w : wr) (encv encv' : gval)
        (fs2 : list (String.string * gval)) (k : N) (n : Z) (e1 e2 : option String.string) (F : nat) :
  12 <= F ->
  W encv b = Some [VInt n; g_werr e1; encv'] ->
  (e1 = None -> SP (g_armor chars footer w encv' k None) = Some [g_werr e2; VStruct fs2]) ->
  let r := run2 (ext_ae W C SP) F f_saltpack_armorEncoderStream_Write [g_armor chars footer w encv k None; VBytes b] in
  fst r = ORet [VInt n; g_werr (match e1 with Some x => Some x | None => e2 end)] /\
  lookup "s" (snd r) = Some (match e1 with
                             | Some x => g_armor chars footer w encv' k (Some x)
                             | None => match e2 with
                                       | Some y => VStruct (set_field fs2 "err" (VErr y []))
                                       | None => VStruct fs2
                                       end
                             end).
Proof. exact (go_armor_Write_glue W C SP chars footer b w encv encv' fs2 k n e1 e2 F). Qed.

(* THE STICKY ERROR, Write: with s.err = x set, Write returns (0, x), calls neither s.encoder.Write nor
   s.spaceAndOutputBuffer (no hypothesis on W, SP) and leaves the object - the writer in particular - as it was.
   Hypothesis: fuel >= 12. *)
Theorem C11_source_armor_Write_sticky (chars footer b : bytes) (w : wr) (encv : gval) (k : N) (x : String.string) (F : nat) :
  12 <= F ->
  let r := run2 (ext_ae W C SP) F f_saltpack_armorEncoderStream_Write [g_armor chars footer w encv k (Some x); VBytes b] in
  fst r = ORet [VInt 0; VErr x []] /\ lookup "s" (snd r) = Some (g_armor chars footer w encv k (Some x)).
Proof. exact (go_armor_Write_sticky W C SP chars footer b w encv k x F). Qed.

(* s.Close() with s.err = nil, for EVERY behaviour of its two callees: the error of s.encoder.Close() is returned; else
   that of s.spaceAndOutputBuffer(); else the tail runs on the receiver the callees left: one Write of the remaining
   characters, then one Fprintf of padding + ". " + footer + ".\n" (ga_close_tail), whose error is returned; every
   writer schedule.  Whichever of the four places the returned error comes from, it is STORED IN s.err first; when
   Close returns nil s.err is what spaceAndOutputBuffer left (err2).  Hypotheses: fuel >= 20 and the two equations
   naming the callees' behaviour. *)
Theorem C11_source_armor_Close_glue (chars footer : bytes) (w : wr) (encv encv' : gval) (k : N)
        (e1 e2 : option String.string) (chars2 footer2 : bytes) (w2 : wr) (encv2 : gval) (k2 : N)
        (err2 : option String.string) (F : nat) :
  20 <= F ->
  C encv = Some [g_werr e1; encv'] ->
  (e1 = None -> SP (g_armor chars footer w encv' k None) = Some [g_werr e2; g_armor chars2 footer2 w2 encv2 k2 err2]) ->
  let r := run2 (ext_ae W C SP) F f_saltpack_armorEncoderStream_Close [g_armor chars footer w encv k None] in
  match e1 with
  | Some x => fst r = ORet [VErr x []] /\ lookup "s" (snd r) = Some (g_armor chars footer w encv' k (Some x))
  | None =>
    match e2 with
    | Some y => fst r = ORet [VErr y []] /\ lookup "s" (snd r) = Some (g_armor chars2 footer2 w2 encv2 k2 (Some y))
    | None =>
      let '(e, w4, k4) := ga_close_tail chars2 footer2 w2 k2 in
      fst r = ORet [g_werr e] /\
      lookup "s" (snd r) = Some (g_armor chars2 footer2 w4 encv2 k4 (match e with Some z => Some z | None => err2 end))
    end
  end.
Proof. exact (go_armor_Close_glue W C SP chars footer w encv encv' k e1 e2 chars2 footer2 w2 encv2 k2 err2 F). Qed.

(* THE STICKY ERROR, Close: with s.err = x set, Close returns x, calls nothing, writes nothing (no last characters, NO
   FOOTER) and leaves the object as it was.  Hypothesis: fuel >= 20. *)
Theorem C11_source_armor_Close_sticky (chars footer : bytes) (w : wr) (encv : gval) (k : N) (x : String.string) (F : nat) :
  20 <= F ->
  let r := run2 (ext_ae W C SP) F f_saltpack_armorEncoderStream_Close [g_armor chars footer w encv k (Some x)] in
  fst r = ORet [VErr x []] /\ lookup "s" (snd r) = Some (g_armor chars footer w encv k (Some x)).
Proof. exact (go_armor_Close_sticky W C SP chars footer w encv k x F). Qed.

(* the end of Close against the model: the two writes of ga_close_tail are the last characters, then (a separator if
   the last word is full) ". " footer ".\n" — the tail of ae_close; the error is the first failing call's and
   without a failure the word count is incremented.  No hypothesis. *)
Theorem C11_source_ga_close_tail_model (lst footer : bytes) (w : wr) (k : N) :
  let pad := if Nat.eqb (List.length lst) bytes_per_word then [ae_sep (k + 1)%N] else [] in
  let '(j, erm, wm) := run_calls [lst; pad ++ [dot; sp] ++ footer ++ [dot; x0a]] w in
  let '(e, w', k') := ga_close_tail lst footer w k in
  e = erm /\ w' = wm /\ (e = None -> k' = (k + 1)%N).
Proof. exact (ga_close_tail_model lst footer w k). Qed.

(* ga_write on a stream WITHOUT stored error (argument None) = the composition encoder.Write; (the bytes the encoder
   wrote appear in s.buf); spaceAndOutputBuffer — against the model's ae_write on the state (buffered bytes, pending
   characters, words): the count is len(p), the encoder object keeps its invariant with the buffered bytes of the
   model's new state, and the bytes handed to the armor stream's writer are, in order and up to the first failing call,
   the model's output; without a failure the pending characters and word count are the model's.  (The returned error
   er is also what s.err holds afterwards.)  Hypotheses: gobj_ok base62 128 o (the invariant NewEncoder establishes,
   see the C10_source_ theorems), e.err = nil, and the encoder's own writer (the bytes.Buffer) is empty and never
   fails. *)
Theorem C11_source_ga_write_model (o : gobj) (chars : bytes) (k : N) (w : wr) (p : bytes) :
  gobj_ok base62 128 o -> go_err o = None -> go_w o = mkWr [] [] ->
  let st := mkAe (firstn (go_nbuf o) (go_buf o)) chars k in
  let (out, st') := ae_write st p in
  let '(n, er, o2, chars', k', w') := ga_write o chars k w None p in
  n = List.length p /\ gobj_ok base62 128 o2 /\ go_err o2 = None /\ go_w o2 = mkWr [] [] /\
  firstn (go_nbuf o2) (go_buf o2) = ae_bx st' /\
  exists (calls : list bytes) (j : nat),
    List.concat calls = out /\ run_calls calls w = (j, er, w') /\
    (er = None -> chars' = ae_chars st' /\ k' = ae_words st').
Proof. exact (ga_write_model o chars k w p). Qed.

(* ga_close on a stream without stored error = encoder.Close; (shared buffer); spaceAndOutputBuffer; tail — against the
   model's ae_close: the bytes handed to the writer are, in order and up to the first failing call, exactly
   ae_close st footer (last words, padding, ". ", footer, ".\n"), and the error returned (and stored) is that call's.
   ga_close also gives the object Close leaves: encoder object, pending characters, words, writer.  Same hypotheses. *)
Theorem C11_source_ga_close_model (o : gobj) (chars : bytes) (k : N) (w : wr) (footer : bytes) :
  gobj_ok base62 128 o -> go_err o = None -> go_w o = mkWr [] [] ->
  let st := mkAe (firstn (go_nbuf o) (go_buf o)) chars k in
  let '(e, o2, chars2, k2, w4) := ga_close o chars k w None footer in
  exists (calls : list bytes) (j : nat),
    List.concat calls = ae_close st footer /\ run_calls calls w = (j, e, w4).
Proof. exact (ga_close_model o chars k w footer). Qed.

(* the sticky error on the specification functions: with a stored error x, ga_write returns count 0 and x, ga_close
   returns x, and the state (encoder object, characters, words, WRITER) is unchanged *)
Theorem C11_source_ga_write_sticky (o : gobj) (chars : bytes) (k : N) (w : wr) (x : String.string) (p : bytes) :
  ga_write o chars k w (Some x) p = (0, Some x, o, chars, k, w).
Proof. exact (ga_write_sticky o chars k w x p). Qed.
Theorem C11_source_ga_close_sticky (o : gobj) (chars : bytes) (k : N) (w : wr) (x : String.string) (footer : bytes) :
  ga_close o chars k w (Some x) footer = (Some x, o, chars, k, w).
Proof. exact (ga_close_sticky o chars k w x footer). Qed.

(* the translated Write (s.err = nil) against ae_write WHEN the two method calls are read as: (4th hypothesis)
   s.encoder.Write(p) = the base-X encoder's Write (gw_write, tied by C10_source_encoder_Write) with its trailing copy
   performed, and (5th) s.spaceAndOutputBuffer() = the translated method (C11_source_spaceAndOutputBuffer_run) run after
   the bytes the encoder wrote have appeared in s.buf, the encoder's log drained, s.err left alone.  These two readings
   state the sharing of the bytes.Buffer, which the evaluator cannot express.  Other hypotheses: fuel >= 12,
   gobj_ok base62 128 o, e.err = nil, the encoder's own writer empty and never failing.  Conclusion: Write computes
   ga_write: it returns (len p, er), the receiver afterwards is the armor object with the new characters, writer,
   encoder object, word count AND s.err = er; the encoder object and the bytes written are as in
   C11_source_ga_write_model. *)
Theorem C11_source_armor_Write_aliased (o : gobj) (chars footer : bytes) (k : N) (w : wr) (p : bytes) (F : nat) :
  12 <= F -> gobj_ok base62 128 o -> go_err o = None -> go_w o = mkWr [] [] ->
  (let '(n, e1, o', p') := gw_write base62 128 o p in
   W (g_obj base62 o) p = Some [VInt (Z.of_nat n); g_werr e1; g_obj base62 (pending_copy o' p')]) ->
  (forall o1 : gobj,
   let chars1 := chars ++ List.concat (w_log (go_w o1)) in
   let '(er, chars', k', w') := ga_space (S (List.length chars1 / 15)) chars1 k w in
   SP (g_armor chars footer w (g_obj base62 o1) k None)
   = Some [g_werr er; g_armor chars' footer w' (g_obj base62 (drained o1)) k' None]) ->
  let r := run2 (ext_ae W C SP) F f_saltpack_armorEncoderStream_Write [g_armor chars footer w (g_obj base62 o) k None; VBytes p] in
  let st := mkAe (firstn (go_nbuf o) (go_buf o)) chars k in
  let (out, st') := ae_write st p in
  exists (er : option String.string) (o2 : gobj) (chars' : bytes) (k' : N) (w' : wr),
    ga_write o chars k w None p = (List.length p, er, o2, chars', k', w') /\
    fst r = ORet [VInt (Z.of_nat (List.length p)); g_werr er] /\
    lookup "s" (snd r) = Some (g_armor chars' footer w' (g_obj base62 o2) k' er) /\
    gobj_ok base62 128 o2 /\ go_err o2 = None /\ go_w o2 = mkWr [] [] /\
    firstn (go_nbuf o2) (go_buf o2) = ae_bx st' /\
    exists (calls : list bytes) (j : nat),
      List.concat calls = out /\ run_calls calls w = (j, er, w') /\
      (er = None -> chars' = ae_chars st' /\ k' = ae_words st').
Proof. exact (go_armor_Write_aliased W C SP o chars footer k w p F). Qed.

(* the translated Close (s.err = nil) against ae_close under the same reading of the two method calls
   (s.encoder.Close() = gw_close, tied by C10_source_encoder_Close): it computes ga_close: it returns the error of the
   first failing write, the bytes handed to the writer are, in order and up to that call, exactly ae_close st footer,
   and the receiver afterwards is the armor object ga_close gives WITH s.err = THE RETURNED ERROR.  Hypotheses:
   fuel >= 20, gobj_ok, e.err = nil, the encoder's own writer empty and never failing, the two readings. *)
Theorem C11_source_armor_Close_aliased (o : gobj) (chars footer : bytes) (k : N) (w : wr) (F : nat) :
  20 <= F -> gobj_ok base62 128 o -> go_err o = None -> go_w o = mkWr [] [] ->
  (let (e1, o') := gw_close base62 o in C (g_obj base62 o) = Some [g_werr e1; g_obj base62 o']) ->
  (forall o1 : gobj,
   let chars1 := chars ++ List.concat (w_log (go_w o1)) in
   let '(er, chars', k', w') := ga_space (S (List.length chars1 / 15)) chars1 k w in
   SP (g_armor chars footer w (g_obj base62 o1) k None)
   = Some [g_werr er; g_armor chars' footer w' (g_obj base62 (drained o1)) k' None]) ->
  let r := run2 (ext_ae W C SP) F f_saltpack_armorEncoderStream_Close [g_armor chars footer w (g_obj base62 o) k None] in
  let st := mkAe (firstn (go_nbuf o) (go_buf o)) chars k in
  exists (e : option String.string) (o2 : gobj) (chars2 : bytes) (k2 : N) (w4 : wr) (calls : list bytes) (j : nat),
    ga_close o chars k w None footer = (e, o2, chars2, k2, w4) /\
    fst r = ORet [g_werr e] /\
    lookup "s" (snd r) = Some (g_armor chars2 footer w4 (g_obj base62 o2) k2 e) /\
    List.concat calls = ae_close st footer /\ run_calls calls w = (j, e, w4).
Proof. exact (go_armor_Close_aliased W C SP o chars footer k w F). Qed.
End C11_source.


(* ---- SOURCE TIES: armor frames (frame.go, armor62.go) ----
   The bodies of getStringForType, MakeArmorHeader/Footer, parseFrame, CheckArmor62 and CheckArmor62Frame as translated
   from /repo on this run (gen/GoAstFrame.v), run by the evaluator of model/GoLang2.v, compute exactly the model's frame
   functions (model/Armor.v: type_string, make_frame, parse_frame, check_armor62) that the theorems above are about -
   for EVERY input string, message type and marker.  Library calls are externs with the meanings listed in
   proofs/GoAstProofs7d.v ([ext_frame]: strings.Split/Join/TrimSpace as executable definitions, the whitespace-run
   regexp as the model's collapse_ws, shift/pop as firstn/skipn with write-back).  makeFrame, pop, shift and
   IsSaltpackArmoredPrefix use []string slicing/append, which the embedding's evaluator does not have: they are reported
   NOT EXPRESSIBLE there (with machine-checked witnesses) and stay tied by the campaign only.
   parseFrame: the error is nil exactly when the model accepts, and the brand is the model's brand then; on an error
   the brand returned is "" except at the brand-length check, where the Go code returns the over-long brand together
   with the error ([pf_go_brand] records exactly that). *)
Section C11_source_frames.
Import GoLang GoLang2 GoAstFrame GoAstProofs7d String.StringSyntax.
Local Open Scope string_scope.
(* [run7 f args] is [fst (run_func2 ext_frame f args)]: the outcome of running the translated function f *)

Theorem C11_source_getStringForType (typ : Z) :
  run7 f_saltpack_getStringForType [VInt typ] = ORet [VBytes (type_string typ)].
Proof. exact (go_getStringForType typ). Qed.

Theorem C11_source_MakeArmorHeader (typ : Z) (brand : bytes) :
  run7 f_saltpack_MakeArmorHeader [VInt typ; VBytes brand]
  = ORet [VBytes (make_frame header_marker typ brand)].
Proof. exact (go_MakeArmorHeader typ brand). Qed.

Theorem C11_source_MakeArmorFooter (typ : Z) (brand : bytes) :
  run7 f_saltpack_MakeArmorFooter [VInt typ; VBytes brand]
  = ORet [VBytes (make_frame footer_marker typ brand)].
Proof. exact (go_MakeArmorFooter typ brand). Qed.

Theorem C11_source_parseFrame (m : bytes) (typ : Z) (hof : bytes) :
  run7 f_saltpack_parseFrame [VBytes m; VInt typ; VBytes hof]
  = ORet [VBytes (pf_go_brand m typ hof); g_res_err (parse_frame m typ hof)].
Proof. exact (go_parseFrame m typ hof). Qed.

Theorem C11_source_parseFrame_brand (m : bytes) (typ : Z) (hof b : bytes) :
  parse_frame m typ hof = Ok b -> pf_go_brand m typ hof = b.
Proof. exact (pf_go_brand_ok m typ hof b). Qed.

Theorem C11_source_CheckArmor62 (hdr ftr : bytes) (typ : Z) :
  run7 f_saltpack_CheckArmor62 [VBytes hdr; VBytes ftr; VInt typ]
  = ORet (g_brand_res (check_armor62 hdr ftr typ)).
Proof. exact (go_CheckArmor62 hdr ftr typ). Qed.

(* CheckArmor62Frame, for EVERY implementation of the Frame interface (get_header / get_footer: frame state |->
   sentence, error value, state afterwards): GetHeader first, its error returned at once, then GetFooter, then
   CheckArmor62 on the two sentences; the frame object is left in the state after exactly the calls made *)
Theorem C11_source_CheckArmor62Frame (get_header get_footer : gval -> bytes * gval * gval) :
  (forall fr, is_errval (snd (fst (get_header fr)))) -> (forall fr, is_errval (snd (fst (get_footer fr)))) ->
  forall (fr : gval) (typ : Z),
  let r := run_func2 (ext_frameobj get_header get_footer) f_saltpack_CheckArmor62Frame [fr; VInt typ] in
  fst r = ORet (fst (check_frame_model get_header get_footer fr typ)) /\
  lookup "frame" (snd r) = Some (snd (check_frame_model get_header get_footer fr typ)).
Proof. exact (go_CheckArmor62Frame get_header get_footer). Qed.
End C11_source_frames.

Print Assumptions C11_source_getStringForType.
Print Assumptions C11_source_MakeArmorHeader.
Print Assumptions C11_source_MakeArmorFooter.
Print Assumptions C11_source_parseFrame.
Print Assumptions C11_source_parseFrame_brand.
Print Assumptions C11_source_CheckArmor62.
Print Assumptions C11_source_CheckArmor62Frame.
Print Assumptions C11_source_spaceAndOutputBuffer_run.
Print Assumptions C11_source_ga_space_model.
Print Assumptions C11_source_armor_Write_glue.
Print Assumptions C11_source_armor_Close_glue.
Print Assumptions C11_source_ga_close_tail_model.
Print Assumptions C11_source_ga_write_model.
Print Assumptions C11_source_ga_close_model.
Print Assumptions C11_source_armor_Write_aliased.
Print Assumptions C11_source_armor_Close_aliased.
Print Assumptions C11_source_armor_Write_sticky.
Print Assumptions C11_source_armor_Close_sticky.
Print Assumptions C11_source_ga_write_sticky.
Print Assumptions C11_source_ga_close_sticky.
Print Assumptions C11_frames_parse.
Print Assumptions C11_body_shape.
Print Assumptions C11_body_digits.
Print Assumptions C11_roundtrip.
Print Assumptions C11_roundtrip_reflow.
Print Assumptions C11_frame_sound.
Print Assumptions C11_frame_complete.
Print Assumptions C11_footer_mirrors_header.
Print Assumptions C11_dearmor_sound.

Example C11_ex_armor :
  dearmor (Some 0%Z) (armor62_seal [x68; x65; x6c; x6c; x6f] 0%Z [x4b; x42]) =
  Ok (mkDearmored [x68; x65; x6c; x6c; x6f] [x4b; x42]
        (make_frame header_marker 0%Z [x4b; x42]) (make_frame footer_marker 0%Z [x4b; x42])).
Proof. vm_compute. reflexivity. Qed.
Example C11_ex_wrong_type_rejected :
  dearmor (Some 1%Z) (armor62_seal [x68] 0%Z []) = Err ErrBadFrame.
Proof. vm_compute. reflexivity. Qed.
