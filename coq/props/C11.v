(* C11 — Armor framing: well-formed output, tolerant re-flowed input, validated frames.
   Only property theorems here, each closed by `exact` of a lemma from proofs/. *)
From Coq Require Import List NArith ZArith.
From Coq.Strings Require Import Byte.
From SP Require Import Bytes Params Errors BaseX Encodings Armor ArmorProofs.
Import ListNotations.
Open Scope N_scope.

(* The frames the library writes parse back to their brand (so they match the frame grammar) ... *)
Theorem C11_frames_parse (marker : bytes) (typ : Z) (brand : bytes) :
  marker_ok marker -> armorable typ -> brand_ok brand ->
  parse_frame (make_frame marker typ brand) typ marker = Ok brand.
Proof. exact (make_frame_parses marker typ brand). Qed.

(* ... and the body of every payload is base-62 words of at most 15 characters, at most
   200 per line, single separators, whose digits are exactly the block-wise encoding *)
Theorem C11_body_shape (payload : bytes) :
  let chars := BaseX.encode base62 payload in
  shape_scan (space_words (S (length chars)) chars 0) 0 0 = true.
Proof. exact (armor_body_shape payload). Qed.
Theorem C11_body_digits (payload : bytes) :
  let chars := BaseX.encode base62 payload in
  body_digits (space_words (S (length chars)) chars 0) = chars.
Proof. exact (armor_body_digits payload). Qed.

(* Dearmoring the armored text returns the identical payload, brand, header and footer ... *)
Theorem C11_roundtrip (payload : bytes) (typ : Z) (brand : bytes) :
  armorable typ -> brand_ok brand ->
  dearmor (Some typ) (armor62_seal payload typ brand) =
  Ok (mkDearmored payload brand (make_frame header_marker typ brand) (make_frame footer_marker typ brand)).
Proof. exact (dearmor_armor payload typ brand). Qed.

(* ... also after arbitrary runs of space, tab, CR, LF or '>' are inserted between any two
   payload characters (ws_ins), between frame words or around the frame (frame_reflow:
   the received sentence normalises to the canonical frame, stays within 512 characters
   after trimming and below the 8192-byte read limit).  Payload and brand are identical;
   header and footer are returned as received, i.e. identical up to the inserted runs. *)
Theorem C11_roundtrip_reflow (payload : bytes) (typ : Z) (brand : bytes) (H' B' F' T' : bytes) :
  armorable typ -> brand_ok brand ->
  let chars := BaseX.encode base62 payload in
  frame_reflow (make_frame header_marker typ brand) H' ->
  ws_ins (space_words (S (length chars)) chars 0) B' ->
  frame_reflow (make_frame footer_marker typ brand) F' ->
  forallb is_frame_ws T' = true ->
  dearmor (Some typ) (H' ++ [dot] ++ B' ++ [dot] ++ F' ++ [dot] ++ T') =
  Ok (mkDearmored payload brand (trim_space H') (trim_space F')).
Proof. exact (dearmor_reflow payload typ brand H' B' F' T'). Qed.

(* Rejection: a sentence is accepted as a frame ONLY if, up to runs of [>\n\r\t ] and
   surrounding white space, it is exactly the canonical frame of the expected marker and
   type, at most 512 bytes long, with a brand of at most 128 characters ... *)
Theorem C11_frame_sound (m : bytes) (typ : Z) (marker brand : bytes) :
  marker_ok marker ->
  parse_frame m typ marker = Ok brand ->
  armorable typ /\ normalise m = make_frame marker typ brand /\ len m <= 512 /\ len brand <= 128.
Proof. exact (parse_frame_sound m typ marker brand). Qed.

Theorem C11_frame_complete (m : bytes) (typ : Z) (marker brand : bytes) :
  marker_ok marker -> armorable typ -> brand_ok brand -> len m <= 512 ->
  normalise m = make_frame marker typ brand ->
  parse_frame m typ marker = Ok brand.
Proof. exact (parse_frame_complete m typ marker brand). Qed.

(* ... the footer must mirror the header's brand and type ... *)
Theorem C11_footer_mirrors_header (hdr ftr : bytes) (typ : Z) (brand : bytes) :
  check_armor62 hdr ftr typ = Ok brand ->
  parse_frame hdr typ header_marker = Ok brand /\ parse_frame ftr typ footer_marker = Ok brand.
Proof. exact (check_armor62_sound hdr ftr typ brand). Qed.

(* ... and whatever text a validating entry point accepts carries such a frame of the type it expects. *)
Theorem C11_dearmor_sound (typ : Z) (input : bytes) (d : dearmored) :
  dearmor (Some typ) input = Ok d ->
  exists h r1 body r2 f r3,
    split_dot input = Some (h, r1) /\ split_dot r1 = Some (body, r2) /\ split_dot r2 = Some (f, r3) /\
    check_armor62 (trim_space h) (trim_space f) typ = Ok (da_brand d) /\
    da_header d = trim_space h /\ da_footer d = trim_space f /\
    BaseX.decode base62 (body_digits body) = (da_payload d, None).
Proof. exact (dearmor_sound typ input d). Qed.

Print Assumptions C11_frames_parse.
Print Assumptions C11_body_shape.
Print Assumptions C11_body_digits.
Print Assumptions C11_roundtrip.
Print Assumptions C11_roundtrip_reflow.
Print Assumptions C11_frame_sound.
Print Assumptions C11_frame_complete.
Print Assumptions C11_footer_mirrors_header.
Print Assumptions C11_dearmor_sound.

Example C11_ex_armor :
  dearmor (Some 0%Z) (armor62_seal [x68; x65; x6c; x6c; x6f] 0%Z [x4b; x42]) =
  Ok (mkDearmored [x68; x65; x6c; x6c; x6f] [x4b; x42]
        (make_frame header_marker 0%Z [x4b; x42]) (make_frame footer_marker 0%Z [x4b; x42])).
Proof. vm_compute. reflexivity. Qed.
Example C11_ex_wrong_type_rejected :
  dearmor (Some 1%Z) (armor62_seal [x68] 0%Z []) = Err ErrBadFrame.
Proof. vm_compute. reflexivity. Qed.
