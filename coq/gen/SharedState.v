(* GENERATED from /repo by harness/cmd/gen — do not edit. *)
From Coq Require Import List String.
Import ListNotations.
Open Scope string_scope.

Definition package_vars : list string := [
  "basex.Base58StdEncoding : *basex.Encoding";
  "basex.Base58StdEncodingStrict : *basex.Encoding";
  "basex.Base62StdEncoding : *basex.Encoding";
  "basex.Base62StdEncodingStrict : *basex.Encoding";
  "basex.ErrInvalidEncodingLength : error";
  "saltpack.Armor62Params : saltpack.armorParams";
  "saltpack.ErrBadBoxKey : error";
  "saltpack.ErrBadEphemeralKey : error";
  "saltpack.ErrBadLookup : error";
  "saltpack.ErrBadReceivers : error";
  "saltpack.ErrBadSenderKeySecretbox : error";
  "saltpack.ErrBadSignature : error";
  "saltpack.ErrBadSymmetricKey : error";
  "saltpack.ErrDecryptionFailed : error";
  "saltpack.ErrFailedToReadHeaderBytes : error";
  "saltpack.ErrInsufficientRandomness : error";
  "saltpack.ErrNoDecryptionKey : error";
  "saltpack.ErrNotASaltpackMessage : error";
  "saltpack.ErrOverflow : error";
  "saltpack.ErrPacketOverflow : error";
  "saltpack.ErrPunctuated : error";
  "saltpack.ErrShortSliceOrBuffer : error";
  "saltpack.ErrTrailingGarbage : error";
  "saltpack.ErrUnexpectedEmptyBlock : error";
  "saltpack.ErrWrongNumberOfKeys : error";
  "saltpack.armor62DetachedSignatureFrameChecker : saltpack.FrameChecker";
  "saltpack.armor62DetachedSignatureHeaderChecker : saltpack.HeaderChecker";
  "saltpack.armor62EncryptionFrameChecker : saltpack.FrameChecker";
  "saltpack.armor62EncryptionHeaderChecker : saltpack.HeaderChecker";
  "saltpack.armor62SignatureFrameChecker : saltpack.FrameChecker";
  "saltpack.armor62SignatureHeaderChecker : saltpack.HeaderChecker";
  "saltpack.armor62SigncryptionFrameChecker : saltpack.FrameChecker";
  "saltpack.armor62SigncryptionHeaderChecker : saltpack.HeaderChecker"
].
Definition shared_writes : list string := [
].
Definition shared_pointer_method_calls : list string := [
].
