(* GENERATED from /repo by harness/cmd/gen (goast.go) — do not edit.
   The bodies of the listed functions as terms of the deep embedding of model/GoLang.v. *)
From Coq Require Import List String ZArith.
From SP Require Import GoLang.
Import ListNotations.
Local Open Scope string_scope.
Local Open Scope Z_scope.

(* saltpack.encryptStream_Write, encrypt.go *)
Definition f_saltpack_encryptStream_Write : gfunc := mkFunc "saltpack.encryptStream_Write" ["es"; "plaintext"] []
     [SIf [] (EBin ONe "bool" (ESel (EVar "es") "err") ENil)
      [SReturn [(EInt (0)); (ESel (EVar "es") "err")]]
      [];
      SVar "ret" "int";
      SIf [SAssignL [(LVar "ret"); (LField (LVar "es") "err")] [(ECall "Buffer.Write" [(ESel (EVar "es") "buffer"); (EVar "plaintext")])]] (EBin ONe "bool" (ESel (EVar "es") "err") ENil)
      [SReturn [(EInt (0)); (ESel (EVar "es") "err")]]
      [];
      SFor (EBin OGt "bool" (ECall "Buffer.Len" [(ESel (EVar "es") "buffer")]) (EInt (1048576)))
      [SAssignL [(LField (LVar "es") "err")] [(ECall "encryptStream.encryptBlock" [(EVar "es"); (EBool false)])];
      SIf [] (EBin ONe "bool" (ESel (EVar "es") "err") ENil)
      [SReturn [(EInt (0)); (ESel (EVar "es") "err")]]
      []];
      SReturn [(EVar "ret"); ENil]].

(* saltpack.encryptStream_encryptBlock, encrypt.go *)
Definition f_saltpack_encryptStream_encryptBlock : gfunc := mkFunc "saltpack.encryptStream_encryptBlock" ["es"; "isFinal"] []
     [SAssign ["plaintext"] [(ECall "Buffer.Next" [(ESel (EVar "es") "buffer"); (EInt (1048576))])];
      SExpr (ECall "checkEncryptBlockRead" [(ESel (EVar "es") "version"); (EVar "isFinal"); (EInt (1048576)); (ELen (EVar "plaintext")); (ECall "Buffer.Len" [(ESel (EVar "es") "buffer")])]);
      SIf [SAssign ["err"] [(ECall "encryptionBlockNumber.check" [(ESel (EVar "es") "numBlocks")])]] (EBin ONe "bool" (EVar "err") ENil)
      [SReturn [(EVar "err")]]
      [];
      SAssign ["nonce"] [(ECall "nonceForChunkSecretBox" [(ESel (EVar "es") "numBlocks")])];
      SAssign ["ciphertext"] [(ECall "secretbox.Seal" [(ELit "[]byte" []); (EVar "plaintext"); (EVar "nonce"); (ESel (EVar "es") "payloadKey")])];
      SExpr (ECall "assertEncodedChunkState" [(ESel (EVar "es") "version"); (EVar "ciphertext"); (EInt (16)); (EConv "uint64" (ESel (EVar "es") "numBlocks")); (EVar "isFinal")]);
      SAssign ["hashToAuthenticate"] [(ECall "computePayloadHash" [(ESel (EVar "es") "version"); (ESel (EVar "es") "headerHash"); (EVar "nonce"); (EVar "ciphertext"); (EVar "isFinal")])];
      SVar "authenticators" "[]payloadAuthenticator";
      SRange "_" "macKey" (ESel (EVar "es") "macKeys")
      [SAssign ["authenticator"] [(ECall "computePayloadAuthenticator" [(EVar "macKey"); (EVar "hashToAuthenticate")])];
      SAssign ["authenticators"] [(ECall "append" [(EVar "authenticators"); (EVar "authenticator")])]];
      SAssign ["eBlock"] [(ECall "makeEncryptionBlock" [(ESel (EVar "es") "version"); (EVar "ciphertext"); (EVar "authenticators"); (EVar "isFinal")])];
      SIf [SAssign ["err"] [(ECall "encoder.Encode" [(ESel (EVar "es") "encoder"); (EVar "eBlock")])]] (EBin ONe "bool" (EVar "err") ENil)
      [SReturn [(EVar "err")]]
      [];
      SOpAssignL (LField (LVar "es") "numBlocks") OAdd "uint64" (EInt 1);
      SReturn [ENil]].

(* saltpack.checkEncryptReceivers, encrypt.go *)
Definition f_saltpack_checkEncryptReceivers : gfunc := mkFunc "saltpack.checkEncryptReceivers" ["receivers"] []
     [SAssign ["receiverCount"] [(EConv "int64" (ELen (EVar "receivers")))];
      SIf [] (EBin OOr "bool" (EBin OLe "bool" (EVar "receiverCount") (EInt (0))) (EBin OGt "bool" (EVar "receiverCount") (EInt (4294967295))))
      [SReturn [(EErrVar "ErrBadReceivers")]]
      [];
      SAssign ["receiverSet"] [(ECall "makemap" [])];
      SRange "_" "receiver" (EVar "receivers")
      [SAssign ["kid"] [(ECall "BoxPublicKey.ToKID" [(EVar "receiver")])];
      SAssign ["kidString"] [(EConv "string" (EVar "kid"))];
      SIf [SMapLookup "v'" "ok'" (EVar "receiverSet") (EVar "kidString")] (EBin OAnd "bool" (EVar "ok'") (EVar "v'"))
      [SReturn [(ELit "ErrRepeatedKey" [("0", (EVar "kid"))])]]
      [];
      SAssignL [(LMapIndex (LVar "receiverSet") (EVar "kidString"))] [(EBool true)]];
      SReturn [ENil]].

(* saltpack.shuffleEncryptReceivers, encrypt.go *)
Definition f_saltpack_shuffleEncryptReceivers : gfunc := mkFunc "saltpack.shuffleEncryptReceivers" ["receivers"] []
     [SAssign ["shuffled"] [(ECall "make" [(ELen (EVar "receivers"))])];
      SExpr (ECall "copy" [(EVar "shuffled"); (EVar "receivers")]);
      SAssign ["err"] [(ECall "csprngShuffle" [(EPkg "cryptorand.Reader"); (ELen (EVar "shuffled")); (EUnsup "*ast.FuncLit")])];
      SIf [] (EBin ONe "bool" (EVar "err") ENil)
      [SReturn [ENil; (EVar "err")]]
      [];
      SReturn [(EVar "shuffled"); ENil]].

(* saltpack.encryptStream_init, encrypt.go *)
Definition f_saltpack_encryptStream_init : gfunc := mkFunc "saltpack.encryptStream_init" ["es"; "version"; "sender"; "receivers"; "ephemeralKeyCreator"; "rng"] []
     [SIf [SAssign ["err"] [(ECall "checkKnownVersion" [(EVar "version")])]] (EBin ONe "bool" (EVar "err") ENil)
      [SReturn [(EVar "err")]]
      [];
      SIf [SAssign ["err"] [(ECall "checkEncryptReceivers" [(EVar "receivers")])]] (EBin ONe "bool" (EVar "err") ENil)
      [SReturn [(EVar "err")]]
      [];
      SAssign ["receivers"; "err"] [(ECall "encryptRNG.shuffleReceivers" [(EVar "rng"); (EVar "receivers")])];
      SIf [] (EBin ONe "bool" (EVar "err") ENil)
      [SReturn [(EVar "err")]]
      [];
      SAssign ["ephemeralKey"; "err"] [(ECall "EphemeralKeyCreator.CreateEphemeralKey" [(EVar "ephemeralKeyCreator")])];
      SIf [] (EBin ONe "bool" (EVar "err") ENil)
      [SReturn [(EVar "err")]]
      [];
      SIf [] (EBin OEq "bool" (EVar "sender") ENil)
      [SAssign ["sender"] [(EVar "ephemeralKey")]]
      [];
      SAssign ["eh"] [(ELit "EncryptionHeader" [("FormatName", (EStr "saltpack")); ("Version", (EVar "version")); ("Type", (EInt (0))); ("Ephemeral", (ECall "BoxPublicKey.ToKID" [(ECall "BoxSecretKey.GetPublicKey" [(EVar "ephemeralKey")])])); ("Receivers", (ECall "makemap" [])); ("SenderSecretbox", ENil)])];
      SAssign ["payloadKey"; "err"] [(ECall "encryptRNG.createSymmetricKey" [(EVar "rng")])];
      SIf [] (EBin ONe "bool" (EVar "err") ENil)
      [SReturn [(EVar "err")]]
      [];
      SAssignL [(LField (LVar "es") "payloadKey")] [(EVar "payloadKey")];
      SAssign ["nonce"] [(ECall "nonceForSenderKeySecretBox" [])];
      SAssignL [(LField (LVar "eh") "SenderSecretbox")] [(ECall "secretbox.Seal" [(ELit "[]byte" []); (ECall "BoxPublicKey.ToKID" [(ECall "BoxSecretKey.GetPublicKey" [(EVar "sender")])]); (EVar "nonce"); (ESel (EVar "es") "payloadKey")])];
      SRange "i" "receiver" (EVar "receivers")
      [SAssign ["sharedKey"] [(ECall "BoxSecretKey.Precompute" [(EVar "ephemeralKey"); (EVar "receiver")])];
      SAssign ["nonce"] [(ECall "nonceForPayloadKeyBox" [(EVar "version"); (EConv "uint64" (EVar "i"))])];
      SAssign ["payloadKeyBox"] [(ECall "BoxPrecomputedSharedKey.Box" [(EVar "sharedKey"); (EVar "nonce"); (ESlice (ESel (EVar "es") "payloadKey") None None)])];
      SAssign ["keys"] [(ELit "receiverKeys" [("PayloadKeyBox", (EVar "payloadKeyBox")); ("ReceiverKID", ENil)])];
      SIf [] (ENot (ECall "BoxPublicKey.HideIdentity" [(EVar "receiver")]))
      [SAssignL [(LField (LVar "keys") "ReceiverKID")] [(ECall "BoxPublicKey.ToKID" [(EVar "receiver")])]]
      [];
      SAssignL [(LField (LVar "eh") "Receivers")] [(ECall "append" [(ESel (EVar "eh") "Receivers"); (EVar "keys")])]];
      SAssign ["headerBytes"; "err"] [(ECall "encodeToBytes" [(EVar "eh")])];
      SIf [] (EBin ONe "bool" (EVar "err") ENil)
      [SReturn [(EVar "err")]]
      [];
      SAssignL [(LField (LVar "es") "headerHash")] [(ECall "sha512.Sum512" [(EVar "headerBytes")])];
      SAssign ["err"] [(ECall "encoder.Encode" [(ESel (EVar "es") "encoder"); (EVar "headerBytes")])];
      SIf [] (EBin ONe "bool" (EVar "err") ENil)
      [SReturn [(EVar "err")]]
      [];
      SAssignL [(LField (LVar "es") "macKeys")] [(ECall "computeMACKeysSender" [(EVar "version"); (EVar "sender"); (EVar "ephemeralKey"); (EVar "receivers"); (ESel (EVar "es") "headerHash")])];
      SReturn [ENil]].

(* saltpack.encryptStream_Close, encrypt.go *)
Definition f_saltpack_encryptStream_Close : gfunc := mkFunc "saltpack.encryptStream_Close" ["es"] []
     [SSwitch [] (Some (ESel (EVar "es") "version"))
      [([(ECall "Version1" [])], [SIf [] (EBin OGt "bool" (ECall "Buffer.Len" [(ESel (EVar "es") "buffer")]) (EInt (0)))
      [SAssign ["err"] [(ECall "encryptStream.encryptBlock" [(EVar "es"); (EBool false)])];
      SIf [] (EBin ONe "bool" (EVar "err") ENil)
      [SReturn [(EVar "err")]]
      []]
      [];
      SIf [] (EBin OGt "bool" (ECall "Buffer.Len" [(ESel (EVar "es") "buffer")]) (EInt (0)))
      [SPanic (EStr "panic")]
      [];
      SAssign ["r'0"] [(ECall "encryptStream.encryptBlock" [(EVar "es"); (EBool true)])];
      SReturn [(EVar "r'0")]]);
       ([(ECall "Version2" [])], [SAssign ["err"] [(ECall "encryptStream.encryptBlock" [(EVar "es"); (EBool true)])];
      SIf [] (EBin ONe "bool" (EVar "err") ENil)
      [SReturn [(EVar "err")]]
      [];
      SIf [] (EBin OGt "bool" (ECall "Buffer.Len" [(ESel (EVar "es") "buffer")]) (EInt (0)))
      [SPanic (EStr "panic")]
      [];
      SReturn [ENil]])]
      (Some [SPanic (EStr "panic")])].

(* saltpack.csprngShuffle, rand.go *)
Definition f_saltpack_csprngShuffle : gfunc := mkFunc "saltpack.csprngShuffle" ["csprng"; "n"; "swap"] []
     [SIf [] (EBin OLt "bool" (EVar "n") (EInt (0)))
      [SPanic (EStr "panic")]
      [];
      SIf [] (EBin OGt "bool" (EVar "n") (EInt (2147483647)))
      [SPanic (EStr "panic")]
      [];
      SIf [SAssign ["i"] [(EBin OSub "int" (EVar "n") (EInt (1)))]] (EBool true) [SFor (EBin OGt "bool" (EVar "i") (EInt (0)))
      ([SAssign ["j"; "err"] [(ECall "csprngUint32n" [(EVar "csprng"); (EConv "uint32" (EBin OAdd "int" (EVar "i") (EInt (1))))])];
      SIf [] (EBin ONe "bool" (EVar "err") ENil)
      [SReturn [(EVar "err")]]
      [];
      SExpr (ECall "swap" [(EVar "i"); (EConv "int" (EVar "j"))])] ++ [SOpAssign "i" OSub "int" (EInt 1)])] [];
      SReturn [ENil]].

