(* GENERATED from /repo by harness/cmd/gen — do not edit. *)
From Coq Require Import List NArith ZArith.
From Coq.Strings Require Import Byte.
Import ListNotations.

(* ---- package github.com/keybase/saltpack ---- *)
Definition c_saltpack_DetachedSignatureArmorString : list byte := [x44; x45; x54; x41; x43; x48; x45; x44; x20; x53; x49; x47; x4e; x41; x54; x55; x52; x45]. (* DETACHED SIGNATURE *)
Definition c_saltpack_EncryptionArmorString : list byte := [x45; x4e; x43; x52; x59; x50; x54; x45; x44; x20; x4d; x45; x53; x53; x41; x47; x45]. (* ENCRYPTED MESSAGE *)
Definition c_saltpack_FormatName : list byte := [x73; x61; x6c; x74; x70; x61; x63; x6b]. (* saltpack *)
Definition c_saltpack_MessageTypeAttachedSignature : Z := (1)%Z.
Definition c_saltpack_MessageTypeDetachedSignature : Z := (2)%Z.
Definition c_saltpack_MessageTypeEncryption : Z := (0)%Z.
Definition c_saltpack_MessageTypeSigncryption : Z := (3)%Z.
Definition c_saltpack_MessageTypeUnknown : Z := (-1)%Z.
Definition c_saltpack_SignedArmorString : list byte := [x53; x49; x47; x4e; x45; x44; x20; x4d; x45; x53; x53; x41; x47; x45]. (* SIGNED MESSAGE *)
Definition c_saltpack_cryptoAuthBytes : Z := (32)%Z.
Definition c_saltpack_cryptoAuthKeyBytes : Z := (32)%Z.
Definition c_saltpack_encryptionBlockSize : Z := (1048576)%Z.
Definition c_saltpack_fdsBody : Z := (1)%Z.
Definition c_saltpack_fdsEndOfStream : Z := (3)%Z.
Definition c_saltpack_fdsFooter : Z := (2)%Z.
Definition c_saltpack_fdsHeader : Z := (0)%Z.
Definition c_saltpack_footerMarker : list byte := [x45; x4e; x44]. (* END *)
Definition c_saltpack_headerMarker : list byte := [x42; x45; x47; x49; x4e]. (* BEGIN *)
Definition c_saltpack_maxBrandLength : Z := (128)%Z.
Definition c_saltpack_maxFrameLength : Z := (512)%Z.
Definition c_saltpack_maxReceiverCount : Z := (4294967295)%Z.
Definition c_saltpack_minLengthToIdentifyBinarySaltpack : Z := (23)%Z.
Definition c_saltpack_nonceBytes : Z := (24)%Z.
Definition c_saltpack_signatureAttachedString : list byte := [x73; x61; x6c; x74; x70; x61; x63; x6b; x20; x61; x74; x74; x61; x63; x68; x65; x64; x20; x73; x69; x67; x6e; x61; x74; x75; x72; x65; x00]. (* saltpack attached signature? *)
Definition c_saltpack_signatureBlockSize : Z := (1048576)%Z.
Definition c_saltpack_signatureDetachedString : list byte := [x73; x61; x6c; x74; x70; x61; x63; x6b; x20; x64; x65; x74; x61; x63; x68; x65; x64; x20; x73; x69; x67; x6e; x61; x74; x75; x72; x65; x00]. (* saltpack detached signature? *)
Definition c_saltpack_signatureEncryptedString : list byte := [x73; x61; x6c; x74; x70; x61; x63; x6b; x20; x65; x6e; x63; x72; x79; x70; x74; x65; x64; x20; x73; x69; x67; x6e; x61; x74; x75; x72; x65; x00]. (* saltpack encrypted signature? *)
Definition c_saltpack_signcryptionBoxKeyIdentifierContext : list byte := [x73; x61; x6c; x74; x70; x61; x63; x6b; x20; x73; x69; x67; x6e; x63; x72; x79; x70; x74; x69; x6f; x6e; x20; x62; x6f; x78; x20; x6b; x65; x79; x20; x69; x64; x65; x6e; x74; x69; x66; x69; x65; x72]. (* saltpack signcryption box key identifier *)
Definition c_saltpack_signcryptionSymmetricKeyContext : list byte := [x73; x61; x6c; x74; x70; x61; x63; x6b; x20; x73; x69; x67; x6e; x63; x72; x79; x70; x74; x69; x6f; x6e; x20; x64; x65; x72; x69; x76; x65; x64; x20; x73; x79; x6d; x6d; x65; x74; x72; x69; x63; x20; x6b; x65; x79]. (* saltpack signcryption derived symmetric key *)
Definition s_saltpack_nonceForChunkSecretBox_0 : list byte := [x73; x61; x6c; x74; x70; x61; x63; x6b; x5f; x70; x6c; x6f; x61; x64; x73; x62]. (* saltpack_ploadsb *)
Definition s_saltpack_nonceForDerivedSharedKey_0 : list byte := [x73; x61; x6c; x74; x70; x61; x63; x6b; x5f; x64; x65; x72; x69; x76; x65; x64; x5f; x73; x62; x6f; x78; x6b; x65; x79]. (* saltpack_derived_sboxkey *)
Definition s_saltpack_nonceForPayloadKeyBox_0 : list byte := [x73; x61; x6c; x74; x70; x61; x63; x6b; x5f; x70; x61; x79; x6c; x6f; x61; x64; x5f; x6b; x65; x79; x5f; x62; x6f; x78]. (* saltpack_payload_key_box *)
Definition s_saltpack_nonceForPayloadKeyBoxV2_0 : list byte := [x73; x61; x6c; x74; x70; x61; x63; x6b; x5f; x72; x65; x63; x69; x70; x73; x62]. (* saltpack_recipsb *)
Definition s_saltpack_nonceForSenderKeySecretBox_0 : list byte := [x73; x61; x6c; x74; x70; x61; x63; x6b; x5f; x73; x65; x6e; x64; x65; x72; x5f; x6b; x65; x79; x5f; x73; x62; x6f; x78]. (* saltpack_sender_key_sbox *)
Definition ap_Armor62Params_BytesPerWord : N := (15)%N.
Definition ap_Armor62Params_WordsPerLine : N := (200)%N.
Definition ap_Armor62Params_Punctuation : N := (46)%N.
(* ap_Armor62Params_Encoding = basex.Base62StdEncoding *)
Definition ap_Armor62Params_Encoding_name : list byte := [x42; x61; x73; x65; x36; x32; x53; x74; x64; x45; x6e; x63; x6f; x64; x69; x6e; x67].
Definition i_saltpack_newArmorDecoderStream_0 : N := (8192)%N.
Definition i_saltpack_Version1_0 : N := (1)%N.
Definition i_saltpack_Version1_1 : N := (0)%N.
Definition i_saltpack_Version2_0 : N := (2)%N.
Definition i_saltpack_Version2_1 : N := (0)%N.

(* ---- package github.com/keybase/saltpack/basic ---- *)

(* ---- package github.com/keybase/saltpack/encoding/basex ---- *)
Definition c_basex_b58skipChars : list byte := [x09; x0a; x0d; x20; x21; x22; x23; x24; x25; x26; x27; x28; x29; x2a; x2b; x2c; x2d; x2e; x2f; x30; x3a; x3b; x3c; x3d; x3e; x3f; x40; x49; x4f; x6c; x5b; x5c; x5d; x5e; x5f; x60; x7b; x7c; x7d; x7e]. (* ??? ????????????-??0???????IOl????_????? *)
Definition c_basex_base58EncodeStd : list byte := [x31; x32; x33; x34; x35; x36; x37; x38; x39; x41; x42; x43; x44; x45; x46; x47; x48; x4a; x4b; x4c; x4d; x4e; x50; x51; x52; x53; x54; x55; x56; x57; x58; x59; x5a; x61; x62; x63; x64; x65; x66; x67; x68; x69; x6a; x6b; x6d; x6e; x6f; x70; x71; x72; x73; x74; x75; x76; x77; x78; x79; x7a]. (* 123456789ABCDEFGHJKLMNPQRSTUVWXYZabcdefghijkmnopqrstuvwxyz *)
Definition c_basex_base62EncodeStd : list byte := [x30; x31; x32; x33; x34; x35; x36; x37; x38; x39; x41; x42; x43; x44; x45; x46; x47; x48; x49; x4a; x4b; x4c; x4d; x4e; x4f; x50; x51; x52; x53; x54; x55; x56; x57; x58; x59; x5a; x61; x62; x63; x64; x65; x66; x67; x68; x69; x6a; x6b; x6c; x6d; x6e; x6f; x70; x71; x72; x73; x74; x75; x76; x77; x78; x79; x7a]. (* 0123456789ABCDEFGHIJKLMNOPQRSTUVWXYZabcdefghijklmnopqrstuvwxyz *)
Definition c_basex_invalidByteType : Z := (2)%Z.
Definition c_basex_normalByteType : Z := (0)%Z.
Definition c_basex_skipByteType : Z := (1)%Z.
Definition enc_Base58StdEncodingStrict_alphabet : list byte := [x31; x32; x33; x34; x35; x36; x37; x38; x39; x41; x42; x43; x44; x45; x46; x47; x48; x4a; x4b; x4c; x4d; x4e; x50; x51; x52; x53; x54; x55; x56; x57; x58; x59; x5a; x61; x62; x63; x64; x65; x66; x67; x68; x69; x6a; x6b; x6d; x6e; x6f; x70; x71; x72; x73; x74; x75; x76; x77; x78; x79; x7a].
Definition enc_Base58StdEncodingStrict_ibl : N := (19)%N.
Definition enc_Base58StdEncodingStrict_skip : list byte := []. (*  *)
Definition enc_Base58StdEncoding_alphabet : list byte := [x31; x32; x33; x34; x35; x36; x37; x38; x39; x41; x42; x43; x44; x45; x46; x47; x48; x4a; x4b; x4c; x4d; x4e; x50; x51; x52; x53; x54; x55; x56; x57; x58; x59; x5a; x61; x62; x63; x64; x65; x66; x67; x68; x69; x6a; x6b; x6d; x6e; x6f; x70; x71; x72; x73; x74; x75; x76; x77; x78; x79; x7a].
Definition enc_Base58StdEncoding_ibl : N := (19)%N.
Definition enc_Base58StdEncoding_skip : list byte := [x09; x0a; x0d; x20; x21; x22; x23; x24; x25; x26; x27; x28; x29; x2a; x2b; x2c; x2d; x2e; x2f; x30; x3a; x3b; x3c; x3d; x3e; x3f; x40; x49; x4f; x6c; x5b; x5c; x5d; x5e; x5f; x60; x7b; x7c; x7d; x7e]. (* ??? ????????????-??0???????IOl????_????? *)
Definition enc_Base62StdEncodingStrict_alphabet : list byte := [x30; x31; x32; x33; x34; x35; x36; x37; x38; x39; x41; x42; x43; x44; x45; x46; x47; x48; x49; x4a; x4b; x4c; x4d; x4e; x4f; x50; x51; x52; x53; x54; x55; x56; x57; x58; x59; x5a; x61; x62; x63; x64; x65; x66; x67; x68; x69; x6a; x6b; x6c; x6d; x6e; x6f; x70; x71; x72; x73; x74; x75; x76; x77; x78; x79; x7a].
Definition enc_Base62StdEncodingStrict_ibl : N := (32)%N.
Definition enc_Base62StdEncodingStrict_skip : list byte := []. (*  *)
Definition enc_Base62StdEncoding_alphabet : list byte := [x30; x31; x32; x33; x34; x35; x36; x37; x38; x39; x41; x42; x43; x44; x45; x46; x47; x48; x49; x4a; x4b; x4c; x4d; x4e; x4f; x50; x51; x52; x53; x54; x55; x56; x57; x58; x59; x5a; x61; x62; x63; x64; x65; x66; x67; x68; x69; x6a; x6b; x6c; x6d; x6e; x6f; x70; x71; x72; x73; x74; x75; x76; x77; x78; x79; x7a].
Definition enc_Base62StdEncoding_ibl : N := (32)%N.
Definition enc_Base62StdEncoding_skip : list byte := [x09; x0a; x0d; x20; x3e]. (* ??? ? *)
Definition i_basex_NewEncoder_0 : N := (128)%N.
Definition i_basex_newDecoder_0 : N := (0)%N.
Definition i_basex_newDecoder_1 : N := (8192)%N.
Definition i_basex_newDecoder_2 : N := (8192)%N.

