(* GENERATED from /repo by harness/cmd/gen (goast.go) — do not edit.
   The bodies of the listed functions as terms of the deep embedding of model/GoLang.v. *)
From Coq Require Import List String ZArith.
From SP Require Import GoLang.
Import ListNotations.
Local Open Scope string_scope.
Local Open Scope Z_scope.

(* saltpack.IsSaltpackBinary, classify_and_decrypt.go *)
Definition f_saltpack_IsSaltpackBinary : gfunc := mkFunc "saltpack.IsSaltpackBinary" ["stream"] [("msgType", "int"); ("version", "Version"); ("err", "error")]
     [SAssign ["b"; "err"] [(ECall "Reader.Peek" [(EVar "stream"); (EInt (23))])];
      SIf [] (EBin OEq "bool" (EVar "err") (EErrVar "bufio.ErrBufferFull"))
      [SReturn [(EInt (-1)); (ELit "Version" []); (EErrVar "ErrShortSliceOrBuffer")]]
      [];
      SIf [] (EBin ONe "bool" (EVar "err") ENil)
      [SReturn [(EInt (-1)); (ELit "Version" []); (EVar "err")]]
      [];
      SAssign ["r'0"; "r'1"; "r'2"] [(ECall "IsSaltpackBinarySlice" [(EVar "b")])];
      SReturn [(EVar "r'0"); (EVar "r'1"); (EVar "r'2")]].

(* saltpack.IsSaltpackArmored, classify_and_decrypt.go *)
Definition f_saltpack_IsSaltpackArmored : gfunc := mkFunc "saltpack.IsSaltpackArmored" ["stream"] [("brand", "string"); ("msgType", "int"); ("ver", "Version"); ("err", "error")]
     [SAssign ["buf"; "err"] [(ECall "Reader.Peek" [(EVar "stream"); (ECall "Reader.Size" [(EVar "stream")])])];
      SIf [] (EBin OOr "bool" (EBin OAnd "bool" (EBin ONe "bool" (EVar "err") ENil) (EBin ONe "bool" (EVar "err") (EErrVar "io.EOF"))) (EBin OEq "bool" (ELen (EVar "buf")) (EInt (0))))
      [SReturn [(EStr ""); (EInt (-1)); (EVar "ver"); (EVar "err")]]
      [];
      SAssign ["r'0"; "r'1"; "r'2"; "r'3"] [(ECall "IsSaltpackArmoredPrefix" [(EConv "string" (EVar "buf"))])];
      SReturn [(EVar "r'0"); (EVar "r'1"); (EVar "r'2"); (EVar "r'3")]].

(* saltpack.ClassifyStream, classify_and_decrypt.go *)
Definition f_saltpack_ClassifyStream : gfunc := mkFunc "saltpack.ClassifyStream" ["stream"] [("isArmored", "bool"); ("brand", "string"); ("messageType", "int"); ("ver", "Version"); ("err", "error")]
     [SAssign ["brand"; "messageType"; "ver"; "err"] [(ECall "IsSaltpackArmored" [(EVar "stream")])];
      SIf [] (EBin OEq "bool" (EVar "err") ENil)
      [SReturn [(EBool true); (EVar "brand"); (EVar "messageType"); (EVar "ver"); (EVar "err")]]
      [SIf [] (EBin OEq "bool" (EVar "err") (EErrVar "ErrShortSliceOrBuffer"))
      [SReturn [(EBool false); (EStr ""); (EInt (-1)); (ELit "Version" []); (EErrVar "ErrShortSliceOrBuffer")]]
      []];
      SAssign ["messageType"; "ver"; "err"] [(ECall "IsSaltpackBinary" [(EVar "stream")])];
      SIf [] (EBin OEq "bool" (EVar "err") ENil)
      [SReturn [(EBool false); (EStr ""); (EVar "messageType"); (EVar "ver"); (EVar "err")]]
      [];
      SReturn [(EBool false); (EStr ""); (EInt (-1)); (ELit "Version" []); (EVar "err")]].

(* saltpack.ClassifyEncryptedStreamAndMakeDecoder, classify_and_decrypt.go *)
Definition f_saltpack_ClassifyEncryptedStreamAndMakeDecoder : gfunc := mkFunc "saltpack.ClassifyEncryptedStreamAndMakeDecoder" ["source"; "decryptionKeyring"; "keyResolver"] [("plainsource", "Reader"); ("msgType", "int"); ("mki", "MessageKeyInfo"); ("senderPublic", "SigningPublicKey"); ("isArmored", "bool"); ("brand", "string"); ("ver", "Version"); ("err", "error")]
     [SAssign ["stream"] [(ECall "bufio.NewReader" [(EVar "source")])];
      SAssign ["isArmored"; "_"; "msgType"; "ver"; "err"] [(ECall "ClassifyStream" [(EVar "stream")])];
      SIf [] (EBin OEq "bool" (EVar "err") (EErrVar "ErrShortSliceOrBuffer"))
      [SReturn [ENil; (EInt (-1)); ENil; ENil; (EBool false); (EStr ""); (ELit "Version" []); (EErrVar "ErrShortSliceOrBuffer")]]
      [];
      SIf [] (EBin ONe "bool" (EVar "err") ENil)
      [SReturn [ENil; (EInt (-1)); ENil; ENil; (EBool false); (EStr ""); (ELit "Version" []); (EErrVar "ErrNotASaltpackMessage")]]
      [];
      SSwitch [] (Some (EVar "msgType"))
      [([(EInt (0))], [SIf [] (EVar "isArmored")
      [SAssign ["mki"; "plainsource"; "brand"; "err"] [(ECall "NewDearmor62DecryptStream" [(EStr "func:CheckKnownMajorVersion"); (EVar "stream"); (EVar "decryptionKeyring")])]]
      [SAssign ["mki"; "plainsource"; "err"] [(ECall "NewDecryptStream" [(EStr "func:CheckKnownMajorVersion"); (EVar "stream"); (EVar "decryptionKeyring")])]];
      SReturn [(EVar "plainsource"); (EVar "msgType"); (EVar "mki"); ENil; (EVar "isArmored"); (EVar "brand"); (EVar "ver"); (EVar "err")]]);
       ([(EInt (3))], [SIf [] (EVar "isArmored")
      [SAssign ["senderPublic"; "plainsource"; "brand"; "err"] [(ECall "NewDearmor62SigncryptOpenStream" [(EVar "stream"); (EVar "decryptionKeyring"); (EVar "keyResolver")])]]
      [SAssign ["senderPublic"; "plainsource"; "err"] [(ECall "NewSigncryptOpenStream" [(EVar "stream"); (EVar "decryptionKeyring"); (EVar "keyResolver")])]];
      SReturn [(EVar "plainsource"); (EVar "msgType"); ENil; (EVar "senderPublic"); (EVar "isArmored"); (EVar "brand"); (EVar "ver"); (EVar "err")]])]
      (Some [SReturn [ENil; (EInt (-1)); ENil; ENil; (EBool false); (EStr ""); (ELit "Version" []); (ELit "ErrWrongMessageType" [("Wanted", (EInt (0))); ("Received", (EVar "msgType"))])]])].

(* saltpack.newEncryptStream, encrypt.go *)
Definition f_saltpack_newEncryptStream : gfunc := mkFunc "saltpack.newEncryptStream" ["version"; "ciphertext"; "sender"; "receivers"; "ephemeralKeyCreator"; "rng"] []
     [SAssign ["es"] [(ELit "encryptStream" [("version", (EVar "version")); ("output", (EVar "ciphertext")); ("encoder", (ECall "newEncoder" [(EVar "ciphertext")])); ("payloadKey", (ECall "make" [(EInt (32))])); ("headerHash", (ECall "make" [(EInt (64))])); ("macKeys", ENil); ("numBlocks", (EInt (0))); ("err", ENil)])];
      SAssign ["err"] [(ECall "encryptStream.init" [(EVar "es"); (EVar "version"); (EVar "sender"); (EVar "receivers"); (EVar "ephemeralKeyCreator"); (EVar "rng")])];
      SIf [] (EBin ONe "bool" (EVar "err") ENil)
      [SReturn [ENil; (EVar "err")]]
      [];
      SReturn [(EVar "es"); ENil]].

(* saltpack.receiversToEphemeralKeyCreator, encrypt.go *)
Definition f_saltpack_receiversToEphemeralKeyCreator : gfunc := mkFunc "saltpack.receiversToEphemeralKeyCreator" ["receivers"] []
     [SIf [] (EBin OEq "bool" (ELen (EVar "receivers")) (EInt (0)))
      [SReturn [ENil; (EErrVar "ErrBadReceivers")]]
      [];
      SReturn [(EIdx (EVar "receivers") (EInt (0))); ENil]].

(* saltpack.NewEncryptStream, encrypt.go *)
Definition f_saltpack_NewEncryptStream : gfunc := mkFunc "saltpack.NewEncryptStream" ["version"; "ciphertext"; "sender"; "receivers"] []
     [SAssign ["ephemeralKeyCreator"; "err"] [(ECall "receiversToEphemeralKeyCreator" [(EVar "receivers")])];
      SIf [] (EBin ONe "bool" (EVar "err") ENil)
      [SReturn [ENil; (EVar "err")]]
      [];
      SAssign ["r'0"; "r'1"] [(ECall "newEncryptStream" [(EVar "version"); (EVar "ciphertext"); (EVar "sender"); (EVar "receivers"); (EVar "ephemeralKeyCreator"); (ELit "defaultEncryptRNG" [])])];
      SReturn [(EVar "r'0"); (EVar "r'1")]].

(* saltpack.seal, encrypt.go *)
Definition f_saltpack_seal : gfunc := mkFunc "saltpack.seal" ["version"; "plaintext"; "sender"; "receivers"; "ephemeralKeyCreator"; "rng"] [("out", "[]byte"); ("err", "error")]
     [SVar "buf" "Buffer";
      SAssign ["es"; "err"] [(ECall "newEncryptStream" [(EVar "version"); (EAddr "buf"); (EVar "sender"); (EVar "receivers"); (EVar "ephemeralKeyCreator"); (EVar "rng")])];
      SIf [] (EBin ONe "bool" (EVar "err") ENil)
      [SReturn [ENil; (EVar "err")]]
      [];
      SIf [SAssign ["_"; "err"] [(ECall "WriteCloser.Write" [(EVar "es"); (EVar "plaintext")])]] (EBin ONe "bool" (EVar "err") ENil)
      [SReturn [ENil; (EVar "err")]]
      [];
      SIf [SAssign ["err"] [(ECall "WriteCloser.Close" [(EVar "es")])]] (EBin ONe "bool" (EVar "err") ENil)
      [SReturn [ENil; (EVar "err")]]
      [];
      SReturn [(ECall "Buffer.Bytes" [(EVar "buf")]); ENil]].

(* saltpack.Seal, encrypt.go *)
Definition f_saltpack_Seal : gfunc := mkFunc "saltpack.Seal" ["version"; "plaintext"; "sender"; "receivers"] [("out", "[]byte"); ("err", "error")]
     [SAssign ["ephemeralKeyCreator"; "err"] [(ECall "receiversToEphemeralKeyCreator" [(EVar "receivers")])];
      SIf [] (EBin ONe "bool" (EVar "err") ENil)
      [SReturn [ENil; (EVar "err")]]
      [];
      SAssign ["r'0"; "r'1"] [(ECall "seal" [(EVar "version"); (EVar "plaintext"); (EVar "sender"); (EVar "receivers"); (EVar "ephemeralKeyCreator"); (ELit "defaultEncryptRNG" [])])];
      SReturn [(EVar "r'0"); (EVar "r'1")]].

(* saltpack.NewSignStream, sign.go *)
Definition f_saltpack_NewSignStream : gfunc := mkFunc "saltpack.NewSignStream" ["version"; "signedtext"; "signer"] [("stream", "WriteCloser"); ("err", "error")]
     [SAssign ["r'0"; "r'1"] [(ECall "newSignAttachedStream" [(EVar "version"); (EVar "signedtext"); (EVar "signer")])];
      SReturn [(EVar "r'0"); (EVar "r'1")]].

(* saltpack.Sign, sign.go *)
Definition f_saltpack_Sign : gfunc := mkFunc "saltpack.Sign" ["version"; "plaintext"; "signer"] []
     [SAssign ["buf"; "err"] [(ECall "signToStream" [(EVar "version"); (EVar "plaintext"); (EVar "signer"); (EStr "func:NewSignStream")])];
      SIf [] (EBin ONe "bool" (EVar "err") ENil)
      [SReturn [ENil; (EVar "err")]]
      [];
      SReturn [(ECall "Buffer.Bytes" [(EVar "buf")]); ENil]].

(* saltpack.NewSignDetachedStream, sign.go *)
Definition f_saltpack_NewSignDetachedStream : gfunc := mkFunc "saltpack.NewSignDetachedStream" ["version"; "detachedsig"; "signer"] [("stream", "WriteCloser"); ("err", "error")]
     [SAssign ["r'0"; "r'1"] [(ECall "newSignDetachedStream" [(EVar "version"); (EVar "detachedsig"); (EVar "signer")])];
      SReturn [(EVar "r'0"); (EVar "r'1")]].

(* saltpack.SignDetached, sign.go *)
Definition f_saltpack_SignDetached : gfunc := mkFunc "saltpack.SignDetached" ["version"; "plaintext"; "signer"] []
     [SAssign ["buf"; "err"] [(ECall "signToStream" [(EVar "version"); (EVar "plaintext"); (EVar "signer"); (EStr "func:NewSignDetachedStream")])];
      SIf [] (EBin ONe "bool" (EVar "err") ENil)
      [SReturn [ENil; (EVar "err")]]
      [];
      SReturn [(ECall "Buffer.Bytes" [(EVar "buf")]); ENil]].

(* saltpack.signToStream, sign.go *)
Definition f_saltpack_signToStream : gfunc := mkFunc "saltpack.signToStream" ["version"; "plaintext"; "signer"; "streamer"] []
     [SVar "buf" "Buffer";
      SAssign ["s"; "err"] [(ECall "streamer" [(EVar "version"); (EAddr "buf"); (EVar "signer")])];
      SIf [] (EBin ONe "bool" (EVar "err") ENil)
      [SReturn [ENil; (EVar "err")]]
      [];
      SIf [SAssign ["_"; "err"] [(ECall "WriteCloser.Write" [(EVar "s"); (EVar "plaintext")])]] (EBin ONe "bool" (EVar "err") ENil)
      [SReturn [ENil; (EVar "err")]]
      [];
      SIf [SAssign ["err"] [(ECall "WriteCloser.Close" [(EVar "s")])]] (EBin ONe "bool" (EVar "err") ENil)
      [SReturn [ENil; (EVar "err")]]
      [];
      SReturn [(EAddr "buf"); ENil]].

(* saltpack.newSigncryptSealStream, signcrypt_seal.go *)
Definition f_saltpack_newSigncryptSealStream : gfunc := mkFunc "saltpack.newSigncryptSealStream" ["ciphertext"; "sender"; "receiverBoxKeys"; "receiverSymmetricKeys"; "ephemeralKeyCreator"; "rng"] []
     [SAssign ["sss"] [(ELit "signcryptSealStream" [("version", (ECall "Version2" [])); ("output", (EVar "ciphertext")); ("encoder", (ECall "newEncoder" [(EVar "ciphertext")])); ("signingKey", (EVar "sender")); ("encryptionKey", (ECall "make" [(EInt (32))])); ("headerHash", (ECall "make" [(EInt (64))])); ("numBlocks", (EInt (0))); ("err", ENil)])];
      SAssign ["err"] [(ECall "signcryptSealStream.init" [(EVar "sss"); (EVar "receiverBoxKeys"); (EVar "receiverSymmetricKeys"); (EVar "ephemeralKeyCreator"); (EVar "rng")])];
      SIf [] (EBin ONe "bool" (EVar "err") ENil)
      [SReturn [ENil; (EVar "err")]]
      [];
      SReturn [(EVar "sss"); ENil]].

(* saltpack.NewSigncryptSealStream, signcrypt_seal.go *)
Definition f_saltpack_NewSigncryptSealStream : gfunc := mkFunc "saltpack.NewSigncryptSealStream" ["ciphertext"; "ephemeralKeyCreator"; "sender"; "receiverBoxKeys"; "receiverSymmetricKeys"] []
     [SAssign ["r'0"; "r'1"] [(ECall "newSigncryptSealStream" [(EVar "ciphertext"); (EVar "sender"); (EVar "receiverBoxKeys"); (EVar "receiverSymmetricKeys"); (EVar "ephemeralKeyCreator"); (ELit "defaultSigncryptRNG" [])])];
      SReturn [(EVar "r'0"); (EVar "r'1")]].

(* saltpack.signcryptSeal, signcrypt_seal.go *)
Definition f_saltpack_signcryptSeal : gfunc := mkFunc "saltpack.signcryptSeal" ["plaintext"; "sender"; "receiverBoxKeys"; "receiverSymmetricKeys"; "ephemeralKeyCreator"; "rng"] [("out", "[]byte"); ("err", "error")]
     [SVar "buf" "Buffer";
      SAssign ["sss"; "err"] [(ECall "newSigncryptSealStream" [(EAddr "buf"); (EVar "sender"); (EVar "receiverBoxKeys"); (EVar "receiverSymmetricKeys"); (EVar "ephemeralKeyCreator"); (EVar "rng")])];
      SIf [] (EBin ONe "bool" (EVar "err") ENil)
      [SReturn [ENil; (EVar "err")]]
      [];
      SIf [SAssign ["_"; "err"] [(ECall "WriteCloser.Write" [(EVar "sss"); (EVar "plaintext")])]] (EBin ONe "bool" (EVar "err") ENil)
      [SReturn [ENil; (EVar "err")]]
      [];
      SIf [SAssign ["err"] [(ECall "WriteCloser.Close" [(EVar "sss")])]] (EBin ONe "bool" (EVar "err") ENil)
      [SReturn [ENil; (EVar "err")]]
      [];
      SReturn [(ECall "Buffer.Bytes" [(EVar "buf")]); ENil]].

(* saltpack.SigncryptSeal, signcrypt_seal.go *)
Definition f_saltpack_SigncryptSeal : gfunc := mkFunc "saltpack.SigncryptSeal" ["plaintext"; "ephemeralKeyCreator"; "sender"; "receiverBoxKeys"; "receiverSymmetricKeys"] [("out", "[]byte"); ("err", "error")]
     [SAssign ["r'0"; "r'1"] [(ECall "signcryptSeal" [(EVar "plaintext"); (EVar "sender"); (EVar "receiverBoxKeys"); (EVar "receiverSymmetricKeys"); (EVar "ephemeralKeyCreator"); (ELit "defaultSigncryptRNG" [])])];
      SReturn [(EVar "r'0"); (EVar "r'1")]].

