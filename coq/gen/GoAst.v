(* GENERATED from /repo by harness/cmd/gen (goast.go) — do not edit.
   The bodies of the listed functions as terms of the deep embedding of model/GoLang.v. *)
From Coq Require Import List String ZArith.
From SP Require Import GoLang.
Import ListNotations.
Local Open Scope string_scope.
Local Open Scope Z_scope.

(* saltpack.armorEncoderStream_Write, armor.go *)
Definition f_saltpack_armorEncoderStream_Write : gfunc := mkFunc "saltpack.armorEncoderStream_Write" ["s"; "b"] [("n", "int"); ("err", "error")]
     [SAssign ["n"; "err"] [(ECall "WriteCloser.Write" [(ESel (EVar "s") "encoder"); (EVar "b")])];
      SIf [] (EBin ONe "bool" (EVar "err") ENil)
      [SReturn [(EVar "n"); (EVar "err")]]
      [];
      SIf [SAssign ["err"] [(ECall "armorEncoderStream.spaceAndOutputBuffer" [(EVar "s")])]] (EBin ONe "bool" (EVar "err") ENil)
      [SReturn [(EVar "n"); (EVar "err")]]
      [];
      SReturn [(EVar "n"); ENil]].

(* saltpack.armorEncoderStream_spaceAndOutputBuffer, armor.go *)
Definition f_saltpack_armorEncoderStream_spaceAndOutputBuffer : gfunc := mkFunc "saltpack.armorEncoderStream_spaceAndOutputBuffer" ["s"] []
     [SFor (EBin OGt "bool" (ECall "Buffer.Len" [(ESel (EVar "s") "buf")]) (ESel (ESel (EVar "s") "params") "BytesPerWord"))
      [SAssign ["buf"] [(ECall "Buffer.Next" [(ESel (EVar "s") "buf"); (ESel (ESel (EVar "s") "params") "BytesPerWord")])];
      SOpAssignL (LField (LVar "s") "nWords") OAdd "int" (EInt 1);
      SAssign ["sep"] [(EInt (32))];
      SIf [] (EBin OEq "bool" (EBin OMod "int" (ESel (EVar "s") "nWords") (ESel (ESel (EVar "s") "params") "WordsPerLine")) (EInt (0)))
      [SAssign ["sep"] [(EInt (10))]]
      [];
      SIf [SAssign ["_"; "err"] [(ECall "Writer.Write" [(ESel (EVar "s") "encoded"); (EVar "buf")])]] (EBin ONe "bool" (EVar "err") ENil)
      [SReturn [(EVar "err")]]
      [];
      SIf [SAssign ["_"; "err"] [(ECall "Writer.Write" [(ESel (EVar "s") "encoded"); (ELit "[]byte" [("0", (EVar "sep"))])])]] (EBin ONe "bool" (EVar "err") ENil)
      [SReturn [(EVar "err")]]
      []];
      SReturn [ENil]].

(* saltpack.armorEncoderStream_Close, armor.go *)
Definition f_saltpack_armorEncoderStream_Close : gfunc := mkFunc "saltpack.armorEncoderStream_Close" ["s"] [("err", "error")]
     [SIf [SAssign ["err"] [(ECall "WriteCloser.Close" [(ESel (EVar "s") "encoder")])]] (EBin ONe "bool" (EVar "err") ENil)
      [SReturn [(EVar "err")]]
      [];
      SIf [SAssign ["err"] [(ECall "armorEncoderStream.spaceAndOutputBuffer" [(EVar "s")])]] (EBin ONe "bool" (EVar "err") ENil)
      [SReturn [(EVar "err")]]
      [];
      SAssign ["lst"] [(ECall "Buffer.Bytes" [(ESel (EVar "s") "buf")])];
      SIf [SAssign ["_"; "err"] [(ECall "Writer.Write" [(ESel (EVar "s") "encoded"); (EVar "lst")])]] (EBin ONe "bool" (EVar "err") ENil)
      [SReturn [(EVar "err")]]
      [];
      SOpAssignL (LField (LVar "s") "nWords") OAdd "int" (EInt 1);
      SAssign ["pad"] [(EStr "")];
      SIf [] (EBin OEq "bool" (ELen (EVar "lst")) (ESel (ESel (EVar "s") "params") "BytesPerWord"))
      [SIf [] (EBin OEq "bool" (EBin OMod "int" (ESel (EVar "s") "nWords") (ESel (ESel (EVar "s") "params") "WordsPerLine")) (EInt (0)))
      [SAssign ["pad"] [(EBytesLit [10])]]
      [SAssign ["pad"] [(EStr " ")]]]
      [];
      SIf [SAssign ["_"; "err"] [(ECall "fmt.Fprintf" [(ESel (EVar "s") "encoded"); (EBytesLit [37; 115; 37; 99; 32; 37; 115; 37; 99; 10]); (EVar "pad"); (ESel (ESel (EVar "s") "params") "Punctuation"); (ESel (EVar "s") "footer"); (ESel (ESel (EVar "s") "params") "Punctuation")])]] (EBin ONe "bool" (EVar "err") ENil)
      [SReturn [(EVar "err")]]
      [];
      SReturn [ENil]].

(* saltpack.chunkReader_Read, chunk_reader.go *)
Definition f_saltpack_chunkReader_Read : gfunc := mkFunc "saltpack.chunkReader_Read" ["r"; "p"] [("n", "int"); ("err", "error")]
     [SFor (EBool true)
      [SIf [] (EBin OGt "bool" (ELen (ESel (EVar "r") "prevChunk")) (EInt (0)))
      [SAssign ["copied"] [(ECall "copy" [(ESlice (EVar "p") (Some (EVar "n")) None); (ESel (EVar "r") "prevChunk")])];
      SOpAssign "n" OAdd "int" (EVar "copied");
      SAssignL [(LField (LVar "r") "prevChunk")] [(ESlice (ESel (EVar "r") "prevChunk") (Some (EVar "copied")) None)];
      SIf [] (EBin OGt "bool" (ELen (ESel (EVar "r") "prevChunk")) (EInt (0)))
      [SReturn [(EVar "n"); ENil]]
      []]
      [];
      SIf [] (EBin ONe "bool" (ESel (EVar "r") "prevErr") ENil)
      [SReturn [(EVar "n"); (ESel (EVar "r") "prevErr")]]
      [];
      SAssignL [(LField (LVar "r") "prevChunk"); (LField (LVar "r") "prevErr")] [(ECall "chunker.getNextChunk" [(ESel (EVar "r") "chunker")])];
      SIf [] (EBin OAnd "bool" (EBin OEq "bool" (ELen (ESel (EVar "r") "prevChunk")) (EInt (0))) (EBin OEq "bool" (ESel (EVar "r") "prevErr") ENil))
      [SPanic (EStr "panic")]
      []]].

(* saltpack.IsSaltpackBinarySlice, classify_and_decrypt.go *)
Definition f_saltpack_IsSaltpackBinarySlice : gfunc := mkFunc "saltpack.IsSaltpackBinarySlice" ["b"] [("msgType", "int"); ("version", "Version"); ("err", "error")]
     [SIf [] (EBin OLt "bool" (ELen (EVar "b")) (EInt (23)))
      [SReturn [(EInt (-1)); (ELit "Version" []); (EErrVar "ErrShortSliceOrBuffer")]]
      [];
      SVar "binTagBytesToSkip" "int";
      SIf [] (EBin OEq "bool" (EIdx (EVar "b") (EInt (0))) (EInt (196)))
      [SAssign ["binTagBytesToSkip"] [(EInt (2))]]
      [SIf [] (EBin OEq "bool" (EIdx (EVar "b") (EInt (0))) (EInt (197)))
      [SAssign ["binTagBytesToSkip"] [(EInt (3))]]
      [SIf [] (EBin OEq "bool" (EIdx (EVar "b") (EInt (0))) (EInt (198)))
      [SAssign ["binTagBytesToSkip"] [(EInt (5))]]
      [SReturn [(EInt (-1)); (ELit "Version" []); (EErrVar "ErrNotASaltpackMessage")]]]];
      SAssign ["arrayTagByte"] [(EIdx (EVar "b") (EVar "binTagBytesToSkip"))];
      SVar "arrayTagBytesToSkip" "int";
      SIf [] (EBin OAnd "bool" (EBin OLe "bool" (EInt (147)) (EVar "arrayTagByte")) (EBin OLe "bool" (EVar "arrayTagByte") (EInt (159))))
      [SAssign ["arrayTagBytesToSkip"] [(EInt (1))]]
      [SIf [] (EBin OEq "bool" (EVar "arrayTagByte") (EInt (220)))
      [SAssign ["arrayTagBytesToSkip"] [(EInt (3))]]
      [SIf [] (EBin OEq "bool" (EVar "arrayTagByte") (EInt (221)))
      [SAssign ["arrayTagBytesToSkip"] [(EInt (5))]]
      [SReturn [(EInt (-1)); (ELit "Version" []); (EErrVar "ErrNotASaltpackMessage")]]]];
      SVar "mh" "MsgpackHandle";
      SAssign ["decoder"] [(ECall "codec.NewDecoderBytes" [(ESlice (EVar "b") (Some (EBin OAdd "int" (EVar "binTagBytesToSkip") (EVar "arrayTagBytesToSkip"))) None); (EAddr "mh")])];
      SVar "formatName" "string";
      SIf [SAssign ["err"] [(ECall "Decoder.Decode" [(EVar "decoder"); (EAddr "formatName")])]] (EBin ONe "bool" (EVar "err") ENil)
      [SReturn [(EInt (-1)); (ELit "Version" []); (EErrVar "ErrNotASaltpackMessage")]]
      [];
      SIf [] (EBin ONe "bool" (EVar "formatName") (EStr "saltpack"))
      [SReturn [(EInt (-1)); (ELit "Version" []); (EErrVar "ErrNotASaltpackMessage")]]
      [];
      SIf [SAssign ["err"] [(ECall "Decoder.Decode" [(EVar "decoder"); (EAddr "version")])]] (EBin ONe "bool" (EVar "err") ENil)
      [SReturn [(EInt (-1)); (ELit "Version" []); (EErrVar "ErrNotASaltpackMessage")]]
      [];
      SIf [SAssign ["err"] [(ECall "Decoder.Decode" [(EVar "decoder"); (EAddr "msgType")])]] (EBin ONe "bool" (EVar "err") ENil)
      [SReturn [(EInt (-1)); (ELit "Version" []); (EErrVar "ErrNotASaltpackMessage")]]
      [];
      SSwitch [] (Some (EVar "msgType"))
      [([(EInt (0)); (EInt (3)); (EInt (1)); (EInt (2))], [SReturn [(EVar "msgType"); (EVar "version"); ENil]])]
      (Some [SReturn [(EInt (-1)); (ELit "Version" []); (EErrVar "ErrNotASaltpackMessage")]])].

(* saltpack.encryptionBlockNumber_check, common.go *)
Definition f_saltpack_encryptionBlockNumber_check : gfunc := mkFunc "saltpack.encryptionBlockNumber_check" ["e"] []
     [SIf [] (EBin OGe "bool" (EVar "e") (EInt (18446744073709551615)))
      [SReturn [(EErrVar "ErrPacketOverflow")]]
      [];
      SReturn [ENil]].

(* saltpack.attachedSignatureInput, common.go *)
Definition f_saltpack_attachedSignatureInput : gfunc := mkFunc "saltpack.attachedSignatureInput" ["version"; "headerHash"; "payloadChunk"; "seqno"; "isFinal"] []
     [SAssign ["hasher"] [(ECall "sha512.New" [])];
      SAssign ["_"; "_"] [(ECall "Hash.Write" [(EVar "hasher"); (ESlice (EVar "headerHash") None None)])];
      SAssign ["_"] [(ECall "binary.Write" [(EVar "hasher"); (EPkg "binary.BigEndian"); (EVar "seqno")])];
      SSwitch [] (Some (ESel (EVar "version") "Major"))
      [([(EInt (1))], []);
       ([(EInt (2))], [SVar "isFinalByte" "byte";
      SIf [] (EVar "isFinal")
      [SAssign ["isFinalByte"] [(EInt (1))]]
      [];
      SAssign ["_"; "_"] [(ECall "Hash.Write" [(EVar "hasher"); (ELit "[]byte" [("0", (EVar "isFinalByte"))])])]])]
      (Some [SPanic (EStr "panic")]);
      SAssign ["_"; "_"] [(ECall "Hash.Write" [(EVar "hasher"); (EVar "payloadChunk")])];
      SVar "buf" "Buffer";
      SAssign ["_"; "_"] [(ECall "Buffer.Write" [(EVar "buf"); (EConv "[]byte" (EBytesLit [115; 97; 108; 116; 112; 97; 99; 107; 32; 97; 116; 116; 97; 99; 104; 101; 100; 32; 115; 105; 103; 110; 97; 116; 117; 114; 101; 0]))])];
      SAssign ["_"; "_"] [(ECall "Buffer.Write" [(EVar "buf"); (ECall "Hash.Sum" [(EVar "hasher"); ENil])])];
      SReturn [(ECall "Buffer.Bytes" [(EVar "buf")])]].

(* saltpack.detachedSignatureInput, common.go *)
Definition f_saltpack_detachedSignatureInput : gfunc := mkFunc "saltpack.detachedSignatureInput" ["headerHash"; "plaintext"] []
     [SAssign ["hasher"] [(ECall "sha512.New" [])];
      SAssign ["_"; "_"] [(ECall "Hash.Write" [(EVar "hasher"); (ESlice (EVar "headerHash") None None)])];
      SAssign ["_"; "_"] [(ECall "Hash.Write" [(EVar "hasher"); (EVar "plaintext")])];
      SReturn [(ECall "detachedSignatureInputFromHash" [(ECall "Hash.Sum" [(EVar "hasher"); ENil])])]].

(* saltpack.detachedSignatureInputFromHash, common.go *)
Definition f_saltpack_detachedSignatureInputFromHash : gfunc := mkFunc "saltpack.detachedSignatureInputFromHash" ["plaintextAndHeaderHash"] []
     [SVar "buf" "Buffer";
      SAssign ["_"; "_"] [(ECall "Buffer.Write" [(EVar "buf"); (EConv "[]byte" (EBytesLit [115; 97; 108; 116; 112; 97; 99; 107; 32; 100; 101; 116; 97; 99; 104; 101; 100; 32; 115; 105; 103; 110; 97; 116; 117; 114; 101; 0]))])];
      SAssign ["_"; "_"] [(ECall "Buffer.Write" [(EVar "buf"); (EVar "plaintextAndHeaderHash")])];
      SReturn [(ECall "Buffer.Bytes" [(EVar "buf")])]].

(* saltpack.computePayloadAuthenticator, common.go *)
Definition f_saltpack_computePayloadAuthenticator : gfunc := mkFunc "saltpack.computePayloadAuthenticator" ["macKey"; "payloadHash"] []
     [SAssign ["authenticatorDigest"] [(ECall "hmac.New" [(EPkg "sha512.New"); (ESlice (EVar "macKey") None None)])];
      SAssign ["_"; "_"] [(ECall "Hash.Write" [(EVar "authenticatorDigest"); (ESlice (EVar "payloadHash") None None)])];
      SAssign ["fullMAC"] [(ECall "Hash.Sum" [(EVar "authenticatorDigest"); ENil])];
      SReturn [(ECall "sliceToByte32" [(ESlice (EVar "fullMAC") None (Some (EInt (32))))])]].

(* saltpack.computeMACKeySingle, common.go *)
Definition f_saltpack_computeMACKeySingle : gfunc := mkFunc "saltpack.computeMACKeySingle" ["secret"; "public"; "nonce"] []
     [SAssign ["macKeyBox"] [(ECall "BoxSecretKey.Box" [(EVar "secret"); (EVar "public"); (EVar "nonce"); (ECall "make" [(EInt (32))])])];
      SReturn [(ECall "sliceToByte32" [(ESlice (EVar "macKeyBox") (Some (EInt (16))) (Some (EInt (48))))])]].

(* saltpack.computePayloadHash, common.go *)
Definition f_saltpack_computePayloadHash : gfunc := mkFunc "saltpack.computePayloadHash" ["version"; "headerHash"; "nonce"; "ciphertext"; "isFinal"] []
     [SAssign ["payloadDigest"] [(ECall "sha512.New" [])];
      SAssign ["_"; "_"] [(ECall "Hash.Write" [(EVar "payloadDigest"); (ESlice (EVar "headerHash") None None)])];
      SAssign ["_"; "_"] [(ECall "Hash.Write" [(EVar "payloadDigest"); (ESlice (EVar "nonce") None None)])];
      SSwitch [] (Some (ESel (EVar "version") "Major"))
      [([(EInt (1))], []);
       ([(EInt (2))], [SVar "isFinalByte" "byte";
      SIf [] (EVar "isFinal")
      [SAssign ["isFinalByte"] [(EInt (1))]]
      [];
      SAssign ["_"; "_"] [(ECall "Hash.Write" [(EVar "payloadDigest"); (ELit "[]byte" [("0", (EVar "isFinalByte"))])])]])]
      (Some [SPanic (EStr "panic")]);
      SAssign ["_"; "_"] [(ECall "Hash.Write" [(EVar "payloadDigest"); (EVar "ciphertext")])];
      SAssign ["h"] [(ECall "Hash.Sum" [(EVar "payloadDigest"); ENil])];
      SReturn [(ECall "sliceToByte64" [(EVar "h")])]].

(* saltpack.computeSigncryptionSignatureInput, common.go *)
Definition f_saltpack_computeSigncryptionSignatureInput : gfunc := mkFunc "saltpack.computeSigncryptionSignatureInput" ["headerHash"; "nonce"; "isFinal"; "chunkPlaintext"] []
     [SAssign ["signatureInput"] [(EConv "[]byte" (EBytesLit [115; 97; 108; 116; 112; 97; 99; 107; 32; 101; 110; 99; 114; 121; 112; 116; 101; 100; 32; 115; 105; 103; 110; 97; 116; 117; 114; 101; 0]))];
      SAssign ["signatureInput"] [(ECall "append..." [(EVar "signatureInput"); (ESlice (EVar "headerHash") None None)])];
      SAssign ["signatureInput"] [(ECall "append..." [(EVar "signatureInput"); (ESlice (EVar "nonce") None None)])];
      SVar "isFinalByte" "byte";
      SIf [] (EVar "isFinal")
      [SAssign ["isFinalByte"] [(EInt (1))]]
      [];
      SAssign ["signatureInput"] [(ECall "append" [(EVar "signatureInput"); (EVar "isFinalByte")])];
      SAssign ["plaintextHash"] [(ECall "sha512.Sum512" [(EVar "chunkPlaintext")])];
      SAssign ["signatureInput"] [(ECall "append..." [(EVar "signatureInput"); (ESlice (EVar "plaintextHash") None None)])];
      SReturn [(EVar "signatureInput")]].

(* saltpack.CheckKnownMajorVersion, common.go *)
Definition f_saltpack_CheckKnownMajorVersion : gfunc := mkFunc "saltpack.CheckKnownMajorVersion" ["version"] []
     [SRange "_" "knownVersion" (ECall "KnownVersions" [])
      [SIf [] (EBin OEq "bool" (ESel (EVar "version") "Major") (ESel (EVar "knownVersion") "Major"))
      [SReturn [ENil]]
      []];
      SReturn [(ELit "ErrBadVersion" [("received", (EVar "version"))])]].

(* saltpack.checkChunkState, common.go *)
Definition f_saltpack_checkChunkState : gfunc := mkFunc "saltpack.checkChunkState" ["version"; "chunkLen"; "blockIndex"; "isFinal"] []
     [SSwitch [] (Some (ESel (EVar "version") "Major"))
      [([(EInt (1))], [SIf [] (EBin ONe "bool" (EBin OEq "bool" (EVar "chunkLen") (EInt (0))) (EVar "isFinal"))
      [SPanic (EStr "panic")]
      []]);
       ([(EInt (2))], [SIf [] (EBin OAnd "bool" (EBin OEq "bool" (EVar "chunkLen") (EInt (0))) (EBin OOr "bool" (EBin ONe "bool" (EVar "blockIndex") (EInt (0))) (ENot (EVar "isFinal"))))
      [SReturn [(EErrVar "ErrUnexpectedEmptyBlock")]]
      []])]
      (Some [SPanic (EStr "panic")]);
      SReturn [ENil]].

(* saltpack.checkDecodedChunkState, common.go *)
Definition f_saltpack_checkDecodedChunkState : gfunc := mkFunc "saltpack.checkDecodedChunkState" ["version"; "chunk"; "seqno"; "isFinal"] []
     [SReturn [(ECall "checkChunkState" [(EVar "version"); (ELen (EVar "chunk")); (EConv "uint64" (EBin OSub "uint64" (EVar "seqno") (EInt (1)))); (EVar "isFinal")])]].

(* saltpack.decryptStream_getNextChunk, decrypt.go *)
Definition f_saltpack_decryptStream_getNextChunk : gfunc := mkFunc "saltpack.decryptStream_getNextChunk" ["ds"] []
     [SAssign ["ciphertext"; "authenticators"; "isFinal"; "seqno"; "err"] [(ECall "readEncryptionBlock" [(ESel (EVar "ds") "version"); (ESel (EVar "ds") "mps")])];
      SIf [] (EBin ONe "bool" (EVar "err") ENil)
      [SIf [] (EBin OEq "bool" (EVar "err") (EErrVar "io.EOF"))
      [SAssign ["err"] [(EErrVar "io.ErrUnexpectedEOF")]]
      [];
      SReturn [ENil; (EVar "err")]]
      [];
      SAssign ["chunk"; "err"] [(ECall "decryptStream.processBlock" [(EVar "ds"); (EVar "ciphertext"); (EVar "authenticators"); (EVar "isFinal"); (EVar "seqno")])];
      SIf [] (EBin ONe "bool" (EVar "err") ENil)
      [SReturn [ENil; (EVar "err")]]
      [];
      SAssign ["err"] [(ECall "checkDecodedChunkState" [(ESel (EVar "ds") "version"); (EVar "chunk"); (EVar "seqno"); (EVar "isFinal")])];
      SIf [] (EBin ONe "bool" (EVar "err") ENil)
      [SReturn [ENil; (EVar "err")]]
      [];
      SIf [] (EVar "isFinal")
      [SReturn [(EVar "chunk"); (ECall "assertEndOfStream" [(ESel (EVar "ds") "mps")])]]
      [];
      SReturn [(EVar "chunk"); ENil]].

(* saltpack.decryptStream_tryVisibleReceivers, decrypt.go *)
Definition f_saltpack_decryptStream_tryVisibleReceivers : gfunc := mkFunc "saltpack.decryptStream_tryVisibleReceivers" ["ds"; "hdr"; "ephemeralKey"] []
     [SVar "kids" "[][]byte";
      SAssign ["tab"] [(ECall "makemap" [])];
      SRange "i" "r" (ESel (EVar "hdr") "Receivers")
      [SIf [] (EBin ONe "bool" (ELen (ESel (EVar "r") "ReceiverKID")) (EInt (0)))
      [SAssignL [(LMapIndex (LVar "tab") (ELen (EVar "kids")))] [(EVar "i")];
      SAssign ["kids"] [(ECall "append" [(EVar "kids"); (ESel (EVar "r") "ReceiverKID")])]]
      []];
      SAssignL [(LField (LField (LVar "ds") "mki") "NamedReceivers")] [(EVar "kids")];
      SAssign ["i"; "sk"] [(ECall "Keyring.LookupBoxSecretKey" [(ESel (EVar "ds") "ring"); (EVar "kids")])];
      SIf [] (EBin OOr "bool" (EBin OLt "bool" (EVar "i") (EInt (0))) (EBin OEq "bool" (EVar "sk") ENil))
      [SReturn [ENil; ENil; (EInt (-1)); ENil]]
      [];
      SMapLookup "orig" "ok" (EVar "tab") (EVar "i");
      SIf [] (ENot (EVar "ok"))
      [SReturn [ENil; ENil; (EInt (-1)); (EErrVar "ErrBadLookup")]]
      [];
      SAssign ["nonce"] [(ECall "nonceForPayloadKeyBox" [(ESel (EVar "hdr") "Version"); (EConv "uint64" (EVar "orig"))])];
      SAssign ["payloadKeySlice"; "err"] [(ECall "BoxSecretKey.Unbox" [(EVar "sk"); (EVar "ephemeralKey"); (EVar "nonce"); (ESel (EIdx (ESel (EVar "hdr") "Receivers") (EVar "orig")) "PayloadKeyBox")])];
      SIf [] (EBin ONe "bool" (EVar "err") ENil)
      [SReturn [ENil; ENil; (EInt (-1)); (EVar "err")]]
      [];
      SAssign ["payloadKey"; "err"] [(ECall "symmetricKeyFromSlice" [(EVar "payloadKeySlice")])];
      SIf [] (EBin ONe "bool" (EVar "err") ENil)
      [SReturn [ENil; ENil; (EInt (-1)); (EVar "err")]]
      [];
      SReturn [(EVar "sk"); (EVar "payloadKey"); (EVar "orig"); (EVar "err")]].

(* saltpack.decryptStream_tryHiddenReceivers, decrypt.go *)
Definition f_saltpack_decryptStream_tryHiddenReceivers : gfunc := mkFunc "saltpack.decryptStream_tryHiddenReceivers" ["ds"; "hdr"; "ephemeralKey"] []
     [SAssign ["secretKeys"] [(ECall "Keyring.GetAllBoxSecretKeys" [(ESel (EVar "ds") "ring")])];
      SRange "_" "r" (ESel (EVar "hdr") "Receivers")
      [SIf [] (EBin OEq "bool" (ELen (ESel (EVar "r") "ReceiverKID")) (EInt (0)))
      [SOpAssignL (LField (LField (LVar "ds") "mki") "NumAnonReceivers") OAdd "int" (EInt 1)]
      []];
      SRange "_" "secretKey" (EVar "secretKeys")
      [SAssign ["shared"] [(ECall "BoxSecretKey.Precompute" [(EVar "secretKey"); (EVar "ephemeralKey")])];
      SRange "i" "r" (ESel (EVar "hdr") "Receivers")
      [SIf [] (EBin OEq "bool" (ELen (ESel (EVar "r") "ReceiverKID")) (EInt (0)))
      [SAssign ["nonce"] [(ECall "nonceForPayloadKeyBox" [(ESel (EVar "hdr") "Version"); (EConv "uint64" (EVar "i"))])];
      SAssign ["payloadKeySlice"; "err"] [(ECall "BoxPrecomputedSharedKey.Unbox" [(EVar "shared"); (EVar "nonce"); (ESel (EVar "r") "PayloadKeyBox")])];
      SIf [] (EBin ONe "bool" (EVar "err") ENil)
      [SContinue]
      [];
      SAssign ["payloadKey"; "err"] [(ECall "symmetricKeyFromSlice" [(EVar "payloadKeySlice")])];
      SIf [] (EBin ONe "bool" (EVar "err") ENil)
      [SReturn [ENil; ENil; (EInt (-1)); (EVar "err")]]
      [];
      SReturn [(EVar "secretKey"); (EVar "payloadKey"); (EVar "i"); ENil]]
      []]];
      SReturn [ENil; ENil; (EInt (-1)); ENil]].

(* saltpack.decryptStream_processHeader, decrypt.go *)
Definition f_saltpack_decryptStream_processHeader : gfunc := mkFunc "saltpack.decryptStream_processHeader" ["ds"; "hdr"] []
     [SIf [SAssign ["err"] [(ECall "EncryptionHeader.validate" [(EVar "hdr"); (ESel (EVar "ds") "versionValidator")])]] (EBin ONe "bool" (EVar "err") ENil)
      [SReturn [(EVar "err")]]
      [];
      SAssignL [(LField (LVar "ds") "version")] [(ESel (EVar "hdr") "Version")];
      SAssign ["ephemeralKey"] [(ECall "Keyring.ImportBoxEphemeralKey" [(ESel (EVar "ds") "ring"); (ESel (EVar "hdr") "Ephemeral")])];
      SIf [] (EBin OEq "bool" (EVar "ephemeralKey") ENil)
      [SReturn [(EErrVar "ErrBadEphemeralKey")]]
      [];
      SVar "secretKey" "BoxSecretKey";
      SVar "err" "error";
      SAssignL [(LVar "secretKey"); (LField (LVar "ds") "payloadKey"); (LField (LVar "ds") "position"); (LVar "err")] [(ECall "decryptStream.tryVisibleReceivers" [(EVar "ds"); (EVar "hdr"); (EVar "ephemeralKey")])];
      SIf [] (EBin ONe "bool" (EVar "err") ENil)
      [SReturn [(EVar "err")]]
      [];
      SIf [] (EBin OEq "bool" (EVar "secretKey") ENil)
      [SAssignL [(LVar "secretKey"); (LField (LVar "ds") "payloadKey"); (LField (LVar "ds") "position"); (LVar "err")] [(ECall "decryptStream.tryHiddenReceivers" [(EVar "ds"); (EVar "hdr"); (EVar "ephemeralKey")])];
      SAssignL [(LField (LField (LVar "ds") "mki") "ReceiverIsAnon")] [(EBool true)]]
      [];
      SIf [] (EBin ONe "bool" (EVar "err") ENil)
      [SReturn [(EVar "err")]]
      [];
      SIf [] (EBin OOr "bool" (EBin OEq "bool" (EVar "secretKey") ENil) (EBin OLt "bool" (ESel (EVar "ds") "position") (EInt (0))))
      [SReturn [(EErrVar "ErrNoDecryptionKey")]]
      [];
      SAssignL [(LField (LField (LVar "ds") "mki") "ReceiverKey")] [(EVar "secretKey")];
      SAssign ["nonce"] [(ECall "nonceForSenderKeySecretBox" [])];
      SAssign ["senderKeySlice"; "ok"] [(ECall "secretbox.Open" [(ELit "[]byte" []); (ESel (EVar "hdr") "SenderSecretbox"); (EVar "nonce"); (ESel (EVar "ds") "payloadKey")])];
      SIf [] (ENot (EVar "ok"))
      [SReturn [(EErrVar "ErrBadSenderKeySecretbox")]]
      [];
      SAssignL [(LField (LVar "ds") "senderKey"); (LVar "err")] [(ECall "rawBoxKeyFromSlice" [(EVar "senderKeySlice")])];
      SIf [] (EBin ONe "bool" (EVar "err") ENil)
      [SReturn [(EVar "err")]]
      [];
      SIf [] (ENot (ECall "hmac.Equal" [(ESel (EVar "hdr") "Ephemeral"); (ESlice (ESel (EVar "ds") "senderKey") None None)]))
      [SAssign ["longLivedSenderKey"] [(ECall "Keyring.LookupBoxPublicKey" [(ESel (EVar "ds") "ring"); (ESlice (ESel (EVar "ds") "senderKey") None None)])];
      SIf [] (EBin OEq "bool" (EVar "longLivedSenderKey") ENil)
      [SReturn [(ELit "ErrNoSenderKey" [("Sender", (ESlice (ESel (EVar "ds") "senderKey") None None))])]]
      [];
      SAssignL [(LField (LField (LVar "ds") "mki") "SenderKey")] [(EVar "longLivedSenderKey")]]
      [SAssignL [(LField (LField (LVar "ds") "mki") "SenderIsAnon")] [(EBool true)];
      SAssignL [(LField (LField (LVar "ds") "mki") "SenderKey")] [(EVar "ephemeralKey")]];
      SAssignL [(LField (LVar "ds") "macKey")] [(ECall "computeMACKeyReceiver" [(ESel (EVar "hdr") "Version"); (EConv "uint64" (ESel (EVar "ds") "position")); (EVar "secretKey"); (ESel (ESel (EVar "ds") "mki") "SenderKey"); (EVar "ephemeralKey"); (ESel (EVar "ds") "headerHash")])];
      SReturn [ENil]].

(* saltpack.computeMACKeyReceiver, decrypt.go *)
Definition f_saltpack_computeMACKeyReceiver : gfunc := mkFunc "saltpack.computeMACKeyReceiver" ["version"; "index"; "secret"; "public"; "ePublic"; "headerHash"] []
     [SSwitch [] (Some (ESel (EVar "version") "Major"))
      [([(EInt (1))], [SAssign ["nonce"] [(ECall "nonceForMACKeyBoxV1" [(EVar "headerHash")])];
      SReturn [(ECall "computeMACKeySingle" [(EVar "secret"); (EVar "public"); (EVar "nonce")])]]);
       ([(EInt (2))], [SAssign ["nonce"] [(ECall "nonceForMACKeyBoxV2" [(EVar "headerHash"); (EBool false); (EVar "index")])];
      SAssign ["mac"] [(ECall "computeMACKeySingle" [(EVar "secret"); (EVar "public"); (EVar "nonce")])];
      SAssign ["eNonce"] [(ECall "nonceForMACKeyBoxV2" [(EVar "headerHash"); (EBool true); (EVar "index")])];
      SAssign ["eMAC"] [(ECall "computeMACKeySingle" [(EVar "secret"); (EVar "ePublic"); (EVar "eNonce")])];
      SReturn [(ECall "sum512Truncate256" [(ECall "append..." [(ESlice (EVar "mac") None None); (ESlice (EVar "eMAC") None None)])])]])]
      (Some [SPanic (EStr "panic")])].

(* saltpack.decryptStream_processBlock, decrypt.go *)
Definition f_saltpack_decryptStream_processBlock : gfunc := mkFunc "saltpack.decryptStream_processBlock" ["ds"; "ciphertext"; "authenticators"; "isFinal"; "seqno"] []
     [SAssign ["blockNum"] [(EConv "uint64" (EBin OSub "uint64" (EVar "seqno") (EInt (1))))];
      SIf [SAssign ["err"] [(ECall "encryptionBlockNumber.check" [(EVar "blockNum")])]] (EBin ONe "bool" (EVar "err") ENil)
      [SReturn [ENil; (EVar "err")]]
      [];
      SAssign ["nonce"] [(ECall "nonceForChunkSecretBox" [(EVar "blockNum")])];
      SAssign ["hashToAuthenticate"] [(ECall "computePayloadHash" [(ESel (EVar "ds") "version"); (ESel (EVar "ds") "headerHash"); (EVar "nonce"); (EVar "ciphertext"); (EVar "isFinal")])];
      SAssign ["ourAuthenticator"] [(ECall "computePayloadAuthenticator" [(ESel (EVar "ds") "macKey"); (EVar "hashToAuthenticate")])];
      SIf [] (EBin OOr "bool" (EBin OGe "bool" (ESel (EVar "ds") "position") (ELen (EVar "authenticators"))) (ENot (ECall "payloadAuthenticator.Equal" [(EVar "ourAuthenticator"); (EIdx (EVar "authenticators") (ESel (EVar "ds") "position"))])))
      [SReturn [ENil; (ELit "ErrBadTag" [("0", (EVar "seqno"))])]]
      [];
      SAssign ["plaintext"; "ok"] [(ECall "secretbox.Open" [(ELit "[]byte" []); (EVar "ciphertext"); (EVar "nonce"); (ESel (EVar "ds") "payloadKey")])];
      SIf [] (ENot (EVar "ok"))
      [SReturn [ENil; (ELit "ErrBadCiphertext" [("0", (EVar "seqno"))])]]
      [];
      SIf [] (EBin OEq "bool" (ELen (EVar "plaintext")) (EInt (0)))
      [SReturn [ENil; ENil]]
      [];
      SReturn [(EVar "plaintext"); ENil]].

(* saltpack.encryptStream_Write, encrypt.go *)
Definition f_saltpack_encryptStream_Write : gfunc := mkFunc "saltpack.encryptStream_Write" ["es"; "plaintext"] []
     [SIf [] (EBin ONe "bool" (ESel (EVar "es") "err") ENil)
      [SReturn [(EInt (0)); (ESel (EVar "es") "err")]]
      [];
      SVar "ret" "int";
      SIf [SAssignL [(LVar "ret"); (LField (LVar "es") "err")] [(ECall "Buffer.Write" [(ESel (EVar "es") "buffer"); (EVar "plaintext")])]] (EBin ONe "bool" (ESel (EVar "es") "err") ENil)
      [SReturn [(EInt (0)); (ESel (EVar "es") "err")]]
      [];
      SFor (EBin OGt "bool" (ECall "Buffer.Len" [(ESel (EVar "es") "buffer")]) (EInt (1048576)))
      [SAssignL [(LField (LVar "es") "err")] [(ECall "encryptStream.encryptBlock" [(EVar "es"); (EBool false)])];
      SIf [] (EBin ONe "bool" (ESel (EVar "es") "err") ENil)
      [SReturn [(EInt (0)); (ESel (EVar "es") "err")]]
      []];
      SReturn [(EVar "ret"); ENil]].

(* saltpack.encryptStream_encryptBlock, encrypt.go *)
Definition f_saltpack_encryptStream_encryptBlock : gfunc := mkFunc "saltpack.encryptStream_encryptBlock" ["es"; "isFinal"] []
     [SAssign ["plaintext"] [(ECall "Buffer.Next" [(ESel (EVar "es") "buffer"); (EInt (1048576))])];
      SExpr (ECall "checkEncryptBlockRead" [(ESel (EVar "es") "version"); (EVar "isFinal"); (EInt (1048576)); (ELen (EVar "plaintext")); (ECall "Buffer.Len" [(ESel (EVar "es") "buffer")])]);
      SIf [SAssign ["err"] [(ECall "encryptionBlockNumber.check" [(ESel (EVar "es") "numBlocks")])]] (EBin ONe "bool" (EVar "err") ENil)
      [SReturn [(EVar "err")]]
      [];
      SAssign ["nonce"] [(ECall "nonceForChunkSecretBox" [(ESel (EVar "es") "numBlocks")])];
      SAssign ["ciphertext"] [(ECall "secretbox.Seal" [(ELit "[]byte" []); (EVar "plaintext"); (EVar "nonce"); (ESel (EVar "es") "payloadKey")])];
      SExpr (ECall "assertEncodedChunkState" [(ESel (EVar "es") "version"); (EVar "ciphertext"); (EInt (16)); (EConv "uint64" (ESel (EVar "es") "numBlocks")); (EVar "isFinal")]);
      SAssign ["hashToAuthenticate"] [(ECall "computePayloadHash" [(ESel (EVar "es") "version"); (ESel (EVar "es") "headerHash"); (EVar "nonce"); (EVar "ciphertext"); (EVar "isFinal")])];
      SVar "authenticators" "[]payloadAuthenticator";
      SRange "_" "macKey" (ESel (EVar "es") "macKeys")
      [SAssign ["authenticator"] [(ECall "computePayloadAuthenticator" [(EVar "macKey"); (EVar "hashToAuthenticate")])];
      SAssign ["authenticators"] [(ECall "append" [(EVar "authenticators"); (EVar "authenticator")])]];
      SAssign ["eBlock"] [(ECall "makeEncryptionBlock" [(ESel (EVar "es") "version"); (EVar "ciphertext"); (EVar "authenticators"); (EVar "isFinal")])];
      SIf [SAssign ["err"] [(ECall "encoder.Encode" [(ESel (EVar "es") "encoder"); (EVar "eBlock")])]] (EBin ONe "bool" (EVar "err") ENil)
      [SReturn [(EVar "err")]]
      [];
      SOpAssignL (LField (LVar "es") "numBlocks") OAdd "uint64" (EInt 1);
      SReturn [ENil]].

(* saltpack.checkKnownVersion, encrypt.go *)
Definition f_saltpack_checkKnownVersion : gfunc := mkFunc "saltpack.checkKnownVersion" ["version"] []
     [SRange "_" "knownVersion" (ECall "KnownVersions" [])
      [SIf [] (EBin OEq "bool" (EVar "version") (EVar "knownVersion"))
      [SReturn [ENil]]
      []];
      SReturn [(ELit "ErrBadVersion" [("received", (EVar "version"))])]].

(* saltpack.checkEncryptReceivers, encrypt.go *)
Definition f_saltpack_checkEncryptReceivers : gfunc := mkFunc "saltpack.checkEncryptReceivers" ["receivers"] []
     [SAssign ["receiverCount"] [(EConv "int64" (ELen (EVar "receivers")))];
      SIf [] (EBin OOr "bool" (EBin OLe "bool" (EVar "receiverCount") (EInt (0))) (EBin OGt "bool" (EVar "receiverCount") (EInt (4294967295))))
      [SReturn [(EErrVar "ErrBadReceivers")]]
      [];
      SAssign ["receiverSet"] [(ECall "makemap" [])];
      SRange "_" "receiver" (EVar "receivers")
      [SAssign ["kid"] [(ECall "BoxPublicKey.ToKID" [(EVar "receiver")])];
      SAssign ["kidString"] [(EConv "string" (EVar "kid"))];
      SIf [] (EMapGet (EVar "receiverSet") (EVar "kidString"))
      [SReturn [(ELit "ErrRepeatedKey" [("0", (EVar "kid"))])]]
      [];
      SAssignL [(LMapIndex (LVar "receiverSet") (EVar "kidString"))] [(EBool true)]];
      SReturn [ENil]].

(* saltpack.shuffleEncryptReceivers, encrypt.go *)
Definition f_saltpack_shuffleEncryptReceivers : gfunc := mkFunc "saltpack.shuffleEncryptReceivers" ["receivers"] []
     [SAssign ["shuffled"] [(ECall "make" [(ELen (EVar "receivers"))])];
      SExpr (ECall "copy" [(EVar "shuffled"); (EVar "receivers")]);
      SAssign ["err"] [(ECall "csprngShuffle" [(EPkg "cryptorand.Reader"); (ELen (EVar "shuffled")); (EUnsup "*ast.FuncLit")])];
      SIf [] (EBin ONe "bool" (EVar "err") ENil)
      [SReturn [ENil; (EVar "err")]]
      [];
      SReturn [(EVar "shuffled"); ENil]].

(* saltpack.encryptStream_init, encrypt.go *)
Definition f_saltpack_encryptStream_init : gfunc := mkFunc "saltpack.encryptStream_init" ["es"; "version"; "sender"; "receivers"; "ephemeralKeyCreator"; "rng"] []
     [SIf [SAssign ["err"] [(ECall "checkKnownVersion" [(EVar "version")])]] (EBin ONe "bool" (EVar "err") ENil)
      [SReturn [(EVar "err")]]
      [];
      SIf [SAssign ["err"] [(ECall "checkEncryptReceivers" [(EVar "receivers")])]] (EBin ONe "bool" (EVar "err") ENil)
      [SReturn [(EVar "err")]]
      [];
      SAssign ["receivers"; "err"] [(ECall "encryptRNG.shuffleReceivers" [(EVar "rng"); (EVar "receivers")])];
      SIf [] (EBin ONe "bool" (EVar "err") ENil)
      [SReturn [(EVar "err")]]
      [];
      SAssign ["ephemeralKey"; "err"] [(ECall "EphemeralKeyCreator.CreateEphemeralKey" [(EVar "ephemeralKeyCreator")])];
      SIf [] (EBin ONe "bool" (EVar "err") ENil)
      [SReturn [(EVar "err")]]
      [];
      SIf [] (EBin OEq "bool" (EVar "sender") ENil)
      [SAssign ["sender"] [(EVar "ephemeralKey")]]
      [];
      SAssign ["eh"] [(ELit "EncryptionHeader" [("FormatName", (EStr "saltpack")); ("Version", (EVar "version")); ("Type", (EInt (0))); ("Ephemeral", (ECall "BoxPublicKey.ToKID" [(ECall "BoxSecretKey.GetPublicKey" [(EVar "ephemeralKey")])])); ("Receivers", (ECall "make" [(EUnsup "*ast.ArrayType"); (EInt (0)); (ELen (EVar "receivers"))]))])];
      SAssign ["payloadKey"; "err"] [(ECall "encryptRNG.createSymmetricKey" [(EVar "rng")])];
      SIf [] (EBin ONe "bool" (EVar "err") ENil)
      [SReturn [(EVar "err")]]
      [];
      SAssignL [(LField (LVar "es") "payloadKey")] [(EVar "payloadKey")];
      SAssign ["nonce"] [(ECall "nonceForSenderKeySecretBox" [])];
      SAssignL [(LField (LVar "eh") "SenderSecretbox")] [(ECall "secretbox.Seal" [(ELit "[]byte" []); (ECall "BoxPublicKey.ToKID" [(ECall "BoxSecretKey.GetPublicKey" [(EVar "sender")])]); (EVar "nonce"); (ESel (EVar "es") "payloadKey")])];
      SRange "i" "receiver" (EVar "receivers")
      [SAssign ["sharedKey"] [(ECall "BoxSecretKey.Precompute" [(EVar "ephemeralKey"); (EVar "receiver")])];
      SAssign ["nonce"] [(ECall "nonceForPayloadKeyBox" [(EVar "version"); (EConv "uint64" (EVar "i"))])];
      SAssign ["payloadKeyBox"] [(ECall "BoxPrecomputedSharedKey.Box" [(EVar "sharedKey"); (EVar "nonce"); (ESlice (ESel (EVar "es") "payloadKey") None None)])];
      SAssign ["keys"] [(ELit "receiverKeys" [("PayloadKeyBox", (EVar "payloadKeyBox"))])];
      SIf [] (ENot (ECall "BoxPublicKey.HideIdentity" [(EVar "receiver")]))
      [SAssignL [(LField (LVar "keys") "ReceiverKID")] [(ECall "BoxPublicKey.ToKID" [(EVar "receiver")])]]
      [];
      SAssignL [(LField (LVar "eh") "Receivers")] [(ECall "append" [(ESel (EVar "eh") "Receivers"); (EVar "keys")])]];
      SAssign ["headerBytes"; "err"] [(ECall "encodeToBytes" [(EVar "eh")])];
      SIf [] (EBin ONe "bool" (EVar "err") ENil)
      [SReturn [(EVar "err")]]
      [];
      SAssignL [(LField (LVar "es") "headerHash")] [(ECall "sha512.Sum512" [(EVar "headerBytes")])];
      SAssign ["err"] [(ECall "encoder.Encode" [(ESel (EVar "es") "encoder"); (EVar "headerBytes")])];
      SIf [] (EBin ONe "bool" (EVar "err") ENil)
      [SReturn [(EVar "err")]]
      [];
      SAssignL [(LField (LVar "es") "macKeys")] [(ECall "computeMACKeysSender" [(EVar "version"); (EVar "sender"); (EVar "ephemeralKey"); (EVar "receivers"); (ESel (EVar "es") "headerHash")])];
      SReturn [ENil]].

(* saltpack.encryptStream_Close, encrypt.go *)
Definition f_saltpack_encryptStream_Close : gfunc := mkFunc "saltpack.encryptStream_Close" ["es"] []
     [SSwitch [] (Some (ESel (EVar "es") "version"))
      [([(ECall "Version1" [])], [SIf [] (EBin OGt "bool" (ECall "Buffer.Len" [(ESel (EVar "es") "buffer")]) (EInt (0)))
      [SAssign ["err"] [(ECall "encryptStream.encryptBlock" [(EVar "es"); (EBool false)])];
      SIf [] (EBin ONe "bool" (EVar "err") ENil)
      [SReturn [(EVar "err")]]
      []]
      [];
      SIf [] (EBin OGt "bool" (ECall "Buffer.Len" [(ESel (EVar "es") "buffer")]) (EInt (0)))
      [SPanic (EStr "panic")]
      [];
      SReturn [(ECall "encryptStream.encryptBlock" [(EVar "es"); (EBool true)])]]);
       ([(ECall "Version2" [])], [SAssign ["err"] [(ECall "encryptStream.encryptBlock" [(EVar "es"); (EBool true)])];
      SIf [] (EBin ONe "bool" (EVar "err") ENil)
      [SReturn [(EVar "err")]]
      [];
      SIf [] (EBin OGt "bool" (ECall "Buffer.Len" [(ESel (EVar "es") "buffer")]) (EInt (0)))
      [SPanic (EStr "panic")]
      [];
      SReturn [ENil]])]
      (Some [SPanic (EStr "panic")])].

(* saltpack.rawBoxKeyFromSlice, key.go *)
Definition f_saltpack_rawBoxKeyFromSlice : gfunc := mkFunc "saltpack.rawBoxKeyFromSlice" ["slice"] []
     [SAssign ["result"] [(ECall "make" [(EInt (32))])];
      SIf [] (EBin ONe "bool" (ELen (EVar "slice")) (EInt (32)))
      [SReturn [ENil; (EErrVar "ErrBadBoxKey")]]
      [];
      SAssign ["result"] [(ECall "sliceToByte32" [(EVar "slice")])];
      SReturn [(EAddr "result"); ENil]].

(* saltpack.symmetricKeyFromSlice, key.go *)
Definition f_saltpack_symmetricKeyFromSlice : gfunc := mkFunc "saltpack.symmetricKeyFromSlice" ["slice"] []
     [SAssign ["result"] [(ECall "make" [(EInt (32))])];
      SIf [] (EBin ONe "bool" (ELen (EVar "slice")) (EInt (32)))
      [SReturn [ENil; (EErrVar "ErrBadSymmetricKey")]]
      [];
      SAssign ["result"] [(ECall "sliceToByte32" [(EVar "slice")])];
      SReturn [(EAddr "result"); ENil]].

(* saltpack.nonceForSenderKeySecretBox, nonce.go *)
Definition f_saltpack_nonceForSenderKeySecretBox : gfunc := mkFunc "saltpack.nonceForSenderKeySecretBox" [] []
     [SReturn [(ECall "stringToByte24" [(EStr "saltpack_sender_key_sbox")])]].

(* saltpack.nonceForPayloadKeyBoxV2, nonce.go *)
Definition f_saltpack_nonceForPayloadKeyBoxV2 : gfunc := mkFunc "saltpack.nonceForPayloadKeyBoxV2" ["recip"] []
     [SAssign ["n"] [(ECall "make" [(EInt (24))])];
      SAssign ["off"] [(EInt (16))];
      SSliceCall "copyEqualSizeStr" "n" None (Some (EVar "off")) [(EStr "saltpack_recipsb")];
      SSliceCall "bigEndian.PutUint64" "n" (Some (EVar "off")) None [(EVar "recip")];
      SReturn [(EVar "n")]].

(* saltpack.nonceForPayloadKeyBox, nonce.go *)
Definition f_saltpack_nonceForPayloadKeyBox : gfunc := mkFunc "saltpack.nonceForPayloadKeyBox" ["version"; "recip"] []
     [SSwitch [] (Some (ESel (EVar "version") "Major"))
      [([(EInt (1))], [SReturn [(ECall "stringToByte24" [(EStr "saltpack_payload_key_box")])]]);
       ([(EInt (2))], [SReturn [(ECall "nonceForPayloadKeyBoxV2" [(EVar "recip")])]])]
      (Some [SPanic (EStr "panic")])].

(* saltpack.nonceForDerivedSharedKey, nonce.go *)
Definition f_saltpack_nonceForDerivedSharedKey : gfunc := mkFunc "saltpack.nonceForDerivedSharedKey" [] []
     [SReturn [(ECall "stringToByte24" [(EStr "saltpack_derived_sboxkey")])]].

(* saltpack.nonceForMACKeyBoxV1, nonce.go *)
Definition f_saltpack_nonceForMACKeyBoxV1 : gfunc := mkFunc "saltpack.nonceForMACKeyBoxV1" ["headerHash"] []
     [SReturn [(ECall "sliceToByte24" [(ESlice (EVar "headerHash") None (Some (EInt (24))))])]].

(* saltpack.nonceForMACKeyBoxV2, nonce.go *)
Definition f_saltpack_nonceForMACKeyBoxV2 : gfunc := mkFunc "saltpack.nonceForMACKeyBoxV2" ["headerHash"; "ephemeral"; "recip"] []
     [SAssign ["n"] [(ECall "make" [(EInt (24))])];
      SAssign ["off"] [(EInt (16))];
      SSliceCall "copyEqualSize" "n" None (Some (EVar "off")) [(ESlice (EVar "headerHash") None (Some (EVar "off")))];
      SIdxOp "n" (EBin OSub "int" (EVar "off") (EInt (1))) (Some OAndNot) (EInt (1));
      SIf [] (EVar "ephemeral")
      [SIdxOp "n" (EBin OSub "int" (EVar "off") (EInt (1))) (Some OBor) (EInt (1))]
      [];
      SSliceCall "bigEndian.PutUint64" "n" (Some (EVar "off")) None [(EVar "recip")];
      SReturn [(EVar "n")]].

(* saltpack.nonceForChunkSecretBox, nonce.go *)
Definition f_saltpack_nonceForChunkSecretBox : gfunc := mkFunc "saltpack.nonceForChunkSecretBox" ["i"] []
     [SAssign ["n"] [(ECall "make" [(EInt (24))])];
      SSliceCall "copyEqualSizeStr" "n" (Some (EInt (0))) (Some (EInt (16))) [(EStr "saltpack_ploadsb")];
      SSliceCall "bigEndian.PutUint64" "n" (Some (EInt (16))) None [(EConv "uint64" (EVar "i"))];
      SReturn [(EVar "n")]].

(* saltpack.nonceForChunkSigncryption, nonce.go *)
Definition f_saltpack_nonceForChunkSigncryption : gfunc := mkFunc "saltpack.nonceForChunkSigncryption" ["headerHash"; "isFinal"; "i"] []
     [SAssign ["n"] [(ECall "make" [(EInt (24))])];
      SAssign ["off"] [(EInt (16))];
      SSliceCall "copyEqualSize" "n" None (Some (EVar "off")) [(ESlice (EVar "headerHash") None (Some (EVar "off")))];
      SIdxOp "n" (EBin OSub "int" (EVar "off") (EInt (1))) (Some OAndNot) (EInt (1));
      SIf [] (EVar "isFinal")
      [SIdxOp "n" (EBin OSub "int" (EVar "off") (EInt (1))) (Some OBor) (EInt (1))]
      [];
      SSliceCall "bigEndian.PutUint64" "n" (Some (EVar "off")) None [(EConv "uint64" (EVar "i"))];
      SReturn [(EVar "n")]].

(* saltpack.EncryptionHeader_validate, packets.go *)
Definition f_saltpack_EncryptionHeader_validate : gfunc := mkFunc "saltpack.EncryptionHeader_validate" ["h"; "versionValidator"] []
     [SIf [] (EBin ONe "bool" (ESel (EVar "h") "FormatName") (EStr "saltpack"))
      [SReturn [(EErrVar "ErrNotASaltpackMessage")]]
      [];
      SIf [] (EBin ONe "bool" (ESel (EVar "h") "Type") (EInt (0)))
      [SReturn [(ELit "ErrWrongMessageType" [("Wanted", (EInt (0))); ("Received", (ESel (EVar "h") "Type"))])]]
      [];
      SReturn [(ECall "versionValidator" [(ESel (EVar "h") "Version")])]].

(* saltpack.SigncryptionHeader_validate, packets.go *)
Definition f_saltpack_SigncryptionHeader_validate : gfunc := mkFunc "saltpack.SigncryptionHeader_validate" ["h"] []
     [SIf [] (EBin ONe "bool" (ESel (EVar "h") "FormatName") (EStr "saltpack"))
      [SReturn [(EErrVar "ErrNotASaltpackMessage")]]
      [];
      SIf [] (EBin ONe "bool" (ESel (EVar "h") "Type") (EInt (3)))
      [SReturn [(ELit "ErrWrongMessageType" [("Wanted", (EInt (3))); ("Received", (ESel (EVar "h") "Type"))])]]
      [];
      SIf [] (EBin ONe "bool" (ESel (ESel (EVar "h") "Version") "Major") (ESel (ECall "Version2" []) "Major"))
      [SReturn [(ELit "ErrBadVersion" [("received", (ESel (EVar "h") "Version"))])]]
      [];
      SReturn [ENil]].

(* saltpack.SignatureHeader_validate, packets.go *)
Definition f_saltpack_SignatureHeader_validate : gfunc := mkFunc "saltpack.SignatureHeader_validate" ["h"; "versionValidator"; "msgType"] []
     [SIf [] (EBin ONe "bool" (ESel (EVar "h") "FormatName") (EStr "saltpack"))
      [SReturn [(EErrVar "ErrNotASaltpackMessage")]]
      [];
      SIf [SAssign ["err"] [(ECall "versionValidator" [(ESel (EVar "h") "Version")])]] (EBin ONe "bool" (EVar "err") ENil)
      [SReturn [(EVar "err")]]
      [];
      SIf [] (EBin ONe "bool" (ESel (EVar "h") "Type") (EVar "msgType"))
      [SReturn [(ELit "ErrWrongMessageType" [("Wanted", (EVar "msgType")); ("Received", (ESel (EVar "h") "Type"))])]]
      [];
      SIf [] (EBin OAnd "bool" (EBin ONe "bool" (EVar "msgType") (EInt (1))) (EBin ONe "bool" (EVar "msgType") (EInt (2))))
      [SReturn [(ELit "ErrInvalidParameter" [("message", (ECall "fmt.Sprintf" [(EStr "signature header must be MessageTypeAttachedSignature or MessageTypeDetachedSignature, not %d"); (EVar "msgType")]))])]]
      [];
      SReturn [ENil]].

(* saltpack.punctuatedReader_Read, punctuated_reader.go *)
Definition f_saltpack_punctuatedReader_Read : gfunc := mkFunc "saltpack.punctuatedReader_Read" ["p"; "out"] [("n", "int"); ("err", "error")]
     [SIf [] (EBin OGt "bool" (ELen (ESel (EVar "p") "thisSegment")) (EInt (0)))
      [SAssign ["n"] [(ECall "copy" [(EVar "out"); (ESel (EVar "p") "thisSegment")])];
      SAssignL [(LField (LVar "p") "thisSegment")] [(ESlice (ESel (EVar "p") "thisSegment") (Some (EVar "n")) None)];
      SIf [] (EBin OEq "bool" (ELen (ESel (EVar "p") "thisSegment")) (EInt (0)))
      [SAssign ["err"] [(ESel (EVar "p") "errThisSegment")];
      SAssignL [(LField (LVar "p") "errThisSegment")] [ENil]]
      [];
      SReturn [(EVar "n"); (EVar "err")]]
      [];
      SVar "src" "[]byte";
      SAssign ["usedBuffer"] [(EBool false)];
      SIf [] (EBin OGt "bool" (ELen (ESel (EVar "p") "nextSegment")) (EInt (0)))
      [SAssign ["src"] [(ESel (EVar "p") "nextSegment")];
      SAssign ["usedBuffer"] [(EBool true)];
      SAssignL [(LField (LVar "p") "nextSegment")] [ENil]]
      [SIf [] (EBin ONe "bool" (ESel (EVar "p") "errRead") ENil)
      [SReturn [(EInt (0)); (ESel (EVar "p") "errRead")]]
      [];
      SAssign ["n"; "err"] [(ECall "Reader.Read" [(ESel (EVar "p") "r"); (EVar "out")])];
      SIf [] (EBin ONe "bool" (EVar "err") ENil)
      [SIf [] (EBin OEq "bool" (EVar "n") (EInt (0)))
      [SReturn [(EInt (0)); (EVar "err")]]
      [];
      SAssignL [(LField (LVar "p") "errRead")] [(EVar "err")];
      SAssign ["err"] [ENil]]
      [];
      SAssign ["src"] [(ESlice (EVar "out") (Some (EInt (0))) (Some (EVar "n")))]];
      SAssign ["foundPunc"] [(EBool false)];
      SIf [SAssign ["i"] [(ECall "bytes.Index" [(EVar "src"); (ESlice (ESel (EVar "p") "punctuation") None None)])]] (EBin OGe "bool" (EVar "i") (EInt (0)))
      [SAssignL [(LField (LVar "p") "nextSegment")] [(ESlice (EVar "src") (Some (EBin OAdd "int" (EVar "i") (EInt (1)))) None)];
      SAssign ["src"] [(ESlice (EVar "src") (Some (EInt (0))) (Some (EVar "i")))];
      SAssign ["n"] [(ELen (EVar "src"))];
      SAssign ["foundPunc"] [(EBool true)]]
      [];
      SIf [] (EVar "usedBuffer")
      [SAssign ["n"] [(ECall "copy" [(EVar "out"); (EVar "src")])];
      SAssignL [(LField (LVar "p") "thisSegment")] [(ESlice (EVar "src") (Some (EVar "n")) None)]]
      [];
      SIf [] (EVar "foundPunc")
      [SIf [] (EBin OGt "bool" (ELen (ESel (EVar "p") "thisSegment")) (EInt (0)))
      [SAssignL [(LField (LVar "p") "errThisSegment")] [(EErrVar "ErrPunctuated")]]
      [SAssign ["err"] [(EErrVar "ErrPunctuated")]]]
      [];
      SReturn [(EVar "n"); (EVar "err")]].

(* saltpack.punctuatedReader_ReadUntilPunctuation, punctuated_reader.go *)
Definition f_saltpack_punctuatedReader_ReadUntilPunctuation : gfunc := mkFunc "saltpack.punctuatedReader_ReadUntilPunctuation" ["p"; "lim"] [("res", "[]byte"); ("err", "error")]
     [SFor (EBool true)
      [SVar "n" "int";
      SAssign ["n"; "err"] [(ECall "punctuatedReader.Read" [(EVar "p"); (ESlice (ESel (EVar "p") "buf") None None)])];
      SUnsup "fallthrough";
      SIf [] (EBin OEq "bool" (EVar "n") (EInt (0)))
      [SReturn [ENil; (EErrVar "io.ErrUnexpectedEOF")]]
      []]].

(* saltpack.csprngUint32n, rand.go *)
Definition f_saltpack_csprngUint32n : gfunc := mkFunc "saltpack.csprngUint32n" ["csprng"; "n"] []
     [SAssign ["v"; "err"] [(ECall "csprngUint32" [(EVar "csprng")])];
      SIf [] (EBin ONe "bool" (EVar "err") ENil)
      [SReturn [(EInt (0)); (EVar "err")]]
      [];
      SAssign ["prod"] [(EBin OMul "uint64" (EConv "uint64" (EVar "v")) (EConv "uint64" (EVar "n")))];
      SAssign ["low"] [(EConv "uint32" (EVar "prod"))];
      SIf [] (EBin OLt "bool" (EVar "low") (EVar "n"))
      [SAssign ["thresh"] [(EBin OMod "uint32" (ENeg "uint32" (EVar "n")) (EVar "n"))];
      SFor (EBin OLt "bool" (EVar "low") (EVar "thresh"))
      [SAssign ["v"; "err"] [(ECall "csprngUint32" [(EVar "csprng")])];
      SIf [] (EBin ONe "bool" (EVar "err") ENil)
      [SReturn [(EInt (0)); (EVar "err")]]
      [];
      SAssign ["prod"] [(EBin OMul "uint64" (EConv "uint64" (EVar "v")) (EConv "uint64" (EVar "n")))];
      SAssign ["low"] [(EConv "uint32" (EVar "prod"))]]]
      [];
      SReturn [(EConv "uint32" (EBin OShr "uint64" (EVar "prod") (EInt (32)))); ENil]].

(* saltpack.csprngShuffle, rand.go *)
Definition f_saltpack_csprngShuffle : gfunc := mkFunc "saltpack.csprngShuffle" ["csprng"; "n"; "swap"] []
     [SIf [] (EBin OLt "bool" (EVar "n") (EInt (0)))
      [SPanic (EStr "panic")]
      [];
      SIf [] (EBin OGt "bool" (EVar "n") (EInt (2147483647)))
      [SPanic (EStr "panic")]
      [];
      SIf [SAssign ["i"] [(EBin OSub "int" (EVar "n") (EInt (1)))]] (EBool true) [SFor (EBin OGt "bool" (EVar "i") (EInt (0)))
      ([SAssign ["j"; "err"] [(ECall "csprngUint32n" [(EVar "csprng"); (EConv "uint32" (EBin OAdd "int" (EVar "i") (EInt (1))))])];
      SIf [] (EBin ONe "bool" (EVar "err") ENil)
      [SReturn [(EVar "err")]]
      [];
      SExpr (ECall "swap" [(EVar "i"); (EConv "int" (EVar "j"))])] ++ [SOpAssign "i" OSub "int" (EInt 1)])] [];
      SReturn [ENil]].

(* saltpack.signcryptOpenStream_getNextChunk, signcrypt_open.go *)
Definition f_saltpack_signcryptOpenStream_getNextChunk : gfunc := mkFunc "saltpack.signcryptOpenStream_getNextChunk" ["sos"] []
     [SVar "sb" "signcryptionBlock";
      SAssign ["seqno"; "err"] [(ECall "msgpackStream.Read" [(ESel (EVar "sos") "mps"); (EAddr "sb")])];
      SIf [] (EBin ONe "bool" (EVar "err") ENil)
      [SIf [] (EBin OEq "bool" (EVar "err") (EErrVar "io.EOF"))
      [SAssign ["err"] [(EErrVar "io.ErrUnexpectedEOF")]]
      [];
      SReturn [ENil; (EVar "err")]]
      [];
      SAssign ["chunk"; "err"] [(ECall "signcryptOpenStream.processBlock" [(EVar "sos"); (ESel (EVar "sb") "PayloadCiphertext"); (ESel (EVar "sb") "IsFinal"); (EVar "seqno")])];
      SIf [] (EBin ONe "bool" (EVar "err") ENil)
      [SReturn [ENil; (EVar "err")]]
      [];
      SAssign ["err"] [(ECall "checkDecodedChunkState" [(ECall "Version2" []); (EVar "chunk"); (EVar "seqno"); (ESel (EVar "sb") "IsFinal")])];
      SIf [] (EBin ONe "bool" (EVar "err") ENil)
      [SReturn [ENil; (EVar "err")]]
      [];
      SIf [] (ESel (EVar "sb") "IsFinal")
      [SReturn [(EVar "chunk"); (ECall "assertEndOfStream" [(ESel (EVar "sos") "mps")])]]
      [];
      SReturn [(EVar "chunk"); ENil]].

(* saltpack.signcryptOpenStream_tryBoxSecretKeys, signcrypt_open.go *)
Definition f_saltpack_signcryptOpenStream_tryBoxSecretKeys : gfunc := mkFunc "saltpack.signcryptOpenStream_tryBoxSecretKeys" ["sos"; "hdr"; "ephemeralPub"] []
     [SAssign ["derivedKeys"] [(ECall "makemap" [])];
      SRange "_" "receiverBoxSecretKey" (ECall "SigncryptKeyring.GetAllBoxSecretKeys" [(ESel (EVar "sos") "keyring")])
      [SAssign ["derivedKey"] [(ECall "derivedEphemeralKeyFromBoxKeys" [(EVar "ephemeralPub"); (EVar "receiverBoxSecretKey")])];
      SAssign ["derivedKeys"] [(ECall "append" [(EVar "derivedKeys"); (EVar "derivedKey")])]];
      SRange "receiverIndex" "receiver" (ESel (EVar "hdr") "Receivers")
      [SRange "_" "derivedKey" (EVar "derivedKeys")
      [SAssign ["identifier"] [(ECall "keyIdentifierFromDerivedKey" [(EVar "derivedKey"); (EConv "uint64" (EVar "receiverIndex"))])];
      SIf [] (ECall "hmac.Equal" [(EVar "identifier"); (ESel (EVar "receiver") "ReceiverKID")])
      [SAssign ["nonce"] [(ECall "nonceForPayloadKeyBoxV2" [(EConv "uint64" (EVar "receiverIndex"))])];
      SAssign ["payloadKey"; "isValid"] [(ECall "secretbox.Open" [ENil; (ESel (EVar "receiver") "PayloadKeyBox"); (EVar "nonce"); (EVar "derivedKey")])];
      SIf [] (ENot (EVar "isValid"))
      [SReturn [ENil; (EErrVar "ErrDecryptionFailed")]]
      [];
      SAssign ["r'0"; "r'1"] [(ECall "symmetricKeyFromSlice" [(EVar "payloadKey")])];
      SReturn [(EVar "r'0"); (EVar "r'1")]]
      []]];
      SReturn [ENil; ENil]].

(* saltpack.signcryptOpenStream_trySharedSymmetricKeys, signcrypt_open.go *)
Definition f_saltpack_signcryptOpenStream_trySharedSymmetricKeys : gfunc := mkFunc "saltpack.signcryptOpenStream_trySharedSymmetricKeys" ["sos"; "hdr"; "ephemeralPub"] []
     [SAssign ["identifiers"] [(ECall "makemap" [])];
      SRange "_" "receiver" (ESel (EVar "hdr") "Receivers")
      [SAssign ["identifiers"] [(ECall "append" [(EVar "identifiers"); (ESel (EVar "receiver") "ReceiverKID")])]];
      SIf [] (EBin OEq "bool" (ESel (EVar "sos") "resolver") ENil)
      [SReturn [ENil; ENil]]
      [];
      SAssign ["resolvedKeys"; "err"] [(ECall "SymmetricKeyResolver.ResolveKeys" [(ESel (EVar "sos") "resolver"); (EVar "identifiers")])];
      SIf [] (EBin ONe "bool" (EVar "err") ENil)
      [SReturn [ENil; (EVar "err")]]
      [];
      SIf [] (EBin ONe "bool" (ELen (EVar "resolvedKeys")) (ELen (EVar "identifiers")))
      [SReturn [ENil; (EErrVar "ErrWrongNumberOfKeys")]]
      [];
      SRange "index" "resolved" (EVar "resolvedKeys")
      [SIf [] (EBin OEq "bool" (EVar "resolved") ENil)
      [SContinue]
      [];
      SAssign ["derivedKeyDigest"] [(ECall "hmac.New" [(EPkg "sha512.New"); (EConv "[]byte" (EStr "saltpack signcryption derived symmetric key"))])];
      SAssign ["_"; "err"] [(ECall "Hash.Write" [(EVar "derivedKeyDigest"); (ECall "BoxPublicKey.ToKID" [(EVar "ephemeralPub")])])];
      SIf [] (EBin ONe "bool" (EVar "err") ENil)
      [SReturn [ENil; (EVar "err")]]
      [];
      SAssign ["_"; "err"] [(ECall "Hash.Write" [(EVar "derivedKeyDigest"); (ESlice (EVar "resolved") None None)])];
      SIf [] (EBin ONe "bool" (EVar "err") ENil)
      [SReturn [ENil; (EVar "err")]]
      [];
      SAssign ["derivedKey"; "err"] [(ECall "rawBoxKeyFromSlice" [(ESlice (ECall "Hash.Sum" [(EVar "derivedKeyDigest"); ENil]) (Some (EInt (0))) (Some (EInt (32))))])];
      SIf [] (EBin ONe "bool" (EVar "err") ENil)
      [SPanic (EStr "panic")]
      [];
      SAssign ["nonce"] [(ECall "nonceForPayloadKeyBoxV2" [(EConv "uint64" (EVar "index"))])];
      SAssign ["payloadKey"; "isValid"] [(ECall "secretbox.Open" [ENil; (ESel (EIdx (ESel (EVar "hdr") "Receivers") (EVar "index")) "PayloadKeyBox"); (EVar "nonce"); (EVar "derivedKey")])];
      SIf [] (ENot (EVar "isValid"))
      [SReturn [ENil; (EErrVar "ErrDecryptionFailed")]]
      [];
      SAssign ["r'0"; "r'1"] [(ECall "symmetricKeyFromSlice" [(EVar "payloadKey")])];
      SReturn [(EVar "r'0"); (EVar "r'1")]];
      SReturn [ENil; ENil]].

(* saltpack.signcryptOpenStream_processHeader, signcrypt_open.go *)
Definition f_saltpack_signcryptOpenStream_processHeader : gfunc := mkFunc "saltpack.signcryptOpenStream_processHeader" ["sos"; "hdr"] []
     [SIf [SAssign ["err"] [(ECall "SigncryptionHeader.validate" [(EVar "hdr")])]] (EBin ONe "bool" (EVar "err") ENil)
      [SReturn [(EVar "err")]]
      [];
      SAssign ["ephemeralPub"] [(ECall "SigncryptKeyring.ImportBoxEphemeralKey" [(ESel (EVar "sos") "keyring"); (ESel (EVar "hdr") "Ephemeral")])];
      SIf [] (EBin OEq "bool" (EVar "ephemeralPub") ENil)
      [SReturn [(EErrVar "ErrBadEphemeralKey")]]
      [];
      SVar "err" "error";
      SAssignL [(LField (LVar "sos") "payloadKey"); (LVar "err")] [(ECall "signcryptOpenStream.tryBoxSecretKeys" [(EVar "sos"); (EVar "hdr"); (EVar "ephemeralPub")])];
      SIf [] (EBin ONe "bool" (EVar "err") ENil)
      [SReturn [(EVar "err")]]
      [];
      SIf [] (EBin OEq "bool" (ESel (EVar "sos") "payloadKey") ENil)
      [SAssignL [(LField (LVar "sos") "payloadKey"); (LVar "err")] [(ECall "signcryptOpenStream.trySharedSymmetricKeys" [(EVar "sos"); (EVar "hdr"); (EVar "ephemeralPub")])];
      SIf [] (EBin ONe "bool" (EVar "err") ENil)
      [SReturn [(EVar "err")]]
      []]
      [];
      SIf [] (EBin OEq "bool" (ESel (EVar "sos") "payloadKey") ENil)
      [SReturn [(EErrVar "ErrNoDecryptionKey")]]
      [];
      SAssign ["nonce"] [(ECall "nonceForSenderKeySecretBox" [])];
      SAssign ["senderKeySlice"; "ok"] [(ECall "secretbox.Open" [(ELit "[]byte" []); (ESel (EVar "hdr") "SenderSecretbox"); (EVar "nonce"); (ESel (EVar "sos") "payloadKey")])];
      SIf [] (ENot (EVar "ok"))
      [SReturn [(EErrVar "ErrBadSenderKeySecretbox")]]
      [];
      SAssign ["zeroSlice"] [(ECall "make" [(ELen (EVar "senderKeySlice"))])];
      SIf [] (ECall "bytes.Equal" [(EVar "zeroSlice"); (EVar "senderKeySlice")])
      [SAssignL [(LField (LVar "sos") "senderAnonymous")] [(EBool true)]]
      [SAssign ["spk"] [(ECall "SigncryptKeyring.LookupSigningPublicKey" [(ESel (EVar "sos") "keyring"); (EVar "senderKeySlice")])];
      SIf [] (EBin OEq "bool" (EVar "spk") ENil)
      [SReturn [(ELit "ErrNoSenderKey" [("Sender", (EVar "senderKeySlice"))])]]
      [];
      SAssignL [(LField (LVar "sos") "signingPublicKey")] [(EVar "spk")]];
      SReturn [ENil]].

(* saltpack.signcryptOpenStream_processBlock, signcrypt_open.go *)
Definition f_saltpack_signcryptOpenStream_processBlock : gfunc := mkFunc "saltpack.signcryptOpenStream_processBlock" ["sos"; "payloadCiphertext"; "isFinal"; "seqno"] []
     [SAssign ["blockNum"] [(EConv "uint64" (EBin OSub "uint64" (EVar "seqno") (EInt (1))))];
      SIf [SAssign ["err"] [(ECall "encryptionBlockNumber.check" [(EVar "blockNum")])]] (EBin ONe "bool" (EVar "err") ENil)
      [SReturn [ENil; (EVar "err")]]
      [];
      SAssign ["nonce"] [(ECall "nonceForChunkSigncryption" [(ESel (EVar "sos") "headerHash"); (EVar "isFinal"); (EVar "blockNum")])];
      SAssign ["attachedSig"; "isValid"] [(ECall "secretbox.Open" [(ELit "[]byte" []); (EVar "payloadCiphertext"); (EVar "nonce"); (ESel (EVar "sos") "payloadKey")])];
      SIf [] (EBin OOr "bool" (ENot (EVar "isValid")) (EBin OLt "bool" (ELen (EVar "attachedSig")) (EInt (64))))
      [SReturn [ENil; (ELit "ErrBadCiphertext" [("0", (EVar "seqno"))])]]
      [];
      SAssign ["detachedSig"] [(ECall "sliceToByte64" [(ESlice (EVar "attachedSig") None (Some (EInt (64))))])];
      SAssign ["chunkPlaintext"] [(ESlice (EVar "attachedSig") (Some (EInt (64))) None)];
      SIf [] (ENot (ESel (EVar "sos") "senderAnonymous"))
      [SAssign ["signatureInput"] [(ECall "computeSigncryptionSignatureInput" [(ESel (EVar "sos") "headerHash"); (EVar "nonce"); (EVar "isFinal"); (EVar "chunkPlaintext")])];
      SAssign ["sigErr"] [(ECall "SigningPublicKey.Verify" [(ESel (EVar "sos") "signingPublicKey"); (EVar "signatureInput"); (ESlice (EVar "detachedSig") None None)])];
      SIf [] (EBin ONe "bool" (EVar "sigErr") ENil)
      [SReturn [ENil; (EErrVar "ErrBadSignature")]]
      []]
      [];
      SReturn [(EVar "chunkPlaintext"); ENil]].

(* saltpack.verifyStream_getNextChunk, verify_stream.go *)
Definition f_saltpack_verifyStream_getNextChunk : gfunc := mkFunc "saltpack.verifyStream_getNextChunk" ["v"] []
     [SAssign ["signature"; "chunk"; "isFinal"; "seqno"; "err"] [(ECall "readSignatureBlock" [(ESel (ESel (EVar "v") "header") "Version"); (ESel (EVar "v") "mps")])];
      SIf [] (EBin ONe "bool" (EVar "err") ENil)
      [SIf [] (EBin OEq "bool" (EVar "err") (EErrVar "io.EOF"))
      [SAssign ["err"] [(EErrVar "io.ErrUnexpectedEOF")]]
      [];
      SReturn [ENil; (EVar "err")]]
      [];
      SAssign ["err"] [(ECall "verifyStream.processBlock" [(EVar "v"); (EVar "signature"); (EVar "chunk"); (EVar "isFinal"); (EVar "seqno")])];
      SIf [] (EBin ONe "bool" (EVar "err") ENil)
      [SReturn [ENil; (EVar "err")]]
      [];
      SAssign ["err"] [(ECall "checkDecodedChunkState" [(ESel (ESel (EVar "v") "header") "Version"); (EVar "chunk"); (EVar "seqno"); (EVar "isFinal")])];
      SIf [] (EBin ONe "bool" (EVar "err") ENil)
      [SReturn [ENil; (EVar "err")]]
      [];
      SIf [] (EVar "isFinal")
      [SReturn [(EVar "chunk"); (ECall "assertEndOfStream" [(ESel (EVar "v") "mps")])]]
      [];
      SReturn [(EVar "chunk"); ENil]].

(* saltpack.verifyStream_readHeader, verify_stream.go *)
Definition f_saltpack_verifyStream_readHeader : gfunc := mkFunc "saltpack.verifyStream_readHeader" ["v"; "versionValidator"; "msgType"] []
     [SVar "headerBytes" "[]byte";
      SAssign ["_"; "err"] [(ECall "msgpackStream.Read" [(ESel (EVar "v") "mps"); (EAddr "headerBytes")])];
      SIf [] (EBin ONe "bool" (EVar "err") ENil)
      [SReturn [(EErrVar "ErrFailedToReadHeaderBytes")]]
      [];
      SAssignL [(LField (LVar "v") "headerHash")] [(ECall "hashHeader" [(EVar "headerBytes")])];
      SVar "header" "SignatureHeader";
      SAssign ["err"] [(ECall "decodeFromBytes" [(EAddr "header"); (EVar "headerBytes")])];
      SIf [] (EBin ONe "bool" (EVar "err") ENil)
      [SReturn [(EVar "err")]]
      [];
      SIf [SAssign ["err"] [(ECall "SignatureHeader.validate" [(EVar "header"); (EVar "versionValidator"); (EVar "msgType")])]] (EBin ONe "bool" (EVar "err") ENil)
      [SReturn [(EVar "err")]]
      [];
      SAssignL [(LField (LVar "v") "header")] [(EAddr "header")];
      SReturn [ENil]].

(* saltpack.verifyStream_processBlock, verify_stream.go *)
Definition f_saltpack_verifyStream_processBlock : gfunc := mkFunc "saltpack.verifyStream_processBlock" ["v"; "signature"; "payloadChunk"; "isFinal"; "seqno"] []
     [SReturn [(ECall "SigningPublicKey.Verify" [(ESel (EVar "v") "publicKey"); (ECall "attachedSignatureInput" [(ESel (ESel (EVar "v") "header") "Version"); (ESel (EVar "v") "headerHash"); (EVar "payloadChunk"); (EBin OSub "uint64" (EVar "seqno") (EInt (1))); (EVar "isFinal")]); (EVar "signature")])]].

(* basex.encoder_Write, stream.go *)
Definition f_basex_encoder_Write : gfunc := mkFunc "basex.encoder_Write" ["e"; "p"] [("n", "int"); ("err", "error")]
     [SIf [] (EBin ONe "bool" (ESel (EVar "e") "err") ENil)
      [SReturn [(EInt (0)); (ESel (EVar "e") "err")]]
      [];
      SAssign ["ibl"] [(ESel (ESel (EVar "e") "enc") "base256BlockLen")];
      SAssign ["obl"] [(ESel (ESel (EVar "e") "enc") "baseXBlockLen")];
      SIf [] (EBin OGt "bool" (ESel (EVar "e") "nbuf") (EInt (0)))
      [SVar "i" "int";
      SIf [SAssign ["i"] [(EInt (0))]] (EBool true) [SFor (EBin OAnd "bool" (EBin OLt "bool" (EVar "i") (ELen (EVar "p"))) (EBin OLt "bool" (ESel (EVar "e") "nbuf") (EVar "ibl")))
      ([SAssignL [(LIndex (LField (LVar "e") "buf") (ESel (EVar "e") "nbuf"))] [(EIdx (EVar "p") (EVar "i"))];
      SOpAssignL (LField (LVar "e") "nbuf") OAdd "int" (EInt 1)] ++ [SOpAssign "i" OAdd "int" (EInt 1)])] [];
      SOpAssign "n" OAdd "int" (EVar "i");
      SAssign ["p"] [(ESlice (EVar "p") (Some (EVar "i")) None)];
      SIf [] (EBin OLt "bool" (ESel (EVar "e") "nbuf") (EVar "ibl"))
      [SReturn [(EVar "n"); (EVar "err")]]
      [];
      SExpr (ECall "Encoding.Encode" [(ESel (EVar "e") "enc"); (ESel (EVar "e") "out"); (ESel (EVar "e") "buf")]);
      SIf [SAssignL [(LVar "_"); (LField (LVar "e") "err")] [(ECall "Writer.Write" [(ESel (EVar "e") "w"); (ESlice (ESel (EVar "e") "out") None (Some (EVar "obl")))])]] (EBin ONe "bool" (ESel (EVar "e") "err") ENil)
      [SReturn [(EVar "n"); (ESel (EVar "e") "err")]]
      [];
      SAssignL [(LField (LVar "e") "nbuf")] [(EInt (0))]]
      [];
      SFor (EBin OGe "bool" (ELen (EVar "p")) (EVar "ibl"))
      [SAssign ["nn"] [(EBin OMul "int" (EBin ODiv "int" (ELen (ESel (EVar "e") "out")) (EVar "obl")) (EVar "ibl"))];
      SIf [] (EBin OGt "bool" (EVar "nn") (ELen (EVar "p")))
      [SAssign ["nn"] [(ELen (EVar "p"))];
      SOpAssign "nn" OSub "int" (EBin OMod "int" (EVar "nn") (EVar "ibl"))]
      [];
      SExpr (ECall "Encoding.Encode" [(ESel (EVar "e") "enc"); (ESel (EVar "e") "out"); (ESlice (EVar "p") None (Some (EVar "nn")))]);
      SIf [SAssignL [(LVar "_"); (LField (LVar "e") "err")] [(ECall "Writer.Write" [(ESel (EVar "e") "w"); (ESlice (ESel (EVar "e") "out") (Some (EInt (0))) (Some (EBin OMul "int" (EBin ODiv "int" (EVar "nn") (EVar "ibl")) (EVar "obl"))))])]] (EBin ONe "bool" (ESel (EVar "e") "err") ENil)
      [SReturn [(EVar "n"); (ESel (EVar "e") "err")]]
      [];
      SOpAssign "n" OAdd "int" (EVar "nn");
      SAssign ["p"] [(ESlice (EVar "p") (Some (EVar "nn")) None)]];
      SExpr (ECall "copy" [(ESlice (ESel (EVar "e") "buf") (Some (EInt (0))) (Some (ELen (EVar "p")))); (EVar "p")]);
      SAssignL [(LField (LVar "e") "nbuf")] [(ELen (EVar "p"))];
      SOpAssign "n" OAdd "int" (ELen (EVar "p"));
      SReturn [(EVar "n"); (EVar "err")]].

(* basex.encoder_Close, stream.go *)
Definition f_basex_encoder_Close : gfunc := mkFunc "basex.encoder_Close" ["e"] []
     [SIf [] (EBin OAnd "bool" (EBin OEq "bool" (ESel (EVar "e") "err") ENil) (EBin OGt "bool" (ESel (EVar "e") "nbuf") (EInt (0))))
      [SExpr (ECall "Encoding.Encode" [(ESel (EVar "e") "enc"); (ESel (EVar "e") "out"); (ESlice (ESel (EVar "e") "buf") None (Some (ESel (EVar "e") "nbuf")))]);
      SAssignL [(LVar "_"); (LField (LVar "e") "err")] [(ECall "Writer.Write" [(ESel (EVar "e") "w"); (ESlice (ESel (EVar "e") "out") None (Some (ECall "Encoding.EncodedLen" [(ESel (EVar "e") "enc"); (ESel (EVar "e") "nbuf")])))])];
      SAssignL [(LField (LVar "e") "nbuf")] [(EInt (0))]]
      [];
      SReturn [(ESel (EVar "e") "err")]].

