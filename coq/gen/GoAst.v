(* GENERATED from /repo by harness/cmd/gen (goast.go) — do not edit.
   The bodies of the listed functions as terms of the deep embedding of model/GoLang.v. *)
From Coq Require Import List String ZArith.
From SP Require Import GoLang.
Import ListNotations.
Open Scope string_scope.
Open Scope Z_scope.

(* saltpack.IsSaltpackBinarySlice, classify_and_decrypt.go *)
Definition f_saltpack_IsSaltpackBinarySlice : gfunc := mkFunc "saltpack.IsSaltpackBinarySlice" ["b"] [("msgType", "int"); ("version", "Version"); ("err", "error")]
     [SIf [] (EBin OLt "bool" (ELen (EVar "b")) (EInt (23)))
      [SReturn [(EInt (-1)); (ELit "Version" []); (EErrVar "ErrShortSliceOrBuffer")]]
      [];
      SVar "binTagBytesToSkip" "int";
      SIf [] (EBin OEq "bool" (EIdx (EVar "b") (EInt (0))) (EInt (196)))
      [SAssign ["binTagBytesToSkip"] [(EInt (2))]]
      [SIf [] (EBin OEq "bool" (EIdx (EVar "b") (EInt (0))) (EInt (197)))
      [SAssign ["binTagBytesToSkip"] [(EInt (3))]]
      [SIf [] (EBin OEq "bool" (EIdx (EVar "b") (EInt (0))) (EInt (198)))
      [SAssign ["binTagBytesToSkip"] [(EInt (5))]]
      [SReturn [(EInt (-1)); (ELit "Version" []); (EErrVar "ErrNotASaltpackMessage")]]]];
      SAssign ["arrayTagByte"] [(EIdx (EVar "b") (EVar "binTagBytesToSkip"))];
      SVar "arrayTagBytesToSkip" "int";
      SIf [] (EBin OAnd "bool" (EBin OLe "bool" (EInt (147)) (EVar "arrayTagByte")) (EBin OLe "bool" (EVar "arrayTagByte") (EInt (159))))
      [SAssign ["arrayTagBytesToSkip"] [(EInt (1))]]
      [SIf [] (EBin OEq "bool" (EVar "arrayTagByte") (EInt (220)))
      [SAssign ["arrayTagBytesToSkip"] [(EInt (3))]]
      [SIf [] (EBin OEq "bool" (EVar "arrayTagByte") (EInt (221)))
      [SAssign ["arrayTagBytesToSkip"] [(EInt (5))]]
      [SReturn [(EInt (-1)); (ELit "Version" []); (EErrVar "ErrNotASaltpackMessage")]]]];
      SVar "mh" "MsgpackHandle";
      SAssign ["decoder"] [(ECall "codec.NewDecoderBytes" [(ESlice (EVar "b") (Some (EBin OAdd "int" (EVar "binTagBytesToSkip") (EVar "arrayTagBytesToSkip"))) None); (EAddr "mh")])];
      SVar "formatName" "string";
      SIf [SAssign ["err"] [(ECall "Decoder.Decode" [(EVar "decoder"); (EAddr "formatName")])]] (EBin ONe "bool" (EVar "err") ENil)
      [SReturn [(EInt (-1)); (ELit "Version" []); (EErrVar "ErrNotASaltpackMessage")]]
      [];
      SIf [] (EBin ONe "bool" (EVar "formatName") (EStr "saltpack"))
      [SReturn [(EInt (-1)); (ELit "Version" []); (EErrVar "ErrNotASaltpackMessage")]]
      [];
      SIf [SAssign ["err"] [(ECall "Decoder.Decode" [(EVar "decoder"); (EAddr "version")])]] (EBin ONe "bool" (EVar "err") ENil)
      [SReturn [(EInt (-1)); (ELit "Version" []); (EErrVar "ErrNotASaltpackMessage")]]
      [];
      SIf [SAssign ["err"] [(ECall "Decoder.Decode" [(EVar "decoder"); (EAddr "msgType")])]] (EBin ONe "bool" (EVar "err") ENil)
      [SReturn [(EInt (-1)); (ELit "Version" []); (EErrVar "ErrNotASaltpackMessage")]]
      [];
      SSwitch [] (Some (EVar "msgType"))
      [([(EInt (0)); (EInt (3)); (EInt (1)); (EInt (2))], [SReturn [(EVar "msgType"); (EVar "version"); ENil]])]
      (Some [SReturn [(EInt (-1)); (ELit "Version" []); (EErrVar "ErrNotASaltpackMessage")]])].

(* saltpack.CheckKnownMajorVersion, common.go *)
Definition f_saltpack_CheckKnownMajorVersion : gfunc := mkFunc "saltpack.CheckKnownMajorVersion" ["version"] []
     [SRange "_" "knownVersion" (ECall "KnownVersions" [])
      [SIf [] (EBin OEq "bool" (ESel (EVar "version") "Major") (ESel (EVar "knownVersion") "Major"))
      [SReturn [ENil]]
      []];
      SReturn [(ELit "ErrBadVersion" [("received", (EVar "version"))])]].

(* saltpack.checkChunkState, common.go *)
Definition f_saltpack_checkChunkState : gfunc := mkFunc "saltpack.checkChunkState" ["version"; "chunkLen"; "blockIndex"; "isFinal"] []
     [SSwitch [] (Some (ESel (EVar "version") "Major"))
      [([(EInt (1))], [SIf [] (EBin ONe "bool" (EBin OEq "bool" (EVar "chunkLen") (EInt (0))) (EVar "isFinal"))
      [SPanic (EStr "panic")]
      []]);
       ([(EInt (2))], [SIf [] (EBin OAnd "bool" (EBin OEq "bool" (EVar "chunkLen") (EInt (0))) (EBin OOr "bool" (EBin ONe "bool" (EVar "blockIndex") (EInt (0))) (ENot (EVar "isFinal"))))
      [SReturn [(EErrVar "ErrUnexpectedEmptyBlock")]]
      []])]
      (Some [SPanic (EStr "panic")]);
      SReturn [ENil]].

(* saltpack.checkDecodedChunkState, common.go *)
Definition f_saltpack_checkDecodedChunkState : gfunc := mkFunc "saltpack.checkDecodedChunkState" ["version"; "chunk"; "seqno"; "isFinal"] []
     [SReturn [(ECall "checkChunkState" [(EVar "version"); (ELen (EVar "chunk")); (EConv "uint64" (EBin OSub "uint64" (EVar "seqno") (EInt (1)))); (EVar "isFinal")])]].

(* saltpack.checkKnownVersion, encrypt.go *)
Definition f_saltpack_checkKnownVersion : gfunc := mkFunc "saltpack.checkKnownVersion" ["version"] []
     [SRange "_" "knownVersion" (ECall "KnownVersions" [])
      [SIf [] (EBin OEq "bool" (EVar "version") (EVar "knownVersion"))
      [SReturn [ENil]]
      []];
      SReturn [(ELit "ErrBadVersion" [("received", (EVar "version"))])]].

(* saltpack.EncryptionHeader_validate, packets.go *)
Definition f_saltpack_EncryptionHeader_validate : gfunc := mkFunc "saltpack.EncryptionHeader_validate" ["h"; "versionValidator"] []
     [SIf [] (EBin ONe "bool" (ESel (EVar "h") "FormatName") (EStr "saltpack"))
      [SReturn [(EErrVar "ErrNotASaltpackMessage")]]
      [];
      SIf [] (EBin ONe "bool" (ESel (EVar "h") "Type") (EInt (0)))
      [SReturn [(ELit "ErrWrongMessageType" [("Wanted", (EInt (0))); ("Received", (ESel (EVar "h") "Type"))])]]
      [];
      SReturn [(ECall "versionValidator" [(ESel (EVar "h") "Version")])]].

(* saltpack.SigncryptionHeader_validate, packets.go *)
Definition f_saltpack_SigncryptionHeader_validate : gfunc := mkFunc "saltpack.SigncryptionHeader_validate" ["h"] []
     [SIf [] (EBin ONe "bool" (ESel (EVar "h") "FormatName") (EStr "saltpack"))
      [SReturn [(EErrVar "ErrNotASaltpackMessage")]]
      [];
      SIf [] (EBin ONe "bool" (ESel (EVar "h") "Type") (EInt (3)))
      [SReturn [(ELit "ErrWrongMessageType" [("Wanted", (EInt (3))); ("Received", (ESel (EVar "h") "Type"))])]]
      [];
      SIf [] (EBin ONe "bool" (ESel (ESel (EVar "h") "Version") "Major") (ESel (ECall "Version2" []) "Major"))
      [SReturn [(ELit "ErrBadVersion" [("received", (ESel (EVar "h") "Version"))])]]
      [];
      SReturn [ENil]].

(* saltpack.SignatureHeader_validate, packets.go *)
Definition f_saltpack_SignatureHeader_validate : gfunc := mkFunc "saltpack.SignatureHeader_validate" ["h"; "versionValidator"; "msgType"] []
     [SIf [] (EBin ONe "bool" (ESel (EVar "h") "FormatName") (EStr "saltpack"))
      [SReturn [(EErrVar "ErrNotASaltpackMessage")]]
      [];
      SIf [SAssign ["err"] [(ECall "versionValidator" [(ESel (EVar "h") "Version")])]] (EBin ONe "bool" (EVar "err") ENil)
      [SReturn [(EVar "err")]]
      [];
      SIf [] (EBin ONe "bool" (ESel (EVar "h") "Type") (EVar "msgType"))
      [SReturn [(ELit "ErrWrongMessageType" [("Wanted", (EVar "msgType")); ("Received", (ESel (EVar "h") "Type"))])]]
      [];
      SIf [] (EBin OAnd "bool" (EBin ONe "bool" (EVar "msgType") (EInt (1))) (EBin ONe "bool" (EVar "msgType") (EInt (2))))
      [SReturn [(ELit "ErrInvalidParameter" [("message", (ECall "fmt.Sprintf" [(EStr "signature header must be MessageTypeAttachedSignature or MessageTypeDetachedSignature, not %d"); (EVar "msgType")]))])]]
      [];
      SReturn [ENil]].

(* saltpack.csprngUint32n, rand.go *)
Definition f_saltpack_csprngUint32n : gfunc := mkFunc "saltpack.csprngUint32n" ["csprng"; "n"] []
     [SAssign ["v"; "err"] [(ECall "csprngUint32" [(EVar "csprng")])];
      SIf [] (EBin ONe "bool" (EVar "err") ENil)
      [SReturn [(EInt (0)); (EVar "err")]]
      [];
      SAssign ["prod"] [(EBin OMul "uint64" (EConv "uint64" (EVar "v")) (EConv "uint64" (EVar "n")))];
      SAssign ["low"] [(EConv "uint32" (EVar "prod"))];
      SIf [] (EBin OLt "bool" (EVar "low") (EVar "n"))
      [SAssign ["thresh"] [(EBin OMod "uint32" (ENeg "uint32" (EVar "n")) (EVar "n"))];
      SFor (EBin OLt "bool" (EVar "low") (EVar "thresh"))
      [SAssign ["v"; "err"] [(ECall "csprngUint32" [(EVar "csprng")])];
      SIf [] (EBin ONe "bool" (EVar "err") ENil)
      [SReturn [(EInt (0)); (EVar "err")]]
      [];
      SAssign ["prod"] [(EBin OMul "uint64" (EConv "uint64" (EVar "v")) (EConv "uint64" (EVar "n")))];
      SAssign ["low"] [(EConv "uint32" (EVar "prod"))]]]
      [];
      SReturn [(EConv "uint32" (EBin OShr "uint64" (EVar "prod") (EInt (32)))); ENil]].

