(* Spec.v — the saltpack wire formats transcribed from /repo/specs/*.md ONLY
   (saltpack_encryption_v1/v2.md, saltpack_signcryption_v2.md,
   saltpack_signing_v1/v2.md).  Every constant below is a literal copied from the
   specification text; nothing is imported from coq/model except the byte-string
   helpers, the MessagePack codec model and the [crypto] record.
   The encoders are GENERAL: any chunk sizes, any minor version, extra trailing
   elements in header / recipient pairs / payload packets (reserved by the specs
   for forward compatibility), null or visible recipient ids. *)
From Coq Require Import List NArith ZArith Bool String.
From Coq.Strings Require Import Byte.
From SP Require Import Bytes Msgpack Crypto.
Import ListNotations.
Open Scope N_scope.

Definition lit (s : string) : bytes := bytes_of_string s.

(* literals of the specification text *)
Definition S_format_name : bytes := lit "saltpack".
Definition S_nonce_sender_key : bytes := lit "saltpack_sender_key_sbox".
Definition S_nonce_payload_key_v1 : bytes := lit "saltpack_payload_key_box".
Definition S_nonce_recip_prefix : bytes := lit "saltpack_recipsb".
Definition S_nonce_payload_prefix : bytes := lit "saltpack_ploadsb".
Definition S_nonce_derived : bytes := lit "saltpack_derived_sboxkey".
Definition S_attached_prefix : bytes := lit "saltpack attached signature" ++ [x00].
Definition S_detached_prefix : bytes := lit "saltpack detached signature" ++ [x00].
Definition S_encrypted_prefix : bytes := lit "saltpack encrypted signature" ++ [x00].
Definition S_box_id_key : bytes := lit "saltpack signcryption box key identifier".
Definition S_sym_key_key : bytes := lit "saltpack signcryption derived symmetric key".
Definition S_mode_encryption : Z := 0.
Definition S_mode_attached : Z := 1.
Definition S_mode_detached : Z := 2.
Definition S_mode_signcryption : Z := 3.
Definition S_max_chunk : nat := Z.to_nat 1048576.     (* 1 MiB = 2^20 bytes *)

Section S.
Variable c : crypto.

Definition S_box (sk pk nonce msg : bytes) : bytes := sb_seal c (dh_shared c sk pk) nonce msg.
(* "the last 32 bytes of the box" of 32 zero bytes (16-byte authenticator + 32) *)
Definition S_box_zeros_last32 (sk pk nonce : bytes) : bytes := skipn 16 (S_box sk pk nonce (zeros 32)).
Definition S_final_byte (f : bool) : bytes := [if f then x01 else x00].

Fixpoint S_mapi {A B} (f : N -> A -> B) (i : N) (l : list A) : list B :=
  match l with [] => [] | x :: t => f i x :: S_mapi f (i + 1) t end.

(* clear / set the least significant bit of byte 15 of the first 16 bytes of the header hash, then the 8-byte index *)
Definition S_hash_nonce (hh : bytes) (flag : bool) (i : N) : bytes :=
  firstn 15 hh ++ [n2b ((b2n (nth 15 hh x00) / 2) * 2 + (if flag then 1 else 0))] ++ be64 i.

(* ---------- encryption (v1 and v2) ---------- *)

Record S_enc := mkSEnc {
  se_major : Z; se_minor : Z;
  se_sender : option bytes;              (* long-term secret key; None: the ephemeral key is reused *)
  se_eph : bytes; se_pkey : bytes;
  se_rcpts : list (bytes * bool);        (* public key, anonymous? *)
  se_chunks : list bytes;                (* the sender's chunking (V1: without the terminating empty chunk) *)
  se_extra_hdr : list mval; se_extra_rcpt : list mval; se_extra_pkt : list mval
}.

Definition S_payload_key_nonce (major : Z) (i : N) : bytes :=
  if (major =? 1)%Z then S_nonce_payload_key_v1 else S_nonce_recip_prefix ++ be64 i.

Definition S_enc_header_list (p : S_enc) : mval :=
  let ssk := match se_sender p with Some s => s | None => se_eph p end in
  MArr ([MStr S_format_name;
         MArr [MInt (se_major p); MInt (se_minor p)];
         MInt S_mode_encryption;
         MBin (dh_pub c (se_eph p));
         MBin (sb_seal c (se_pkey p) S_nonce_sender_key (dh_pub c ssk));
         MArr (S_mapi (fun (i : N) (r : bytes * bool) =>
                 MArr ([if snd r then MNil else MBin (fst r);
                        MBin (S_box (se_eph p) (fst r) (S_payload_key_nonce (se_major p) i) (se_pkey p))]
                       ++ se_extra_rcpt p)) 0 (se_rcpts p))]
        ++ se_extra_hdr p).

Definition S_mac_key (p : S_enc) (hh : bytes) (i : N) (rpk : bytes) : bytes :=
  let ssk := match se_sender p with Some s => s | None => se_eph p end in
  if (se_major p =? 1)%Z then S_box_zeros_last32 ssk rpk (firstn 24 hh)
  else firstn 32 (sha512 c (S_box_zeros_last32 ssk rpk (S_hash_nonce hh false i) ++
                            S_box_zeros_last32 (se_eph p) rpk (S_hash_nonce hh true i))).

(* the (chunk, final) packets: V1 appends the empty terminator; V2 flags the last chunk *)
Fixpoint S_flag_last (l : list bytes) : list (bytes * bool) :=
  match l with [] => [] | [x] => [(x, true)] | x :: t => (x, false) :: S_flag_last t end.
Definition S_packets (major : Z) (chunks : list bytes) : list (bytes * bool) :=
  if (major =? 1)%Z then map (fun ch => (ch, false)) chunks ++ [([], true)] else S_flag_last chunks.

Fixpoint S_enc_packets (p : S_enc) (hh : bytes) (n : N) (ps : list (bytes * bool)) : bytes :=
  match ps with
  | [] => []
  | (chunk, final) :: t =>
    let nonce := S_nonce_payload_prefix ++ be64 n in
    let ct := sb_seal c (se_pkey p) nonce chunk in
    let ph := if (se_major p =? 1)%Z then sha512 c (hh ++ nonce ++ ct)
              else sha512 c (hh ++ nonce ++ S_final_byte final ++ ct) in
    let auths := MArr (S_mapi (fun (i : N) (r : bytes * bool) => MBin (firstn 32 (hmac512 c (S_mac_key p hh i (fst r)) ph))) 0 (se_rcpts p)) in
    mp_encode (MArr ((if (se_major p =? 1)%Z then [auths; MBin ct] else [MBool final; auths; MBin ct]) ++ se_extra_pkt p))
    ++ S_enc_packets p hh (n + 1) t
  end.

Definition S_encode_encryption (p : S_enc) : bytes :=
  let hdr := mp_encode (S_enc_header_list p) in
  mp_encode (MBin hdr) ++ S_enc_packets p (sha512 c hdr) 0 (S_packets (se_major p) (se_chunks p)).

(* ---------- signing (attached and detached, v1 and v2) ---------- *)

Record S_sig := mkSSig {
  ss_major : Z; ss_minor : Z; ss_sk : bytes; ss_nonce : bytes;
  ss_chunks : list bytes;                (* attached: the chunking (V1 without the terminator) *)
  ss_msg : bytes;                        (* detached: the whole message *)
  ss_extra_hdr : list mval; ss_extra_pkt : list mval
}.

Definition S_sig_header_list (p : S_sig) (mode : Z) : mval :=
  MArr ([MStr S_format_name; MArr [MInt (ss_major p); MInt (ss_minor p)]; MInt mode;
         MBin (ed_pub c (ss_sk p)); MBin (ss_nonce p)] ++ ss_extra_hdr p).

Fixpoint S_sig_packets (p : S_sig) (hh : bytes) (n : N) (ps : list (bytes * bool)) : bytes :=
  match ps with
  | [] => []
  | (chunk, final) :: t =>
    let h := if (ss_major p =? 1)%Z then sha512 c (hh ++ be64 n ++ chunk)
             else sha512 c (hh ++ be64 n ++ S_final_byte final ++ chunk) in
    let sig := ed_sign c (ss_sk p) (S_attached_prefix ++ h) in
    mp_encode (MArr ((if (ss_major p =? 1)%Z then [MBin sig; MBin chunk] else [MBool final; MBin sig; MBin chunk])
                     ++ ss_extra_pkt p))
    ++ S_sig_packets p hh (n + 1) t
  end.

Definition S_encode_attached (p : S_sig) : bytes :=
  let hdr := mp_encode (S_sig_header_list p S_mode_attached) in
  mp_encode (MBin hdr) ++ S_sig_packets p (sha512 c hdr) 0 (S_packets (ss_major p) (ss_chunks p)).

Definition S_encode_detached (p : S_sig) : bytes :=
  let hdr := mp_encode (S_sig_header_list p S_mode_detached) in
  mp_encode (MBin hdr) ++
  mp_encode (MBin (ed_sign c (ss_sk p) (S_detached_prefix ++ sha512 c (sha512 c hdr ++ ss_msg p)))).

(* ---------- signcryption (v2) ---------- *)

Inductive S_sc_rcpt := S_BoxR (pk : bytes) | S_SymR (key ident : bytes).

Record S_sc := mkSSc {
  sc_minor : Z; sc_signer : option bytes; sc_eph : bytes; sc_pkey : bytes;
  sc_rcpts : list S_sc_rcpt; sc_chunks : list bytes;
  sc_extra_hdr : list mval; sc_extra_rcpt : list mval; sc_extra_pkt : list mval
}.

Definition S_sc_entry (p : S_sc) (i : N) (r : S_sc_rcpt) : mval :=
  let nonce := S_nonce_recip_prefix ++ be64 i in
  match r with
  | S_BoxR pk =>
    let d := S_box_zeros_last32 (sc_eph p) pk S_nonce_derived in
    MArr ([MBin (firstn 32 (hmac512 c S_box_id_key (d ++ nonce))); MBin (sb_seal c d nonce (sc_pkey p))] ++ sc_extra_rcpt p)
  | S_SymR key ident =>
    let d := firstn 32 (hmac512 c S_sym_key_key (dh_pub c (sc_eph p) ++ key)) in
    MArr ([MBin ident; MBin (sb_seal c d nonce (sc_pkey p))] ++ sc_extra_rcpt p)
  end.

Definition S_sc_header_list (p : S_sc) : mval :=
  MArr ([MStr S_format_name; MArr [MInt 2; MInt (sc_minor p)]; MInt S_mode_signcryption;
         MBin (dh_pub c (sc_eph p));
         MBin (sb_seal c (sc_pkey p) S_nonce_sender_key
                 (match sc_signer p with Some s => ed_pub c s | None => zeros 32 end));
         MArr (S_mapi (S_sc_entry p) 0 (sc_rcpts p))] ++ sc_extra_hdr p).

Fixpoint S_sc_packets (p : S_sc) (hh : bytes) (n : N) (ps : list (bytes * bool)) : bytes :=
  match ps with
  | [] => []
  | (chunk, final) :: t =>
    let nonce := S_hash_nonce hh final n in
    let sig := match sc_signer p with
               | None => zeros 64
               | Some s => ed_sign c s (S_encrypted_prefix ++ hh ++ nonce ++ S_final_byte final ++ sha512 c chunk)
               end in
    mp_encode (MArr ([MBin (sb_seal c (sc_pkey p) nonce (sig ++ chunk)); MBool final] ++ sc_extra_pkt p))
    ++ S_sc_packets p hh (n + 1) t
  end.

Definition S_encode_signcryption (p : S_sc) : bytes :=
  let hdr := mp_encode (S_sc_header_list p) in
  mp_encode (MBin hdr) ++ S_sc_packets p (sha512 c hdr) 0 (S_flag_last (sc_chunks p)).

End S.

(* ---------- what a spec-following sender may choose ---------- *)

(* chunks of 1 byte .. 1 MiB; an empty message is the single empty chunk in V2 and no chunk in V1 *)
Definition S_chunks_ok (major : Z) (chunks : list bytes) : Prop :=
  (if (major =? 1)%Z then Forall (fun ch => (1 <= List.length ch <= S_max_chunk)%nat) chunks
   else chunks = [[]] \/ (chunks <> [] /\ Forall (fun ch => (1 <= List.length ch <= S_max_chunk)%nat) chunks)).
