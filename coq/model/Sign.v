(* Sign.v — model of /repo/sign.go and /repo/sign_stream.go. *)
From Coq Require Import List NArith ZArith Bool.
From Coq.Strings Require Import Byte.
From SP Require Import Bytes Params Msgpack Crypto Errors Nonce Packets Chunker Rand.
Import ListNotations.
Open Scope N_scope.

Section C.
Variable c : crypto.

(* newSignatureHeader + encodeToBytes: reads the 16-byte nonce from the randomness source *)
Definition sig_header_bytes (v : version) (typ : Z) (pk nonce : bytes) : bytes :=
  mp_encode (mv_sig_header v typ pk nonce).

(* signBlock for packets seqno, seqno+1, ... *)
Fixpoint sign_packets (v : version) (sk hh : bytes) (seqno : N) (ps : list (bytes * bool)) : result bytes :=
  match ps with
  | [] => Ok []
  | (chunk, final) :: t =>
    match attached_sig_input c v hh chunk seqno final with
    | None => Err (Panic 3)
    | Some inp =>
      let sig := ed_sign c sk inp in
      match check_chunk_state v (length chunk) seqno final with
      | Err e => Err (Panic 4)      (* assertEncodedChunkState panics on any error *)
      | Ok _ =>
        bind (sign_packets v sk hh (seqno + 1) t) (fun rest =>
        Ok (mp_encode (mv_sig_block v sig (MBin chunk) final) ++ rest))
      end
    end
  end.

(* the bytes written by a whole attached-signature session whose Write calls were [pieces] *)
Definition sign_attached_stream (v : version) (sk : bytes) (pieces : list bytes) (r : rng)
  : result (bytes * rng) :=
  if negb (known_version v) then Err ErrBadVersion
  else
    match read_full 16 r with
    | None => Err ErrRand
    | Some (nonce, r') =>
      let hdr := sig_header_bytes v mt_attached (ed_pub c sk) nonce in
      let hh := sha512 c hdr in
      bind (sign_packets v sk hh 0 (cw_session v sig_block_size [] pieces)) (fun body =>
      Ok (mp_encode (MBin hdr) ++ body, r'))
    end.

(* Sign *)
Definition sign_attached (v : version) (sk msg : bytes) (r : rng) : result (bytes * rng) :=
  sign_attached_stream v sk [msg] r.

(* SignDetached / NewSignDetachedStream: the hash is a fold over the pieces *)
Definition sign_detached (v : version) (sk msg : bytes) (r : rng) : result (bytes * rng) :=
  if negb (known_version v) then Err ErrBadVersion
  else
    match read_full 16 r with
    | None => Err ErrRand
    | Some (nonce, r') =>
      let hdr := sig_header_bytes v mt_detached (ed_pub c sk) nonce in
      let hh := sha512 c hdr in
      let sig := ed_sign c sk (detached_sig_input c hh msg) in
      Ok (mp_encode (MBin hdr) ++ mp_encode (MBin sig), r')
    end.

End C.
