(* Streams.v — the streaming adaptors as explicit state machines over explicit
   read/write schedules (models of /repo/chunk_reader.go, /repo/punctuated_reader.go,
   the encoder of /repo/encoding/basex/stream.go and armorEncoderStream of
   /repo/armor.go).  A Go method that mutates its receiver is a function returning
   the new state; an underlying io.Reader is a list of segments it will return
   (each possibly together with an error); an underlying io.Writer is the list of
   Write calls it receives. *)
From Coq Require Import List NArith ZArith Bool.
From Coq.Strings Require Import Byte.
From SP Require Import Bytes Consts Params Errors BaseX Encodings Armor.
Import ListNotations.

(* ---------- an underlying reader ---------- *)

(* one planned result of the underlying reader: some bytes, possibly with an error
   delivered together with the last of them (e.g. data-with-EOF) *)
Record seg := mkSeg { seg_data : bytes; seg_err : option err }.

(* remaining planned results, and the (sticky) error returned once they are used up *)
Record source := mkSource { src_segs : list seg; src_final : err }.

(* Read(p) with len(p) = n > 0 *)
Definition src_read (n : nat) (s : source) : (bytes * option err) * source :=
  match src_segs s with
  | [] => (([], Some (src_final s)), s)
  | sg :: t =>
    if Nat.leb (length (seg_data sg)) n then
      match seg_err sg with
      | None => ((seg_data sg, None), mkSource t (src_final s))
      | Some e => ((seg_data sg, Some e), mkSource [] e)       (* an error delivered with data persists *)
      end
    else ((firstn n (seg_data sg), None), mkSource (mkSeg (skipn n (seg_data sg)) (seg_err sg) :: t) (src_final s))
  end.

(* what the source denotes: all its bytes in order and the error that ends it *)
Fixpoint src_bytes (l : list seg) : bytes * option err :=
  match l with
  | [] => ([], None)
  | sg :: t =>
    match seg_err sg with
    | Some e => (seg_data sg, Some e)
    | None => let (d, e) := src_bytes t in (seg_data sg ++ d, e)
    end
  end.
Definition src_denote (s : source) : bytes * err :=
  let (d, e) := src_bytes (src_segs s) in (d, match e with Some e' => e' | None => src_final s end).

(* ---------- punctuatedReader (with the deferred-error field) ---------- *)

Record pr_state := mkPr {
  pr_src : source;
  pr_next : bytes;          (* nextSegment: bytes after a punctuation mark, not yet scanned for the next one *)
  pr_this : bytes;          (* thisSegment: rest of the current segment that did not fit the caller's buffer *)
  pr_this_punct : bool;     (* errThisSegment = ErrPunctuated *)
  pr_err : option err       (* an error of the underlying reader that arrived together with data *)
}.

Definition pr_init (s : source) : pr_state := mkPr s [] [] false None.

Inductive pr_result := PrData (d : bytes) | PrPunct (d : bytes) | PrErr (d : bytes) (e : err).

(* scan src for the punctuation mark *)
Definition pr_scan (src : bytes) : bytes * option bytes :=
  match split_dot src with
  | Some (a, r) => (a, Some r)
  | None => (src, None)
  end.

(* Read(out) with len(out) = n > 0 *)
Definition pr_read (n : nat) (st : pr_state) : pr_result * pr_state :=
  match pr_this st with
  | _ :: _ =>
    let d := firstn n (pr_this st) in
    let r := skipn n (pr_this st) in
    match r with
    | [] => ((if pr_this_punct st then PrPunct d else PrData d),
             mkPr (pr_src st) (pr_next st) [] false (pr_err st))
    | _ => (PrData d, mkPr (pr_src st) (pr_next st) r (pr_this_punct st) (pr_err st))
    end
  | [] =>
    match pr_next st with
    | _ :: _ =>
      (* a buffered segment: scan it, hand out what fits *)
      let (a, rest) := pr_scan (pr_next st) in
      let nxt := match rest with Some r => r | None => [] end in
      let punct := match rest with Some _ => true | None => false end in
      let d := firstn n a in
      let r := skipn n a in
      match r with
      | [] => ((if punct then PrPunct d else PrData d), mkPr (pr_src st) nxt [] false (pr_err st))
      | _ => (PrData d, mkPr (pr_src st) nxt r punct (pr_err st))
      end
    | [] =>
      match pr_err st with
      | Some e => (PrErr [] e, st)
      | None =>
        let '((data, e), s') := src_read n (pr_src st) in
        match data, e with
        | [], Some e' => (PrErr [] e', mkPr s' [] [] false None)
        | _, _ =>
          let (a, rest) := pr_scan data in
          let nxt := match rest with Some r => r | None => [] end in
          ((match rest with Some _ => PrPunct a | None => PrData a end), mkPr s' nxt [] false e)
        end
      end
    end
  end.

(* ReadUntilPunctuation(lim) with the internal 4096-byte buffer; fuel bounds the number of reads *)
Fixpoint pr_read_until (fuel : nat) (lim : nat) (st : pr_state) (acc : bytes) : result bytes * pr_state :=
  match fuel with
  | O => (Err Unmodelled, st)
  | S f =>
    match pr_read 4096 st with
    | (PrData d, st') =>
      let acc' := acc ++ d in
      if Nat.leb lim (length acc') then (Err ErrOverflow, st')
      else match d with
           | [] => (Err ErrUnexpectedEOF, st')
           | _ => pr_read_until f lim st' acc'
           end
    | (PrPunct d, st') =>
      let acc' := acc ++ d in
      if Nat.leb lim (length acc') then (Err ErrOverflow, st') else (Ok acc', st')
    | (PrErr _ e, st') => (Err (match e with EOF => ErrUnexpectedEOF | e' => e' end), st')
    end
  end.

(* the sentence structure a byte string denotes: pieces between punctuation marks *)
Fixpoint sentences (fuel : nat) (l : bytes) : list bytes :=
  match fuel with
  | O => [l]
  | S f => match split_dot l with
           | Some (a, r) => a :: sentences f r
           | None => [l]
           end
  end.

(* drain a punctuated reader with the given buffer sizes: the pieces delivered, cut at punctuation *)
Fixpoint pr_drain (sizes : list nat) (st : pr_state) (cur : bytes) (done : list bytes) : list bytes * bytes * option err :=
  match sizes with
  | [] => (rev done, cur, None)
  | n :: t =>
    match pr_read n st with
    | (PrData d, st') => pr_drain t st' (cur ++ d) done
    | (PrPunct d, st') => pr_drain t st' [] ((cur ++ d) :: done)
    | (PrErr d e, _) => (rev done, cur ++ d, Some e)
    end
  end.

(* ---------- chunkReader ---------- *)

(* the chunker is abstracted as the list of (chunk, error) results getNextChunk will return;
   the list ends with a result carrying an error *)
Record cr_state := mkCr { cr_prev : bytes; cr_err : option err; cr_pending : list (bytes * option err) }.

(* Read(p) with len(p) = n > 0; fuel bounds the inner loop *)
Fixpoint cr_read (fuel : nat) (n : nat) (st : cr_state) (out : bytes) : (bytes * option err) * cr_state :=
  match fuel with
  | O => ((out, Some Unmodelled), st)
  | S f =>
    let room := (n - length out)%nat in
    let copied := firstn room (cr_prev st) in
    let rest := skipn room (cr_prev st) in
    let out' := out ++ copied in
    match rest with
    | _ :: _ => ((out', None), mkCr rest (cr_err st) (cr_pending st))
    | [] =>
      match cr_err st with
      | Some e => ((out', Some e), mkCr [] (Some e) (cr_pending st))
      | None =>
        match cr_pending st with
        | [] => ((out', Some (Panic 11)), mkCr [] None [])          (* cannot happen: the list ends with an error *)
        | (ch, e) :: t =>
          match ch, e with
          | [], None => ((out', Some (Panic 12)), mkCr [] None t)   (* "empty chunk and nil error" *)
          | _, _ => cr_read f n (mkCr ch e t) out'
          end
        end
      end
    end
  end.

Fixpoint cr_drain (sizes : list nat) (st : cr_state) (acc : bytes) : bytes * option err :=
  match sizes with
  | [] => (acc, None)
  | n :: t =>
    match cr_read (S (S (length (cr_pending st)))) n st [] with
    | ((d, None), st') => cr_drain t st' (acc ++ d)
    | ((d, Some e), _) => (acc ++ d, Some e)
    end
  end.

(* what the chunk list denotes *)
Fixpoint chunks_denote (l : list (bytes * option err)) : bytes * option err :=
  match l with
  | [] => ([], None)
  | (ch, Some e) :: _ => (ch, Some e)
  | (ch, None) :: t => let (d, e) := chunks_denote t in (ch ++ d, e)
  end.

(* ---------- basex stream encoder ---------- *)

Section BX.
Variable e : encoding.
Let ibl := N.to_nat (enc_ibl e).

(* state: the buffered bytes (fewer than ibl) ; result: the underlying Write calls made *)
Definition bxe_write (buf p : bytes) : list bytes * bytes :=
  let '(w1, p1, buf1) :=
    match buf with
    | [] => ([], p, [])
    | _ =>
      let need := (ibl - length buf)%nat in
      let filled := buf ++ firstn need p in
      if Nat.ltb (length filled) ibl then ([], [], filled)
      else ([BaseX.encode e filled], skipn need p, [])
    end in
  match buf1 with
  | _ :: _ => (w1, buf1)
  | [] =>
    let whole := ((length p1 / ibl) * ibl)%nat in
    match whole with
    | O => (w1, p1)
    | _ => (w1 ++ [BaseX.encode e (firstn whole p1)], skipn whole p1)
    end
  end.

Definition bxe_close (buf : bytes) : list bytes :=
  match buf with [] => [] | _ => [BaseX.encode e buf] end.

Fixpoint bxe_session (buf : bytes) (pieces : list bytes) : list bytes :=
  match pieces with
  | [] => bxe_close buf
  | p :: t => let (ws, buf') := bxe_write buf p in ws ++ bxe_session buf' t
  end.
End BX.

(* ---------- armor stream encoder ---------- *)

(* state: basex buffer, pending encoded characters, number of words emitted *)
Record ae_state := mkAe { ae_bx : bytes; ae_chars : bytes; ae_words : N }.

Definition ae_sep (k : N) : byte := if (k mod words_per_line =? 0)%N then x0a else sp.

(* spaceAndOutputBuffer: emit full words while more than 15 characters are pending *)
Fixpoint ae_space (fuel : nat) (chars : bytes) (k : N) (acc : bytes) : bytes * bytes * N :=
  match fuel with
  | O => (acc, chars, k)
  | S f =>
    if Nat.ltb bytes_per_word (length chars) then
      let (w, r) := split_at bytes_per_word chars in
      ae_space f r (k + 1)%N (acc ++ w ++ [ae_sep (k + 1)%N])
    else (acc, chars, k)
  end.

Definition ae_write (st : ae_state) (p : bytes) : bytes * ae_state :=
  let (ws, bx') := bxe_write base62 (ae_bx st) p in
  let chars := ae_chars st ++ concat ws in
  let '(out, rest, k) := ae_space (length chars) chars (ae_words st) [] in
  (out, mkAe bx' rest k).

Definition ae_close (st : ae_state) (footer : bytes) : bytes :=
  let chars := ae_chars st ++ concat (bxe_close base62 (ae_bx st)) in
  let '(out, lst, k) := ae_space (length chars) chars (ae_words st) [] in
  out ++ lst ++
  (if Nat.eqb (length lst) bytes_per_word then [ae_sep (k + 1)%N] else []) ++
  [dot; sp] ++ footer ++ [dot; x0a].

Fixpoint ae_session (st : ae_state) (pieces : list bytes) (footer : bytes) : bytes :=
  match pieces with
  | [] => ae_close st footer
  | p :: t => let (o, st') := ae_write st p in o ++ ae_session st' t footer
  end.

(* NewArmor62EncoderStream + Write* + Close *)
Definition armor_stream (header footer : bytes) (pieces : list bytes) : bytes :=
  header ++ [dot; sp] ++ ae_session (mkAe [] [] 0) pieces footer.
