(* Crypto.v — the cryptographic primitives as an ordinary record argument.
   Nothing here is an axiom: every model function and theorem quantifies over
   an arbitrary [c : crypto].  [crypto_ok] collects the functional-correctness
   facts of NaCl that round-trip theorems take as a hypothesis. *)
From Coq Require Import List NArith Bool.
From Coq.Strings Require Import Byte.
From SP Require Import Bytes.
Import ListNotations.

Record crypto := mkCrypto {
  sha512 : bytes -> bytes;
  hmac512 : bytes -> bytes -> bytes;                   (* key, message: HMAC-SHA512 *)
  sb_seal : bytes -> bytes -> bytes -> bytes;          (* key, nonce, message: secretbox.Seal *)
  sb_open : bytes -> bytes -> bytes -> option bytes;   (* key, nonce, box: secretbox.Open *)
  dh_pub : bytes -> bytes;                             (* box secret key -> public key *)
  dh_shared : bytes -> bytes -> bytes;                 (* own secret, peer public: box.Precompute *)
  ed_pub : bytes -> bytes;                             (* signing secret key -> public key *)
  ed_sign : bytes -> bytes -> bytes;                   (* secret, message *)
  ed_verify : bytes -> bytes -> bytes -> bool          (* public, message, signature *)
}.

Section C.
Variable c : crypto.

(* NaCl box = secretbox under the precomputed shared key *)
Definition box_seal (sk pk nonce msg : bytes) : bytes := sb_seal c (dh_shared c sk pk) nonce msg.
Definition box_open (sk pk nonce box : bytes) : option bytes := sb_open c (dh_shared c sk pk) nonce box.

Record crypto_ok : Prop := {
  ok_sb : forall k n m, sb_open c k n (sb_seal c k n m) = Some m;
  ok_sb_len : forall k n m, length (sb_seal c k n m) = (16 + length m)%nat;
  ok_dh : forall a b, dh_shared c a (dh_pub c b) = dh_shared c b (dh_pub c a);
  ok_ed : forall s m, ed_verify c (ed_pub c s) m (ed_sign c s m) = true;
  ok_sha_len : forall x, length (sha512 c x) = 64%nat;
  ok_hmac_len : forall k x, length (hmac512 c k x) = 64%nat;
  ok_sig_len : forall s m, length (ed_sign c s m) = 64%nat;
  ok_dh_pub_len : forall s, length (dh_pub c s) = 32%nat;
  ok_ed_pub_len : forall s, length (ed_pub c s) = 32%nat
}.
End C.
