(* GoLang2.v — the evaluator for the extended Go subset: everything GoLang.exec does, plus
   assignments to struct fields / elements / map entries, `v, ok := m[k]`, break and
   continue, and the final environment of a call (so that the state a pointer-receiver
   method leaves in its receiver can be read back).  Expressions are evaluated by
   GoLang.eval.  Used for the stateful functions (header processing, stream plumbing);
   the theorems about them are in proofs/GoAstProofs3.v. *)
From Coq Require Import List String ZArith Bool.
From Coq.Strings Require Import Byte.
From SP Require Import GoLang.
Import ListNotations.
Local Open Scope string_scope.

(* how a block ends *)
Inductive ctl :=
| CNorm (e : env)                       (* fell through *)
| CRet (vs : list gval) (e : env)       (* return, with the environment at that point *)
| CBrk (e : env)
| CCont (e : env)
| CPanic
| CStuck (why : string).

(* functional update of the places inside a value *)
Fixpoint set_field (fs : list (string * gval)) (f : string) (v : gval) : list (string * gval) :=
  match fs with
  | [] => [(f, v)]
  | (g, w) :: t => if String.eqb f g then (g, v) :: t else (g, w) :: set_field t f v
  end.

Fixpoint set_nth_val (l : list gval) (n : nat) (v : gval) : option (list gval) :=
  match l, n with
  | [], _ => None
  | _ :: t, O => Some (v :: t)
  | x :: t, S n' => match set_nth_val t n' v with Some t' => Some (x :: t') | None => None end
  end.

Fixpoint map_set (m : list gval) (k v : gval) : option (list gval) :=
  match m with
  | [] => Some [VList [k; v]]
  | VList [k0; v0] :: t =>
    match val_eqb 8 k0 k with
    | Some true => Some (VList [k0; v] :: t)
    | Some false => match map_set t k v with Some t' => Some (VList [k0; v0] :: t') | None => None end
    | None => None
    end
  | _ => None
  end.

Section Eval2.
Variable ext : externs.

(* read a place *)
Fixpoint lv_get (e : env) (l : glval) : option gval :=
  match l with
  | LVar x => lookup x e
  | LField l' f =>
    match lv_get e l' with
    | Some (VStruct fs) => lookup f fs
    | _ => None
    end
  | LIndex l' i =>
    match lv_get e l', eval ext 64 e i with
    | Some (VList vs), Some (VInt n) => if Z.ltb n 0 then None else nth_error vs (Z.to_nat n)
    | Some (VBytes b), Some (VInt n) =>
      if Z.ltb n 0 then None else match nth_error b (Z.to_nat n) with Some c => Some (VInt (Z.of_N (Byte.to_N c))) | None => None end
    | _, _ => None
    end
  | LMapIndex l' k =>
    match lv_get e l', eval ext 64 e k with
    | Some (VList m), Some kv =>
      (fix find (l0 : list gval) : option gval :=
         match l0 with
         | [] => Some VNil
         | VList [k0; v0] :: t => match val_eqb 8 k0 kv with Some true => Some v0 | Some false => find t | None => None end
         | _ => None
         end) m
    | _, _ => None
    end
  end.

(* write a place; a field of a nil struct starts a fresh struct *)
Fixpoint lv_set (e : env) (l : glval) (v : gval) : option env :=
  match l with
  | LVar x => if String.eqb x "_" then Some e else Some (update x v e)
  | LField l' f =>
    match lv_get e l' with
    | Some (VStruct fs) => lv_set e l' (VStruct (set_field fs f v))
    | Some VNil => lv_set e l' (VStruct [(f, v)])
    | _ => None
    end
  | LIndex l' i =>
    match lv_get e l', eval ext 64 e i with
    | Some (VList vs), Some (VInt n) =>
      if Z.ltb n 0 then None
      else match set_nth_val vs (Z.to_nat n) v with Some vs' => lv_set e l' (VList vs') | None => None end
    | Some (VBytes b), Some (VInt n) =>
      match v with
      | VInt z =>
        if (Z.ltb n 0 || Z.leb (Z.of_nat (List.length b)) n)%bool then None
        else let c := match Byte.of_N (Z.to_N (Z.modulo z 256)) with Some c => c | None => x00 end in
             lv_set e l' (VBytes (firstn (Z.to_nat n) b ++ c :: skipn (S (Z.to_nat n)) b)%list)
      | _ => None
      end
    | _, _ => None
    end
  | LMapIndex l' k =>
    match lv_get e l', eval ext 64 e k with
    | Some (VList m), Some kv => match map_set m kv v with Some m' => lv_set e l' (VList m') | None => None end
    | _, _ => None
    end
  end.

Fixpoint lv_set_all (ls : list glval) (vs : list gval) (e : env) : option env :=
  match ls, vs with
  | [], [] => Some e
  | l :: lt, v :: vt => match lv_set e l v with Some e' => lv_set_all lt vt e' | None => None end
  | _, _ => None
  end.

(* an argument expression that denotes a place (receiver, &x, x.f) can be written back to *)
Fixpoint expr_lval (x : gexpr) : option glval :=
  match x with
  | EVar v => Some (LVar v)
  | EAddr v => Some (LVar v)
  | ESel a f => match expr_lval a with Some l => Some (LField l f) | None => None end
  | _ => None
  end.

Fixpoint mutable_places (args : list gexpr) : list glval :=
  match args with
  | [] => []
  | a :: t => match expr_lval a with Some l => l :: mutable_places t | None => mutable_places t end
  end.

Fixpoint write_back2 (ls : list glval) (vs : list gval) (e : env) : option env :=
  match vs, ls with
  | [], _ => Some e
  | v :: vt, l :: lt => match lv_set e l v with Some e' => write_back2 lt vt e' | None => None end
  | _ :: _, [] => None
  end.

Fixpoint eval_all (e : env) (l : list gexpr) : option (list gval) :=
  match l with
  | [] => Some []
  | a :: t => match eval ext 64 e a, eval_all e t with Some v, Some vs => Some (v :: vs) | _, _ => None end
  end.

(* results of an external call: the first |lhs| go to the targets, the rest are written back to
   the argument places in order (receiver state, out-parameters) *)
Definition call_assign (lhs : list glval) (fn : string) (args : list gexpr) (e : env) : option env :=
  match eval_all e args with
  | Some vs =>
    match ext fn vs with
    | Some rs =>
      (* the callee's effects on its arguments happen during the call, the results are stored afterwards *)
      match write_back2 (mutable_places args) (skipn (List.length lhs) rs) e with
      | Some e1 => lv_set_all lhs (firstn (List.length lhs) rs) e1
      | None => None
      end
    | None => None
    end
  | None => None
  end.

Definition lvars (xs : list string) : list glval := map LVar xs.

Fixpoint exec2 (fuel : nat) (e : env) (ss : list gstmt) {struct fuel} : ctl :=
  match fuel with
  | O => CStuck "fuel"
  | S f =>
    match ss with
    | [] => CNorm e
    | s :: rest =>
      let next (r : ctl) : ctl := match r with CNorm e' => exec2 f e' rest | other => other end in
      match s with
      | SReturn es => match eval_all e es with Some vs => CRet vs e | None => CStuck "return" end
      | SPanic _ => CPanic
      | SIf init c th el =>
        match exec2 f e init with
        | CNorm e1 =>
          match eval ext 64 e1 c with
          | Some (VBool true) => next (exec2 f e1 th)
          | Some (VBool false) => next (exec2 f e1 el)
          | _ => CStuck "if"
          end
        | other => other
        end
      | SSwitch init tag cases dflt =>
        match exec2 f e init with
        | CNorm e1 =>
          let tagv := match tag with Some t => eval ext 64 e1 t | None => Some (VBool true) end in
          match tagv with
          | None => CStuck "switch tag"
          | Some tv =>
            (fix pick (cs : list (list gexpr * list gstmt)) : ctl :=
               match cs with
               | [] => match dflt with
                       | Some b => next (match exec2 f e1 b with CBrk e2 => CNorm e2 | r => r end)
                       | None => exec2 f e1 rest
                       end
               | (labels, body) :: ct =>
                 match (fix anym (ls : list gexpr) : option bool :=
                          match ls with
                          | [] => Some false
                          | l :: lt => match eval ext 64 e1 l with
                                       | Some lv => match val_eqb 8 tv lv with
                                                    | Some true => Some true
                                                    | Some false => anym lt
                                                    | None => None
                                                    end
                                       | None => None
                                       end
                          end) labels with
                 | Some true => next (match exec2 f e1 body with CBrk e2 => CNorm e2 | r => r end)
                 | Some false => pick ct
                 | None => CStuck "switch label"
                 end
               end) cases
          end
        | other => other
        end
      | SAssign lhs rhs =>
        match (match rhs with
               | [ECall fn args] => if is_builtin fn then None else Some (fn, args)
               | _ => None
               end) with
        | Some (fn, args) =>
          match call_assign (lvars lhs) fn args e with Some e' => exec2 f e' rest | None => CStuck "call" end
        | None =>
          match eval_all e rhs with
          | Some vs => match lv_set_all (lvars lhs) vs e with Some e' => exec2 f e' rest | None => CStuck "assign arity" end
          | None => CStuck "assign"
          end
        end
      | SAssignL lhs rhs =>
        match (match rhs with
               | [ECall fn args] => if is_builtin fn then None else Some (fn, args)
               | _ => None
               end) with
        | Some (fn, args) =>
          match call_assign lhs fn args e with Some e' => exec2 f e' rest | None => CStuck "call" end
        | None =>
          match eval_all e rhs with
          | Some vs => match lv_set_all lhs vs e with Some e' => exec2 f e' rest | None => CStuck "assign place" end
          | None => CStuck "assign"
          end
        end
      | SVar x ty => exec2 f (update x (zero_of ty) e) rest
      | SRange k v coll body =>
        match eval ext 64 e coll with
        | Some (VList l) =>
          (fix loop (i : Z) (items : list gval) (e1 : env) : ctl :=
             match items with
             | [] => exec2 f e1 rest
             | it :: more =>
               let e2 := if String.eqb k "_" then e1 else update k (VInt i) e1 in
               let e3 := if String.eqb v "_" then e2 else update v it e2 in
               match exec2 f e3 body with
               | CNorm e4 | CCont e4 => loop (i + 1)%Z more e4
               | CBrk e4 => exec2 f e4 rest
               | other => other
               end
             end) 0%Z l e
        | Some VNil => exec2 f e rest
        | _ => CStuck "range"
        end
      | SFor c body =>
        (fix loop (n : nat) (e1 : env) : ctl :=
           match n with
           | O => CStuck "loop fuel"
           | S n' =>
             match eval ext 64 e1 c with
             | Some (VBool true) =>
               match exec2 f e1 body with
               | CNorm e2 | CCont e2 => loop n' e2
               | CBrk e2 => exec2 f e2 rest
               | other => other
               end
             | Some (VBool false) => exec2 f e1 rest
             | _ => CStuck "for"
             end
           end) f e
      | SExpr (ECall fn args) =>
        match eval_all e args with
        | Some vs =>
          match ext fn vs with
          | Some rs =>
            (* a call used as a statement: its declared results are dropped; the externs of the
               theorems list, after them, the updated argument places *)
            match write_back2 (mutable_places args) rs e with
            | Some e' => exec2 f e' rest
            | None => CStuck "call arity"
            end
          | None => CStuck "extern"
          end
        | None => CStuck "call args"
        end
      | SExpr x => match eval ext 64 e x with Some _ => exec2 f e rest | None => CStuck "expr" end
      | SOpAssign x op ty a =>
        match lookup x e, eval ext 64 e a with
        | Some (VInt xv), Some (VInt av) =>
          match arith op ty xv av with Some v => exec2 f (update x v e) rest | None => CStuck "opassign" end
        | _, _ => CStuck "opassign"
        end
      | SOpAssignL l op ty a =>
        match lv_get e l, eval ext 64 e a with
        | Some (VInt xv), Some (VInt av) =>
          match arith op ty xv av with
          | Some v => match lv_set e l v with Some e' => exec2 f e' rest | None => CStuck "opassign place" end
          | None => CStuck "opassign"
          end
        | _, _ => CStuck "opassign"
        end
      | SMapLookup v ok m k =>
        match eval ext 64 e m, eval ext 64 e k with
        | Some (VList l), Some kv =>
          match (fix find (l0 : list gval) : option (option gval) :=
                   match l0 with
                   | [] => Some None
                   | VList [k0; v0] :: t => match val_eqb 8 k0 kv with Some true => Some (Some v0) | Some false => find t | None => None end
                   | _ => None
                   end) l with
          | Some (Some found) => exec2 f (update ok (VBool true) (update v found e)) rest
          | Some None => exec2 f (update ok (VBool false) (update v (VInt 0) e)) rest
          | None => CStuck "map lookup"
          end
        | _, _ => CStuck "map lookup"
        end
      | SIdxOp x i op a =>
        match lookup x e, eval ext 64 e i, eval ext 64 e a with
        | Some (VBytes b), Some (VInt n), Some (VInt av) =>
          if (Z.ltb n 0 || Z.leb (Z.of_nat (List.length b)) n)%bool then CStuck "index"
          else
            let old := match nth_error b (Z.to_nat n) with Some c => Z.of_N (Byte.to_N c) | None => 0%Z end in
            let nv := match op with None => Some (VInt (Z.modulo av 256)) | Some o => arith o "uint8" old av end in
            match nv with
            | Some (VInt z) =>
              let c := match Byte.of_N (Z.to_N (Z.modulo z 256)) with Some c => c | None => x00 end in
              exec2 f (update x (VBytes (firstn (Z.to_nat n) b ++ c :: skipn (S (Z.to_nat n)) b)%list) e) rest
            | _ => CStuck "idxop"
            end
        | _, _, _ => CStuck "idxop"
        end
      | SSliceCall fn x lo hi args =>
        match lookup x e with
        | Some (VBytes b) =>
          let l := match lo with None => Some 0%Z | Some le => match eval ext 64 e le with Some (VInt n) => Some n | _ => None end end in
          let h := match hi with None => Some (Z.of_nat (List.length b)) | Some he => match eval ext 64 e he with Some (VInt n) => Some n | _ => None end end in
          match l, h with
          | Some l', Some h' =>
            if (Z.ltb l' 0 || Z.ltb h' l' || Z.ltb (Z.of_nat (List.length b)) h')%bool then CStuck "slice"
            else
              let win := firstn (Z.to_nat (h' - l')) (skipn (Z.to_nat l') b) in
              match eval_all e args with
              | Some vs =>
                match ext fn (VBytes win :: vs) with
                | Some [VBytes w'] =>
                  if Nat.eqb (List.length w') (List.length win) then
                    exec2 f (update x (VBytes (firstn (Z.to_nat l') b ++ w' ++ skipn (Z.to_nat h') b)%list) e) rest
                  else CPanic
                | Some [VNil] => CPanic
                | _ => CStuck "slice call"
                end
              | None => CStuck "slice call args"
              end
          | _, _ => CStuck "slice bounds"
          end
        | _ => CStuck "slice call target"
        end
      | SBreak => CBrk e
      | SContinue => CCont e
      | SUnsup w => CStuck w
      end
    end
  end.

(* run a function: the outcome and the environment it ended in *)
Definition run_func2 (fn : gfunc) (args : list gval) : outcome * env :=
  match bind_params (f_params fn) args with
  | None => (OStuck "arity", [])
  | Some e0 =>
    let e := (e0 ++ map (fun r => (fst r, zero_of (snd r))) (f_results fn))%list in
    match exec2 300 e (f_body fn) with
    | CRet vs e' => (ORet vs, e')
    | CPanic => (OPanic, [])
    | CStuck w => (OStuck w, [])
    | CBrk e' | CCont e' => (OStuck "break/continue outside a loop", e')
    | CNorm e' =>
      match (fix rs (l : list (string * string)) : option (list gval) :=
               match l with
               | [] => Some []
               | r :: t => match lookup (fst r) e', rs t with Some v, Some vs => Some (v :: vs) | _, _ => None end
               end) (f_results fn) with
      | Some vs => (ORet vs, e')
      | None => (OStuck "fell off the end", e')
      end
    end
  end.

End Eval2.
