(* Entry.v — uniquely named entry points of the executable model; these are
   what extract/Extract.v extracts and what the correspondence harness runs.
   Each is a plain alias of the definition the theorems are stated about. *)
From Coq Require Import List NArith.
From Coq.Strings Require Import Byte.
Import ListNotations.
From SP Require Import Bytes BaseX Encodings Rand Params Msgpack Crypto Errors Packets Chunker Sign Verify Encrypt Decrypt Signcrypt Armor Streams BxStream ArmorStream KeyTrace.

Definition m_byte_to_N := Byte.to_N.
Definition m_bx_encode := BaseX.encode.
Definition m_bx_decode := BaseX.decode.
Definition m_bx_encoded_len := BaseX.encoded_len.
Definition m_bx_decoded_len := BaseX.decoded_len.
Definition m_bx_valid_len := BaseX.valid_len.
Definition m_bx_obl := BaseX.obl.
Definition m_uint32n := Rand.uint32n.
Definition m_shuffle_N : list N -> rng -> option (list N * rng) := Rand.shuffle.
Definition m_fisher_yates_N : list N -> list nat -> list N := Rand.fisher_yates.

(* ---- signing ---- *)
Definition m_sign_attached_stream := Sign.sign_attached_stream.
Definition m_sign_detached := Sign.sign_detached.
Definition m_verify_stream := Verify.verify_stream.
Definition m_verify_all := Verify.verify_all.
Definition m_verify_detached := Verify.verify_detached.
Definition m_mp_read := Msgpack.mp_read.
Definition m_mp_encode := Msgpack.mp_encode.

(* ---- encryption / signcryption ---- *)
Definition m_seal_stream := Encrypt.seal_stream.
Definition m_open_stream := Decrypt.open_stream.
Definition m_signcrypt_seal_stream := Signcrypt.signcrypt_seal_stream.
Definition m_signcrypt_open_stream := Signcrypt.signcrypt_open_stream.

(* ---- armor / classify ---- *)
Definition m_armor62_seal := Armor.armor62_seal.
Definition m_dearmor := Armor.dearmor.
Definition m_check_armor62 := Armor.check_armor62.
Definition m_make_frame := Armor.make_frame.
Definition m_binary_slice := Armor.binary_slice.
Definition m_armored_prefix := Armor.armored_prefix.
Definition m_header_marker := Armor.header_marker.
Definition m_footer_marker := Armor.footer_marker.

(* ---- stream state machines ---- *)
Fixpoint m_pr_run (sizes : list nat) (st : pr_state) : list pr_result :=
  match sizes with
  | [] => []
  | n :: t => let (r, st') := pr_read n st in r :: m_pr_run t st'
  end.
Definition m_pr_init := Streams.pr_init.
Definition m_pr_until (fuel lim : nat) (s : source) : result bytes := fst (pr_read_until fuel lim (pr_init s) []).
Fixpoint m_cr_run (sizes : list nat) (st : cr_state) : list (bytes * option err) :=
  match sizes with
  | [] => []
  | n :: t => let (r, st') := cr_read (S (S (length (cr_pending st)))) n st [] in r :: m_cr_run t st'
  end.
Definition m_armor_stream := Streams.armor_stream.
Definition m_bxe_session := Streams.bxe_session.

(* ---- key-object call traces ---- *)
Definition m_open_events := KeyTrace.open_events.
Definition m_sc_open_events := KeyTrace.sc_open_events.
Definition m_sign_attached_events := KeyTrace.sign_attached_events.
Definition m_sign_detached_events := KeyTrace.sign_detached_events.

(* streaming base-X decoder, call by call *)
Definition m_ad_trace (chk : option Z) (sizes : list nat) (s : source) : list bd_result := ad_trace chk sizes s.
Definition m_bxd_trace (e : encoding) (sizes : list nat) (s : source) : list bd_result := bd_trace e sizes (bd_init s).
