(* Entry.v — uniquely named entry points of the executable model; these are
   what extract/Extract.v extracts and what the correspondence harness runs.
   Each is a plain alias of the definition the theorems are stated about. *)
From Coq Require Import List NArith.
From Coq.Strings Require Import Byte.
From SP Require Import Bytes BaseX Encodings Rand.

Definition m_byte_to_N := Byte.to_N.
Definition m_bx_encode := BaseX.encode.
Definition m_bx_decode := BaseX.decode.
Definition m_bx_encoded_len := BaseX.encoded_len.
Definition m_bx_decoded_len := BaseX.decoded_len.
Definition m_bx_valid_len := BaseX.valid_len.
Definition m_bx_obl := BaseX.obl.
Definition m_uint32n := Rand.uint32n.
Definition m_shuffle_N : list N -> rng -> option (list N * rng) := Rand.shuffle.
Definition m_fisher_yates_N : list N -> list nat -> list N := Rand.fisher_yates.
