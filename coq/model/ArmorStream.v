(* ArmorStream.v — the armored READ stack of /repo as composed state machines over an explicit
   underlying reader (Streams.source):

     source  ->  punctuatedReader (Streams.pr_read / pr_read_until)
             ->  framedDecoderStream (armor.go: header sentence, body, footer sentence, trailing text)
             ->  the base-X stream decoder (encoding/basex/stream.go: filteringReader + decoder)

   The decoder is the one of BxStream.v, written here over an ABSTRACT reader (a state type and a read
   function) so that it can sit on top of framedDecoderStream; [gbd_source_agrees] (proofs) shows that at
   the instance "reader = source" it is BxStream's.  The composed machine [ad_*] is compared call by call
   with saltpack.NewArmor62DecoderStream in the C13 campaign; proofs/ArmorStreamProofs.v relates what it
   delivers to the one-shot denotation Armor.dearmor. *)
From Coq Require Import List NArith ZArith Bool.
From Coq.Strings Require Import Byte.
From SP Require Import Bytes Consts Params Errors BaseX Encodings Armor Streams BxStream.
Import ListNotations.

(* ---------- the base-X stream decoder over an abstract reader ---------- *)
Section G.
Variable e : encoding.
Variable R : Type.
Variable rread : nat -> R -> (bytes * option err) * R.    (* Read(p) with len(p) = n *)
Let ibln := N.to_nat (BaseX.ibl e).
Let obln := N.to_nat (BaseX.obl e).

Record gfr_state := mkGfr { gfr_r : R; gfr_nread : N }.

(* filteringReader.Read *)
Fixpoint gfr_read (fuel : nat) (n : nat) (st : gfr_state) : (bytes * option err) * gfr_state :=
  match fuel with
  | O => (([], Some Unmodelled), st)
  | S f =>
    let '((data, er), s') := rread n (gfr_r st) in
    match data with
    | [] => (([], er), mkGfr s' (gfr_nread st))
    | _ =>
      match fr_filter e data (gfr_nread st) [] with
      | inr off => (([], Some (ErrBxCorrupt off)), mkGfr s' off)
      | inl (kept, nread') =>
        match kept, er with
        | [], None => gfr_read f n (mkGfr s' nread')
        | _, _ => ((kept, er), mkGfr s' nread')
        end
      end
    end
  end.

Record gbd_state := mkGbd {
  gbd_err : option err;
  gbd_out : bytes;
  gbd_buf : bytes;
  gbd_r : gfr_state
}.

Definition gbd_init (s : R) : gbd_state := mkGbd None [] [] (mkGfr s 0).

Definition g_under_read (fuel : nat) (n : nat) (r : gfr_state) : (bytes * option err) * gfr_state :=
  match enc_skip e with
  | [] => let '(res, s') := rread n (gfr_r r) in (res, mkGfr s' (gfr_nread r))
  | _ => gfr_read fuel n r
  end.

Fixpoint gbd_fill (fuel : nat) (rf : nat) (nn : nat) (buf : bytes) (r : gfr_state) : bytes * option err * gfr_state :=
  match fuel with
  | O => (buf, Some Unmodelled, r)
  | S f =>
    if Nat.ltb (length buf) obln then
      let '((data, er), r') := g_under_read rf (nn - length buf) r in
      match er with
      | Some x => (buf ++ data, Some x, r')
      | None => gbd_fill f rf nn (buf ++ data) r'
      end
    else (buf, None, r)
  end.

(* decoder.Read(p), len(p) = np > 0; fuel bounds the fill loop and the filtering reader's re-reads *)
Definition gbd_read (fuel : nat) (np : nat) (st : gbd_state) : bd_result * gbd_state :=
  match gbd_err st with
  | Some x => (BdErr [] x, st)
  | None =>
    match gbd_out st with
    | _ :: _ => (BdData (firstn np (gbd_out st)), mkGbd None (skipn np (gbd_out st)) (gbd_buf st) (gbd_r st))
    | [] =>
      let nn0 := (np / ibln * obln)%nat in
      let nn1 := if Nat.ltb nn0 obln then obln else nn0 in
      let cap := (8192 * ibln)%nat in
      let nn := if Nat.ltb cap nn1 then cap else nn1 in
      let '(buf, er, r') := gbd_fill fuel fuel nn (gbd_buf st) (gbd_r st) in
      let after (eof : bool) : bd_result * gbd_state :=
        let num := if eof then length buf else (length buf / obln * obln)%nat in
        let nout := N.to_nat (BaseX.decoded_len e (N.of_nat num)) in
        let (dec, derr) := BaseX.decode e (firstn num buf) in
        let derr' := match derr with Some b => Some (bx_to_err b) | None => None end in
        let rest := skipn num buf in
        if Nat.ltb np nout then
          let ret := firstn np dec in
          let out := skipn np dec in
          match ret, derr' with
          | [], None => (BdErr [] EOF, mkGbd None out rest r')
          | _, None => (BdData ret, mkGbd None out rest r')
          | _, Some x => (BdErr ret x, mkGbd (Some x) out rest r')
          end
        else
          match dec, derr' with
          | [], None => (BdErr [] EOF, mkGbd None [] rest r')
          | _, None => (BdData dec, mkGbd None [] rest r')
          | _, Some x => (BdErr dec x, mkGbd (Some x) [] rest r')
          end in
      match er with
      | Some EOF =>
        match buf with
        | [] => (BdErr [] EOF, mkGbd (Some EOF) [] [] r')
        | _ => after true
        end
      | Some x => (BdErr [] x, mkGbd (Some x) [] buf r')
      | None => after false
      end
    end
  end.

Fixpoint gbd_trace (fuel : nat) (sizes : list nat) (st : gbd_state) : list bd_result :=
  match sizes with
  | [] => []
  | n :: t => let (r, st') := gbd_read fuel n st in r :: gbd_trace fuel t st'
  end.

Fixpoint gbd_drain (fuel : nat) (sizes : list nat) (st : gbd_state) (acc : bytes) : bytes * option err :=
  match sizes with
  | [] => (acc, None)
  | n :: t =>
    match gbd_read fuel n st with
    | (BdData d, st') => gbd_drain fuel t st' (acc ++ d)
    | (BdErr d x, _) => (acc ++ d, Some x)
    end
  end.
End G.

(* ---------- framedDecoderStream ---------- *)
Inductive fds_phase := FdsHeader | FdsBody | FdsFooter | FdsEnd.

Record fds_state := mkFds {
  fds_pr : pr_state;
  fds_ph : fds_phase;
  fds_hdr : bytes;           (* s.header *)
  fds_ftr : bytes;           (* s.footer *)
  fds_brand : bytes          (* s.frameBrand *)
}.

Definition fds_init (s : source) : fds_state := mkFds (pr_init s) FdsHeader [] [] [].

Definition fds_lim : nat := N.to_nat frame_read_limit.

(* consumeUntilEOF: 4096-byte reads of what follows the footer; the punctuated reader's internal
   ErrPunctuated is an error like any other here and escapes to the caller *)
Fixpoint fds_consume (fuel : nat) (pr : pr_state) : err * pr_state :=
  match fuel with
  | O => (Unmodelled, pr)
  | S f =>
    match pr_read 4096 pr with
    | (PrErr _ x, pr') => (x, pr')
    | (PrPunct _, pr') => (ErrPunctuated, pr')
    | (PrData [], pr') => (EOF, pr')
    | (PrData d, pr') => if forallb valid_armor_byte d then fds_consume f pr' else (ErrTrailingGarbage, pr')
    end
  end.

Section Fds.
Variable chk : option Z.      (* Some typ: header and frame checkers for that message type; None: no checkers *)
Variable fuel : nat.          (* bounds ReadUntilPunctuation's and consumeUntilEOF's loops *)

(* loadHeader *)
Definition fds_load_header (st : fds_state) : option err * fds_state :=
  match pr_read_until fuel fds_lim (fds_pr st) [] with
  | (Err x, pr') => (Some x, mkFds pr' FdsHeader [] (fds_ftr st) (fds_brand st))
  | (Ok h, pr') =>
    match chk with
    | None => (None, mkFds pr' FdsBody h (fds_ftr st) (fds_brand st))
    | Some typ =>
      match bind (to_ascii h) (fun hs => parse_frame hs typ header_marker) with
      | Ok brand => (None, mkFds pr' FdsBody h (fds_ftr st) brand)
      | Err x => (Some x, mkFds pr' FdsHeader h (fds_ftr st) (fds_brand st))
      end
    end
  end.

(* Read(p), len(p) = n *)
Definition fds_read (n : nat) (st : fds_state) : (bytes * option err) * fds_state :=
  let '(herr, st1) := match fds_ph st with FdsHeader => fds_load_header st | _ => (None, st) end in
  match herr with
  | Some x => (([], Some x), st1)
  | None =>
    let '(res2, st2) :=
      match fds_ph st1 with
      | FdsBody =>
        match pr_read n (fds_pr st1) with
        | (PrData d, pr') => (inl d, mkFds pr' FdsBody (fds_hdr st1) (fds_ftr st1) (fds_brand st1))
        | (PrPunct d, pr') => (inl d, mkFds pr' FdsFooter (fds_hdr st1) (fds_ftr st1) (fds_brand st1))
        | (PrErr _ x, pr') =>
          (inr (match x with EOF => ErrUnexpectedEOF | x' => x' end),
           mkFds pr' FdsBody (fds_hdr st1) (fds_ftr st1) (fds_brand st1))
        end
      | _ => (inl [], st1)
      end in
    match res2 with
    | inr x => (([], Some x), st2)
    | inl d =>
      let '(ferr, st3) :=
        match fds_ph st2 with
        | FdsFooter =>
          match pr_read_until fuel fds_lim (fds_pr st2) [] with
          | (Err x, pr') => (Some x, mkFds pr' FdsFooter (fds_hdr st2) [] (fds_brand st2))
          | (Ok f, pr') =>
            match chk with
            | None => (None, mkFds pr' FdsEnd (fds_hdr st2) f (fds_brand st2))
            | Some typ =>
              match bind (to_ascii (fds_hdr st2)) (fun hs => bind (to_ascii f) (fun fs => check_armor62 hs fs typ)) with
              | Ok _ => (None, mkFds pr' FdsEnd (fds_hdr st2) f (fds_brand st2))
              | Err x => (Some x, mkFds pr' FdsFooter (fds_hdr st2) f (fds_brand st2))
              end
            end
          end
        | _ => (None, st2)
        end in
      match ferr with
      | Some x => (([], Some x), st3)
      | None =>
        match fds_ph st3 with
        | FdsEnd =>
          let '(x, pr') := fds_consume fuel (fds_pr st3) in
          let st4 := mkFds pr' FdsEnd (fds_hdr st3) (fds_ftr st3) (fds_brand st3) in
          match x, d with
          | EOF, _ :: _ => ((d, None), st4)
          | _, _ => ((d, Some x), st4)
          end
        | _ => ((d, None), st3)
        end
      end
    end
  end.
End Fds.

(* ---------- the composed armor-62 decoder stream ---------- *)
(* every read of the stack consumes at least one byte or one segment of the source, or ends it *)
Definition ad_fuel (s : source) : nat := (2 * src_fuel s + 16)%nat.

Definition ad_init (s : source) : gbd_state fds_state := gbd_init fds_state (fds_init s).

Definition ad_trace (chk : option Z) (sizes : list nat) (s : source) : list bd_result :=
  gbd_trace base62 fds_state (fds_read chk (ad_fuel s)) (ad_fuel s) sizes (ad_init s).

Definition ad_drain (chk : option Z) (sizes : list nat) (s : source) : bytes * option err :=
  gbd_drain base62 fds_state (fds_read chk (ad_fuel s)) (ad_fuel s) sizes (ad_init s) [].
