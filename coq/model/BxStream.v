(* BxStream.v — the streaming base-X decoder of /repo/encoding/basex/stream.go as an explicit
   state machine over an explicit underlying reader (Streams.source): filteringReader.Read
   (skipping variants: drops skip characters, rejects foreign ones, re-reads when a delivery
   was skip characters only) and decoder.Read (leftover decoded output, leftover input
   characters, block-aligned decoding, the 8192-block input buffer).  Compared call by call
   with basex.NewDecoder in the C13 campaign; proofs/BxStreamProofs.v shows that what it
   delivers does not depend on how the source fragments its data or on the caller's buffer
   sizes. *)
From Coq Require Import List NArith ZArith Bool.
From Coq.Strings Require Import Byte.
From SP Require Import Bytes Consts Params Errors BaseX Encodings Armor Streams.
Import ListNotations.

(* an upper bound on the number of reads a source can serve before it only repeats its final
   error: every read consumes at least one byte or one (empty) segment *)
Definition src_fuel (s : source) : nat :=
  (length (concat (map seg_data (src_segs s))) + length (src_segs s) + 2)%nat.

Definition bx_to_err (b : bx_err) : err :=
  match b with CorruptInput off => ErrBxCorrupt off | InvalidEncodingLength => ErrBxLength end.

Section D.
Variable e : encoding.
Let ibln := N.to_nat (BaseX.ibl e).
Let obln := N.to_nat (BaseX.obl e).

(* ---------- filteringReader ---------- *)
(* state: the wrapped source and nRead (characters examined so far) *)
Record fr_state := mkFr { fr_src : source; fr_nread : N }.

(* one pass over a delivery: kept characters, or the offset of a foreign character *)
Fixpoint fr_filter (l : bytes) (nread : N) (acc : bytes) : (bytes * N) + N :=
  match l with
  | [] => inl (rev_append acc [], nread)
  | b :: t =>
    match BaseX.digit_of e b with
    | Some _ => fr_filter t (nread + 1) (b :: acc)
    | None => if BaseX.is_skip e b then fr_filter t (nread + 1) acc else inr nread
    end
  end.

(* Read(p), len(p) = n > 0; fuel bounds the re-reads *)
Fixpoint fr_read (fuel : nat) (n : nat) (st : fr_state) : (bytes * option err) * fr_state :=
  match fuel with
  | O => (([], Some Unmodelled), st)
  | S f =>
    let '((data, er), s') := src_read n (fr_src st) in
    match data with
    | [] => (([], er), mkFr s' (fr_nread st))                 (* n == 0: returned as is (also (0, nil)) *)
    | _ =>
      match fr_filter data (fr_nread st) [] with
      | inr off => (([], Some (ErrBxCorrupt off)), mkFr s' off)
      | inl (kept, nread') =>
        match kept, er with
        | [], None => fr_read f n (mkFr s' nread')            (* entirely skip characters: read again *)
        | _, _ => ((kept, er), mkFr s' nread')
        end
      end
    end
  end.

(* ---------- decoder ---------- *)
(* strict encodings read the source directly, skipping ones through the filtering reader *)
Record bd_state := mkBd {
  bd_err : option err;        (* sticky error *)
  bd_out : bytes;             (* leftover decoded output *)
  bd_buf : bytes;             (* leftover input characters (d.buf[:d.nbuf]) *)
  bd_r : fr_state
}.

Definition bd_init (s : source) : bd_state := mkBd None [] [] (mkFr s 0).

Definition under_read (n : nat) (r : fr_state) : (bytes * option err) * fr_state :=
  match enc_skip e with
  | [] => let '(res, s') := src_read n (fr_src r) in (res, mkFr s' (fr_nread r))
  | _ => fr_read (src_fuel (fr_src r)) n r
  end.

(* "try to read up to the next full block": reads into buf[nbuf:nn] while nbuf < obl and no error *)
Fixpoint bd_fill (fuel : nat) (nn : nat) (buf : bytes) (r : fr_state) : bytes * option err * fr_state :=
  match fuel with
  | O => (buf, Some Unmodelled, r)
  | S f =>
    if Nat.ltb (length buf) obln then
      let '((data, er), r') := under_read (nn - length buf) r in
      match er with
      | Some x => (buf ++ data, Some x, r')
      | None => bd_fill f nn (buf ++ data) r'
      end
    else (buf, None, r)
  end.

Definition input_cap : nat := (8192 * ibln)%nat.     (* len(d.buf) *)

Inductive bd_result := BdData (d : bytes) | BdErr (d : bytes) (x : err).

(* Read(p), len(p) = np > 0 *)
Definition bd_read (fuel : nat) (np : nat) (st : bd_state) : bd_result * bd_state :=
  match bd_err st with
  | Some x => (BdErr [] x, st)
  | None =>
    match bd_out st with
    | _ :: _ => (BdData (firstn np (bd_out st)), mkBd None (skipn np (bd_out st)) (bd_buf st) (bd_r st))
    | [] =>
      let nn0 := (np / ibln * obln)%nat in
      let nn1 := if Nat.ltb nn0 obln then obln else nn0 in
      let nn := if Nat.ltb input_cap nn1 then input_cap else nn1 in
      let '(buf, er, r') := bd_fill fuel nn (bd_buf st) (bd_r st) in
      let after (eof : bool) : bd_result * bd_state :=
        let num := if eof then length buf else (length buf / obln * obln)%nat in
        let nout := N.to_nat (BaseX.decoded_len e (N.of_nat num)) in
        let (dec, derr) := BaseX.decode e (firstn num buf) in
        let derr' := match derr with Some b => Some (bx_to_err b) | None => None end in
        let rest := skipn num buf in
        if Nat.ltb np nout then
          (* too much for p: decoded into the scratch buffer, the surplus kept *)
          let ret := firstn np dec in
          let out := skipn np dec in
          match ret, derr' with
          | [], None => (BdErr [] EOF, mkBd None out rest r')
          | _, None => (BdData ret, mkBd None out rest r')
          | _, Some x => (BdErr ret x, mkBd (Some x) out rest r')
          end
        else
          match dec, derr' with
          | [], None => (BdErr [] EOF, mkBd None [] rest r')
          | _, None => (BdData dec, mkBd None [] rest r')
          | _, Some x => (BdErr dec x, mkBd (Some x) [] rest r')
          end in
      match er with
      | Some EOF =>
        match buf with
        | [] => (BdErr [] EOF, mkBd (Some EOF) [] [] r')
        | _ => after true
        end
      | Some x => (BdErr [] x, mkBd (Some x) [] buf r')
      | None => after false
      end
    end
  end.

(* drain with the given caller buffer sizes: everything delivered and the error that ended it *)
Fixpoint bd_drain (sizes : list nat) (st : bd_state) (acc : bytes) : bytes * option err :=
  match sizes with
  | [] => (acc, None)
  | n :: t =>
    match bd_read (src_fuel (fr_src (bd_r st))) n st with
    | (BdData d, st') => bd_drain t st' (acc ++ d)
    | (BdErr d x, _) => (acc ++ d, Some x)
    end
  end.

(* per-call trace, for the call-by-call comparison with the implementation *)
Fixpoint bd_trace (sizes : list nat) (st : bd_state) : list bd_result :=
  match sizes with
  | [] => []
  | n :: t =>
    let (r, st') := bd_read (src_fuel (fr_src (bd_r st))) n st in
    r :: bd_trace t st'
  end.

End D.
