(* Verify.v — model of /repo/verify.go and /repo/verify_stream.go.
   The result of a verification stream is: the constructor's error, or the
   signer key, the chunks released to the caller in order, and the error that
   ended the stream (EOF = clean end). *)
From Coq Require Import List NArith ZArith Bool.
From Coq.Strings Require Import Byte.
From SP Require Import Bytes Params Msgpack Crypto Errors Nonce Packets Chunker.
Import ListNotations.
Open Scope N_scope.

(* a signature keyring: the public keys it knows *)
Definition sigring := list bytes.
Definition lookup_signer (kr : sigring) (kid : bytes) : option bytes :=
  if existsb (bytes_eqb kid) kr then Some kid else None.

(* msgpackStream.Read(&headerBytes): any failure is ErrFailedToReadHeaderBytes *)
Definition read_header_bytes (input : bytes) : result (bytes * bytes) :=
  match mp_read input with
  | POk v rest =>
    match as_bytes v with
    | DOk hb => Ok (hb, rest)
    | DErr => Err ErrFailedToReadHeaderBytes
    | DUnmod => Err Unmodelled
    end
  | PShort | PBad => Err ErrFailedToReadHeaderBytes
  | PUnmod => Err Unmodelled
  end.

(* decodeFromBytes(&header, headerBytes) *)
Definition decode_header (view : mval -> dres header) (hb : bytes) : result header :=
  match mp_read hb with
  | POk v _ => of_dres (view v)
  | PShort | PBad => Err ErrDecode
  | PUnmod => Err Unmodelled
  end.

(* assertEndOfStream: another object is trailing garbage; running out of input
   (anywhere) is go-codec's io.EOF, i.e. the clean end *)
Definition assert_end_of_stream (rest : bytes) : err :=
  match mp_read rest with
  | POk _ _ => ErrTrailingGarbage
  | PShort => EOF
  | PBad => ErrDecode
  | PUnmod => Unmodelled
  end.

(* reading the next packet: io.EOF becomes ErrUnexpectedEOF *)
Definition read_packet (input : bytes) : result (mval * bytes) :=
  match mp_read input with
  | POk v rest => Ok (v, rest)
  | PShort => Err ErrUnexpectedEOF
  | PBad => Err ErrDecode
  | PUnmod => Err Unmodelled
  end.

Record stream_out := mkOut { so_chunks : list bytes; so_end : err }.

Section C.
Variable c : crypto.

(* SignatureHeader.validate *)
Definition validate_sig_header (vd : validator) (typ : Z) (h : header) : result unit :=
  if negb (bytes_eqb (h_format h) format_name) then Err ErrNotASaltpackMessage
  else if negb (validate_version vd (h_version h)) then Err ErrBadVersion
  else if negb (h_type h =? typ)%Z then Err ErrWrongMessageType
  else Ok tt.

(* newVerifyStream: header bytes, header hash, header *)
Definition verify_read_header (vd : validator) (typ : Z) (input : bytes)
  : result (header * bytes * bytes) :=
  bind (read_header_bytes input) (fun hr =>
  let hh := sha512 c (fst hr) in
  bind (decode_header view_sig_header (fst hr)) (fun h =>
  bind (validate_sig_header vd typ h) (fun _ => Ok (h, hh, snd hr)))).

(* the getNextChunk loop; [seqno] is the packet index from 0 *)
Fixpoint verify_loop (fuel : nat) (v : version) (pk hh : bytes) (seqno : N) (input : bytes)
         (acc : list bytes) : stream_out :=
  match fuel with
  | O => mkOut (rev_append acc []) Unmodelled
  | S f =>
    match read_packet input with
    | Err e => mkOut (rev_append acc []) e
    | Ok (m, rest) =>
      if negb ((vmaj v =? 1)%Z || (vmaj v =? 2)%Z) then mkOut (rev_append acc []) (Panic 5)
      else
      match of_dres (view_sig_block v m) with
      | Err e => mkOut (rev_append acc []) e
      | Ok (sig, chunk, final) =>
        match attached_sig_input c v hh chunk seqno final with
        | None => mkOut (rev_append acc []) (Panic 3)
        | Some inp =>
          if negb (ed_verify c pk inp sig) then mkOut (rev_append acc []) ErrBadSignature
          else
            match check_chunk_state v (length chunk) seqno final with
            | Err e => mkOut (rev_append acc []) e
            | Ok _ =>
              if final then mkOut (rev_append (chunk :: acc) []) (assert_end_of_stream rest)
              else verify_loop f v pk hh (seqno + 1) rest (chunk :: acc)
            end
        end
      end
    end
  end.

(* NewVerifyStream *)
Definition verify_stream (vd : validator) (kr : sigring) (input : bytes) : result (bytes * stream_out) :=
  bind (verify_read_header vd mt_attached input) (fun x =>
  let '(h, hh, rest) := x in
  match lookup_signer kr (h_a h) with
  | None => Err ErrNoSenderKey
  | Some pk => Ok (pk, verify_loop (S (length rest)) (h_version h) pk hh 0 rest [])
  end).

(* Verify: the whole message or nothing *)
Definition verify_all (vd : validator) (kr : sigring) (input : bytes) : result (bytes * bytes) :=
  bind (verify_stream vd kr input) (fun x =>
  let '(pk, out) := x in
  match so_end out with
  | EOF => Ok (pk, concat (so_chunks out))
  | e => Err e
  end).

(* VerifyDetached / VerifyDetachedReader *)
Definition verify_detached (vd : validator) (kr : sigring) (msg sigfile : bytes) : result bytes :=
  bind (verify_read_header vd mt_detached sigfile) (fun x =>
  let '(h, hh, rest) := x in
  match mp_read rest with
  | PShort => Err EOF                        (* the error of the stream decoder is returned as is *)
  | PBad => Err ErrDecode
  | PUnmod => Err Unmodelled
  | POk m _ =>
    bind (of_dres (as_bytes m)) (fun sig =>
    match lookup_signer kr (h_a h) with
    | None => Err ErrNoSenderKey
    | Some pk =>
      if ed_verify c pk (detached_sig_input c hh msg) sig then Ok pk else Err ErrBadSignature
    end)
  end).

End C.
