(* PanicModel.v — the panic-capable constructs of /repo's receive / dearmor / classify
   paths that the model accounts for (hand-maintained copy of gen/PanicSites.v as of the
   verified tree).  proofs/NoPanicProofs.v proves gen.panic_sites = expected_sites, so a
   new explicit panic, index or slice expression, length-checking helper call or unchecked
   type assertion in those functions breaks a proof obligation of C15.
   How each class is discharged:
   - explicit panics: version-switch defaults (attachedSignatureInput, computePayloadHash,
     nonceForPayloadKeyBox, computeMACKeyReceiver, readEncryptionBlock, readSignatureBlock,
     checkChunkState) are [Panic n] outcomes of the model, proved unreachable under the
     shipped validators (C15_*_no_panic); chunkReader's "empty chunk and nil error" is
     proved unreachable (C15_no_empty_nonfinal_chunk); IsSaltpackArmoredPrefix's "logic
     error" is proved unreachable (C15_classify_no_logic_panic); copyEqualSize* panics only
     on a length mismatch: every call site passes a fixed-size array and a slice of the same
     constant length (the sliceToByteN callers slice constants or outputs whose length the
     model proves/the receivers check: symmetricKeyFromSlice / rawBoxKeyFromSlice check the
     length first; processBlock checks len >= 64 first).
   - index expressions: authenticators[position] is guarded (fixed in /repo); hdr.Receivers[orig]
     uses an index taken from the same list; nonce byte indexes are constants within 24-byte
     arrays; parseFrame indexes follow length checks (4 or 5 words); IsSaltpackBinarySlice
     indexes lie below the 23-byte minimum; the basex tables have 256 entries indexed by a byte.
   - slice expressions: of fixed-size arrays/constants, or guarded by the preceding length test.
   The campaign (structure-aware mutation with misbehaving keyrings, under recover with a
   deadline) is what ties these arguments to the running code. *)
From Coq Require Import List String NArith.
Import ListNotations.
Open Scope string_scope.

Definition expected_sites : list (string * (N * N * N * N * N)) := [
  ("basex.Encoding_DecodeString", (0, 0, 0, 1, 0)%N);
  ("basex.Encoding_Encode", (0, 0, 0, 2, 0)%N);
  ("basex.Encoding_IsValidByte", (0, 0, 2, 0, 0)%N);
  ("basex.Encoding_decode", (0, 0, 0, 2, 0)%N);
  ("basex.Encoding_decodeBlock", (0, 0, 2, 1, 0)%N);
  ("basex.Encoding_encodeBlock", (0, 0, 4, 0, 0)%N);
  ("basex.Encoding_getByteType", (0, 0, 2, 0, 0)%N);
  ("basex.NewEncoding", (0, 0, 3, 0, 0)%N);
  ("basex.decoder_Read", (0, 0, 0, 8, 0)%N);
  ("basex.encoder_Close", (0, 0, 0, 2, 0)%N);
  ("basex.encoder_Write", (0, 0, 2, 6, 0)%N);
  ("basex.filteringReader_Read", (0, 0, 1, 1, 0)%N);
  ("saltpack.IsSaltpackArmoredPrefix", (1, 0, 6, 1, 0)%N);
  ("saltpack.IsSaltpackBinarySlice", (0, 0, 4, 1, 0)%N);
  ("saltpack.VerifyDetachedReader", (0, 0, 0, 1, 0)%N);
  ("saltpack.assertEncodedChunkState", (2, 0, 0, 0, 0)%N);
  ("saltpack.attachedSignatureInput", (1, 0, 0, 1, 0)%N);
  ("saltpack.checkChunkState", (2, 0, 0, 0, 0)%N);
  ("saltpack.chunkReader_Read", (1, 0, 0, 2, 0)%N);
  ("saltpack.computeMACKeyReceiver", (1, 0, 0, 2, 0)%N);
  ("saltpack.computeMACKeySingle", (0, 1, 0, 1, 0)%N);
  ("saltpack.computePayloadAuthenticator", (0, 1, 0, 3, 0)%N);
  ("saltpack.computePayloadHash", (1, 1, 0, 2, 0)%N);
  ("saltpack.computeSigncryptionSignatureInput", (0, 0, 0, 3, 0)%N);
  ("saltpack.copyEqualSize", (1, 0, 0, 0, 0)%N);
  ("saltpack.copyEqualSizeStr", (1, 0, 0, 0, 0)%N);
  ("saltpack.decryptStream_processBlock", (0, 0, 1, 0, 0)%N);
  ("saltpack.decryptStream_processHeader", (0, 0, 0, 3, 0)%N);
  ("saltpack.decryptStream_tryVisibleReceivers", (0, 0, 1, 0, 0)%N);
  ("saltpack.detachedSignatureInput", (0, 0, 0, 1, 0)%N);
  ("saltpack.framedDecoderStream_consumeUntilEOF", (0, 0, 0, 2, 0)%N);
  ("saltpack.newPunctuatedReader", (0, 0, 1, 0, 0)%N);
  ("saltpack.newRandomSymmetricKey", (0, 0, 0, 1, 0)%N);
  ("saltpack.newSigNonce", (0, 0, 0, 1, 0)%N);
  ("saltpack.newSignatureHeader", (0, 0, 0, 1, 0)%N);
  ("saltpack.nonceForChunkSecretBox", (0, 1, 0, 2, 0)%N);
  ("saltpack.nonceForChunkSigncryption", (0, 1, 2, 3, 0)%N);
  ("saltpack.nonceForDerivedSharedKey", (0, 1, 0, 0, 0)%N);
  ("saltpack.nonceForMACKeyBoxV1", (0, 1, 0, 1, 0)%N);
  ("saltpack.nonceForMACKeyBoxV2", (0, 1, 2, 3, 0)%N);
  ("saltpack.nonceForPayloadKeyBox", (1, 1, 0, 0, 0)%N);
  ("saltpack.nonceForPayloadKeyBoxV2", (0, 1, 0, 2, 0)%N);
  ("saltpack.nonceForSenderKeySecretBox", (0, 1, 0, 0, 0)%N);
  ("saltpack.parseFrame", (0, 0, 5, 0, 0)%N);
  ("saltpack.payloadAuthenticator_Equal", (0, 0, 0, 2, 0)%N);
  ("saltpack.pop", (0, 0, 0, 2, 0)%N);
  ("saltpack.punctuatedReader_Read", (0, 0, 0, 6, 0)%N);
  ("saltpack.punctuatedReader_ReadUntilPunctuation", (0, 0, 0, 2, 0)%N);
  ("saltpack.rawBoxKeyFromSlice", (0, 1, 0, 0, 0)%N);
  ("saltpack.readEncryptionBlock", (1, 0, 0, 0, 0)%N);
  ("saltpack.readSignatureBlock", (1, 0, 0, 0, 0)%N);
  ("saltpack.shift", (0, 0, 0, 2, 0)%N);
  ("saltpack.signcryptOpenStream_processBlock", (0, 1, 0, 3, 0)%N);
  ("saltpack.signcryptOpenStream_trySharedSymmetricKeys", (1, 0, 1, 2, 0)%N);
  ("saltpack.sliceToByte24", (0, 1, 0, 1, 0)%N);
  ("saltpack.sliceToByte32", (0, 1, 0, 1, 0)%N);
  ("saltpack.sliceToByte64", (0, 1, 0, 1, 0)%N);
  ("saltpack.stringToByte24", (0, 1, 0, 1, 0)%N);
  ("saltpack.sum512Truncate256", (0, 1, 0, 1, 0)%N);
  ("saltpack.symmetricKeyFromSlice", (0, 1, 0, 0, 0)%N)
].
