(* Nonce.v — model of /repo/nonce.go. The string literals are the ones found in
   the Go functions (gen/Consts.v). A constructor whose Go code would panic
   (stringToByte24 / copyEqualSize on a wrong length) is total here; the lengths
   are proved in proofs/ from the generated constants. *)
From Coq Require Import List NArith ZArith Bool.
From Coq.Strings Require Import Byte.
From SP Require Import Bytes Consts Params.
Import ListNotations.
Open Scope N_scope.

Definition nonce_sender_key_sbox : bytes := s_saltpack_nonceForSenderKeySecretBox_0.
Definition nonce_payload_key_box_v2 (recip : N) : bytes :=
  s_saltpack_nonceForPayloadKeyBoxV2_0 ++ be64 recip.
(* nonceForPayloadKeyBox: switch on the major version; None = panic(ErrBadVersion) *)
Definition nonce_payload_key_box (v : version) (recip : N) : option bytes :=
  if (vmaj v =? 1)%Z then Some s_saltpack_nonceForPayloadKeyBox_0
  else if (vmaj v =? 2)%Z then Some (nonce_payload_key_box_v2 recip)
  else None.
Definition nonce_derived_shared_key : bytes := s_saltpack_nonceForDerivedSharedKey_0.

Definition set_low_bit (b : byte) (v : bool) : byte :=
  n2b ((b2n b / 2) * 2 + (if v then 1 else 0)).

(* first 16 bytes of the header hash, low bit of byte 15 replaced, then be64 *)
Definition hash16_flag_index (hh : bytes) (flag : bool) (i : N) : bytes :=
  firstn 15 hh ++ [set_low_bit (nth 15 hh x00) flag] ++ be64 i.

Definition nonce_mac_key_box_v1 (hh : bytes) : bytes := firstn 24 hh.
Definition nonce_mac_key_box_v2 (hh : bytes) (ephemeral : bool) (recip : N) : bytes :=
  hash16_flag_index hh ephemeral recip.
Definition nonce_chunk_secretbox (i : N) : bytes :=
  s_saltpack_nonceForChunkSecretBox_0 ++ be64 i.
Definition nonce_chunk_signcryption (hh : bytes) (final : bool) (i : N) : bytes :=
  hash16_flag_index hh final i.
