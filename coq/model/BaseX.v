(* BaseX.v — model of /repo/encoding/basex/encoding.go (one-shot codec and
   length helpers).  Definitions only.
   Go `*big.Int` values are unbounded N.  The float formulas of EncodedLen /
   DecodedLen / IsValidEncodingLength are replaced by exact integer arithmetic
   (min_chars / max_bytes); the correspondence check compares them with the Go
   float code exhaustively on the domain the code evaluates them on. *)
From Coq Require Import List NArith Bool.
From Coq.Strings Require Import Byte.
From SP Require Import Bytes.
Import ListNotations.
Open Scope N_scope.

Record encoding := mkEncoding {
  enc_alphabet : bytes;     (* encoder string *)
  enc_ibl : N;              (* base256BlockLen *)
  enc_skip : bytes          (* skipBytes *)
}.

Inductive bx_err :=
| CorruptInput (off : N)          (* CorruptInputError(off) *)
| InvalidEncodingLength.          (* ErrInvalidEncodingLength *)

Section E.
Variable e : encoding.

Definition base : N := len (enc_alphabet e).

Fixpoint index_of (b : byte) (l : bytes) (i : N) : option N :=
  match l with
  | [] => None
  | x :: t => if Byte.eqb x b then Some i else index_of b t (i + 1)
  end.

(* decodeMap: a char of the alphabet is "normal" even if it is also a skip char *)
Definition digit_of (b : byte) : option N := index_of b (enc_alphabet e) 0.
Definition is_skip (b : byte) : bool := existsb (Byte.eqb b) (enc_skip e).
Definition char_of (d : N) : byte := nth (N.to_nat d) (enc_alphabet e) x00.

(* smallest c with base^c >= 256^r  (ceil (8r / log2 base)) *)
Fixpoint min_chars_aux (fuel : nat) (c pw target : N) : N :=
  match fuel with
  | O => c
  | S f => if target <=? pw then c else min_chars_aux f (c + 1) (pw * base) target
  end.
Definition min_chars (r : N) : N := min_chars_aux (N.to_nat (8 * r + 1)) 0 1 (256 ^ r).

(* largest b with 256^b <= base^c  (floor (c * log2 base / 8)) *)
Fixpoint max_bytes_aux (fuel : nat) (b pw target : N) : N :=
  match fuel with
  | O => b
  | S f => if pw * 256 <=? target then max_bytes_aux f (b + 1) (pw * 256) target else b
  end.
Definition max_bytes (c : N) : N := max_bytes_aux (N.to_nat c) 0 1 (base ^ c).

Definition ibl : N := enc_ibl e.
Definition obl : N := min_chars ibl.            (* baseXBlockLen *)

(* EncodedLen *)
Definition encoded_len (n : N) : N :=
  (n / ibl) * obl + (if n mod ibl =? 0 then 0 else min_chars (n mod ibl)).

(* DecodedLen *)
Definition decoded_len (n : N) : N :=
  (n / obl) * ibl + (if n mod obl =? 0 then 0 else max_bytes (n mod obl)).

(* IsValidEncodingLength; Go's f(-1) = -1 makes n = 0 valid *)
Definition valid_len (n : N) : bool :=
  (n =? obl) || (n =? 0) || negb (max_bytes n =? max_bytes (n - 1)).

(* n as exactly c base-`base` digits, most significant first *)
Fixpoint to_digits (c : nat) (n : N) (acc : list N) : list N :=
  match c with
  | O => acc
  | S c' => to_digits c' (n / base) (n mod base :: acc)
  end.

Fixpoint from_digits (acc : N) (ds : list N) : N :=
  match ds with
  | [] => acc
  | d :: t => from_digits (acc * base + d) t
  end.

(* encodeBlock *)
Definition encode_block (src : bytes) : bytes :=
  map char_of (to_digits (N.to_nat (min_chars (len src))) (be_val src) []).

(* Encode / EncodeToString *)
Fixpoint encode_fuel (fuel : nat) (src : bytes) : bytes :=
  match fuel with
  | O => []
  | S f =>
    match src with
    | [] => []
    | _ => let (blk, rest) := split_at (N.to_nat ibl) src in
           encode_block blk ++ encode_fuel f rest
    end
  end.
Definition encode (src : bytes) : bytes := encode_fuel (length src) src.

(* the scanning loop of decodeBlock: consumes characters until obl good ones
   have been seen; returns (good digits in order, number consumed, rest) *)
Fixpoint scan_block (src : bytes) (i : N) (ngood : N) (acc : list N) (off : N)
  : bx_err + (list N * N * bytes) :=
  match src with
  | [] => inr (rev_append acc [], i, [])
  | b :: t =>
    match digit_of b with
    | Some d =>
      if ngood + 1 =? obl then inr (rev_append (d :: acc) [], i + 1, t)
      else scan_block t (i + 1) (ngood + 1) (d :: acc) off
    | None =>
      if is_skip b then scan_block t (i + 1) ngood acc off
      else inl (CorruptInput (i + off))
    end
  end.

(* decodeBlock: Ok (decoded bytes, rest of src, chars consumed).
   A block whose value does not fit the decoded length is rejected. *)
Definition decode_block (src : bytes) (off : N) : bx_err + (bytes * bytes * N) :=
  match scan_block src 0 0 [] off with
  | inl err => inl err
  | inr (ds, consumed, rest) =>
    let n := N.of_nat (length ds) in
    if negb (valid_len n) then inl InvalidEncodingLength
    else
      let padded := decoded_len n in
      let v := from_digits 0 ds in
      if 256 ^ padded <=? v then inl InvalidEncodingLength
      else inr (be_bytes (N.to_nat padded) v, rest, consumed)
  end.

(* Decode / DecodeString: returns the bytes of all blocks decoded before the
   first error, and that error if any *)
Fixpoint decode_fuel (fuel : nat) (src : bytes) (off : N) (acc : bytes)
  : bytes * option bx_err :=
  match fuel with
  | O => (rev_append acc [], None)
  | S f =>
    match src with
    | [] => (rev_append acc [], None)
    | _ =>
      match decode_block src off with
      | inl err => (rev_append acc [], Some err)
      | inr (out, rest, consumed) => decode_fuel f rest (off + consumed) (rev_append out acc)
      end
    end
  end.
Definition decode (src : bytes) : bytes * option bx_err :=
  decode_fuel (length src) src 0 [].

End E.
