(* Encrypt.v — model of /repo/encrypt.go (encryption mode sender). *)
From Coq Require Import List NArith ZArith Bool.
From Coq.Strings Require Import Byte.
From SP Require Import Bytes Params Msgpack Crypto Errors Nonce Packets Chunker Rand.
Import ListNotations.
Open Scope N_scope.

Section C.
Variable c : crypto.

(* a recipient: public key and HideIdentity() *)
Definition rcpt := (bytes * bool)%type.

Fixpoint has_dup (l : list bytes) : bool :=
  match l with
  | [] => false
  | x :: t => existsb (bytes_eqb x) t || has_dup t
  end.

(* checkEncryptReceivers *)
Definition check_receivers (rcpts : list rcpt) : result unit :=
  match rcpts with
  | [] => Err ErrBadReceivers
  | _ =>
    if (max_receiver_count <? Z.of_nat (length rcpts))%Z then Err ErrBadReceivers
    else if has_dup (map fst rcpts) then Err ErrRepeatedKey
    else Ok tt
  end.

(* computeMACKeySender; None = panic(ErrBadVersion) *)
Definition mac_key_sender (v : version) (index : N) (sender_sk eph_sk pk hh : bytes) : bytes :=
  if (vmaj v =? 1)%Z then mac_key_single c sender_sk pk (nonce_mac_key_box_v1 hh)
  else sum512_truncate256 c
         (mac_key_single c sender_sk pk (nonce_mac_key_box_v2 hh false index) ++
          mac_key_single c eph_sk pk (nonce_mac_key_box_v2 hh true index)).

Fixpoint mapi_from {A B} (f : N -> A -> B) (i : N) (l : list A) : list B :=
  match l with
  | [] => []
  | x :: t => f i x :: mapi_from f (i + 1) t
  end.

(* the receiverKeys entries of the header *)
Definition enc_receiver_entry (v : version) (eph_sk payload_key : bytes) (i : N) (r : rcpt)
  : option bytes * bytes :=
  let nonce := match nonce_payload_key_box v i with Some n => n | None => [] end in
  ((if snd r then None else Some (fst r)),
   sb_seal c (dh_shared c eph_sk (fst r)) nonce payload_key).

(* encryptBlock for block numbers n, n+1, ... *)
Fixpoint encrypt_packets (v : version) (payload_key hh : bytes) (mac_keys : list bytes)
         (n : N) (ps : list (bytes * bool)) : result bytes :=
  match ps with
  | [] => Ok []
  | (chunk, final) :: t =>
    if negb (block_number_ok n) then Err ErrPacketOverflow
    else
      let nonce := nonce_chunk_secretbox n in
      let ct := sb_seal c payload_key nonce chunk in
      match payload_hash c v hh nonce ct final with
      | None => Err (Panic 6)
      | Some ph =>
        let auths := map (fun mk => payload_authenticator c mk ph) mac_keys in
        bind (encrypt_packets v payload_key hh mac_keys (n + 1) t) (fun rest =>
        Ok (mp_encode (mv_enc_block v auths ct final) ++ rest))
      end
  end.

(* everything after the random draws: header, MAC keys, packets.
   [rs] is the shuffled recipient list, [sender] = None for an anonymous sender. *)
Definition seal_core (v : version) (sender : option bytes) (eph_sk payload_key : bytes)
           (rs : list rcpt) (pieces : list bytes) : result bytes :=
  let sender_sk := match sender with Some s => s | None => eph_sk end in
  let eph_pk := dh_pub c eph_sk in
  let sbox := sb_seal c payload_key nonce_sender_key_sbox (dh_pub c sender_sk) in
  let entries := mapi_from (enc_receiver_entry v eph_sk payload_key) 0 rs in
  let hdr := mp_encode (mv_enc_header v mt_encryption eph_pk sbox entries) in
  let hh := sha512 c hdr in
  let mac_keys := mapi_from (fun i rc => mac_key_sender v i sender_sk eph_sk (fst rc) hh) 0 rs in
  bind (encrypt_packets v payload_key hh mac_keys 0 (cw_session v enc_block_size [] pieces)) (fun body =>
  Ok (mp_encode (MBin hdr) ++ body)).

(* newEncryptStream + Write* + Close: version and recipient checks, then the
   random draws in the order the code makes them: shuffle, ephemeral key, payload key *)
Definition seal_stream (v : version) (sender : option bytes) (rcpts : list rcpt)
           (pieces : list bytes) (r : rng) : result (bytes * rng) :=
  if negb (known_version v) then Err ErrBadVersion
  else
  bind (check_receivers rcpts) (fun _ =>
  match shuffle rcpts r with
  | None => Err ErrRand
  | Some (rs, r1) =>
    match read_full 32 r1 with
    | None => Err ErrRand
    | Some (eph_sk, r2) =>
      match read_full 32 r2 with
      | None => Err ErrRand
      | Some (payload_key, r3) =>
        bind (seal_core v sender eph_sk payload_key rs pieces) (fun out => Ok (out, r3))
      end
    end
  end).

(* Seal *)
Definition seal (v : version) (sender : option bytes) (rcpts : list rcpt) (msg : bytes) (r : rng) :=
  seal_stream v sender rcpts [msg] r.

End C.
