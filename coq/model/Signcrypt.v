(* Signcrypt.v — model of /repo/signcrypt_seal.go and /repo/signcrypt_open.go. *)
From Coq Require Import List NArith ZArith Bool.
From Coq.Strings Require Import Byte.
From SP Require Import Bytes Params Msgpack Crypto Errors Nonce Packets Chunker Rand Verify Encrypt Decrypt.
Import ListNotations.
Open Scope N_scope.

(* a signcryption recipient: a Curve25519 box key, or a symmetric key with its identifier *)
Inductive sc_rcpt :=
| BoxRcpt (pk : bytes)
| SymRcpt (key ident : bytes).

Section C.
Variable c : crypto.

(* derivedEphemeralKeyFromBoxKeys: last 32 bytes of box(32 zero bytes) *)
Definition derived_box_key (sk pk : bytes) : bytes :=
  skipn 16 (box_seal c sk pk nonce_derived_shared_key (zeros 32)).

(* keyIdentifierFromDerivedKey *)
Definition box_key_identifier (derived : bytes) (i : N) : bytes :=
  firstn 32 (hmac512 c signcryption_boxkey_id_context (derived ++ nonce_payload_key_box_v2 i)).

(* the derived key of a symmetric-key recipient *)
Definition derived_sym_key (eph_pk key : bytes) : bytes :=
  firstn 32 (hmac512 c signcryption_symkey_context (eph_pk ++ key)).

Definition sc_receiver_entry (eph_sk eph_pk payload_key : bytes) (i : N) (r : sc_rcpt)
  : option bytes * bytes :=
  match r with
  | BoxRcpt pk =>
    let d := derived_box_key eph_sk pk in
    (Some (box_key_identifier d i), sb_seal c d (nonce_payload_key_box_v2 i) payload_key)
  | SymRcpt key ident =>
    let d := derived_sym_key eph_pk key in
    (Some ident, sb_seal c d (nonce_payload_key_box_v2 i) payload_key)
  end.

Definition sc_kid (r : sc_rcpt) : bytes :=
  match r with BoxRcpt pk => pk | SymRcpt _ ident => ident end.

(* checkSigncryptReceivers *)
Definition sc_check_receivers (boxes : list bytes) (syms : list (bytes * bytes)) : result unit :=
  let n := (length boxes + length syms)%nat in
  if Nat.eqb n 0 then Err ErrBadReceivers
  else if (max_receiver_count <? Z.of_nat n)%Z then Err ErrBadReceivers
  else if has_dup (boxes ++ map snd syms) then Err ErrRepeatedKey
  else Ok tt.

(* signcryptBlock for block numbers n, n+1, ...; [signer] = None for an anonymous sender *)
Fixpoint signcrypt_packets (signer : option bytes) (payload_key hh : bytes) (n : N)
         (ps : list (bytes * bool)) : result bytes :=
  match ps with
  | [] => Ok []
  | (chunk, final) :: t =>
    if negb (block_number_ok n) then Err ErrPacketOverflow
    else
      let nonce := nonce_chunk_signcryption hh final n in
      let sig := match signer with
                 | None => zeros 64
                 | Some sk => ed_sign c sk (signcrypt_sig_input c hh nonce final chunk)
                 end in
      let ct := sb_seal c payload_key nonce (sig ++ chunk) in
      bind (signcrypt_packets signer payload_key hh (n + 1) t) (fun rest =>
      Ok (mp_encode (mv_signcrypt_block ct final) ++ rest))
  end.

(* everything after the random draws *)
Definition signcrypt_core (signer : option bytes) (eph_sk payload_key : bytes) (rs : list sc_rcpt)
           (pieces : list bytes) : result bytes :=
  let eph_pk := dh_pub c eph_sk in
  let sender_pub := match signer with None => zeros 32 | Some sk => ed_pub c sk end in
  if negb (Nat.eqb (length sender_pub) 32) then Err (Panic 10)
  else
  let sbox := sb_seal c payload_key nonce_sender_key_sbox sender_pub in
  let entries := mapi_from (sc_receiver_entry eph_sk eph_pk payload_key) 0 rs in
  let hdr := mp_encode (mv_enc_header v2 mt_signcryption eph_pk sbox entries) in
  let hh := sha512 c hdr in
  bind (signcrypt_packets signer payload_key hh 0 (cw_session v2 enc_block_size [] pieces)) (fun body =>
  Ok (mp_encode (MBin hdr) ++ body)).

(* newSigncryptSealStream + Write* + Close *)
Definition signcrypt_seal_stream (signer : option bytes) (boxes : list bytes) (syms : list (bytes * bytes))
           (pieces : list bytes) (r : rng) : result (bytes * rng) :=
  bind (sc_check_receivers boxes syms) (fun _ =>
  let all := map BoxRcpt boxes ++ map (fun s => SymRcpt (fst s) (snd s)) syms in
  match shuffle all r with
  | None => Err ErrRand
  | Some (rs, r1) =>
    match read_full 32 r1 with
    | None => Err ErrRand
    | Some (eph_sk, r2) =>
      match read_full 32 r2 with
      | None => Err ErrRand
      | Some (payload_key, r3) =>
        bind (signcrypt_core signer eph_sk payload_key rs pieces) (fun out => Ok (out, r3))
      end
    end
  end).

(* ---------- open ---------- *)

(* a resolver: the (identifier, key) pairs it can resolve; None = no resolver *)
Definition resolver := option (list (bytes * bytes)).

Definition resolve (rs : list (bytes * bytes)) (ident : bytes) : option bytes :=
  match find (fun p => bytes_eqb (fst p) ident) rs with
  | Some p => Some (snd p)
  | None => None
  end.

(* tryBoxSecretKeys: receivers outer loop, derived keys inner loop *)
Fixpoint sc_try_derived (derived : list bytes) (i : N) (kid box : bytes) : result (option bytes) :=
  match derived with
  | [] => Ok None
  | d :: t =>
    if bytes_eqb (box_key_identifier d i) kid then
      match sb_open c d (nonce_payload_key_box_v2 i) box with
      | None => Err ErrDecryptionFailed
      | Some pk => bind (sym_key pk) (fun k => Ok (Some k))
      end
    else sc_try_derived t i kid box
  end.

Fixpoint sc_try_box (derived : list bytes) (rcvs : list (bytes * bytes)) (i : N) : result (option bytes) :=
  match rcvs with
  | [] => Ok None
  | (kid, box) :: t =>
    match sc_try_derived derived i kid box with
    | Err e => Err e
    | Ok (Some k) => Ok (Some k)
    | Ok None => sc_try_box derived t (i + 1)
    end
  end.

(* trySharedSymmetricKeys: the first receiver whose identifier resolves decides *)
Fixpoint sc_try_sym (rs : list (bytes * bytes)) (eph : bytes) (rcvs : list (bytes * bytes)) (i : N)
  : result (option bytes) :=
  match rcvs with
  | [] => Ok None
  | (kid, box) :: t =>
    match resolve rs kid with
    | None => sc_try_sym rs eph t (i + 1)
    | Some key =>
      match sb_open c (derived_sym_key eph key) (nonce_payload_key_box_v2 i) box with
      | None => Err ErrDecryptionFailed
      | Some pk => bind (sym_key pk) (fun k => Ok (Some k))
      end
    end
  end.

Definition validate_sc_header (h : header) : result unit :=
  if negb (bytes_eqb (h_format h) format_name) then Err ErrNotASaltpackMessage
  else if negb (h_type h =? mt_signcryption)%Z then Err ErrWrongMessageType
  else if negb (vmaj (h_version h) =? vmaj v2)%Z then Err ErrBadVersion
  else Ok tt.

(* processHeader: Ok (payload key, Some signer | None for anonymous) *)
Definition process_sc_header (kr : keyring) (signers : sigring) (rv : resolver) (h : header)
  : result (bytes * option bytes) :=
  bind (validate_sc_header h) (fun _ =>
  let eph := h_a h in
  if negb (Nat.eqb (length eph) 32) then Err ErrBadEphemeralKey
  else
  let derived := map (fun k => derived_box_key (fst k) eph) (kr_keys kr) in
  bind (sc_try_box derived (h_rcvs h) 0) (fun b =>
  bind (match b with
        | Some k => Ok (Some k)
        | None => match rv with
                  | None => Ok None
                  | Some rs => sc_try_sym rs eph (h_rcvs h) 0
                  end
        end) (fun found =>
  match found with
  | None => Err ErrNoDecryptionKey
  | Some payload_key =>
    match sb_open c payload_key nonce_sender_key_sbox (h_b h) with
    | None => Err ErrBadSenderKeySecretbox
    | Some sender =>
      if all_zero sender then Ok (payload_key, None)
      else match lookup_signer signers sender with
           | None => Err ErrNoSenderKey
           | Some pk => Ok (payload_key, Some pk)
           end
    end
  end))).

Fixpoint sc_open_loop (fuel : nat) (payload_key : bytes) (signer : option bytes) (hh : bytes) (n : N)
         (input : bytes) (acc : list bytes) : stream_out :=
  match fuel with
  | O => mkOut (rev_append acc []) Unmodelled
  | S f =>
    match read_packet input with
    | Err e => mkOut (rev_append acc []) e
    | Ok (m, rest) =>
      match of_dres (view_signcrypt_block m) with
      | Err e => mkOut (rev_append acc []) e
      | Ok (ct, final) =>
        if negb (block_number_ok n) then mkOut (rev_append acc []) ErrPacketOverflow
        else
        let nonce := nonce_chunk_signcryption hh final n in
        match sb_open c payload_key nonce ct with
        | None => mkOut (rev_append acc []) (ErrBadCiphertext (n + 1))
        | Some att =>
          if Nat.ltb (length att) 64 then mkOut (rev_append acc []) (ErrBadCiphertext (n + 1))
          else
            let sig := firstn 64 att in
            let chunk := skipn 64 att in
            let sig_ok := match signer with
                          | None => true
                          | Some pk => ed_verify c pk (signcrypt_sig_input c hh nonce final chunk) sig
                          end in
            if negb sig_ok then mkOut (rev_append acc []) ErrBadSignature
            else
              match check_chunk_state v2 (length chunk) n final with
              | Err e => mkOut (rev_append acc []) e
              | Ok _ =>
                if final then mkOut (rev_append (chunk :: acc) []) (assert_end_of_stream rest)
                else sc_open_loop f payload_key signer hh (n + 1) rest (chunk :: acc)
              end
        end
      end
    end
  end.

(* NewSigncryptOpenStream *)
Definition signcrypt_open_stream (kr : keyring) (signers : sigring) (rv : resolver) (input : bytes)
  : result (option bytes * stream_out) :=
  bind (read_header_bytes input) (fun hr =>
  let hh := sha512 c (fst hr) in
  bind (decode_header view_enc_header (fst hr)) (fun h =>
  bind (process_sc_header kr signers rv h) (fun ks =>
  Ok (snd ks, sc_open_loop (S (length (snd hr))) (fst ks) (snd ks) hh 0 (snd hr) [])))).

(* SigncryptOpen *)
Definition signcrypt_open_all (kr : keyring) (signers : sigring) (rv : resolver) (input : bytes)
  : result (option bytes * bytes) :=
  bind (signcrypt_open_stream kr signers rv input) (fun x =>
  match so_end (snd x) with
  | EOF => Ok (fst x, concat (so_chunks (snd x)))
  | e => Err e
  end).

End C.
