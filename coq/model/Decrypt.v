(* Decrypt.v — model of /repo/decrypt.go (encryption mode receiver). *)
From Coq Require Import List NArith ZArith Bool.
From Coq.Strings Require Import Byte.
From SP Require Import Bytes Params Msgpack Crypto Errors Nonce Packets Chunker Verify.
Import ListNotations.
Open Scope N_scope.

(* a keyring: box key pairs (secret, public) in GetAllBoxSecretKeys order, and the
   sender public keys LookupBoxPublicKey knows (None: every 32-byte key) *)
Record keyring := mkRing {
  kr_keys : list (bytes * bytes);
  kr_senders : option (list bytes)
}.

(* what NewDecryptStream reports about the keys (MessageKeyInfo) *)
Record mki := mkMki {
  mki_sender : bytes; mki_sender_anon : bool;
  mki_receiver : bytes; mki_receiver_anon : bool;
  mki_named : list bytes; mki_num_anon : N
}.

Section C.
Variable c : crypto.

Definition lookup_sender (kr : keyring) (kid : bytes) : option bytes :=
  if negb (Nat.eqb (length kid) 32) then None
  else match kr_senders kr with
       | None => Some kid
       | Some l => if existsb (bytes_eqb kid) l then Some kid else None
       end.

Definition find_key (kr : keyring) (kid : bytes) : option (bytes * bytes) :=
  find (fun k => bytes_eqb (snd k) kid) (kr_keys kr).

(* LookupBoxSecretKey: first kid (in list order) for which the ring has a key *)
Fixpoint lookup_box_secret (kr : keyring) (kids : list bytes) (i : nat) : option (nat * (bytes * bytes)) :=
  match kids with
  | [] => None
  | kid :: t =>
    match find_key kr kid with
    | Some k => Some (i, k)
    | None => lookup_box_secret kr t (S i)
    end
  end.

(* the named receivers with their original positions *)
Fixpoint named_with_index (rcvs : list (bytes * bytes)) (i : N) : list (N * bytes) :=
  match rcvs with
  | [] => []
  | (kid, _) :: t =>
    match kid with
    | [] => named_with_index t (i + 1)
    | _ => (i, kid) :: named_with_index t (i + 1)
    end
  end.

(* symmetricKeyFromSlice *)
Definition sym_key (b : bytes) : result bytes :=
  if Nat.eqb (length b) 32 then Ok b else Err ErrBadSymmetricKey.

(* tryVisibleReceivers: Ok None = no visible match *)
Definition try_visible (kr : keyring) (v : version) (eph : bytes) (rcvs : list (bytes * bytes))
  : result (option ((bytes * bytes) * bytes * N)) :=
  let named := named_with_index rcvs 0 in
  match lookup_box_secret kr (map snd named) 0 with
  | None => Ok None
  | Some (i, k) =>
    match nth_error named i with
    | None => Err ErrBadLookup
    | Some (orig, _) =>
      match nonce_payload_key_box v orig with
      | None => Err (Panic 7)
      | Some nonce =>
        match box_open c (fst k) eph nonce (snd (nth (N.to_nat orig) rcvs ([], []))) with
        | None => Err ErrDecryptionFailed
        | Some pk => bind (sym_key pk) (fun key => Ok (Some (k, key, orig)))
        end
      end
    end
  end.

(* tryHiddenReceivers: every secret key against every anonymous box, in order *)
Fixpoint try_hidden_boxes (v : version) (shared : bytes) (rcvs : list (bytes * bytes)) (i : N)
  : result (option (bytes * N)) :=
  match rcvs with
  | [] => Ok None
  | (kid, box) :: t =>
    match kid with
    | [] =>
      match nonce_payload_key_box v i with
      | None => Err (Panic 7)
      | Some nonce =>
        match sb_open c shared nonce box with
        | None => try_hidden_boxes v shared t (i + 1)
        | Some pk => bind (sym_key pk) (fun key => Ok (Some (key, i)))
        end
      end
    | _ => try_hidden_boxes v shared t (i + 1)
    end
  end.

Fixpoint try_hidden (keys : list (bytes * bytes)) (v : version) (eph : bytes) (rcvs : list (bytes * bytes))
  : result (option ((bytes * bytes) * bytes * N)) :=
  match keys with
  | [] => Ok None
  | k :: t =>
    match try_hidden_boxes v (dh_shared c (fst k) eph) rcvs 0 with
    | Err e => Err e
    | Ok (Some (key, i)) => Ok (Some (k, key, i))
    | Ok None => try_hidden t v eph rcvs
    end
  end.

(* computeMACKeyReceiver *)
Definition mac_key_receiver (v : version) (index : N) (sk sender_pk eph_pk hh : bytes) : option bytes :=
  if (vmaj v =? 1)%Z then Some (mac_key_single c sk sender_pk (nonce_mac_key_box_v1 hh))
  else if (vmaj v =? 2)%Z then
    Some (sum512_truncate256 c
            (mac_key_single c sk sender_pk (nonce_mac_key_box_v2 hh false index) ++
             mac_key_single c sk eph_pk (nonce_mac_key_box_v2 hh true index)))
  else None.

(* EncryptionHeader.validate *)
Definition validate_enc_header (vd : validator) (h : header) : result unit :=
  if negb (bytes_eqb (h_format h) format_name) then Err ErrNotASaltpackMessage
  else if negb (h_type h =? mt_encryption)%Z then Err ErrWrongMessageType
  else if negb (validate_version vd (h_version h)) then Err ErrBadVersion
  else Ok tt.

Record dec_state := mkDec {
  ds_version : version; ds_payload_key : bytes; ds_mac_key : bytes; ds_position : N; ds_hh : bytes
}.

Definition count_anon (rcvs : list (bytes * bytes)) : N :=
  N.of_nat (length (filter (fun r => match fst r with [] => true | _ => false end) rcvs)).

(* processHeader *)
Definition process_enc_header (vd : validator) (kr : keyring) (hh : bytes) (h : header)
  : result (mki * dec_state) :=
  bind (validate_enc_header vd h) (fun _ =>
  let v := h_version h in
  let eph := h_a h in
  if negb (Nat.eqb (length eph) 32) then Err ErrBadEphemeralKey
  else
  let rcvs := h_rcvs h in
  let named := map snd (named_with_index rcvs 0) in
  bind (try_visible kr v eph rcvs) (fun vis =>
  bind (match vis with
        | Some x => Ok (Some x, false, 0)
        | None => bind (try_hidden (kr_keys kr) v eph rcvs) (fun hid => Ok (hid, true, count_anon rcvs))
        end) (fun r =>
  let '(found, ranon, nanon) := r in
  match found with
  | None => Err ErrNoDecryptionKey
  | Some (k, payload_key, pos) =>
    match sb_open c payload_key nonce_sender_key_sbox (h_b h) with
    | None => Err ErrBadSenderKeySecretbox
    | Some sender =>
      if negb (Nat.eqb (length sender) 32) then Err ErrBadBoxKey
      else
        bind (if bytes_eqb eph sender then Ok (eph, true)
              else match lookup_sender kr sender with
                   | None => Err ErrNoSenderKey
                   | Some s => Ok (s, false)
                   end) (fun sa =>
        match mac_key_receiver v pos (fst k) (fst sa) eph hh with
        | None => Err (Panic 8)
        | Some mk =>
          Ok (mkMki (fst sa) (snd sa) (snd k) ranon named nanon,
              mkDec v payload_key mk pos hh)
        end)
    end
  end))).

(* getNextChunk loop; [n] is the block number from 0; the packet seqno is n+1 *)
Fixpoint decrypt_loop (fuel : nat) (st : dec_state) (n : N) (input : bytes) (acc : list bytes) : stream_out :=
  match fuel with
  | O => mkOut (rev_append acc []) Unmodelled
  | S f =>
    match read_packet input with
    | Err e => mkOut (rev_append acc []) e
    | Ok (m, rest) =>
      let v := ds_version st in
      if negb ((vmaj v =? 1)%Z || (vmaj v =? 2)%Z) then mkOut (rev_append acc []) (Panic 9)
      else
      match of_dres (view_enc_block v m) with
      | Err e => mkOut (rev_append acc []) e
      | Ok (auths, ct, final) =>
        if negb (block_number_ok n) then mkOut (rev_append acc []) ErrPacketOverflow
        else
        let nonce := nonce_chunk_secretbox n in
        match payload_hash c v (ds_hh st) nonce ct final with
        | None => mkOut (rev_append acc []) (Panic 6)
        | Some ph =>
          let ours := payload_authenticator c (ds_mac_key st) ph in
          match nth_error auths (N.to_nat (ds_position st)) with
          | None => mkOut (rev_append acc []) (ErrBadTag (n + 1))
          | Some theirs =>
            if negb (bytes_eqb ours theirs) then mkOut (rev_append acc []) (ErrBadTag (n + 1))
            else
              match sb_open c (ds_payload_key st) nonce ct with
              | None => mkOut (rev_append acc []) (ErrBadCiphertext (n + 1))
              | Some chunk =>
                match check_chunk_state v (length chunk) n final with
                | Err e => mkOut (rev_append acc []) e
                | Ok _ =>
                  if final then mkOut (rev_append (chunk :: acc) []) (assert_end_of_stream rest)
                  else decrypt_loop f st (n + 1) rest (chunk :: acc)
                end
              end
          end
        end
      end
    end
  end.

(* NewDecryptStream *)
Definition open_stream (vd : validator) (kr : keyring) (input : bytes) : result (mki * stream_out) :=
  bind (read_header_bytes input) (fun hr =>
  let hh := sha512 c (fst hr) in
  bind (decode_header view_enc_header (fst hr)) (fun h =>
  bind (process_enc_header vd kr hh h) (fun ms =>
  Ok (fst ms, decrypt_loop (S (length (snd hr))) (snd ms) 0 (snd hr) [])))).

(* Open: the whole plaintext or nothing *)
Definition open_all (vd : validator) (kr : keyring) (input : bytes) : result (mki * bytes) :=
  bind (open_stream vd kr input) (fun x =>
  match so_end (snd x) with
  | EOF => Ok (fst x, concat (so_chunks (snd x)))
  | e => Err e
  end).

End C.
