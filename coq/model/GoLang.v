(* GoLang.v — a deep embedding of the small Go subset in which saltpack's decision
   functions are written, and its evaluator.  harness/cmd/gen serialises the bodies of a
   list of /repo functions into values of [gfunc] (gen/GoAst.v) on every run; the
   equivalence theorems in proofs/GoAstProofs.v relate [run_func] of those values to the
   hand-written model, so an edit to one of those functions in /repo changes the
   generated term and the equivalence proof has to go through again.

   Semantics implemented: integers are mathematical (Z) and wrapped to the width of the
   Go type recorded by the translator after every arithmetic operation and conversion
   (unsigned: mod 2^k; int/int64: not wrapped — the theorems bound the arguments);
   booleans; byte strings (string and []byte alike); structs as field lists; lists;
   nil; error values as a name plus arguments.  Statements: return, panic, if (with
   init), switch (with init, tag or tagless), assignment/definition/var, range over a
   list, for loops with condition (fuel-bounded), expression statements, blocks.  Calls
   go through an environment of external functions supplied by the theorem (e.g. the
   version validator, KnownVersions, the randomness source).  Anything else evaluates
   to [OStuck]; the theorems show the translated functions never get stuck. *)
From Coq Require Import List String ZArith Bool.
From Coq.Strings Require Import Byte.
Import ListNotations.
Local Open Scope string_scope.

Inductive gop := OEq | ONe | OLt | OLe | OGt | OGe | OAnd | OOr
               | OAdd | OSub | OMul | ODiv | OMod | OBand | OBor | OXor | OShl | OShr | OAndNot.

Inductive gexpr :=
| EInt (z : Z)
| EBool (b : bool)
| EStr (s : string)                      (* constant string (folded by the translator) *)
| ENil
| EVar (x : string)
| EErrVar (name : string)                (* package-level error value *)
| ESel (e : gexpr) (f : string)
| EIdx (e : gexpr) (i : gexpr)
| ESlice (e : gexpr) (lo hi : option gexpr)
| ELen (e : gexpr)
| EBin (op : gop) (ty : string) (a b : gexpr)   (* ty: Go type of the result *)
| ENot (e : gexpr)
| ENeg (ty : string) (e : gexpr)
| ECall (f : string) (args : list gexpr)        (* function, method (recv.m) or function-valued variable *)
| EConv (ty : string) (e : gexpr)
| ELit (ty : string) (fields : list (string * gexpr))   (* composite literal; positional fields get their declared names *)
| EAddr (x : string)                     (* &x: an out-parameter of an external call *)
| EBytesLit (zs : list Z)                (* a constant byte string given by its byte values *)
| EMapGet (m k : gexpr)                  (* m[k] on a map: zero value (nil) when absent *)
| EPkg (name : string)                   (* a package-level object of another package (binary.BigEndian): opaque *)
| EUnsup (what : string).

(* assignable places: x, l.f, l[i] (slice/array element), l[k] (map entry) *)
Inductive glval :=
| LVar (x : string)
| LField (l : glval) (f : string)
| LIndex (l : glval) (i : gexpr)
| LMapIndex (l : glval) (k : gexpr).

Inductive gstmt :=
| SReturn (es : list gexpr)
| SPanic (e : gexpr)
| SIf (init : list gstmt) (c : gexpr) (th el : list gstmt)
| SSwitch (init : list gstmt) (tag : option gexpr) (cases : list (list gexpr * list gstmt)) (dflt : option (list gstmt))
| SAssign (lhs : list string) (rhs : list gexpr)       (* x, y := / = e1, e2   or   x, err := f(...) *)
| SVar (x : string) (ty : string)                      (* var x T *)
| SRange (k v : string) (e : gexpr) (body : list gstmt)
| SFor (c : gexpr) (body : list gstmt)
| SExpr (e : gexpr)
| SOpAssign (x : string) (op : gop) (ty : string) (e : gexpr)   (* x += e, x++ *)
| SIdxOp (x : string) (i : gexpr) (op : option gop) (e : gexpr)  (* x[i] = e, x[i] op= e on a byte array *)
| SSliceCall (fn : string) (x : string) (lo hi : option gexpr) (args : list gexpr)
                                                          (* fn(x[lo:hi], args): the callee fills the window of x *)
| SAssignL (lhs : list glval) (rhs : list gexpr)      (* assignment with struct-field / element / map-entry targets (GoLang2 only) *)
| SOpAssignL (l : glval) (op : gop) (ty : string) (e : gexpr)
| SMapLookup (v ok : string) (m k : gexpr)             (* v, ok := m[k] *)
| SBreak
| SContinue
| SUnsup (what : string).

(* named results carry their Go type: they start at its zero value *)
Record gfunc := mkFunc { f_name : string; f_params : list string; f_results : list (string * string); f_body : list gstmt }.

Inductive gval :=
| VInt (z : Z)
| VBool (b : bool)
| VBytes (b : list byte)
| VStruct (fields : list (string * gval))
| VList (l : list gval)
| VNil
| VErr (name : string) (args : list gval).

Inductive outcome :=
| ORet (vs : list gval)
| OPanic
| OStuck (why : string).

Definition env := list (string * gval).
(* external functions: name, arguments -> results *)
Definition externs := string -> list gval -> option (list gval).

Fixpoint lookup (x : string) (e : env) : option gval :=
  match e with
  | [] => None
  | (y, v) :: t => if String.eqb x y then Some v else lookup x t
  end.

Fixpoint update (x : string) (v : gval) (e : env) : env :=
  match e with
  | [] => [(x, v)]
  | (y, w) :: t => if String.eqb x y then (y, v) :: t else (y, w) :: update x v t
  end.

Fixpoint bytes_eqb' (a b : list byte) : bool :=
  match a, b with
  | [], [] => true
  | x :: a', y :: b' => Byte.eqb x y && bytes_eqb' a' b'
  | _, _ => false
  end.

(* Go's == on the values we use; None when the comparison is not defined here *)
Fixpoint val_eqb (fuel : nat) (a b : gval) : option bool :=
  match fuel with
  | O => None
  | S f =>
    match a, b with
    | VInt x, VInt y => Some (Z.eqb x y)
    | VBool x, VBool y => Some (Bool.eqb x y)
    | VBytes x, VBytes y => Some (bytes_eqb' x y)
    | VNil, VNil => Some true
    | VNil, VErr _ _ => Some false
    | VErr _ _, VNil => Some false
    | VNil, VBytes y => Some (match y with [] => true | _ => false end)   (* a byte slice is nil iff empty here *)
    | VBytes y, VNil => Some (match y with [] => true | _ => false end)
    | VNil, VList y => Some (match y with [] => true | _ => false end)
    | VList y, VNil => Some (match y with [] => true | _ => false end)
    | VNil, VStruct _ => Some false                                        (* a key/struct object is not nil *)
    | VStruct _, VNil => Some false
    | VErr n1 a1, VErr n2 a2 =>
      if String.eqb n1 n2 then
        (fix go (l1 l2 : list gval) : option bool :=
           match l1, l2 with
           | [], [] => Some true
           | x :: t1, y :: t2 => match val_eqb f x y with Some true => go t1 t2 | r => r end
           | _, _ => Some false
           end) a1 a2
      else Some false
    | VStruct f1, VStruct f2 =>
      (fix go (l1 l2 : list (string * gval)) : option bool :=
         match l1, l2 with
         | [], [] => Some true
         | (n1, x) :: t1, (n2, y) :: t2 =>
           if String.eqb n1 n2 then match val_eqb f x y with Some true => go t1 t2 | r => r end else None
         | _, _ => None
         end) f1 f2
    | _, _ => None
    end
  end.

Definition width (ty : string) : option Z :=
  if String.eqb ty "uint8" || String.eqb ty "byte" then Some 256%Z
  else if String.eqb ty "uint16" then Some 65536%Z
  else if String.eqb ty "uint32" then Some 4294967296%Z
  else if String.eqb ty "uint64" || String.eqb ty "uint" then Some 18446744073709551616%Z
  else None.

Definition wrap (ty : string) (z : Z) : Z :=
  match width ty with Some m => Z.modulo z m | None => z end.

Definition arith (op : gop) (ty : string) (x y : Z) : option gval :=
  match op with
  | OEq => Some (VBool (Z.eqb x y)) | ONe => Some (VBool (negb (Z.eqb x y)))
  | OLt => Some (VBool (Z.ltb x y)) | OLe => Some (VBool (Z.leb x y))
  | OGt => Some (VBool (Z.ltb y x)) | OGe => Some (VBool (Z.leb y x))
  | OAdd => Some (VInt (wrap ty (x + y))) | OSub => Some (VInt (wrap ty (x - y)))
  | OMul => Some (VInt (wrap ty (x * y)))
  | ODiv => if Z.eqb y 0 then None else Some (VInt (wrap ty (Z.quot x y)))
  | OMod => if Z.eqb y 0 then None else Some (VInt (wrap ty (Z.rem x y)))
  | OBand => Some (VInt (Z.land x y)) | OBor => Some (VInt (Z.lor x y)) | OXor => Some (VInt (wrap ty (Z.lxor x y)))
  | OShl => Some (VInt (wrap ty (Z.shiftl x y))) | OShr => Some (VInt (Z.shiftr x y))
  | OAndNot => Some (VInt (Z.land x (Z.lnot y)))
  | OAnd | OOr => None
  end.

Definition zero_of (ty : string) : gval :=
  if String.eqb ty "bool" then VBool false
  else if String.eqb ty "string" then VBytes []
  else if String.eqb ty "error" then VNil
  else match width ty with
       | Some _ => VInt 0
       | None => if String.eqb ty "int" || String.eqb ty "int64" || String.eqb ty "int32" then VInt 0 else VNil
       end.

(* calls evaluated by the semantics itself *)
Definition is_builtin (fn : string) : bool :=
  String.eqb fn "make" || String.eqb fn "makemap" || String.eqb fn "append" || String.eqb fn "append...".

Section Eval.
Variable ext : externs.

Definition res := option gval.

Fixpoint eval (fuel : nat) (e : env) (x : gexpr) : option gval :=
  match fuel with
  | O => None
  | S f =>
    match x with
    | EInt z => Some (VInt z)
    | EBool b => Some (VBool b)
    | EStr s => Some (VBytes (list_byte_of_string s))
    | ENil => Some VNil
    | EVar v => lookup v e
    | EErrVar n => Some (VErr n [])
    | ESel a fld =>
      match eval f e a with
      | Some (VStruct fs) => lookup fld fs
      | _ => None
      end
    | EIdx a i =>
      match eval f e a, eval f e i with
      | Some (VBytes b), Some (VInt n) =>
        if (Z.ltb n 0 || Z.leb (Z.of_nat (List.length b)) n)%bool then None   (* out of range: the caller proves it cannot happen *)
        else match nth_error b (Z.to_nat n) with Some c => Some (VInt (Z.of_N (Byte.to_N c))) | None => None end
      | Some (VList l), Some (VInt n) =>
        if Z.ltb n 0 then None else nth_error l (Z.to_nat n)
      | _, _ => None
      end
    | ESlice a lo hi =>
      match eval f e a with
      | Some (VBytes b) =>
        let l := match lo with None => Some 0%Z | Some le => match eval f e le with Some (VInt n) => Some n | _ => None end end in
        let h := match hi with None => Some (Z.of_nat (List.length b)) | Some he => match eval f e he with Some (VInt n) => Some n | _ => None end end in
        match l, h with
        | Some l', Some h' =>
          if (Z.ltb l' 0 || Z.ltb h' l' || Z.ltb (Z.of_nat (List.length b)) h')%bool then None
          else Some (VBytes (firstn (Z.to_nat (h' - l')) (skipn (Z.to_nat l') b)))
        | _, _ => None
        end
      | _ => None
      end
    | ELen a =>
      match eval f e a with
      | Some (VBytes b) => Some (VInt (Z.of_nat (List.length b)))
      | Some (VList l) => Some (VInt (Z.of_nat (List.length l)))
      | Some VNil => Some (VInt 0)
      | _ => None
      end
    | EBin OAnd _ a b =>
      match eval f e a with
      | Some (VBool false) => Some (VBool false)
      | Some (VBool true) => match eval f e b with Some (VBool r) => Some (VBool r) | _ => None end
      | _ => None
      end
    | EBin OOr _ a b =>
      match eval f e a with
      | Some (VBool true) => Some (VBool true)
      | Some (VBool false) => match eval f e b with Some (VBool r) => Some (VBool r) | _ => None end
      | _ => None
      end
    | EBin op ty a b =>
      match eval f e a, eval f e b with
      | Some (VInt x'), Some (VInt y') => arith op ty x' y'
      | Some va, Some vb =>
        match op with
        | OEq => match val_eqb 8 va vb with Some r => Some (VBool r) | None => None end
        | ONe => match val_eqb 8 va vb with Some r => Some (VBool (negb r)) | None => None end
        | _ => None
        end
      | _, _ => None
      end
    | ENot a => match eval f e a with Some (VBool b) => Some (VBool (negb b)) | _ => None end
    | ENeg ty a => match eval f e a with Some (VInt z) => Some (VInt (wrap ty (- z))) | _ => None end
    | ECall fn args =>
      match (fix evs (l : list gexpr) : option (list gval) :=
               match l with
               | [] => Some []
               | a :: t => match eval f e a, evs t with Some v, Some vs => Some (v :: vs) | _, _ => None end
               end) args with
      | Some vs =>
        if String.eqb fn "append..." then
          match vs with
          | [VBytes x'; VBytes y'] => Some (VBytes (x' ++ y')%list)
          | [VNil; VBytes y'] => Some (VBytes y')
          | _ => None
          end
        else if String.eqb fn "makemap" then Some (VList [])
        else if String.eqb fn "make" then
          match vs with
          | [VInt n] => if Z.ltb n 0 then None else Some (VBytes (repeat x00 (Z.to_nat n)))
          | _ => None
          end
        else if String.eqb fn "append" then
          match vs with
          | VList x' :: more => Some (VList (x' ++ more)%list)
          | VNil :: ((VBytes _ | VStruct _ | VList _) :: _) as more => Some (VList more)
          | VNil :: more =>
            (fix app (acc : list byte) (l : list gval) : option gval :=
               match l with
               | [] => Some (VBytes acc)
               | VInt z :: t => if (Z.leb 0 z && Z.ltb z 256)%bool then app (acc ++ [match Byte.of_N (Z.to_N z) with Some c => c | None => x00 end])%list t else None
               | _ => None
               end) [] more
          | VBytes x' :: more =>
            (fix app (acc : list byte) (l : list gval) : option gval :=
               match l with
               | [] => Some (VBytes acc)
               | VInt z :: t => if (Z.leb 0 z && Z.ltb z 256)%bool then app (acc ++ [match Byte.of_N (Z.to_N z) with Some c => c | None => x00 end])%list t else None
               | _ => None
               end) x' more
          | _ => None
          end
        else match ext fn vs with Some [r] => Some r | _ => None end
      | None => None
      end
    | EConv ty a =>
      match eval f e a with
      | Some (VInt z) => match width ty with
                         | Some m => Some (VInt (Z.modulo z m))
                         | None => if String.eqb ty "int" || String.eqb ty "int64" then Some (VInt z) else None
                         end
      | Some (VBytes b) => if String.eqb ty "string" || String.eqb ty "[]byte" then Some (VBytes b) else None
      | _ => None
      end
    | ELit ty fields =>
      match (fix evf (l : list (string * gexpr)) : option (list (string * gval)) :=
               match l with
               | [] => Some []
               | (n, a) :: t => match eval f e a, evf t with Some v, Some vs => Some ((n, v) :: vs) | _, _ => None end
               end) fields with
      | Some fs =>
        if String.eqb (substring 0 3 ty) "Err" then Some (VErr ty (map snd fs))
        else if String.eqb ty "[]byte" then
          (fix bs (l : list (string * gval)) : option gval :=
             match l with
             | [] => Some (VBytes [])
             | (_, VInt z) :: t =>
               if (Z.leb 0 z && Z.ltb z 256)%bool then
                 match bs t with
                 | Some (VBytes r) => Some (VBytes (match Byte.of_N (Z.to_N z) with Some c => c | None => x00 end :: r))
                 | _ => None
                 end
               else None
             | _ => None
             end) fs
        else Some (VStruct fs)
      | None => None
      end
    | EAddr v => match lookup v e with Some r => Some r | None => Some VNil end
    | EBytesLit zs => Some (VBytes (map (fun z => match Byte.of_N (Z.to_N z) with Some c => c | None => x00 end) zs))
    | EMapGet m k =>
      match eval f e m, eval f e k with
      | Some (VList l), Some kv =>
        (fix find (l0 : list gval) : option gval :=
           match l0 with
           | [] => Some VNil
           | VList [k0; v0] :: t => match val_eqb 8 k0 kv with Some true => Some v0 | Some false => find t | None => None end
           | _ => None
           end) l
      | _, _ => None
      end
    | EPkg _ => Some VNil
    | EUnsup _ => None
    end
  end.

(* statement execution: Some (inl env') = fell through, Some (inr outcome) = returned/panicked *)
Definition sres := (env + outcome)%type.

Definition stuck (s : string) : sres := inr (OStuck s).

Fixpoint assign_all (xs : list string) (vs : list gval) (e : env) : option env :=
  match xs, vs with
  | [], [] => Some e
  | x :: xt, v :: vt => if String.eqb x "_" then assign_all xt vt e else assign_all xt vt (update x v e)
  | _, _ => None
  end.

(* the variables an external call may write back to: its arguments of the form x or &x, in order *)
Fixpoint mutable_args (args : list gexpr) : list string :=
  match args with
  | [] => []
  | EVar x :: t => x :: mutable_args t
  | EAddr x :: t => x :: mutable_args t
  | _ :: t => mutable_args t
  end.

(* results of an external call: the first |lhs| go to the left-hand side, any further ones are
   written back, in order, to the mutable arguments (state of a reader/decoder, out-parameters) *)
Fixpoint write_back (xs : list string) (vs : list gval) (e : env) : option env :=
  match vs, xs with
  | [], _ => Some e
  | v :: vt, x :: xt => write_back xt vt (update x v e)
  | _ :: _, [] => None
  end.

Definition assign_call (lhs : list string) (args : list gexpr) (rs : list gval) (e : env) : option env :=
  match assign_all lhs (firstn (List.length lhs) rs) e with
  | Some e1 => write_back (mutable_args args) (skipn (List.length lhs) rs) e1
  | None => None
  end.

Fixpoint exec (fuel : nat) (e : env) (ss : list gstmt) {struct fuel} : sres :=
  match fuel with
  | O => stuck "fuel"
  | S f =>
    match ss with
    | [] => inl e
    | s :: rest =>
      let continue (e' : env) := exec f e' rest in
      match s with
      | SReturn es =>
        match (fix evs (l : list gexpr) : option (list gval) :=
                 match l with
                 | [] => Some []
                 | a :: t => match eval 64 e a, evs t with Some v, Some vs => Some (v :: vs) | _, _ => None end
                 end) es with
        | Some vs => inr (ORet vs)
        | None => stuck "return"
        end
      | SPanic _ => inr OPanic
      | SIf init c th el =>
        match exec f e init with
        | inr o => inr o
        | inl e1 =>
          match eval 64 e1 c with
          | Some (VBool true) => match exec f e1 th with inl e2 => continue e2 | inr o => inr o end
          | Some (VBool false) => match exec f e1 el with inl e2 => continue e2 | inr o => inr o end
          | _ => stuck "if"
          end
        end
      | SSwitch init tag cases dflt =>
        match exec f e init with
        | inr o => inr o
        | inl e1 =>
          let tagv := match tag with Some t => eval 64 e1 t | None => Some (VBool true) end in
          match tagv with
          | None => stuck "switch tag"
          | Some tv =>
            (fix pick (cs : list (list gexpr * list gstmt)) : sres :=
               match cs with
               | [] => match dflt with
                       | Some b => match exec f e1 b with inl e2 => continue e2 | inr o => inr o end
                       | None => continue e1
                       end
               | (labels, body) :: ct =>
                 match (fix anym (ls : list gexpr) : option bool :=
                          match ls with
                          | [] => Some false
                          | l :: lt => match eval 64 e1 l with
                                       | Some lv => match val_eqb 8 tv lv with
                                                    | Some true => Some true
                                                    | Some false => anym lt
                                                    | None => None
                                                    end
                                       | None => None
                                       end
                          end) labels with
                 | Some true => match exec f e1 body with inl e2 => continue e2 | inr o => inr o end
                 | Some false => pick ct
                 | None => stuck "switch label"
                 end
               end) cases
          end
        end
      | SAssign lhs rhs =>
        match (match rhs with
               | [ECall fn args] => if is_builtin fn then None else Some (fn, args)
               | _ => None
               end) with
        | Some (fn, args) =>
          match (fix evs (l : list gexpr) : option (list gval) :=
                   match l with
                   | [] => Some []
                   | a :: t => match eval 64 e a, evs t with Some v, Some vs => Some (v :: vs) | _, _ => None end
                   end) args with
          | Some vs => match ext fn vs with
                       | Some rs => match assign_call lhs args rs e with Some e' => continue e' | None => stuck "assign arity" end
                       | None => stuck "extern"
                       end
          | None => stuck "call args"
          end
        | None =>
          match (fix evs (l : list gexpr) : option (list gval) :=
                   match l with
                   | [] => Some []
                   | a :: t => match eval 64 e a, evs t with Some v, Some vs => Some (v :: vs) | _, _ => None end
                   end) rhs with
          | Some vs => match assign_all lhs vs e with Some e' => continue e' | None => stuck "assign arity" end
          | None => stuck "assign"
          end
        end
      | SVar x ty => continue (update x (zero_of ty) e)
      | SRange k v coll body =>
        match eval 64 e coll with
        | Some (VList l) =>
          (fix loop (i : Z) (items : list gval) (e1 : env) : sres :=
             match items with
             | [] => continue e1
             | it :: more =>
               let e2 := if String.eqb k "_" then e1 else update k (VInt i) e1 in
               let e3 := if String.eqb v "_" then e2 else update v it e2 in
               match exec f e3 body with
               | inl e4 => loop (i + 1)%Z more e4
               | inr o => inr o
               end
             end) 0%Z l e
        | _ => stuck "range"
        end
      | SFor c body =>
        (fix loop (n : nat) (e1 : env) : sres :=
           match n with
           | O => stuck "loop fuel"
           | S n' =>
             match eval 64 e1 c with
             | Some (VBool true) => match exec f e1 body with inl e2 => loop n' e2 | inr o => inr o end
             | Some (VBool false) => continue e1
             | _ => stuck "for"
             end
           end) f e
      | SExpr (ECall fn args) =>
        match (fix evs (l : list gexpr) : option (list gval) :=
                 match l with
                 | [] => Some []
                 | a :: t => match eval 64 e a, evs t with Some v, Some vs => Some (v :: vs) | _, _ => None end
                 end) args with
        | Some vs => match ext fn vs with
                     | Some rs => match write_back (mutable_args args) (skipn 1 rs) e with Some e' => continue e' | None => stuck "call arity" end
                     | None => stuck "extern"
                     end
        | None => stuck "call args"
        end
      | SExpr x => match eval 64 e x with Some _ => continue e | None => stuck "expr" end
      | SOpAssign x op ty a =>
        match lookup x e, eval 64 e a with
        | Some (VInt xv), Some (VInt av) =>
          match arith op ty xv av with Some v => continue (update x v e) | None => stuck "opassign" end
        | _, _ => stuck "opassign"
        end
      | SIdxOp x i op a =>
        match lookup x e, eval 64 e i, eval 64 e a with
        | Some (VBytes b), Some (VInt n), Some (VInt av) =>
          if (Z.ltb n 0 || Z.leb (Z.of_nat (List.length b)) n)%bool then stuck "index"
          else
            let old := match nth_error b (Z.to_nat n) with Some c => Z.of_N (Byte.to_N c) | None => 0%Z end in
            let nv := match op with
                      | None => Some (VInt (Z.modulo av 256))
                      | Some o => arith o "uint8" old av
                      end in
            match nv with
            | Some (VInt z) =>
              let c := match Byte.of_N (Z.to_N (Z.modulo z 256)) with Some c => c | None => x00 end in
              continue (update x (VBytes (firstn (Z.to_nat n) b ++ c :: skipn (S (Z.to_nat n)) b)%list) e)
            | _ => stuck "idxop"
            end
        | _, _, _ => stuck "idxop"
        end
      | SSliceCall fn x lo hi args =>
        match lookup x e with
        | Some (VBytes b) =>
          let l := match lo with None => Some 0%Z | Some le => match eval 64 e le with Some (VInt n) => Some n | _ => None end end in
          let h := match hi with None => Some (Z.of_nat (List.length b)) | Some he => match eval 64 e he with Some (VInt n) => Some n | _ => None end end in
          match l, h with
          | Some l', Some h' =>
            if (Z.ltb l' 0 || Z.ltb h' l' || Z.ltb (Z.of_nat (List.length b)) h')%bool then stuck "slice"
            else
              let win := firstn (Z.to_nat (h' - l')) (skipn (Z.to_nat l') b) in
              match (fix evs (l0 : list gexpr) : option (list gval) :=
                       match l0 with
                       | [] => Some []
                       | a :: t => match eval 64 e a, evs t with Some v, Some vs => Some (v :: vs) | _, _ => None end
                       end) args with
              | Some vs =>
                match ext fn (VBytes win :: vs) with
                | Some [VBytes w'] =>
                  if Nat.eqb (List.length w') (List.length win) then
                    continue (update x (VBytes (firstn (Z.to_nat l') b ++ w' ++ skipn (Z.to_nat h') b)%list) e)
                  else inr OPanic               (* copyEqualSize panics on a length mismatch *)
                | Some [VNil] => inr OPanic
                | _ => stuck "slice call"
                end
              | None => stuck "slice call args"
              end
          | _, _ => stuck "slice bounds"
          end
        | _ => stuck "slice call target"
        end
      | SAssignL _ _ | SOpAssignL _ _ _ _ | SMapLookup _ _ _ _ | SBreak | SContinue => stuck "statement of the extended subset (GoLang2)"
      | SUnsup w => stuck w
      end
    end
  end.

Fixpoint bind_params (ps : list string) (vs : list gval) : option env :=
  match ps, vs with
  | [], [] => Some []
  | p :: pt, v :: vt => match bind_params pt vt with Some e => Some ((p, v) :: e) | None => None end
  | _, _ => None
  end.

(* run a function on argument values; falling off the end returns the named results *)
Definition run_func (fn : gfunc) (args : list gval) : outcome :=
  match bind_params (f_params fn) args with
  | None => OStuck "arity"
  | Some e0 =>
    let e := (e0 ++ map (fun r => (fst r, zero_of (snd r))) (f_results fn))%list in
    match exec 200 e (f_body fn) with
    | inr o => o
    | inl e' =>
      match (fix rs (l : list (string * string)) : option (list gval) :=
               match l with
               | [] => Some []
               | r :: t => match lookup (fst r) e', rs t with Some v, Some vs => Some (v :: vs) | _, _ => None end
               end) (f_results fn) with
      | Some vs => ORet vs
      | None => OStuck "fell off the end"
      end
    end
  end.

End Eval.
