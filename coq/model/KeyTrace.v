(* KeyTrace.v — the calls the library makes on the application's key objects
   (BoxSecretKey.Unbox / Box, BoxPrecomputedSharedKey.Unbox, SigningSecretKey.Sign),
   as functions that mirror the control flow of the receivers and senders in
   Decrypt.v, Signcrypt.v, Encrypt.v and Sign.v.  They are tied to /repo by the C12
   campaign, which records the real calls on harness-supplied key wrappers. *)
From Coq Require Import List NArith ZArith Bool.
From Coq.Strings Require Import Byte.
From SP Require Import Bytes Params Msgpack Crypto Errors Nonce Packets Chunker Rand Verify Encrypt Decrypt Signcrypt Sign.
Import ListNotations.
Open Scope N_scope.

Inductive key_event :=
| KUnbox (key peer nonce box : bytes)        (* long-term BoxSecretKey.Unbox(peer, nonce, box) *)
| KPreUnbox (key peer nonce box : bytes)     (* long-term key.Precompute(peer).Unbox(nonce, box) *)
| KBox (key peer nonce msg : bytes)          (* long-term BoxSecretKey.Box(peer, nonce, msg) *)
| KSign (key msg : bytes).                   (* SigningSecretKey.Sign(msg) *)

Section C.
Variable c : crypto.

(* ---- Open / NewDecryptStream ---- *)

Fixpoint hidden_box_events (v : version) (k : bytes * bytes) (eph : bytes) (rcvs : list (bytes * bytes)) (i : N)
  : list key_event * bool :=      (* events, and whether a box opened to a 32-byte key or a bad-length key stopped the scan *)
  match rcvs with
  | [] => ([], false)
  | (kid, box) :: t =>
    match kid with
    | [] =>
      match nonce_payload_key_box v i with
      | None => ([], true)
      | Some nonce =>
        let ev := KPreUnbox (snd k) eph nonce box in
        match sb_open c (dh_shared c (fst k) eph) nonce box with
        | None => let (r, s) := hidden_box_events v k eph t (i + 1) in (ev :: r, s)
        | Some _ => ([ev], true)
        end
      end
    | _ => hidden_box_events v k eph t (i + 1)
    end
  end.

Fixpoint hidden_events (keys : list (bytes * bytes)) (v : version) (eph : bytes) (rcvs : list (bytes * bytes)) : list key_event :=
  match keys with
  | [] => []
  | k :: t =>
    let (evs, stop) := hidden_box_events v k eph rcvs 0 in
    if stop then evs else evs ++ hidden_events t v eph rcvs
  end.

Definition mac_key_events (v : version) (index : N) (k : bytes * bytes) (sender_pk eph_pk hh : bytes) : list key_event :=
  if (vmaj v =? 1)%Z then [KBox (snd k) sender_pk (nonce_mac_key_box_v1 hh) (zeros 32)]
  else if (vmaj v =? 2)%Z then
    [KBox (snd k) sender_pk (nonce_mac_key_box_v2 hh false index) (zeros 32);
     KBox (snd k) eph_pk (nonce_mac_key_box_v2 hh true index) (zeros 32)]
  else [].

(* the key calls of processHeader, in order; keys are named by their public key *)
Definition open_header_events (vd : validator) (kr : keyring) (hh : bytes) (h : header) : list key_event :=
  match validate_enc_header vd h with
  | Err _ => []
  | Ok _ =>
    let v := h_version h in
    let eph := h_a h in
    if negb (Nat.eqb (length eph) 32) then []
    else
      let rcvs := h_rcvs h in
      let named := named_with_index rcvs 0 in
      let vis_events :=
        match lookup_box_secret kr (map snd named) 0 with
        | None => None
        | Some (i, k) =>
          match nth_error named i with
          | None => Some []
          | Some (orig, _) =>
            match nonce_payload_key_box v orig with
            | None => Some []
            | Some nonce => Some [KUnbox (snd k) eph nonce (snd (nth (N.to_nat orig) rcvs ([], [])))]
            end
          end
        end in
      let first := match vis_events with Some e => e | None => hidden_events (kr_keys kr) v eph rcvs end in
      match process_enc_header c vd kr hh h with
      | Ok (m, st) =>
        match find (fun k => bytes_eqb (snd k) (mki_receiver m)) (kr_keys kr) with
        | Some k => first ++ mac_key_events v (ds_position st) k (mki_sender m) eph hh
        | None => first
        end
      | Err _ => first
      end
  end.

Definition open_events (vd : validator) (kr : keyring) (input : bytes) : list key_event :=
  match read_header_bytes input with
  | Err _ => []
  | Ok (hb, _) =>
    match decode_header view_enc_header hb with
    | Err _ => []
    | Ok h => open_header_events vd kr (sha512 c hb) h
    end
  end.

(* ---- SigncryptOpen: one Box of 32 zero bytes per keyring key ---- *)
Definition sc_open_events (kr : keyring) (input : bytes) : list key_event :=
  match read_header_bytes input with
  | Err _ => []
  | Ok (hb, _) =>
    match decode_header view_enc_header hb with
    | Err _ => []
    | Ok h =>
      match validate_sc_header h with
      | Err _ => []
      | Ok _ =>
        if negb (Nat.eqb (length (h_a h)) 32) then []
        else map (fun k => KBox (snd k) (h_a h) nonce_derived_shared_key (zeros 32)) (kr_keys kr)
      end
    end
  end.

(* ---- Seal: the sender's long-term key only boxes 32 zero bytes ---- *)
Definition seal_sender_events (v : version) (sender_sk eph_sk pkey : bytes) (rs : list rcpt) : list key_event :=
  let eph_pk := dh_pub c eph_sk in
  let sbox := sb_seal c pkey nonce_sender_key_sbox (dh_pub c sender_sk) in
  let entries := mapi_from (enc_receiver_entry c v eph_sk pkey) 0 rs in
  let hh := sha512 c (mp_encode (mv_enc_header v mt_encryption eph_pk sbox entries)) in
  mapi_from (fun i rc =>
    KBox (dh_pub c sender_sk) (fst rc)
         (if (vmaj v =? 1)%Z then nonce_mac_key_box_v1 hh else nonce_mac_key_box_v2 hh false i) (zeros 32)) 0 rs.

(* ---- signers: the strings handed to SigningSecretKey.Sign ---- *)
Fixpoint attached_sign_inputs (v : version) (hh : bytes) (seqno : N) (ps : list (bytes * bool)) : list bytes :=
  match ps with
  | [] => []
  | (chunk, final) :: t =>
    match attached_sig_input c v hh chunk seqno final with
    | Some i => i :: attached_sign_inputs v hh (seqno + 1) t
    | None => []
    end
  end.

Definition sign_attached_events (v : version) (sk : bytes) (pieces : list bytes) (r : rng) : list key_event :=
  if negb (known_version v) then []
  else match read_full 16 r with
       | None => []
       | Some (nonce, _) =>
         let hh := sha512 c (sig_header_bytes v mt_attached (ed_pub c sk) nonce) in
         map (KSign (ed_pub c sk)) (attached_sign_inputs v hh 0 (cw_session v sig_block_size [] pieces))
       end.

Definition sign_detached_events (v : version) (sk msg : bytes) (r : rng) : list key_event :=
  if negb (known_version v) then []
  else match read_full 16 r with
       | None => []
       | Some (nonce, _) =>
         let hh := sha512 c (sig_header_bytes v mt_detached (ed_pub c sk) nonce) in
         [KSign (ed_pub c sk) (detached_sig_input c hh msg)]
       end.

Fixpoint signcrypt_sign_inputs (hh : bytes) (n : N) (ps : list (bytes * bool)) : list bytes :=
  match ps with
  | [] => []
  | (chunk, final) :: t =>
    signcrypt_sig_input c hh (nonce_chunk_signcryption hh final n) final chunk :: signcrypt_sign_inputs hh (n + 1) t
  end.

(* ---- the C12 predicates ---- *)

(* the fixed saltpack payload-key nonces *)
Definition nonce_v1_const : bytes := match nonce_payload_key_box v1 0 with Some n => n | None => [] end.
Definition payload_key_nonce_ok (nonce : bytes) : Prop :=
  nonce = nonce_v1_const \/ exists i, nonce = nonce_payload_key_box_v2 i.

Definition receiver_event_ok (e : key_event) : Prop :=
  match e with
  | KUnbox _ _ nonce _ | KPreUnbox _ _ nonce _ => payload_key_nonce_ok nonce
  | KBox _ _ _ msg => msg = zeros 32
  | KSign _ _ => False
  end.

(* a signature input: one of the three domain-separation strings followed by
   fixed-length hash material *)
Definition sign_input_ok (m : bytes) : Prop :=
  (exists h, m = sig_attached_prefix ++ h /\ length h = 64%nat) \/
  (exists h, m = sig_detached_prefix ++ h /\ length h = 64%nat) \/
  (exists h, m = sig_encrypted_prefix ++ h /\ length h = 153%nat).

End C.
