(* Rand.v — model of /repo/rand.go: csprngReadFull, csprngUint32,
   csprngUint32n (Lemire multiply-shift with rejection), csprngShuffle
   (Fisher-Yates).  Definitions only.
   The randomness source is an explicit finite byte stream; a read that the
   stream cannot satisfy is the model of "the source returned an error or a
   short read" (io.ReadFull turns both into an error). 32/64-bit wrap-around is
   written out explicitly (mod 2^32). *)
From Coq Require Import List NArith Bool.
From Coq.Strings Require Import Byte.
From SP Require Import Bytes.
Import ListNotations.
Open Scope N_scope.

Definition rng := bytes.

(* csprngReadFull *)
Definition read_full (k : nat) (r : rng) : option (bytes * rng) :=
  if Nat.leb k (length r) then Some (firstn k r, skipn k r) else None.

(* csprngUint32: 4 bytes big endian *)
Definition uint32 (r : rng) : option (N * rng) :=
  match read_full 4 r with
  | Some (b, r') => Some (be_val b, r')
  | None => None
  end.

Definition two32 : N := 4294967296.

(* the quantities csprngUint32n computes from one 32-bit draw *)
Definition lem_low (n v : N) : N := (v * n) mod two32.          (* uint32(prod) *)
Definition lem_out (n v : N) : N := (v * n) / two32.            (* uint32(prod >> 32) *)
Definition lem_thresh (n : N) : N := ((two32 - n) mod two32) mod n.   (* -n % n on uint32 *)

(* the code's two-stage test: a draw is rejected iff low < n and low < thresh *)
Definition lem_reject (n v : N) : bool :=
  (lem_low n v <? n) && (lem_low n v <? lem_thresh n).

(* the rejection loop; fuel bounds the number of draws (each consumes 4 bytes) *)
Fixpoint uint32n_loop (fuel : nat) (n : N) (r : rng) : option (N * rng) :=
  match fuel with
  | O => None
  | S f =>
    match uint32 r with
    | None => None
    | Some (v, r') =>
      if lem_reject n v then uint32n_loop f n r' else Some (lem_out n v, r')
    end
  end.

(* csprngUint32n *)
Definition uint32n (n : N) (r : rng) : option (N * rng) :=
  uint32n_loop (S (length r)) n r.

Section Shuffle.
Context {A : Type}.

Fixpoint set_nth (i : nat) (x : A) (l : list A) : list A :=
  match l, i with
  | [], _ => []
  | _ :: t, O => x :: t
  | y :: t, S i' => y :: set_nth i' x t
  end.

(* swap(i, j) on a slice *)
Definition swap (i j : nat) (l : list A) : list A :=
  match nth_error l i, nth_error l j with
  | Some a, Some b => set_nth j a (set_nth i b l)
  | _, _ => l
  end.

(* for i := n-1; i > 0; i-- { j := uint32n(i+1); swap(i, j) }   — [i] counts down *)
Fixpoint shuffle_loop (i : nat) (l : list A) (r : rng) : option (list A * rng) :=
  match i with
  | O => Some (l, r)
  | S i' =>
    match uint32n (N.of_nat (S i)) r with
    | None => None
    | Some (j, r') => shuffle_loop i' (swap i (N.to_nat j) l) r'
    end
  end.

(* csprngShuffle over a slice of length n *)
Definition shuffle (l : list A) (r : rng) : option (list A * rng) :=
  shuffle_loop (pred (length l)) l r.

(* the same loop driven by an explicit list of draws j_{n-1}, ..., j_1 *)
Fixpoint fy_loop (i : nat) (l : list A) (js : list nat) : list A :=
  match i, js with
  | S i', j :: js' => fy_loop i' (swap i j l) js'
  | _, _ => l
  end.
Definition fisher_yates (l : list A) (js : list nat) : list A :=
  fy_loop (pred (length l)) l js.

End Shuffle.
