(* Msgpack.v — the part of github.com/keybase/go-codec's MessagePack codec that
   saltpack relies on (modelled, not verified; tied to the code by the
   correspondence campaigns).  Definitions only.

   Encoder: go-codec's minimal encodings with WriteExt = true (ints as the
   shortest uint/int form, []byte as bin8/16/32, string as fixstr/str8/16/32,
   arrays as fixarray/array16/32, nil []byte as nil).
   Decoder: a generic parser to a value tree, plus the typed lenient views
   go-codec applies when decoding into saltpack's Go types.  Wire constructs
   outside the modelled subset (maps, ext, floats, time) give PUnmod/DUnmod and
   are counted, not compared. *)
From Coq Require Import List NArith ZArith Bool.
From Coq.Strings Require Import Byte.
From SP Require Import Bytes.
Import ListNotations.
Open Scope N_scope.

Inductive mval :=
| MNil
| MBool (b : bool)
| MInt (z : Z)
| MBin (b : bytes)
| MStr (b : bytes)
| MArr (l : list mval).

(* ---------- encoder ---------- *)

Definition enc_uint (n : N) : bytes :=
  if n <=? 127 then [n2b n]
  else if n <=? 255 then [xcc; n2b n]
  else if n <=? 65535 then xcd :: be16 n
  else if n <=? 4294967295 then xce :: be32 n
  else xcf :: be64 n.

(* EncodeInt on an int64 (two's complement written out with mod 2^k) *)
Definition enc_int (z : Z) : bytes :=
  if (0 <=? z)%Z then enc_uint (Z.to_N z)
  else if (-32 <=? z)%Z then [n2b (Z.to_N (z + 256))]
  else if (-128 <=? z)%Z then [xd0; n2b (Z.to_N (z + 256))]
  else if (-32768 <=? z)%Z then xd1 :: be16 (Z.to_N (z + 65536))
  else if (-2147483648 <=? z)%Z then xd2 :: be32 (Z.to_N (z + 4294967296))
  else xd3 :: be64 (Z.to_N (z + 18446744073709551616)).

Definition enc_bin_hdr (l : N) : bytes :=
  if l <? 256 then [xc4; n2b l]
  else if l <? 65536 then xc5 :: be16 l
  else xc6 :: be32 l.

Definition enc_str_hdr (l : N) : bytes :=
  if l <? 32 then [n2b (160 + l)]
  else if l <? 256 then [xd9; n2b l]
  else if l <? 65536 then xda :: be16 l
  else xdb :: be32 l.

Definition enc_arr_hdr (l : N) : bytes :=
  if l <? 16 then [n2b (144 + l)]
  else if l <? 65536 then xdc :: be16 l
  else xdd :: be32 l.

Fixpoint mp_encode (v : mval) : bytes :=
  match v with
  | MNil => [xc0]
  | MBool false => [xc2]
  | MBool true => [xc3]
  | MInt z => enc_int z
  | MBin b => enc_bin_hdr (len b) ++ b
  | MStr b => enc_str_hdr (len b) ++ b
  | MArr l =>
    enc_arr_hdr (N.of_nat (length l)) ++
    (fix go (l : list mval) : bytes :=
       match l with [] => [] | x :: t => mp_encode x ++ go t end) l
  end.

(* ---------- generic parser ---------- *)

Inductive pres (A : Type) :=
| POk (a : A) (rest : bytes)
| PShort        (* the input ended inside (or before) the object: go-codec reports io.EOF *)
| PBad          (* a byte that starts no MessagePack object (0xc1) *)
| PUnmod.       (* map / ext / float / timestamp: outside the modelled subset *)
Arguments POk {A}. Arguments PShort {A}. Arguments PBad {A}. Arguments PUnmod {A}.

(* take exactly n bytes *)
Definition take (n : N) (bs : bytes) : option (bytes * bytes) :=
  if n <=? len bs then Some (split_at (N.to_nat n) bs) else None.

Definition take_val (k : nat) (bs : bytes) : option (N * bytes) :=
  match take (N.of_nat k) bs with
  | Some (a, r) => Some (be_val a, r)
  | None => None
  end.

Definition signed (bits : N) (u : N) : Z :=
  if u <? 2 ^ (bits - 1) then Z.of_N u else (Z.of_N u - Z.of_N (2 ^ bits))%Z.

(* the non-recursive part: either a finished value, or an array header
   announcing n elements *)
Inductive head :=
| HVal (p : pres mval)
| HArr (n : N) (r : bytes).

Definition bytes_of (n : N) (mk : bytes -> mval) (r : bytes) : head :=
  match take n r with Some (a, r') => HVal (POk (mk a) r') | None => HVal PShort end.

Definition with_len (k : nat) (r : bytes) (cont : N -> bytes -> head) : head :=
  match take_val k r with Some (n, r') => cont n r' | None => HVal PShort end.

Definition parse_head (bs : bytes) : head :=
  match bs with
  | [] => HVal PShort
  | t :: r =>
    let tn := b2n t in
    if tn <=? 127 then HVal (POk (MInt (Z.of_N tn)) r)
    else if tn <=? 143 then HVal PUnmod                                   (* fixmap *)
    else if tn <=? 159 then HArr (tn - 144) r                             (* fixarray *)
    else if tn <=? 191 then bytes_of (tn - 160) MStr r                    (* fixstr *)
    else if tn =? 192 then HVal (POk MNil r)
    else if tn =? 193 then HVal PBad
    else if tn =? 194 then HVal (POk (MBool false) r)
    else if tn =? 195 then HVal (POk (MBool true) r)
    else if tn =? 196 then with_len 1 r (fun n r' => bytes_of n MBin r')
    else if tn =? 197 then with_len 2 r (fun n r' => bytes_of n MBin r')
    else if tn =? 198 then with_len 4 r (fun n r' => bytes_of n MBin r')
    else if tn <=? 203 then HVal PUnmod                                   (* ext8-32, float32/64 *)
    else if tn =? 204 then with_len 1 r (fun n r' => HVal (POk (MInt (Z.of_N n)) r'))
    else if tn =? 205 then with_len 2 r (fun n r' => HVal (POk (MInt (Z.of_N n)) r'))
    else if tn =? 206 then with_len 4 r (fun n r' => HVal (POk (MInt (Z.of_N n)) r'))
    else if tn =? 207 then with_len 8 r (fun n r' => HVal (POk (MInt (Z.of_N n)) r'))
    else if tn =? 208 then with_len 1 r (fun n r' => HVal (POk (MInt (signed 8 n)) r'))
    else if tn =? 209 then with_len 2 r (fun n r' => HVal (POk (MInt (signed 16 n)) r'))
    else if tn =? 210 then with_len 4 r (fun n r' => HVal (POk (MInt (signed 32 n)) r'))
    else if tn =? 211 then with_len 8 r (fun n r' => HVal (POk (MInt (signed 64 n)) r'))
    else if tn <=? 216 then HVal PUnmod                                   (* fixext *)
    else if tn =? 217 then with_len 1 r (fun n r' => bytes_of n MStr r')
    else if tn =? 218 then with_len 2 r (fun n r' => bytes_of n MStr r')
    else if tn =? 219 then with_len 4 r (fun n r' => bytes_of n MStr r')
    else if tn =? 220 then with_len 2 r (fun n r' => HArr n r')
    else if tn =? 221 then with_len 4 r (fun n r' => HArr n r')
    else if tn <=? 223 then HVal PUnmod                                   (* map16/32 *)
    else HVal (POk (MInt (Z.of_N tn - 256)%Z) r)                          (* negative fixint *)
  end.

Fixpoint mp_parse (fuel : nat) (bs : bytes) : pres mval :=
  match fuel with
  | O => PUnmod
  | S f =>
    match parse_head bs with
    | HVal p => p
    | HArr n r =>
      match mp_parse_n f n r [] with
      | POk l r' => POk (MArr l) r'
      | PShort => PShort | PBad => PBad | PUnmod => PUnmod
      end
    end
  end
with mp_parse_n (fuel : nat) (n : N) (bs : bytes) (acc : list mval) : pres (list mval) :=
  match fuel with
  | O => PUnmod
  | S f =>
    if n =? 0 then POk (rev_append acc []) bs
    else
      match mp_parse f bs with
      | POk v r => mp_parse_n f (n - 1) r (v :: acc)
      | PShort => PShort | PBad => PBad | PUnmod => PUnmod
      end
  end.

(* read one object from the front of a byte string *)
Definition mp_read (bs : bytes) : pres mval := mp_parse (2 * length bs + 2) bs.

(* ---------- typed lenient views (what go-codec does when decoding into Go types) ---------- *)

Inductive dres (A : Type) :=
| DOk (a : A)
| DErr          (* go-codec reports a decode error *)
| DUnmod.       (* a leniency of go-codec this model does not reproduce *)
Arguments DOk {A}. Arguments DErr {A}. Arguments DUnmod {A}.

Definition dbind {A B} (x : dres A) (f : A -> dres B) : dres B :=
  match x with DOk a => f a | DErr => DErr | DUnmod => DUnmod end.

(* []byte: bin or str; nil gives an empty slice; an array of small ints is a go-codec leniency we do not model *)
Definition as_bytes (v : mval) : dres bytes :=
  match v with
  | MBin b | MStr b => DOk b
  | MNil => DOk []
  | MArr _ => DUnmod
  | _ => DErr
  end.

(* string: as []byte (go-codec decodes a string through DecodeBytes, which also accepts an
   array of small integers — the same leniency, not modelled) *)
Definition as_string (v : mval) : dres bytes :=
  match v with
  | MBin b | MStr b => DOk b
  | MNil => DOk []
  | MArr _ => DUnmod
  | _ => DErr
  end.

(* int: any integer form that fits int64; nil gives 0 *)
Definition as_int (v : mval) : dres Z :=
  match v with
  | MInt z => if (z <=? 9223372036854775807)%Z then DOk z else DErr
  | MNil => DOk 0%Z
  | _ => DErr
  end.

(* bool: true/false, and the single bytes 0x00/0x01; nil gives false *)
Definition as_bool (v : mval) : dres bool :=
  match v with
  | MBool b => DOk b
  | MNil => DOk false
  | MInt _ => DUnmod
  | _ => DErr
  end.

(* a slice / toarray struct: array, or nil for the zero value; a map form is not modelled *)
Definition as_array (v : mval) : dres (list mval) :=
  match v with
  | MArr l => DOk l
  | MNil => DOk []
  | _ => DErr
  end.

(* field i of a toarray struct: missing trailing elements are zero values (nil) *)
Definition field (l : list mval) (i : nat) : mval := nth i l MNil.

(* a fixed-size byte array ([32]byte): the decoded bytes are copied into a zeroed array, excess dropped *)
Definition fit (n : nat) (b : bytes) : bytes :=
  firstn n b ++ zeros (n - length b).
