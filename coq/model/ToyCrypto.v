(* ToyCrypto.v — a trivial instance of the [crypto] record, used only to show
   that [crypto_ok] is satisfiable and to evaluate non-vacuity examples inside
   Coq.  It has no security whatsoever. *)
From Coq Require Import List NArith.
From Coq.Strings Require Import Byte.
From SP Require Import Bytes Msgpack Crypto.
Import ListNotations.

Definition toy_hash (x : bytes) : bytes := fit 64 x.

Definition toy_crypto : crypto := {|
  sha512 := toy_hash;
  hmac512 := fun k x => fit 64 (x ++ k);
  sb_seal := fun _ _ m => zeros 16 ++ m;
  sb_open := fun _ _ b => if Nat.leb 16 (length b) then Some (skipn 16 b) else None;
  dh_pub := fun s => fit 32 s;
  dh_shared := fun _ _ => zeros 32;
  ed_pub := fun s => fit 32 s;
  ed_sign := fun s m => fit 64 (m ++ s);
  ed_verify := fun _ _ _ => true
|}.
