(* Bytes.v — byte strings and fixed-width big-endian integers.
   Definitions only (proofs live in proofs/). *)
From Coq Require Import List NArith Bool.
From Coq.Strings Require Import Byte.
Import ListNotations.
Open Scope N_scope.

Definition bytes := list byte.

Definition b2n (b : byte) : N := Byte.to_N b.
Definition n2b (n : N) : byte :=
  match Byte.of_N (n mod 256) with Some b => b | None => x00 end.

Definition len (l : bytes) : N := N.of_nat (length l).

Fixpoint bytes_eqb (a b : bytes) : bool :=
  match a, b with
  | [], [] => true
  | x :: a', y :: b' => Byte.eqb x y && bytes_eqb a' b'
  | _, _ => false
  end.

(* big-endian value of a byte string, accumulator form *)
Fixpoint be_val_acc (acc : N) (l : bytes) : N :=
  match l with
  | [] => acc
  | b :: t => be_val_acc (acc * 256 + b2n b) t
  end.
Definition be_val (l : bytes) : N := be_val_acc 0 l.

(* n as exactly k big-endian bytes (n mod 256^k) *)
Fixpoint be_bytes_acc (k : nat) (n : N) (acc : bytes) : bytes :=
  match k with
  | O => acc
  | S k' => be_bytes_acc k' (n / 256) (n2b n :: acc)
  end.
Definition be_bytes (k : nat) (n : N) : bytes := be_bytes_acc k n [].

Definition be16 (n : N) : bytes := be_bytes 2 n.
Definition be32 (n : N) : bytes := be_bytes 4 n.
Definition be64 (n : N) : bytes := be_bytes 8 n.

Definition zeros (k : nat) : bytes := repeat x00 k.

Fixpoint all_zero (l : bytes) : bool :=
  match l with [] => true | b :: t => Byte.eqb b x00 && all_zero t end.

(* linear split: first n elements (reversed accumulator) and the rest *)
Fixpoint split_at_acc (n : nat) (l : bytes) (acc : bytes) : bytes * bytes :=
  match n, l with
  | O, _ => (rev_append acc [], l)
  | _, [] => (rev_append acc [], [])
  | S n', b :: t => split_at_acc n' t (b :: acc)
  end.
Definition split_at (n : nat) (l : bytes) : bytes * bytes := split_at_acc n l [].

Fixpoint is_prefix (p l : bytes) : bool :=
  match p, l with
  | [], _ => true
  | x :: p', y :: l' => Byte.eqb x y && is_prefix p' l'
  | _ :: _, [] => false
  end.

(* ASCII string literal helper: bytes of a Coq string *)
From Coq Require Import String Ascii.
Fixpoint bytes_of_string (s : string) : bytes :=
  match s with
  | EmptyString => []
  | String a s' => byte_of_ascii a :: bytes_of_string s'
  end.
