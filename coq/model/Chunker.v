(* Chunker.v — the plaintext buffering discipline shared by encrypt.go,
   sign_stream.go and signcrypt_seal.go (Write / Close / xxxBlock).
   One-shot form ([plan]) and streaming state machine ([cw_write]/[cw_close]). *)
From Coq Require Import List NArith ZArith Bool.
From Coq.Strings Require Import Byte.
From SP Require Import Bytes Params.
Import ListNotations.

(* every chunk has exactly B bytes except the last, which has 1..B (0 iff the input is empty) *)
Fixpoint chunk_split (fuel : nat) (B : nat) (l : bytes) : list bytes :=
  match fuel with
  | O => [l]
  | S f =>
    if Nat.leb (length l) B then [l]
    else let (a, r) := split_at B l in a :: chunk_split f B r
  end.
Definition chunks (B : nat) (l : bytes) : list bytes := chunk_split (length l) B l.

Fixpoint mark_last (l : list bytes) : list (bytes * bool) :=
  match l with
  | [] => []
  | [x] => [(x, true)]
  | x :: t => (x, false) :: mark_last t
  end.

(* the (chunk, final) packets of a message *)
Definition plan_v2 (B : nat) (msg : bytes) : list (bytes * bool) := mark_last (chunks B msg).
Definition plan_v1 (B : nat) (msg : bytes) : list (bytes * bool) :=
  (match msg with [] => [] | _ => map (fun c => (c, false)) (chunks B msg) end) ++ [([], true)].
Definition plan (v : version) (B : nat) (msg : bytes) : list (bytes * bool) :=
  if (vmaj v =? 1)%Z then plan_v1 B msg else plan_v2 B msg.

(* ---- streaming: state = buffered plaintext ---- *)

(* the loop `for buffer.Len() > B { block(false) }` *)
Fixpoint drain (fuel : nat) (B : nat) (buf : bytes) (acc : list bytes) : list bytes * bytes :=
  match fuel with
  | O => (rev_append acc [], buf)
  | S f =>
    if Nat.leb (length buf) B then (rev_append acc [], buf)
    else let (a, r) := split_at B buf in drain f B r (a :: acc)
  end.

(* Write(p): returns the non-final blocks emitted and the new buffer *)
Definition cw_write (B : nat) (buf p : bytes) : list bytes * bytes :=
  let b := buf ++ p in drain (length b) B b [].

(* Close: the remaining packets.  buffer.Next(B) takes at most B bytes. *)
Definition cw_close (v : version) (B : nat) (buf : bytes) : list (bytes * bool) :=
  if (vmaj v =? 1)%Z then
    (match buf with [] => [] | _ => [(fst (split_at B buf), false)] end) ++ [([], true)]
  else [(fst (split_at B buf), true)].

(* a whole streaming session: Write each piece, then Close *)
Fixpoint cw_session (v : version) (B : nat) (buf : bytes) (pieces : list bytes) : list (bytes * bool) :=
  match pieces with
  | [] => cw_close v B buf
  | p :: t =>
    let (blocks, buf') := cw_write B buf p in
    map (fun c => (c, false)) blocks ++ cw_session v B buf' t
  end.
