(* Armor.v — model of /repo/frame.go, /repo/armor.go, /repo/armor62.go (denotational
   form: whole strings in, whole strings out) and /repo/classify_and_decrypt.go's
   slice/prefix classifiers.  Go's regexp calls are replaced by hand-written
   matchers; the correspondence campaign (incl. an exhaustive small-alphabet
   enumeration) ties them to the real regexps. *)
From Coq Require Import List NArith ZArith Bool.
From Coq.Strings Require Import Byte.
From SP Require Import Bytes Consts Params Msgpack Errors BaseX Encodings Packets.
Import ListNotations.
Open Scope N_scope.

(* ---------- character classes ---------- *)
Definition sp : byte := x20.
Definition dot : byte := n2b ap_Armor62Params_Punctuation.

(* the class [>\n\r\t ] of the frame-normalising regexp *)
Definition is_frame_ws (b : byte) : bool :=
  Byte.eqb b x3e || Byte.eqb b x0a || Byte.eqb b x0d || Byte.eqb b x09 || Byte.eqb b x20.

(* strings.TrimSpace on ASCII: \t \n \v \f \r and space *)
Definition is_trim_ws (b : byte) : bool :=
  Byte.eqb b x09 || Byte.eqb b x0a || Byte.eqb b x0b || Byte.eqb b x0c || Byte.eqb b x0d || Byte.eqb b x20.

Definition is_alnum (b : byte) : bool :=
  let n := b2n b in
  ((48 <=? n) && (n <=? 57)) || ((65 <=? n) && (n <=? 90)) || ((97 <=? n) && (n <=? 122)).

Definition ascii_upper (b : byte) : byte :=
  let n := b2n b in if (97 <=? n) && (n <=? 122) then n2b (n - 32) else b.

(* Encoding.IsValidByte for the armor encoding: alphabet or skip character *)
Definition valid_armor_byte (b : byte) : bool :=
  match digit_of base62 b with Some _ => true | None => is_skip base62 b end.

Fixpoint drop_while (f : byte -> bool) (l : bytes) : bytes :=
  match l with
  | [] => []
  | b :: t => if f b then drop_while f t else l
  end.

Definition trim_space (l : bytes) : bytes :=
  rev (drop_while is_trim_ws (rev (drop_while is_trim_ws l))).

(* re.ReplaceAllString(m, " ") for re = [>\n\r\t ]+ : every maximal run becomes one space *)
Fixpoint collapse_ws (l : bytes) (in_run : bool) : bytes :=
  match l with
  | [] => []
  | b :: t =>
    if is_frame_ws b then (if in_run then collapse_ws t true else sp :: collapse_ws t true)
    else b :: collapse_ws t false
  end.

Definition normalise (l : bytes) : bytes := trim_space (collapse_ws l false).

(* strings.Split(s, " ") *)
Fixpoint split_sp (l : bytes) (cur : bytes) : list bytes :=
  match l with
  | [] => [rev cur]
  | b :: t => if Byte.eqb b sp then rev cur :: split_sp t [] else split_sp t (b :: cur)
  end.
Definition words (l : bytes) : list bytes := split_sp l [].

Fixpoint join_sp (ws : list bytes) : bytes :=
  match ws with
  | [] => []
  | [w] => w
  | w :: t => w ++ sp :: join_sp t
  end.

(* ---------- frame.go ---------- *)

Definition type_string (typ : Z) : bytes :=
  if (typ =? mt_encryption)%Z then c_saltpack_EncryptionArmorString
  else if (typ =? mt_attached)%Z then c_saltpack_SignedArmorString
  else if (typ =? mt_detached)%Z then c_saltpack_DetachedSignatureArmorString
  else [].

Definition format_upper : bytes := map ascii_upper format_name.
Definition header_marker : bytes := c_saltpack_headerMarker.
Definition footer_marker : bytes := c_saltpack_footerMarker.
Definition max_frame_length : N := Z.to_N c_saltpack_maxFrameLength.
Definition max_brand_length : N := Z.to_N c_saltpack_maxBrandLength.

(* makeFrame *)
Definition make_frame (marker : bytes) (typ : Z) (brand : bytes) : bytes :=
  match type_string typ with
  | [] => []
  | sffx => join_sp ([marker] ++ (match brand with [] => [] | _ => [brand] end) ++ [format_upper; sffx])
  end.

(* parseFrame: Ok brand or ErrBadFrame *)
Definition parse_frame (m : bytes) (typ : Z) (marker : bytes) : result bytes :=
  if max_frame_length <? len m then Err ErrBadFrame
  else
    let s := normalise m in
    match type_string typ with
    | [] => Err ErrBadFrame
    | sffx =>
      let v := words s in
      let n := length v in
      if negb (Nat.eqb n 4 || Nat.eqb n 5) then Err ErrBadFrame
      else if negb (bytes_eqb (nth 0 v []) marker) then Err ErrBadFrame
      else if negb (bytes_eqb (join_sp [nth (n - 2) v []; nth (n - 1) v []]) sffx) then Err ErrBadFrame
      else if negb (bytes_eqb (nth (n - 3) v []) format_upper) then Err ErrBadFrame
      else if Nat.eqb n 5 then
        let brand := nth 1 v [] in
        if max_brand_length <? len brand then Err ErrBadFrame else Ok brand
      else Ok []
    end.

(* CheckArmor62 *)
Definition check_armor62 (hdr ftr : bytes) (typ : Z) : result bytes :=
  bind (parse_frame hdr typ header_marker) (fun b1 =>
  bind (parse_frame ftr typ footer_marker) (fun b2 =>
  if bytes_eqb b1 b2 then Ok b1 else Err ErrBadFrame)).

(* ---------- armor.go: encoding ---------- *)

Definition bytes_per_word : nat := N.to_nat ap_Armor62Params_BytesPerWord.
Definition words_per_line : N := ap_Armor62Params_WordsPerLine.

(* the body: the base-62 characters in words of 15, a space after each word and a
   newline after every 200th; the last word is followed by a separator only if it
   is a full word.  [k] = number of words emitted so far. *)
Fixpoint space_words (fuel : nat) (chars : bytes) (k : N) : bytes :=
  match fuel with
  | O => chars
  | S f =>
    let sep (k : N) : byte := if (k mod words_per_line) =? 0 then x0a else sp in
    if Nat.ltb bytes_per_word (length chars) then
      let (w, r) := split_at bytes_per_word chars in
      w ++ sep (k + 1) :: space_words f r (k + 1)
    else
      chars ++ (if Nat.eqb (length chars) bytes_per_word then [sep (k + 1)] else [])
  end.

(* armorSeal / Armor62Seal *)
Definition armor_seal (payload header footer : bytes) : bytes :=
  let chars := BaseX.encode base62 payload in
  header ++ [dot; sp] ++ space_words (S (length chars)) chars 0 ++ [dot; sp] ++ footer ++ [dot; x0a].

Definition armor62_seal (payload : bytes) (typ : Z) (brand : bytes) : bytes :=
  armor_seal payload (make_frame header_marker typ brand) (make_frame footer_marker typ brand).

(* ---------- armor.go: decoding (denotation) ---------- *)

(* bytes before the first punctuation mark, and the rest after it *)
Fixpoint split_dot_acc (l : bytes) (acc : bytes) : option (bytes * bytes) :=
  match l with
  | [] => None
  | b :: t => if Byte.eqb b dot then Some (rev_append acc [], t) else split_dot_acc t (b :: acc)
  end.
Definition split_dot (l : bytes) : option (bytes * bytes) := split_dot_acc l [].

Definition frame_read_limit : N := i_saltpack_newArmorDecoderStream_0.     (* frameLim: 8192 *)

(* ReadUntilPunctuation(lim): the sentence and the rest; overflow iff the sentence
   has lim bytes or more *)
Definition read_sentence (l : bytes) : result (bytes * bytes) :=
  match split_dot l with
  | Some (s, r) => if frame_read_limit <=? len s then Err ErrOverflow else Ok (s, r)
  | None => if frame_read_limit <=? len l then Err ErrOverflow else Err ErrUnexpectedEOF
  end.

(* toASCII *)
Definition to_ascii (l : bytes) : result bytes :=
  if forallb valid_armor_byte l then Ok (trim_space l) else Err ErrBadFrame.

(* the characters of the body that are base-62 digits *)
Definition body_digits (l : bytes) : bytes :=
  filter (fun b => match digit_of base62 b with Some _ => true | None => false end) l.

Record dearmored := mkDearmored { da_payload : bytes; da_brand : bytes; da_header : bytes; da_footer : bytes }.

(* armorOpen with checkers for message type [chk] (None: no header/frame checker, as Armor62Open).
   On failure only the fact of failure and a primary error class are modelled. *)
Definition dearmor (chk : option Z) (input : bytes) : result dearmored :=
  bind (read_sentence input) (fun hs =>
  let '(h, r1) := hs in
  bind (match chk with
        | None => Ok []
        | Some typ => bind (to_ascii h) (fun hstr => parse_frame hstr typ header_marker)
        end) (fun brand =>
  match split_dot r1 with
  | None =>
    if forallb valid_armor_byte r1 then Err ErrUnexpectedEOF else Err (ErrBxCorrupt 0)
  | Some (body, r2) =>
    if negb (forallb valid_armor_byte body) then Err (ErrBxCorrupt 0)
    else
    bind (read_sentence r2) (fun fs =>
    let '(f, r3) := fs in
    bind (match chk with
          | None => Ok brand
          | Some typ =>
            bind (to_ascii h) (fun hstr => bind (to_ascii f) (fun fstr => check_armor62 hstr fstr typ))
          end) (fun _ =>
    if negb (forallb valid_armor_byte r3) then Err ErrTrailingGarbage
    else
      match BaseX.decode base62 (body_digits body) with
      | (_, Some _) => Err ErrBxLength
      | (payload, None) =>
        bind (to_ascii h) (fun hstr => bind (to_ascii f) (fun fstr =>
        Ok (mkDearmored payload brand hstr fstr)))
      end))
  end)).

(* ---------- classify_and_decrypt.go ---------- *)

Inductive classification :=
| ClsShort                      (* ErrShortSliceOrBuffer: need more data *)
| ClsNot                        (* ErrNotASaltpackMessage *)
| ClsUnmod                      (* outside the modelled subset of go-codec *)
| Cls (typ : Z) (v : version).

Definition min_len_binary : N := Z.to_N c_saltpack_minLengthToIdentifyBinarySaltpack.

Definition known_type (t : Z) : bool :=
  (t =? mt_encryption)%Z || (t =? mt_signcryption)%Z || (t =? mt_attached)%Z || (t =? mt_detached)%Z.

(* decode one value with go-codec from a byte slice; truncation is an error *)
Definition cls_read (bs : bytes) : option (option (mval * bytes)) :=
  match mp_read bs with
  | POk v r => Some (Some (v, r))
  | PShort | PBad => Some None
  | PUnmod => None
  end.

(* IsSaltpackBinarySlice *)
Definition binary_slice (b : bytes) : classification :=
  if len b <? min_len_binary then ClsShort
  else
    let b0 := b2n (nth 0 b x00) in
    let skip := if b0 =? 196 then 2%nat else if b0 =? 197 then 3%nat else if b0 =? 198 then 5%nat else 0%nat in
    if Nat.eqb skip 0 then ClsNot
    else
      let a := b2n (nth skip b x00) in
      let askip := if (147 <=? a) && (a <=? 159) then 1%nat else if a =? 220 then 3%nat else if a =? 221 then 5%nat else 0%nat in
      if Nat.eqb askip 0 then ClsNot
      else
        match cls_read (skipn (skip + askip) b) with
        | None => ClsUnmod
        | Some None => ClsNot
        | Some (Some (fv, r1)) =>
          match as_string fv with
          | DUnmod => ClsUnmod
          | DErr => ClsNot
          | DOk fmt =>
            if negb (bytes_eqb fmt format_name) then ClsNot
            else
              match cls_read r1 with
              | None => ClsUnmod
              | Some None => ClsNot
              | Some (Some (vv, r2)) =>
                match view_version vv with
                | DUnmod => ClsUnmod
                | DErr => ClsNot
                | DOk ver =>
                  match cls_read r2 with
                  | None => ClsUnmod
                  | Some None => ClsNot
                  | Some (Some (tv, _)) =>
                    match as_int tv with
                    | DUnmod => ClsUnmod
                    | DErr => ClsNot
                    | DOk t => if known_type t then Cls t ver else ClsNot
                    end
                  end
                end
              end
          end
        end.

(* take the longest prefix of characters satisfying f *)
Fixpoint span (f : byte -> bool) (l : bytes) : bytes * bytes :=
  match l with
  | [] => ([], [])
  | b :: t => if f b then let (a, r) := span f t in (b :: a, r) else ([], l)
  end.

(* strip a literal prefix *)
Fixpoint strip_prefix (p l : bytes) : option bytes :=
  match p, l with
  | [], _ => Some l
  | x :: p', y :: l' => if Byte.eqb x y then strip_prefix p' l' else None
  | _ :: _, [] => None
  end.

(* after BEGIN and the optional brand: SALTPACK, a type label, an optional space, the period and the longest run of alphanumerics and spaces; returns (type label, body prefix) *)
Definition match_after_brand (l : bytes) : option (bytes * bytes) :=
  match strip_prefix (format_upper ++ [sp]) l with
  | None => None
  | Some r =>
    let try_type (ts : bytes) : option (bytes * bytes) :=
      match strip_prefix ts r with
      | None => None
      | Some r2 =>
        let r3 := match r2 with b :: t => if Byte.eqb b sp then t else r2 | [] => r2 end in
        match r3 with
        | b :: t => if Byte.eqb b dot then Some (ts, fst (span (fun c => is_alnum c || Byte.eqb c sp) t)) else None
        | [] => None
        end
      end in
    match try_type c_saltpack_EncryptionArmorString with
    | Some x => Some x
    | None =>
      match try_type c_saltpack_SignedArmorString with
      | Some x => Some x
      | None => try_type c_saltpack_DetachedSignatureArmorString
      end
    end
  end.

(* the header regexp: Some (brand, type label, body prefix) *)
Definition match_header (s : bytes) : option (bytes * bytes * bytes) :=
  match strip_prefix (header_marker ++ [sp]) s with
  | None => None
  | Some r =>
    let with_brand :=
      let (w, r2) := span is_alnum r in
      match w, r2 with
      | _ :: _, b :: t => if Byte.eqb b sp then
                            match match_after_brand t with Some (ty, bd) => Some (w, ty, bd) | None => None end
                          else None
      | _, _ => None
      end in
    match with_brand with
    | Some x => Some x
    | None => match match_after_brand r with Some (ty, bd) => Some ([], ty, bd) | None => None end
    end
  end.

(* at most five alphanumeric words, each optionally followed by one space *)
Fixpoint partial_words_ok (fuel : nat) (l : bytes) : bool :=
  match l with
  | [] => true
  | _ =>
    match fuel with
    | O => false
    | S f =>
      let (w, r) := span is_alnum l in
      match w with
      | [] => false
      | _ => match r with
             | [] => true
             | b :: t => if Byte.eqb b sp then partial_words_ok f t else false
             end
      end
    end
  end.

Definition has_prefix (s p : bytes) : bool := is_prefix p s.      (* strings.HasPrefix(s, p) *)

(* IsSaltpackArmoredPrefix: brand and classification *)
Definition armored_prefix (pref : bytes) : bytes * classification :=
  let s := normalise pref in
  match match_header s with
  | None =>
    if negb (partial_words_ok 5 s) then ([], ClsNot)
    else
      let strs := words s in
      match length strs with
      | 1%nat => ([], if has_prefix header_marker (nth 0 strs []) then ClsShort else ClsNot)
      | 2%nat => ([], if bytes_eqb header_marker (nth 0 strs []) then ClsShort else ClsNot)
      | _ =>
        let hwb := join_sp (nth 0 strs [] :: skipn 2 strs) in
        let hp := header_marker ++ sp :: format_upper in
        let e := hp ++ sp :: c_saltpack_EncryptionArmorString in
        let sg := hp ++ sp :: c_saltpack_SignedArmorString in
        let d := hp ++ sp :: c_saltpack_DetachedSignatureArmorString in
        ([], if has_prefix e hwb || has_prefix sg hwb || has_prefix d hwb ||
                has_prefix e s || has_prefix sg s || has_prefix d s then ClsShort else ClsNot)
      end
  | Some (brand, ty, bd) =>
    let (dec, err) := BaseX.decode base62 bd in
    if Nat.ltb (length dec) 32 then
      ([], match err with
           | None | Some InvalidEncodingLength => ClsShort
           | Some (CorruptInput _) => ClsNot
           end)
    else
      match binary_slice dec with
      | Cls t ver =>
        let want := if (t =? mt_attached)%Z then c_saltpack_SignedArmorString
                    else if (t =? mt_detached)%Z then c_saltpack_DetachedSignatureArmorString
                    else c_saltpack_EncryptionArmorString in
        if bytes_eqb ty want then (brand, Cls t ver) else ([], ClsNot)
      | other => ([], other)
      end
  end.
