(* Errors.v — the error classes the model and the harness compare (never message text). *)
From Coq Require Import NArith.

Inductive err :=
| EOF                          (* io.EOF: the clean end of a message *)
| ErrUnexpectedEOF
| ErrFailedToReadHeaderBytes
| ErrDecode                    (* any go-codec decoding error *)
| ErrBadVersion
| ErrWrongMessageType
| ErrNotASaltpackMessage       (* header format name is not "saltpack" *)
| ErrNoSenderKey
| ErrNoDecryptionKey
| ErrBadEphemeralKey
| ErrBadSenderKeySecretbox
| ErrBadBoxKey
| ErrBadSymmetricKey
| ErrBadTag (seq : N)
| ErrBadCiphertext (seq : N)
| ErrBadSignature
| ErrTrailingGarbage
| ErrUnexpectedEmptyBlock
| ErrPacketOverflow
| ErrDecryptionFailed
| ErrBadLookup
| ErrWrongNumberOfKeys
| ErrBadReceivers
| ErrRepeatedKey
| ErrInvalidParameter
| ErrRand                      (* the randomness source failed or was short *)
| ErrBadFrame
| ErrOverflow                  (* frame sentence longer than the read limit *)
| ErrBxCorrupt (off : N)       (* basex.CorruptInputError *)
| ErrBxLength                  (* basex.ErrInvalidEncodingLength *)
| ErrIO                        (* an error of the underlying reader/writer *)
| ErrPunctuated                (* the punctuated reader's internal marker, which framedDecoderStream lets escape after the footer *)
| Unmodelled                   (* input outside the modelled subset of go-codec *)
| Panic (site : N).            (* the Go code would panic here *)

Inductive result (A : Type) :=
| Ok (a : A)
| Err (e : err).
Arguments Ok {A}. Arguments Err {A}.

Definition bind {A B} (x : result A) (f : A -> result B) : result B :=
  match x with Ok a => f a | Err e => Err e end.
