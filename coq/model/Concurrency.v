(* Concurrency.v — an interleaving semantics for independent library operations.
   Each goroutine runs a sequence of atomic steps; a step reads the shared
   environment (the four basex Encoding values, Armor62Params, the frame checkers,
   the error values, the caller's keys and keyrings) and updates only its own
   thread-local state.  That steps never write the environment is the premise the
   generated inventory gen/SharedState.v and the race-detector campaign tie to /repo. *)
From Coq Require Import List.
Import ListNotations.

Section Conc.
Variables Env Local : Type.

Definition step := Env -> Local -> Local.
Definition thread := list step.

Definition run_thread (env : Env) (t : thread) (l : Local) : Local :=
  fold_left (fun l s => s env l) t l.

(* the system: every thread's remaining steps and its local state *)
Definition sys := list (thread * Local).

(* the scheduler picks thread i: it performs its next step, if it has one *)
Fixpoint sched_one (env : Env) (i : nat) (s : sys) : sys :=
  match s, i with
  | [], _ => []
  | (t, l) :: rest, O =>
    match t with
    | [] => (t, l) :: rest
    | st :: t' => (t', st env l) :: rest
    end
  | tl :: rest, S i' => tl :: sched_one env i' rest
  end.

Fixpoint run_sched (env : Env) (sch : list nat) (s : sys) : sys :=
  match sch with
  | [] => s
  | i :: sch' => run_sched env sch' (sched_one env i s)
  end.

(* what every thread ends with when all remaining steps are run *)
Definition outcomes (env : Env) (s : sys) : list Local :=
  map (fun tl => run_thread env (fst tl) (snd tl)) s.

End Conc.
