(* Encodings.v — the four shipped encodings and the armor parameters, built
   from the constants regenerated out of /repo (gen/Consts.v). *)
From Coq Require Import List NArith.
From Coq.Strings Require Import Byte.
From SP Require Import Bytes BaseX Consts.
Import ListNotations.
Open Scope N_scope.

Definition base62 : encoding :=
  mkEncoding enc_Base62StdEncoding_alphabet enc_Base62StdEncoding_ibl enc_Base62StdEncoding_skip.
Definition base62_strict : encoding :=
  mkEncoding enc_Base62StdEncodingStrict_alphabet enc_Base62StdEncodingStrict_ibl enc_Base62StdEncodingStrict_skip.
Definition base58 : encoding :=
  mkEncoding enc_Base58StdEncoding_alphabet enc_Base58StdEncoding_ibl enc_Base58StdEncoding_skip.
Definition base58_strict : encoding :=
  mkEncoding enc_Base58StdEncodingStrict_alphabet enc_Base58StdEncodingStrict_ibl enc_Base58StdEncodingStrict_skip.
