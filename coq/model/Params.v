(* Params.v — constants of the saltpack package, taken from gen/Consts.v
   (regenerated from /repo on every run). *)
From Coq Require Import List NArith ZArith.
From Coq.Strings Require Import Byte.
From SP Require Import Bytes Consts.
Import ListNotations.

Record version := mkV { vmaj : Z; vmin : Z }.
Definition version_eqb (a b : version) : bool := (vmaj a =? vmaj b)%Z && (vmin a =? vmin b)%Z.

Definition v1 : version := mkV (Z.of_N i_saltpack_Version1_0) (Z.of_N i_saltpack_Version1_1).
Definition v2 : version := mkV (Z.of_N i_saltpack_Version2_0) (Z.of_N i_saltpack_Version2_1).
Definition known_versions : list version := [v1; v2].

Definition format_name : bytes := c_saltpack_FormatName.
Definition mt_encryption : Z := c_saltpack_MessageTypeEncryption.
Definition mt_attached : Z := c_saltpack_MessageTypeAttachedSignature.
Definition mt_detached : Z := c_saltpack_MessageTypeDetachedSignature.
Definition mt_signcryption : Z := c_saltpack_MessageTypeSigncryption.

Definition enc_block_size : nat := Z.to_nat c_saltpack_encryptionBlockSize.
Definition sig_block_size : nat := Z.to_nat c_saltpack_signatureBlockSize.

Definition sig_attached_prefix : bytes := c_saltpack_signatureAttachedString.
Definition sig_detached_prefix : bytes := c_saltpack_signatureDetachedString.
Definition sig_encrypted_prefix : bytes := c_saltpack_signatureEncryptedString.
Definition signcryption_symkey_context : bytes := c_saltpack_signcryptionSymmetricKeyContext.
Definition signcryption_boxkey_id_context : bytes := c_saltpack_signcryptionBoxKeyIdentifierContext.

Definition max_receiver_count : Z := c_saltpack_maxReceiverCount.
