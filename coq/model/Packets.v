(* Packets.v — model of /repo/packets.go and of the MAC / signature input
   constructors and chunk-state checks of /repo/common.go. *)
From Coq Require Import List NArith ZArith Bool.
From Coq.Strings Require Import Byte.
From SP Require Import Bytes Consts Params Msgpack Crypto Errors Nonce.
Import ListNotations.
Open Scope N_scope.

(* ---------- wire structures ---------- *)

Definition mv_version (v : version) : mval := MArr [MInt (vmaj v); MInt (vmin v)].

(* receiverKeys: a nil ReceiverKID is encoded as nil *)
Definition mv_receiver (r : option bytes * bytes) : mval :=
  MArr [match fst r with Some kid => MBin kid | None => MNil end; MBin (snd r)].

(* EncryptionHeader / SigncryptionHeader *)
Definition mv_enc_header (v : version) (typ : Z) (eph sbox : bytes)
           (rcvs : list (option bytes * bytes)) : mval :=
  MArr [MStr format_name; mv_version v; MInt typ; MBin eph; MBin sbox; MArr (map mv_receiver rcvs)].

(* SignatureHeader *)
Definition mv_sig_header (v : version) (typ : Z) (pk nonce : bytes) : mval :=
  MArr [MStr format_name; mv_version v; MInt typ; MBin pk; MBin nonce].

(* payload chunk of a signature block: Go hands a nil slice to the encoder only
   if [chunk_nil] (see Sign.v) *)
Definition mv_chunk (chunk : bytes) (is_nil : bool) : mval :=
  if is_nil then MNil else MBin chunk.

(* signatureBlockV1 = [signature, chunk]; V2 (CodecEncodeSelf) = [final, signature, chunk] *)
Definition mv_sig_block (v : version) (sig : bytes) (chunk : mval) (final : bool) : mval :=
  if (vmaj v =? 1)%Z then MArr [MBin sig; chunk]
  else MArr [MBool final; MBin sig; chunk].

(* encryptionBlockV1 = [authenticators, ciphertext]; V2 = [final, authenticators, ciphertext] *)
Definition mv_enc_block (v : version) (auths : list bytes) (ct : bytes) (final : bool) : mval :=
  if (vmaj v =? 1)%Z then MArr [MArr (map MBin auths); MBin ct]
  else MArr [MBool final; MArr (map MBin auths); MBin ct].

(* signcryptionBlock = [ciphertext, final] *)
Definition mv_signcrypt_block (ct : bytes) (final : bool) : mval := MArr [MBin ct; MBool final].

(* ---------- typed views ---------- *)

Record header := mkHeader {
  h_format : bytes; h_version : version; h_type : Z;
  h_a : bytes;                      (* Ephemeral        | SenderPublic *)
  h_b : bytes;                      (* SenderSecretbox  | Nonce *)
  h_rcvs : list (bytes * bytes)     (* Receivers (encryption/signcryption only) *)
}.

Definition view_version (v : mval) : dres version :=
  dbind (as_array v) (fun l =>
  dbind (as_int (field l 0)) (fun maj =>
  dbind (as_int (field l 1)) (fun min => DOk (mkV maj min)))).

Definition view_receiver (v : mval) : dres (bytes * bytes) :=
  dbind (as_array v) (fun l =>
  dbind (as_bytes (field l 0)) (fun kid =>
  dbind (as_bytes (field l 1)) (fun box => DOk (kid, box)))).

Fixpoint view_list {A} (f : mval -> dres A) (l : list mval) : dres (list A) :=
  match l with
  | [] => DOk []
  | x :: t => dbind (f x) (fun a => dbind (view_list f t) (fun r => DOk (a :: r)))
  end.

Definition view_enc_header (v : mval) : dres header :=
  dbind (as_array v) (fun l =>
  dbind (as_string (field l 0)) (fun fmt =>
  dbind (view_version (field l 1)) (fun ver =>
  dbind (as_int (field l 2)) (fun typ =>
  dbind (as_bytes (field l 3)) (fun eph =>
  dbind (as_bytes (field l 4)) (fun sbox =>
  dbind (as_array (field l 5)) (fun rl =>
  dbind (view_list view_receiver rl) (fun rcvs =>
  DOk (mkHeader fmt ver typ eph sbox rcvs))))))))).

Definition view_sig_header (v : mval) : dres header :=
  dbind (as_array v) (fun l =>
  dbind (as_string (field l 0)) (fun fmt =>
  dbind (view_version (field l 1)) (fun ver =>
  dbind (as_int (field l 2)) (fun typ =>
  dbind (as_bytes (field l 3)) (fun pk =>
  dbind (as_bytes (field l 4)) (fun nonce =>
  DOk (mkHeader fmt ver typ pk nonce []))))))).

(* signature block: (signature, chunk, final) *)
Definition view_sig_block (v : version) (m : mval) : dres (bytes * bytes * bool) :=
  dbind (as_array m) (fun l =>
  if (vmaj v =? 1)%Z then
    dbind (as_bytes (field l 0)) (fun sig =>
    dbind (as_bytes (field l 1)) (fun chunk =>
    DOk (sig, chunk, match chunk with [] => true | _ => false end)))
  else
    dbind (as_bool (field l 0)) (fun final =>
    dbind (as_bytes (field l 1)) (fun sig =>
    dbind (as_bytes (field l 2)) (fun chunk => DOk (sig, chunk, final))))).

(* encryption block: (authenticators fitted to 32 bytes, ciphertext, final) *)
Definition view_auth (m : mval) : dres bytes := dbind (as_bytes m) (fun b => DOk (fit 32 b)).

Definition view_enc_block (v : version) (m : mval) : dres (list bytes * bytes * bool) :=
  dbind (as_array m) (fun l =>
  if (vmaj v =? 1)%Z then
    dbind (as_array (field l 0)) (fun al =>
    dbind (view_list view_auth al) (fun auths =>
    dbind (as_bytes (field l 1)) (fun ct =>
    DOk (auths, ct, Nat.eqb (length ct) 16))))
  else
    dbind (as_bool (field l 0)) (fun final =>
    dbind (as_array (field l 1)) (fun al =>
    dbind (view_list view_auth al) (fun auths =>
    dbind (as_bytes (field l 2)) (fun ct => DOk (auths, ct, final)))))).

Definition view_signcrypt_block (m : mval) : dres (bytes * bool) :=
  dbind (as_array m) (fun l =>
  dbind (as_bytes (field l 0)) (fun ct =>
  dbind (as_bool (field l 1)) (fun final => DOk (ct, final)))).

Definition of_dres {A} (d : dres A) : result A :=
  match d with DOk a => Ok a | DErr => Err ErrDecode | DUnmod => Err Unmodelled end.

(* ---------- common.go ---------- *)

Section C.
Variable c : crypto.

Definition final_byte (final : bool) : bytes := [if final then x01 else x00].

(* attachedSignatureInput; None = panic(ErrBadVersion) *)
Definition attached_sig_input (v : version) (hh chunk : bytes) (seqno : N) (final : bool) : option bytes :=
  if (vmaj v =? 1)%Z then
    Some (sig_attached_prefix ++ sha512 c (hh ++ be64 seqno ++ chunk))
  else if (vmaj v =? 2)%Z then
    Some (sig_attached_prefix ++ sha512 c (hh ++ be64 seqno ++ final_byte final ++ chunk))
  else None.

Definition detached_sig_input_from_hash (h : bytes) : bytes := sig_detached_prefix ++ h.
Definition detached_sig_input (hh msg : bytes) : bytes :=
  detached_sig_input_from_hash (sha512 c (hh ++ msg)).

(* computePayloadHash *)
Definition payload_hash (v : version) (hh nonce ct : bytes) (final : bool) : option bytes :=
  if (vmaj v =? 1)%Z then Some (sha512 c (hh ++ nonce ++ ct))
  else if (vmaj v =? 2)%Z then Some (sha512 c (hh ++ nonce ++ final_byte final ++ ct))
  else None.

(* computePayloadAuthenticator: first 32 bytes of HMAC-SHA512 *)
Definition payload_authenticator (mac_key ph : bytes) : bytes := firstn 32 (hmac512 c mac_key ph).

(* computeMACKeySingle: bytes 16..48 of box(32 zero bytes) *)
Definition mac_key_single (sk pk nonce : bytes) : bytes :=
  firstn 32 (skipn 16 (box_seal c sk pk nonce (zeros 32))).

Definition sum512_truncate256 (x : bytes) : bytes := firstn 32 (sha512 c x).

(* computeSigncryptionSignatureInput *)
Definition signcrypt_sig_input (hh nonce : bytes) (final : bool) (chunk : bytes) : bytes :=
  sig_encrypted_prefix ++ hh ++ nonce ++ final_byte final ++ sha512 c chunk.

End C.

(* checkChunkState: Ok, an error, or a panic *)
Definition check_chunk_state (v : version) (chunk_len : nat) (block_index : N) (final : bool) : result unit :=
  if (vmaj v =? 1)%Z then
    if Bool.eqb (Nat.eqb chunk_len 0) final then Ok tt else Err (Panic 1)
  else if (vmaj v =? 2)%Z then
    if Nat.eqb chunk_len 0 && (negb (block_index =? 0) || negb final) then Err ErrUnexpectedEmptyBlock
    else Ok tt
  else Err (Panic 2).

(* encryptionBlockNumber.check *)
Definition block_number_ok (n : N) : bool := n <? 18446744073709551615.

(* CheckKnownMajorVersion and SingleVersionValidator *)
Inductive validator := AnyKnownMajor | Single (v : version).
Definition validate_version (vd : validator) (v : version) : bool :=
  match vd with
  | AnyKnownMajor => existsb (fun k => (vmaj k =? vmaj v)%Z) known_versions
  | Single d => version_eqb v d
  end.
(* checkKnownVersion (senders) *)
Definition known_version (v : version) : bool := existsb (version_eqb v) known_versions.
