(* Extract.v — extraction of the executable model to OCaml.
   ExtrOcamlBasic only (bool, option, unit, list, prod, sumbool, sumor mapped to
   OCaml's; andb/orb/negb/fst/snd inlined). N, Z, positive, nat and byte stay
   the extracted inductive types. No Extract Constant. Run coqc from the
   directory that should receive model.ml (the runner directory). *)
From Coq Require Import Extraction ExtrOcamlBasic.
From SP Require Import Encodings Entry.
Extraction Language OCaml.
Extraction "model.ml"
  base62 base62_strict base58 base58_strict
  m_byte_to_N
  m_bx_encode m_bx_decode m_bx_encoded_len m_bx_decoded_len m_bx_valid_len m_bx_obl
  m_uint32n m_shuffle_N m_fisher_yates_N
  m_sign_attached_stream m_sign_detached m_verify_stream m_verify_all m_verify_detached m_mp_read m_mp_encode
  m_seal_stream m_open_stream m_signcrypt_seal_stream m_signcrypt_open_stream
  m_armor62_seal m_dearmor m_check_armor62 m_make_frame m_binary_slice m_armored_prefix m_header_marker m_footer_marker
  m_pr_run m_pr_init m_pr_until m_cr_run m_armor_stream m_bxe_session m_bxd_trace m_ad_trace
  m_open_events m_sc_open_events m_sign_attached_events m_sign_detached_events.
