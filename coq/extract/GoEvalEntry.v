(* GoEvalEntry.v — the evaluator of the Go embedding (model/GoLang.v) applied to the function bodies translated from
   /repo on this run (gen/GoAst.v), with exactly the extern tables the source-tie theorems of proofs/GoAstProofs.v and
   GoAstProofs2.v use.  Extracted into gorunner/gomodel.ml; the harness runs it on the same arguments as the real Go
   functions (hook VerifPure and the exported functions) and compares the results: a differential check of the
   TRANSLATOR and of the GO SEMANTICS given in GoLang.v, which are otherwise trusted. *)
From Coq Require Import List String ZArith NArith.
From SP Require Import Bytes Params Crypto Rand GoLang GoAst GoAstProofs GoAstProofs2.
Import ListNotations.
Local Open Scope string_scope.

Definition g_eval (c : crypto) (name : string) (args : list gval) : outcome :=
  let prims := GoAstProofs2.ext_prims c in
  let model := GoAstProofs2.ext_model c in
  if String.eqb name "checkChunkState" then run_func no_ext f_saltpack_checkChunkState args
  else if String.eqb name "encryptionBlockNumber.check" then run_func no_ext f_saltpack_encryptionBlockNumber_check args
  else if String.eqb name "checkKnownVersion" then run_func ext_versions f_saltpack_checkKnownVersion args
  else if String.eqb name "CheckKnownMajorVersion" then run_func ext_versions f_saltpack_CheckKnownMajorVersion args
  else if String.eqb name "IsSaltpackBinarySlice" then run_func ext_decode f_saltpack_IsSaltpackBinarySlice args
  else if String.eqb name "csprngUint32n" then run_func ext_rand f_saltpack_csprngUint32n args
  else if String.eqb name "attachedSignatureInput" then run_func prims f_saltpack_attachedSignatureInput args
  else if String.eqb name "detachedSignatureInputFromHash" then run_func prims f_saltpack_detachedSignatureInputFromHash args
  else if String.eqb name "detachedSignatureInput" then run_func model f_saltpack_detachedSignatureInput args
  else if String.eqb name "computePayloadAuthenticator" then run_func prims f_saltpack_computePayloadAuthenticator args
  else if String.eqb name "computePayloadHash" then run_func prims f_saltpack_computePayloadHash args
  else if String.eqb name "computeSigncryptionSignatureInput" then run_func prims f_saltpack_computeSigncryptionSignatureInput args
  else if String.eqb name "nonceForSenderKeySecretBox" then run_func prims f_saltpack_nonceForSenderKeySecretBox args
  else if String.eqb name "nonceForPayloadKeyBoxV2" then run_func prims f_saltpack_nonceForPayloadKeyBoxV2 args
  else if String.eqb name "nonceForPayloadKeyBox" then run_func model f_saltpack_nonceForPayloadKeyBox args
  else if String.eqb name "nonceForDerivedSharedKey" then run_func prims f_saltpack_nonceForDerivedSharedKey args
  else if String.eqb name "nonceForMACKeyBoxV1" then run_func prims f_saltpack_nonceForMACKeyBoxV1 args
  else if String.eqb name "nonceForMACKeyBoxV2" then run_func prims f_saltpack_nonceForMACKeyBoxV2 args
  else if String.eqb name "nonceForChunkSecretBox" then run_func prims f_saltpack_nonceForChunkSecretBox args
  else if String.eqb name "nonceForChunkSigncryption" then run_func prims f_saltpack_nonceForChunkSigncryption args
  else OStuck "unknown function".

Definition g_byte_to_N := Byte.to_N.
