(* ExtractGo.v — extraction of the Go-embedding evaluator for the semantics/translator differential check.
   ExtrOcamlBasic only, no Extract Constant.  Run coqc from the directory that should receive gomodel.ml. *)
From Coq Require Import Extraction ExtrOcamlBasic.
From SP Require Import GoEvalEntry.
Extraction Language OCaml.
Extraction "gomodel.ml" g_eval g_byte_to_N.
