(* GENERATED from /repo by harness/cmd/gen (goast.go) — do not edit.
   The bodies of the listed functions as terms of the deep embedding of model/GoLang.v. *)
From Coq Require Import List String ZArith.
From SP Require Import GoLang.
Import ListNotations.
Local Open Scope string_scope.
Local Open Scope Z_scope.

(* saltpack.CheckArmor62Frame, armor62.go *)
Definition f_saltpack_CheckArmor62Frame : gfunc := mkFunc "saltpack.CheckArmor62Frame" ["frame"; "typ"] [("brand", "string"); ("err", "error")]
     [SVar "hdr" "string";
      SVar "ftr" "string";
      SIf [SAssign ["hdr"; "err"] [(ECall "Frame.GetHeader" [(EVar "frame")])]] (EBin ONe "bool" (EVar "err") ENil)
      [SReturn [(EStr ""); (EVar "err")]]
      [];
      SIf [SAssign ["ftr"; "err"] [(ECall "Frame.GetFooter" [(EVar "frame")])]] (EBin ONe "bool" (EVar "err") ENil)
      [SReturn [(EStr ""); (EVar "err")]]
      [];
      SAssign ["r'0"; "r'1"] [(ECall "CheckArmor62" [(EVar "hdr"); (EVar "ftr"); (EVar "typ")])];
      SReturn [(EVar "r'0"); (EVar "r'1")]].

(* saltpack.CheckArmor62, armor62.go *)
Definition f_saltpack_CheckArmor62 : gfunc := mkFunc "saltpack.CheckArmor62" ["hdr"; "ftr"; "typ"] [("brand", "string"); ("err", "error")]
     [SAssign ["brand"; "err"] [(ECall "parseFrame" [(EVar "hdr"); (EVar "typ"); (EStr "BEGIN")])];
      SIf [] (EBin ONe "bool" (EVar "err") ENil)
      [SReturn [(EStr ""); (EVar "err")]]
      [];
      SVar "b2" "string";
      SAssign ["b2"; "err"] [(ECall "parseFrame" [(EVar "ftr"); (EVar "typ"); (EStr "END")])];
      SIf [] (EBin ONe "bool" (EVar "err") ENil)
      [SReturn [(EStr ""); (EVar "err")]]
      [];
      SIf [] (EBin ONe "bool" (EVar "b2") (EVar "brand"))
      [SReturn [(EStr ""); (ECall "makeErrBadFrame" [(EStr "brand mismatch: %q != %q"); (EVar "brand"); (EVar "b2")])]]
      [];
      SReturn [(EVar "brand"); ENil]].

(* saltpack.IsSaltpackArmoredPrefix, classify_and_decrypt.go *)
Definition f_saltpack_IsSaltpackArmoredPrefix : gfunc := mkFunc "saltpack.IsSaltpackArmoredPrefix" ["pref"] [("brand", "string"); ("messageType", "int"); ("ver", "Version"); ("err", "error")]
     [SAssign ["re"] [(ECall "regexp.MustCompile" [(EBytesLit [91; 62; 10; 13; 9; 32; 93; 43])])];
      SAssign ["s"] [(ECall "strings.TrimSpace" [(ECall "Regexp.ReplaceAllString" [(EVar "re"); (EVar "pref"); (EStr " ")])])];
      SAssign ["headerRegExpSt"] [(EStr "^BEGIN (?:([a-zA-Z0-9]+) )?SALTPACK (ENCRYPTED MESSAGE|SIGNED MESSAGE|DETACHED SIGNATURE) ?\.([a-zA-Z0-9 ]*)")];
      SAssign ["headerRegExp"] [(ECall "regexp.MustCompile" [(EVar "headerRegExpSt")])];
      SAssign ["m"] [(ECall "Regexp.FindStringSubmatch" [(EVar "headerRegExp"); (EVar "s")])];
      SIf [] (EBin OEq "bool" (ELen (EVar "m")) (EInt (0)))
      [SIf [] (ENot (ECall "Regexp.MatchString" [(ECall "regexp.MustCompile" [(EStr "^([a-zA-Z0-9]+ ?){0,5}$")]); (EVar "s")]))
      [SReturn [(EStr ""); (EInt (-1)); (ELit "Version" []); (EErrVar "ErrNotASaltpackMessage")]]
      [];
      SAssign ["strs"] [(ECall "strings.Split" [(EVar "s"); (EStr " ")])];
      SSwitch [] (Some (ELen (EVar "strs")))
      [([(EInt (1))], [SIf [] (ECall "strings.HasPrefix" [(EStr "BEGIN"); (EIdx (EVar "strs") (EInt (0)))])
      [SReturn [(EStr ""); (EInt (-1)); (ELit "Version" []); (EErrVar "ErrShortSliceOrBuffer")]]
      [];
      SReturn [(EStr ""); (EInt (-1)); (ELit "Version" []); (EErrVar "ErrNotASaltpackMessage")]]);
       ([(EInt (2))], [SIf [] (EBin OEq "bool" (EStr "BEGIN") (EIdx (EVar "strs") (EInt (0))))
      [SReturn [(EStr ""); (EInt (-1)); (ELit "Version" []); (EErrVar "ErrShortSliceOrBuffer")]]
      [];
      SReturn [(EStr ""); (EInt (-1)); (ELit "Version" []); (EErrVar "ErrNotASaltpackMessage")]]);
       ([(EInt (3)); (EInt (4)); (EInt (5))], [])]
      (Some [SPanic (EStr "panic")]);
      SAssign ["headerWithoutBrand"] [(ECall "strings.Join" [(ECall "append..." [(ELit "[]string" [("0", (EIdx (EVar "strs") (EInt (0))))]); (ESlice (EVar "strs") (Some (EInt (2))) None)]); (EStr " ")])];
      SAssign ["headerPrefix"] [(ECall "fmt.Sprintf" [(EStr "%s %s"); (EStr "BEGIN"); (ECall "strings.ToUpper" [(EStr "saltpack")])])];
      SAssign ["encryptionPrefix"] [(ECall "fmt.Sprintf" [(EStr "%s %s"); (EVar "headerPrefix"); (EStr "ENCRYPTED MESSAGE")])];
      SAssign ["signedPrefix"] [(ECall "fmt.Sprintf" [(EStr "%s %s"); (EVar "headerPrefix"); (EStr "SIGNED MESSAGE")])];
      SAssign ["detachedSigPrefix"] [(ECall "fmt.Sprintf" [(EStr "%s %s"); (EVar "headerPrefix"); (EStr "DETACHED SIGNATURE")])];
      SIf [] (EBin OOr "bool" (EBin OOr "bool" (EBin OOr "bool" (EBin OOr "bool" (EBin OOr "bool" (ECall "strings.HasPrefix" [(EVar "encryptionPrefix"); (EVar "headerWithoutBrand")]) (ECall "strings.HasPrefix" [(EVar "signedPrefix"); (EVar "headerWithoutBrand")])) (ECall "strings.HasPrefix" [(EVar "detachedSigPrefix"); (EVar "headerWithoutBrand")])) (ECall "strings.HasPrefix" [(EVar "encryptionPrefix"); (EVar "s")])) (ECall "strings.HasPrefix" [(EVar "signedPrefix"); (EVar "s")])) (ECall "strings.HasPrefix" [(EVar "detachedSigPrefix"); (EVar "s")]))
      [SReturn [(EStr ""); (EInt (-1)); (ELit "Version" []); (EErrVar "ErrShortSliceOrBuffer")]]
      [];
      SReturn [(EStr ""); (EInt (-1)); (ELit "Version" []); (EErrVar "ErrNotASaltpackMessage")]]
      [];
      SAssign ["brand"] [(EIdx (EVar "m") (EInt (1)))];
      SAssign ["headerArmorType"] [(EIdx (EVar "m") (EInt (2)))];
      SAssign ["dec"; "err"] [(ECall "Encoding.DecodeString" [(EPkg "basex.Base62StdEncoding"); (EIdx (EVar "m") (EInt (3)))])];
      SIf [] (EBin OLt "bool" (ELen (EVar "dec")) (EInt (32)))
      [SIf [] (EBin OOr "bool" (EBin OEq "bool" (EVar "err") (EErrVar "basex.ErrInvalidEncodingLength")) (EBin OEq "bool" (EVar "err") ENil))
      [SReturn [(EStr ""); (EInt (-1)); (EVar "ver"); (EErrVar "ErrShortSliceOrBuffer")]]
      [];
      SReturn [(EStr ""); (EInt (-1)); (EVar "ver"); (EErrVar "ErrNotASaltpackMessage")]]
      [];
      SAssign ["messageType"; "ver"; "err"] [(ECall "IsSaltpackBinarySlice" [(EVar "dec")])];
      SIf [] (EBin ONe "bool" (EVar "err") ENil)
      [SReturn [(EStr ""); (EInt (-1)); (EVar "ver"); (EVar "err")]]
      [];
      SIf [] (EBin OOr "bool" (EBin OOr "bool" (EBin OOr "bool" (EBin OAnd "bool" (EBin OEq "bool" (EVar "messageType") (EInt (3))) (EBin ONe "bool" (EVar "headerArmorType") (EStr "ENCRYPTED MESSAGE"))) (EBin OAnd "bool" (EBin OEq "bool" (EVar "messageType") (EInt (0))) (EBin ONe "bool" (EVar "headerArmorType") (EStr "ENCRYPTED MESSAGE")))) (EBin OAnd "bool" (EBin OEq "bool" (EVar "messageType") (EInt (1))) (EBin ONe "bool" (EVar "headerArmorType") (EStr "SIGNED MESSAGE")))) (EBin OAnd "bool" (EBin OEq "bool" (EVar "messageType") (EInt (2))) (EBin ONe "bool" (EVar "headerArmorType") (EStr "DETACHED SIGNATURE"))))
      [SReturn [(EStr ""); (EInt (-1)); (EVar "ver"); (EErrVar "ErrNotASaltpackMessage")]]
      [];
      SReturn [(EVar "brand"); (EVar "messageType"); (EVar "ver"); ENil]].

(* saltpack.pop, frame.go *)
Definition f_saltpack_pop : gfunc := mkFunc "saltpack.pop" ["v"; "n"] [("ret", "[]string")]
     [SAssign ["ret"] [(ESlice (EVar "v") (Some (EBin OSub "int" (ELen (EVar "v")) (EVar "n"))) None)];
      SAssignL [(LVar "v")] [(ESlice (EVar "v") (Some (EInt (0))) (Some (EBin OSub "int" (ELen (EVar "v")) (EVar "n"))))];
      SReturn [(EVar "ret")]].

(* saltpack.shift, frame.go *)
Definition f_saltpack_shift : gfunc := mkFunc "saltpack.shift" ["v"; "n"] [("ret", "[]string")]
     [SAssign ["ret"] [(ESlice (EVar "v") (Some (EInt (0))) (Some (EVar "n")))];
      SAssignL [(LVar "v")] [(ESlice (EVar "v") (Some (EVar "n")) None)];
      SReturn [(EVar "ret")]].

(* saltpack.makeFrame, frame.go *)
Definition f_saltpack_makeFrame : gfunc := mkFunc "saltpack.makeFrame" ["which"; "typ"; "brand"] []
     [SAssign ["sffx"] [(ECall "getStringForType" [(EVar "typ")])];
      SIf [] (EBin OEq "bool" (ELen (EVar "sffx")) (EInt (0)))
      [SReturn [(EVar "sffx")]]
      [];
      SAssign ["words"] [(ELit "[]string" [("0", (EConv "string" (EVar "which")))])];
      SIf [] (EBin OGt "bool" (ELen (EVar "brand")) (EInt (0)))
      [SAssign ["words"] [(ECall "append" [(EVar "words"); (EVar "brand")])]]
      [];
      SAssign ["words"] [(ECall "append" [(EVar "words"); (ECall "strings.ToUpper" [(EStr "saltpack")])])];
      SAssign ["words"] [(ECall "append" [(EVar "words"); (EVar "sffx")])];
      SReturn [(ECall "strings.Join" [(EVar "words"); (EStr " ")])]].

(* saltpack.MakeArmorHeader, frame.go *)
Definition f_saltpack_MakeArmorHeader : gfunc := mkFunc "saltpack.MakeArmorHeader" ["typ"; "brand"] []
     [SReturn [(ECall "makeFrame" [(EStr "BEGIN"); (EVar "typ"); (EVar "brand")])]].

(* saltpack.MakeArmorFooter, frame.go *)
Definition f_saltpack_MakeArmorFooter : gfunc := mkFunc "saltpack.MakeArmorFooter" ["typ"; "brand"] []
     [SReturn [(ECall "makeFrame" [(EStr "END"); (EVar "typ"); (EVar "brand")])]].

(* saltpack.getStringForType, frame.go *)
Definition f_saltpack_getStringForType : gfunc := mkFunc "saltpack.getStringForType" ["typ"] []
     [SSwitch [] (Some (EVar "typ"))
      [([(EInt (0))], [SReturn [(EStr "ENCRYPTED MESSAGE")]]);
       ([(EInt (1))], [SReturn [(EStr "SIGNED MESSAGE")]]);
       ([(EInt (2))], [SReturn [(EStr "DETACHED SIGNATURE")]])]
      (Some [SReturn [(EStr "")]])].

(* saltpack.parseFrame, frame.go *)
Definition f_saltpack_parseFrame : gfunc := mkFunc "saltpack.parseFrame" ["m"; "typ"; "hof"] [("brand", "string"); ("err", "error")]
     [SIf [] (EBin OGt "bool" (ELen (EVar "m")) (EInt (512)))
      [SAssign ["err"] [(ECall "makeErrBadFrame" [(EStr "Frame is too long")])];
      SReturn [(EVar "brand"); (EVar "err")]]
      [];
      SAssign ["re"] [(ECall "regexp.MustCompile" [(EBytesLit [91; 62; 10; 13; 9; 32; 93; 43])])];
      SAssign ["s"] [(ECall "strings.TrimSpace" [(ECall "Regexp.ReplaceAllString" [(EVar "re"); (EVar "m"); (EStr " ")])])];
      SAssign ["sffx"] [(ECall "getStringForType" [(EVar "typ")])];
      SIf [] (EBin OEq "bool" (ELen (EVar "sffx")) (EInt (0)))
      [SAssign ["err"] [(ECall "makeErrBadFrame" [(EStr "Message type %v not found"); (EVar "typ")])];
      SReturn [(EVar "brand"); (EVar "err")]]
      [];
      SAssign ["v"] [(ECall "strings.Split" [(EVar "s"); (EStr " ")])];
      SIf [] (EBin OAnd "bool" (EBin ONe "bool" (ELen (EVar "v")) (EInt (4))) (EBin ONe "bool" (ELen (EVar "v")) (EInt (5))))
      [SAssign ["err"] [(ECall "makeErrBadFrame" [(EStr "wrong number of words (%d)"); (ELen (EVar "v"))])];
      SReturn [(EVar "brand"); (EVar "err")]]
      [];
      SAssign ["front"] [(ECall "shift" [(EAddr "v"); (EInt (1))])];
      SIf [] (EBin ONe "bool" (EIdx (EVar "front") (EInt (0))) (EConv "string" (EVar "hof")))
      [SAssign ["err"] [(ECall "makeErrBadFrame" [(EStr "Bad prefix: %s (wanted %s)"); (EIdx (EVar "front") (EInt (0))); (EConv "string" (EVar "hof"))])];
      SReturn [(EVar "brand"); (EVar "err")]]
      [];
      SAssign ["expected"] [(ECall "getStringForType" [(EVar "typ")])];
      SAssign ["tmp"] [(ECall "pop" [(EAddr "v"); (EInt (2))])];
      SAssign ["received"] [(ECall "strings.Join" [(EVar "tmp"); (EStr " ")])];
      SIf [] (EBin ONe "bool" (EVar "received") (EVar "expected"))
      [SAssign ["err"] [(ECall "makeErrBadFrame" [(EStr "wanted %q but got %q"); (EVar "expected"); (EVar "received")])];
      SReturn [(EVar "brand"); (EVar "err")]]
      [];
      SAssign ["spfn"] [(ECall "pop" [(EAddr "v"); (EInt (1))])];
      SIf [] (EBin ONe "bool" (EIdx (EVar "spfn") (EInt (0))) (ECall "strings.ToUpper" [(EStr "saltpack")]))
      [SAssign ["err"] [(ECall "makeErrBadFrame" [(EStr "bad format name (%s)"); (EIdx (EVar "spfn") (EInt (0)))])];
      SReturn [(EVar "brand"); (EVar "err")]]
      [];
      SIf [] (EBin OGt "bool" (ELen (EVar "v")) (EInt (0)))
      [SAssign ["brand"] [(EIdx (EVar "v") (EInt (0)))];
      SIf [] (EBin OGt "bool" (ELen (EVar "brand")) (EInt (128)))
      [SAssign ["err"] [(ECall "makeErrBadFrame" [(EStr "Brand is too long")])];
      SReturn [(EVar "brand"); (EVar "err")]]
      []]
      [];
      SReturn [(EVar "brand"); (EVar "err")]].

