(* GENERATED from /repo by harness/cmd/gen — do not edit. *)
From Coq Require Import List String.
Import ListNotations.
Open Scope string_scope.

Definition layout_EncryptionHeader : list string := ["FormatName"; "Version"; "Type"; "Ephemeral"; "SenderSecretbox"; "Receivers"].
Definition layout_SignatureHeader : list string := ["FormatName"; "Version"; "Type"; "SenderPublic"; "Nonce"].
Definition layout_Version : list string := ["Major"; "Minor"].
Definition layout_encryptionBlockV1 : list string := ["HashAuthenticators"; "PayloadCiphertext"].
Definition layout_encryptionBlockV2 : list string := ["<encryptionBlockV1>"; "IsFinal"].
Definition layout_receiverKeys : list string := ["ReceiverKID"; "PayloadKeyBox"].
Definition layout_signatureBlockV1 : list string := ["Signature"; "PayloadChunk"].
Definition layout_signatureBlockV2 : list string := ["<signatureBlockV1>"; "IsFinal"].
Definition layout_signcryptionBlock : list string := ["PayloadCiphertext"; "IsFinal"].
Definition selfer_encryptionBlockV2_CodecDecodeSelf : list string := ["IsFinal"; "HashAuthenticators"; "PayloadCiphertext"].
Definition selfer_encryptionBlockV2_CodecEncodeSelf : list string := ["IsFinal"; "HashAuthenticators"; "PayloadCiphertext"].
Definition selfer_signatureBlockV2_CodecDecodeSelf : list string := ["IsFinal"; "Signature"; "PayloadChunk"].
Definition selfer_signatureBlockV2_CodecEncodeSelf : list string := ["IsFinal"; "Signature"; "PayloadChunk"].
Definition toarray_EncryptionHeader : bool := true.
Definition toarray_SignatureHeader : bool := true.
Definition toarray_Version : bool := true.
Definition toarray_encryptionBlockV1 : bool := true.
Definition toarray_encryptionBlockV2 : bool := false.
Definition toarray_receiverKeys : bool := true.
Definition toarray_signatureBlockV1 : bool := true.
Definition toarray_signatureBlockV2 : bool := false.
Definition toarray_signcryptionBlock : bool := true.
